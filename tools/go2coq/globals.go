package main

import (
	"fmt"
	"go/ast"
	"go/token"
	"path/filepath"
	"sort"
	"strings"
)

func init() { register("Globals", genGlobals) }

// genGlobals lists every package-level variable of the three library packages with the functions
// that write it (assignment to the identifier, to one of its fields / elements, ++/--, or taking its
// address), so that a new piece of process-wide mutable state shows up as a new row.
func genGlobals(repo string) (string, error) {
	globalsRepo = repo
	var b strings.Builder
	b.WriteString("From Coq Require Import List String Bool.\nImport ListNotations.\nOpen Scope string_scope.\n\n")
	b.WriteString("(* (package, variable, initialiser kind, functions that write it) *)\nDefinition globals : list (string * string * string * list string) := [\n")
	var rows []string
	for _, pk := range []string{"document", "style", "markdown"} {
		p, err := loadPkg(filepath.Join(repo, "pkg", pk))
		if err != nil {
			return "", err
		}
		type gv struct{ name, init string }
		var vars []gv
		tables := map[string]bool{}      // literal tables of plain values (no pointers, slices, maps or functions inside)
		valueTables := map[string]bool{} // those that are struct values (copied wherever they are used)
		for _, fn := range p.sortedFiles() {
			for _, d := range p.files[fn].Decls {
				gd, ok := d.(*ast.GenDecl)
				if !ok || gd.Tok != token.VAR {
					continue
				}
				for _, s := range gd.Specs {
					vs := s.(*ast.ValueSpec)
					for i, n := range vs.Names {
						init := "zero"
						if i < len(vs.Values) {
							switch v := vs.Values[i].(type) {
							case *ast.CallExpr:
								init = "call:" + callName(v)
								// []byte("...") is a table of bytes written as a conversion
								if at, ok := v.Fun.(*ast.ArrayType); ok && at.Len == nil && len(v.Args) == 1 {
									if el, ok := at.Elt.(*ast.Ident); ok && (el.Name == "byte" || el.Name == "rune") {
										if bl, ok := v.Args[0].(*ast.BasicLit); ok && bl.Kind == token.STRING {
											init = "literal"
											tables[n.Name] = true
										}
									}
								}
								// a constructor of the same package is classified by what it returns
								if id, ok := v.Fun.(*ast.Ident); ok {
									for _, fd := range p.allFuncs() {
										if fd.Recv == nil && fd.Name.Name == id.Name && fd.Type.Results != nil && len(fd.Type.Results.List) == 1 {
											init = "returns:" + exprString(fd.Type.Results.List[0].Type)
										}
									}
								}
							case *ast.CompositeLit:
								init = "literal"
								if flatTable(p, v) {
									tables[n.Name] = true
									if _, isValue := v.Type.(*ast.Ident); isValue {
										valueTables[n.Name] = true
									}
								}
							case *ast.UnaryExpr:
								init = "address"
							case *ast.BasicLit:
								init = "constant"
							default:
								init = "expr"
							}
						}
						vars = append(vars, gv{n.Name, init})
					}
				}
			}
		}
		sort.Slice(vars, func(i, j int) bool { return vars[i].name < vars[j].name })
		isGlobal := map[string]bool{}
		for _, v := range vars {
			isGlobal[v.name] = true
		}
		writers := map[string]map[string]bool{}
		root := func(e ast.Expr) string {
			for {
				switch x := e.(type) {
				case *ast.Ident:
					return x.Name
				case *ast.SelectorExpr:
					e = x.X
				case *ast.IndexExpr:
					e = x.X
				case *ast.StarExpr:
					e = x.X
				case *ast.ParenExpr:
					e = x.X
				default:
					return ""
				}
			}
		}
		for _, fd := range p.allFuncs() {
			if fd.Body == nil {
				continue
			}
			// names shadowed by parameters / locals are not tracked precisely: a local named like a
			// global makes the row conservative (reported as written), which fails closed
			note := func(name string) {
				if isGlobal[name] {
					if writers[name] == nil {
						writers[name] = map[string]bool{}
					}
					fn := fd.Name.Name
					if r := recvName(fd); r != "" {
						fn = r + "." + fn
					}
					writers[name][fn] = true
				}
			}
			locals := map[string]bool{}
			if fd.Type.Params != nil {
				for _, f := range fd.Type.Params.List {
					for _, n := range f.Names {
						locals[n.Name] = true
					}
				}
			}
			ast.Inspect(fd.Body, func(n ast.Node) bool {
				switch x := n.(type) {
				case *ast.AssignStmt:
					for _, l := range x.Lhs {
						if x.Tok == token.DEFINE {
							if id, ok := l.(*ast.Ident); ok {
								locals[id.Name] = true
								continue
							}
						}
						if r := root(l); r != "" && !locals[r] {
							note(r)
						}
					}
				case *ast.IncDecStmt:
					if r := root(x.X); r != "" && !locals[r] {
						note(r)
					}
				case *ast.UnaryExpr:
					if x.Op == token.AND {
						if r := root(x.X); r != "" && !locals[r] {
							note(r)
						}
					}
				case *ast.CallExpr:
					// method calls on a global through a pointer receiver may write it: x.Do(...), x.Lock()
					if sel, ok := x.Fun.(*ast.SelectorExpr); ok {
						if id, ok := sel.X.(*ast.Ident); ok && isGlobal[id.Name] && !locals[id.Name] {
							switch sel.Sel.Name {
							case "Do", "Lock", "Store", "Add", "Set", "Swap", "CompareAndSwap", "LoadOrStore", "Delete":
								note(id.Name)
							}
						}
					}
				}
				return true
			})
		}
		// a table of plain values that is only ever indexed, ranged over or measured cannot change: no function holds a
		// reference to it or to anything inside it
		for name := range tables {
			if len(writers[name]) == 0 && ((valueTables[name] && !methodCalledOn(p, name)) || (!valueTables[name] && !escapes(p, name))) {
				for i := range vars {
					if vars[i].name == name {
						vars[i].init = "literal:read-only table"
					}
				}
			}
		}
		for _, v := range vars {
			var ws []string
			for w := range writers[v.name] {
				ws = append(ws, w)
			}
			sort.Strings(ws)
			rows = append(rows, fmt.Sprintf("  (%s, %s, %s, %s)", coqString(pk), coqString(v.name), coqString(v.init), coqStringList(ws)))
		}
	}
	b.WriteString(strings.Join(rows, ";\n") + "\n].\n")
	return b.String(), nil
}

var basicTypeNames = map[string]bool{"string": true, "bool": true, "byte": true, "rune": true, "int": true, "int8": true, "int16": true,
	"int32": true, "int64": true, "uint": true, "uint8": true, "uint16": true, "uint32": true, "uint64": true, "float32": true, "float64": true}

// flatType: values of the type hold no reference to anything (basic types, structs and fixed arrays of such)
func flatType(p *pkgSrc, t ast.Expr, depth int) bool {
	if depth > 6 {
		return false
	}
	switch x := t.(type) {
	case *ast.Ident:
		if basicTypeNames[x.Name] {
			return true
		}
		for _, fn := range p.sortedFiles() {
			for _, d := range p.files[fn].Decls {
				gd, ok := d.(*ast.GenDecl)
				if !ok || gd.Tok != token.TYPE {
					continue
				}
				for _, sp := range gd.Specs {
					ts := sp.(*ast.TypeSpec)
					if ts.Name.Name == x.Name {
						return flatType(p, ts.Type, depth+1)
					}
				}
			}
		}
		return false
	case *ast.StructType:
		for _, f := range x.Fields.List {
			if !flatType(p, f.Type, depth+1) {
				return false
			}
		}
		return true
	case *ast.ArrayType:
		return x.Len != nil && flatType(p, x.Elt, depth+1)
	case *ast.SelectorExpr:
		// a type of another package of this repository (document.CellAlignment)
		if pk, ok := x.X.(*ast.Ident); ok && globalsRepo != "" {
			for _, dir := range []string{"document", "style", "markdown"} {
				if dir == pk.Name {
					if q, err := loadPkg(filepath.Join(globalsRepo, "pkg", dir)); err == nil {
						return flatType(q, x.Sel, depth+1)
					}
				}
			}
		}
	}
	return false
}

var globalsRepo string

// flatTable: a map, slice or array literal whose keys and elements are of flat types and whose values are written
// without calls, function literals or address-of
func flatTable(p *pkgSrc, cl *ast.CompositeLit) bool {
	switch t := cl.Type.(type) {
	case *ast.MapType:
		// (a key is a copy: whatever its type, nothing in the table can be changed through it)
		if !flatType(p, t.Value, 0) {
			return false
		}
	case *ast.ArrayType:
		if !flatType(p, t.Elt, 0) {
			return false
		}
	case *ast.Ident:
		// a value of a flat struct type of the package: copies of it hold no reference to it
		if basicTypeNames[t.Name] || !flatType(p, t, 0) {
			return false
		}
	default:
		return false
	}
	ok := true
	ast.Inspect(cl, func(n ast.Node) bool {
		switch x := n.(type) {
		case *ast.CallExpr, *ast.FuncLit:
			ok = false
		case *ast.UnaryExpr:
			if x.Op == token.AND {
				ok = false
			}
		}
		return ok
	})
	return ok
}

// escapes: the variable is used somewhere other than as the operand of an index expression, of a range clause or of
// len/cap (so that a reference to it may be kept or handed on)
func escapes(p *pkgSrc, name string) bool {
	if escapesIn(p, p.allFuncs(), name, 0) {
		return true
	}
	return mentionedInInitialisers(p, name)
}

// escapesIn: within the given functions, the name (a package-level table, or a parameter that received one) is used
// other than as the operand of an index expression, a range clause, len/cap, a read-only call of the standard library,
// or as the argument of a function of the package whose parameter is itself only used in these ways
func escapesIn(p *pkgSrc, fds []*ast.FuncDecl, name string, depth int) bool {
	esc := false
	for _, fd := range fds {
		if fd.Body == nil {
			continue
		}
		var stack []ast.Node
		ast.Inspect(fd.Body, func(n ast.Node) bool {
			if n == nil {
				stack = stack[:len(stack)-1]
				return true
			}
			if id, ok := n.(*ast.Ident); ok && id.Name == name && len(stack) > 0 {
				switch par := stack[len(stack)-1].(type) {
				case *ast.IndexExpr:
					if par.X != ast.Expr(id) {
						esc = true
					}
				case *ast.RangeStmt:
					if par.X != ast.Expr(id) {
						esc = true
					}
				case *ast.CallExpr:
					f, isID := par.Fun.(*ast.Ident)
					if isID && (f.Name == "len" || f.Name == "cap") && len(par.Args) == 1 {
						break
					}
					// functions of the standard library that only read the slice they are handed
					if readOnlyStdCalls[exprStringDeep(par.Fun)] && ast.Expr(id) != par.Fun {
						break
					}
					// a function of the package whose parameter at that position is only read
					if fid, ok := par.Fun.(*ast.Ident); ok && depth < 3 {
						if callee := p.funcDecl("", fid.Name); callee != nil && callee.Recv == nil && callee.Body != nil {
							argPos := -1
							for ai, a := range par.Args {
								if a == ast.Expr(id) {
									argPos = ai
								}
							}
							if pn := paramName(callee, argPos); pn != "" && !writtenIn(callee, pn) && !escapesIn(p, []*ast.FuncDecl{callee}, pn, depth+1) {
								break
							}
						}
					}
					esc = true
				case *ast.SelectorExpr:
					if par.Sel == id {
						// a field or method that happens to have the same name
					} else {
						esc = true
					}
				case *ast.KeyValueExpr:
					if par.Key != ast.Expr(id) {
						esc = true // as a value; as a key it is the name of a field
					}
				default:
					esc = true
				}
			}
			stack = append(stack, n)
			return true
		})
	}
	return esc
}

// mentionedInInitialisers: another package-level initialiser mentions the name
func mentionedInInitialisers(p *pkgSrc, name string) bool {
	esc := false
	for _, fn := range p.sortedFiles() {
		for _, d := range p.files[fn].Decls {
			gd, ok := d.(*ast.GenDecl)
			if !ok || gd.Tok != token.VAR {
				continue
			}
			for _, sp := range gd.Specs {
				for _, v := range sp.(*ast.ValueSpec).Values {
					ast.Inspect(v, func(n ast.Node) bool {
						if id, ok := n.(*ast.Ident); ok && id.Name == name {
							esc = true
						}
						return true
					})
				}
			}
		}
	}
	return esc
}

// methodCalledOn: some function calls a method on the variable (a method with a pointer receiver could write it)
func methodCalledOn(p *pkgSrc, name string) bool {
	found := false
	for _, fd := range p.allFuncs() {
		if fd.Body == nil {
			continue
		}
		ast.Inspect(fd.Body, func(n ast.Node) bool {
			if ce, ok := n.(*ast.CallExpr); ok {
				if sel, ok := ce.Fun.(*ast.SelectorExpr); ok {
					if id, ok := sel.X.(*ast.Ident); ok && id.Name == name {
						found = true
					}
				}
			}
			return true
		})
	}
	return found
}

var readOnlyStdCalls = map[string]bool{"bytes.HasPrefix": true, "bytes.HasSuffix": true, "bytes.Equal": true, "bytes.Contains": true,
	"bytes.Index": true, "bytes.Compare": true, "strings.Join": true, "bytes.IndexByte": true}

// paramName: the name of the parameter at position pos ("" when there is none or the function is variadic there)
func paramName(fd *ast.FuncDecl, pos int) string {
	if pos < 0 || fd.Type.Params == nil {
		return ""
	}
	k := 0
	for _, prm := range fd.Type.Params.List {
		if _, variadic := prm.Type.(*ast.Ellipsis); variadic {
			return ""
		}
		for _, n := range prm.Names {
			if k == pos {
				return n.Name
			}
			k++
		}
	}
	return ""
}

// writtenIn: the function assigns to the name, through it, takes its address or deletes from it
func writtenIn(fd *ast.FuncDecl, name string) bool {
	root := func(e ast.Expr) string {
		for {
			switch x := e.(type) {
			case *ast.Ident:
				return x.Name
			case *ast.SelectorExpr:
				e = x.X
			case *ast.IndexExpr:
				e = x.X
			case *ast.StarExpr:
				e = x.X
			case *ast.ParenExpr:
				e = x.X
			default:
				return ""
			}
		}
	}
	w := false
	ast.Inspect(fd.Body, func(n ast.Node) bool {
		switch x := n.(type) {
		case *ast.AssignStmt:
			for _, l := range x.Lhs {
				if root(l) == name {
					w = true
				}
			}
		case *ast.IncDecStmt:
			if root(x.X) == name {
				w = true
			}
		case *ast.UnaryExpr:
			if x.Op == token.AND && root(x.X) == name {
				w = true
			}
		case *ast.CallExpr:
			if id, ok := x.Fun.(*ast.Ident); ok && (id.Name == "delete" || id.Name == "append" || id.Name == "copy" || id.Name == "clear") && len(x.Args) > 0 && root(x.Args[0]) == name {
				w = true
			}
		}
		return true
	})
	return w
}
