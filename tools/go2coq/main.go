// go2coq: syntactic translator from the wordZero Go sources to Coq tables (coq/Gen/*.v).
//
// It recognises a fixed set of AST shapes. Anything it does not recognise inside a
// function or literal it is asked to translate makes it emit
// "Definition <table>_untranslatable := tt." and omit the table, so every theorem that
// needs the table stops compiling (fail closed).
//
// Only the Go standard library is used (go/parser, go/ast, go/token).
package main

import (
	"bytes"
	"flag"
	"fmt"
	"go/ast"
	"go/parser"
	"go/token"
	"os"
	"path/filepath"
	"sort"
	"strings"
)

type pkgSrc struct {
	fset  *token.FileSet
	files map[string]*ast.File // base name -> file
	dir   string
}

func loadPkg(dir string) (*pkgSrc, error) {
	fset := token.NewFileSet()
	ents, err := os.ReadDir(dir)
	if err != nil {
		return nil, err
	}
	p := &pkgSrc{fset: fset, files: map[string]*ast.File{}, dir: dir}
	for _, e := range ents {
		n := e.Name()
		if !strings.HasSuffix(n, ".go") || strings.HasSuffix(n, "_test.go") {
			continue
		}
		src, err := os.ReadFile(filepath.Join(dir, n))
		if err != nil {
			return nil, err
		}
		// files guarded by the verif tag are hooks, not library code
		if bytes.Contains(src, []byte("//go:build verif")) {
			continue
		}
		f, err := parser.ParseFile(fset, filepath.Join(dir, n), src, parser.ParseComments)
		if err != nil {
			return nil, err
		}
		p.files[n] = f
	}
	return p, nil
}

func (p *pkgSrc) sortedFiles() []string {
	var ns []string
	for n := range p.files {
		ns = append(ns, n)
	}
	sort.Strings(ns)
	return ns
}

// funcDecl finds a function or method by name (receiver type name optional: "" matches any).
func (p *pkgSrc) funcDecl(recv, name string) *ast.FuncDecl {
	for _, n := range p.sortedFiles() {
		for _, d := range p.files[n].Decls {
			fd, ok := d.(*ast.FuncDecl)
			if !ok || fd.Name.Name != name {
				continue
			}
			r := recvName(fd)
			if recv == "" || recv == r {
				return fd
			}
		}
	}
	return nil
}

func recvName(fd *ast.FuncDecl) string {
	if fd.Recv == nil || len(fd.Recv.List) == 0 {
		return ""
	}
	t := fd.Recv.List[0].Type
	if s, ok := t.(*ast.StarExpr); ok {
		t = s.X
	}
	if id, ok := t.(*ast.Ident); ok {
		return id.Name
	}
	return ""
}

func (p *pkgSrc) allFuncs() []*ast.FuncDecl {
	var out []*ast.FuncDecl
	for _, n := range p.sortedFiles() {
		for _, d := range p.files[n].Decls {
			if fd, ok := d.(*ast.FuncDecl); ok {
				out = append(out, fd)
			}
		}
	}
	return out
}

// stringConsts returns the package's string constants (name -> value).
func (p *pkgSrc) stringConsts() map[string]string {
	m := map[string]string{}
	for _, n := range p.sortedFiles() {
		for _, d := range p.files[n].Decls {
			gd, ok := d.(*ast.GenDecl)
			if !ok || gd.Tok != token.CONST {
				continue
			}
			for _, s := range gd.Specs {
				vs := s.(*ast.ValueSpec)
				for i, nm := range vs.Names {
					if i < len(vs.Values) {
						if bl, ok := vs.Values[i].(*ast.BasicLit); ok && bl.Kind == token.STRING {
							m[nm.Name] = unquote(bl.Value)
						}
					}
				}
			}
		}
	}
	return m
}

func (p *pkgSrc) pos(n ast.Node) string {
	ps := p.fset.Position(n.Pos())
	return fmt.Sprintf("%s:%d", filepath.Base(ps.Filename), ps.Line)
}

func unquote(s string) string {
	if len(s) >= 2 && (s[0] == '"' || s[0] == '`') {
		if s[0] == '`' {
			return s[1 : len(s)-1]
		}
		var out []byte
		body := s[1 : len(s)-1]
		for i := 0; i < len(body); i++ {
			if body[i] == '\\' && i+1 < len(body) {
				i++
				switch body[i] {
				case 'n':
					out = append(out, '\n')
				case 't':
					out = append(out, '\t')
				case 'r':
					out = append(out, '\r')
				case '\\':
					out = append(out, '\\')
				case '"':
					out = append(out, '"')
				default:
					out = append(out, '\\', body[i])
				}
			} else {
				out = append(out, body[i])
			}
		}
		return string(out)
	}
	return s
}

// coqString renders a Go string as a Coq string literal (only printable ASCII is expected
// in the tables; anything else is replaced by '?', which makes the row differ, never match).
func coqString(s string) string {
	var b strings.Builder
	b.WriteByte('"')
	for _, r := range s {
		switch {
		case r == '"':
			b.WriteString(`""`)
		case r >= 32 && r < 127:
			b.WriteRune(r)
		default:
			b.WriteString(fmt.Sprintf("?%x?", r))
		}
	}
	b.WriteByte('"')
	return b.String()
}

func coqStringList(ss []string) string {
	var q []string
	for _, s := range ss {
		q = append(q, coqString(s))
	}
	return "[" + strings.Join(q, "; ") + "]"
}

// decimalScaled parses a decimal literal such as "56.692913385827" and returns it multiplied
// by 10^scale as an integer string; ok=false if it is not exactly representable.
func decimalScaled(lit string, scale int) (string, bool) {
	neg := false
	if strings.HasPrefix(lit, "-") {
		neg = true
		lit = lit[1:]
	}
	ip, fp := lit, ""
	if i := strings.IndexByte(lit, '.'); i >= 0 {
		ip, fp = lit[:i], lit[i+1:]
	}
	for _, c := range ip + fp {
		if c < '0' || c > '9' {
			return "", false
		}
	}
	if len(fp) > scale {
		if strings.Trim(fp[scale:], "0") != "" {
			return "", false
		}
		fp = fp[:scale]
	}
	for len(fp) < scale {
		fp += "0"
	}
	s := strings.TrimLeft(ip+fp, "0")
	if s == "" {
		s = "0"
	}
	if neg && s != "0" {
		s = "(-" + s + ")"
	}
	return s, true
}

type gen struct {
	name string
	run  func(repo string) (string, error)
}

var gens []gen

func register(name string, run func(repo string) (string, error)) {
	gens = append(gens, gen{name, run})
}

func writeIfChanged(path string, content string) error {
	old, err := os.ReadFile(path)
	if err == nil && string(old) == content {
		return nil
	}
	return os.WriteFile(path, []byte(content), 0644)
}

func main() {
	repo := flag.String("repo", "/repo", "path to the wordZero working tree")
	out := flag.String("out", "coq/Gen", "output directory")
	only := flag.String("only", "", "comma-separated table names (default all)")
	flag.Parse()
	if err := os.MkdirAll(*out, 0755); err != nil {
		fmt.Fprintln(os.Stderr, err)
		os.Exit(2)
	}
	want := map[string]bool{}
	for _, n := range strings.Split(*only, ",") {
		if n != "" {
			want[n] = true
		}
	}
	status := 0
	for _, g := range gens {
		if len(want) > 0 && !want[g.name] {
			continue
		}
		body, err := g.run(*repo)
		hdr := "(* GENERATED by tools/go2coq from the Go sources under " + *repo + " - do not edit. *)\n"
		if err != nil {
			// fail closed: the table is omitted, a marker is defined instead
			body = fmt.Sprintf("Definition %s_untranslatable := tt.\n(* reason: %s *)\n", g.name, strings.ReplaceAll(err.Error(), "*)", "* )"))
			fmt.Fprintf(os.Stderr, "go2coq: %s: UNTRANSLATABLE: %v\n", g.name, err)
			status = 3
		}
		if werr := writeIfChanged(filepath.Join(*out, g.name+".v"), hdr+body); werr != nil {
			fmt.Fprintln(os.Stderr, werr)
			os.Exit(2)
		}
	}
	os.Exit(status)
}

// constStrings: the package-level string constants of the package being translated (set by the generators that
// accept a named constant where a string literal is expected)
var constStrings = map[string]string{}

// strLit: a string literal, or an identifier that names a package-level string constant
func strLit(e ast.Expr) (string, bool) {
	switch x := e.(type) {
	case *ast.BasicLit:
		if x.Kind == token.STRING {
			return unquote(x.Value), true
		}
	case *ast.Ident:
		if v, ok := constStrings[x.Name]; ok {
			return v, true
		}
	case *ast.ParenExpr:
		return strLit(x.X)
	}
	return "", false
}
