package main

import (
	"fmt"
	"go/ast"
	"go/token"
	"path/filepath"
	"sort"
	"strings"
)

func init() {
	register("StyleFields", genStyleFields)
	register("CloneFields", genCloneFields)
}

// structFields returns the field names of a struct type declared in the package (XMLName excluded).
func (p *pkgSrc) structFields(name string) ([]string, bool) {
	for _, fn := range p.sortedFiles() {
		for _, d := range p.files[fn].Decls {
			gd, ok := d.(*ast.GenDecl)
			if !ok || gd.Tok != token.TYPE {
				continue
			}
			for _, s := range gd.Specs {
				ts := s.(*ast.TypeSpec)
				if ts.Name.Name != name {
					continue
				}
				st, ok := ts.Type.(*ast.StructType)
				if !ok {
					return nil, false
				}
				var out []string
				for _, f := range st.Fields.List {
					for _, n := range f.Names {
						if n.Name != "XMLName" {
							out = append(out, n.Name)
						}
					}
				}
				return out, true
			}
		}
	}
	return nil, false
}

// fieldType returns the struct type name of field f of struct t ("" if it is not a struct of the package).
func (p *pkgSrc) fieldType(t, f string) string {
	for _, fn := range p.sortedFiles() {
		for _, d := range p.files[fn].Decls {
			gd, ok := d.(*ast.GenDecl)
			if !ok || gd.Tok != token.TYPE {
				continue
			}
			for _, s := range gd.Specs {
				ts := s.(*ast.TypeSpec)
				st, ok := ts.Type.(*ast.StructType)
				if ts.Name.Name != t || !ok {
					continue
				}
				for _, fl := range st.Fields.List {
					for _, n := range fl.Names {
						if n.Name == f {
							e := fl.Type
							if se, ok := e.(*ast.StarExpr); ok {
								e = se.X
							}
							if id, ok := e.(*ast.Ident); ok {
								return id.Name
							}
							return ""
						}
					}
				}
			}
		}
	}
	return ""
}

// mergeStanzas evaluates a merge function symbolically. Its first parameter is the base, the second the override;
// the analysis is for both being non-nil (the guards `if base == nil { return override }` are skipped). Every field of
// both is, independently, nil or set: four worlds. The function body is interpreted in each world over values that are
// nil, "the base's F" or "the override's F":
//
//	x := expr, x = expr, m := &T{...}, m.F = expr, if cond {...} else {...}, return
//	expr:  nil | base.F | override.F | m.F | x | g(expr...) for a function g of the package (also generic) whose
//	       body is made of ifs over `p != nil` / `p == nil` and returns of its parameters or nil
//	cond:  expr != nil | expr == nil | !c | c && c | c || c
//
// The result object is the local that holds the &T{} literal. A field F counts as merged when, in every world, the
// result's F is override.F if that is set, else base.F if that is set, else nil - and no condition on the way to an
// assignment of F looked at another field. Fields are returned in the order of their first assignment. Anything the
// interpreter does not understand makes the function untranslatable.
type sval struct {
	src   int // 0 nil, 1 base, 2 override
	field string
}

type mergeInterp struct {
	p          *pkgSrc
	fn         string
	base, over string
	merged     string
	ovSet      bool
	baseSet    bool
	vars       map[string]sval
	result     map[string]sval
	order      *[]string
	cross      *[]string
}

func (m *mergeInterp) eval(e ast.Expr, vars map[string]sval, top bool, fields map[string]bool) (sval, error) {
	switch x := e.(type) {
	case *ast.ParenExpr:
		return m.eval(x.X, vars, top, fields)
	case *ast.Ident:
		if x.Name == "nil" {
			return sval{}, nil
		}
		if v, ok := vars[x.Name]; ok {
			if v.field != "" {
				fields[v.field] = true
			}
			return v, nil
		}
		return sval{}, fmt.Errorf("%s: value of %s unknown", m.fn, x.Name)
	case *ast.SelectorExpr:
		id, ok := x.X.(*ast.Ident)
		if !ok || !top {
			return sval{}, fmt.Errorf("%s: unrecognised expression", m.fn)
		}
		f := x.Sel.Name
		fields[f] = true
		switch id.Name {
		case m.base:
			if m.baseSet {
				return sval{1, f}, nil
			}
			return sval{}, nil
		case m.over:
			if m.ovSet {
				return sval{2, f}, nil
			}
			return sval{}, nil
		case m.merged:
			return m.result[f], nil
		}
		return sval{}, fmt.Errorf("%s: field of %s read", m.fn, id.Name)
	case *ast.CallExpr:
		fun := x.Fun
		if ie, ok := fun.(*ast.IndexExpr); ok { // explicit instantiation g[T](...)
			fun = ie.X
		}
		id, ok := fun.(*ast.Ident)
		if !ok {
			return sval{}, fmt.Errorf("%s: call of something that is not a function of the package", m.fn)
		}
		g := m.p.funcDecl("", id.Name)
		if g == nil || g.Body == nil || g.Recv != nil {
			return sval{}, fmt.Errorf("%s: call of %s, which is not a function of the package", m.fn, id.Name)
		}
		var names []string
		for _, prm := range g.Type.Params.List {
			for _, n := range prm.Names {
				names = append(names, n.Name)
			}
		}
		if len(names) != len(x.Args) {
			return sval{}, fmt.Errorf("%s: call of %s with %d arguments", m.fn, id.Name, len(x.Args))
		}
		local := map[string]sval{}
		for i, a := range x.Args {
			v, err := m.eval(a, vars, top, fields)
			if err != nil {
				return sval{}, err
			}
			local[names[i]] = v
		}
		ret, returned, err := m.exec(g.Body.List, local, false, fields)
		if err != nil {
			return sval{}, err
		}
		if !returned {
			return sval{}, fmt.Errorf("%s: %s does not return on every path", m.fn, id.Name)
		}
		return ret, nil
	}
	return sval{}, fmt.Errorf("%s: unrecognised expression", m.fn)
}

func (m *mergeInterp) cond(e ast.Expr, vars map[string]sval, top bool, fields map[string]bool) (bool, error) {
	switch x := e.(type) {
	case *ast.ParenExpr:
		return m.cond(x.X, vars, top, fields)
	case *ast.UnaryExpr:
		if x.Op == token.NOT {
			c, err := m.cond(x.X, vars, top, fields)
			return !c, err
		}
	case *ast.BinaryExpr:
		switch x.Op {
		case token.LAND, token.LOR:
			a, err := m.cond(x.X, vars, top, fields)
			if err != nil {
				return false, err
			}
			b, err := m.cond(x.Y, vars, top, fields)
			if err != nil {
				return false, err
			}
			if x.Op == token.LAND {
				return a && b, nil
			}
			return a || b, nil
		case token.NEQ, token.EQL:
			l, r := x.X, x.Y
			if id, ok := l.(*ast.Ident); ok && id.Name == "nil" {
				l, r = r, l
			}
			if id, ok := r.(*ast.Ident); !ok || id.Name != "nil" {
				break
			}
			// the parameters themselves are not nil in this analysis
			if id, ok := l.(*ast.Ident); ok && top && (id.Name == m.base || id.Name == m.over) {
				return x.Op == token.NEQ, nil
			}
			v, err := m.eval(l, vars, top, fields)
			if err != nil {
				return false, err
			}
			return (v.src != 0) == (x.Op == token.NEQ), nil
		}
	}
	return false, fmt.Errorf("%s: unrecognised condition", m.fn)
}

// exec runs statements; top = the body of the merge function itself (fields of base/override/merged are visible).
// pathFields: the fields that conditions on the way here looked at.
func (m *mergeInterp) exec(list []ast.Stmt, vars map[string]sval, top bool, pathFields map[string]bool) (sval, bool, error) {
	for _, st := range list {
		switch s := st.(type) {
		case *ast.DeclStmt:
			continue
		case *ast.AssignStmt:
			if len(s.Lhs) != 1 || len(s.Rhs) != 1 {
				return sval{}, false, fmt.Errorf("%s: unrecognised assignment", m.fn)
			}
			switch l := s.Lhs[0].(type) {
			case *ast.Ident:
				// the result object: m := &T{...}
				if ue, ok := s.Rhs[0].(*ast.UnaryExpr); ok && ue.Op == token.AND && top {
					cl, ok := ue.X.(*ast.CompositeLit)
					if !ok {
						return sval{}, false, fmt.Errorf("%s: unrecognised assignment", m.fn)
					}
					if m.merged != "" && m.merged != l.Name {
						return sval{}, false, fmt.Errorf("%s: two result objects", m.fn)
					}
					if len(pathFields) > 0 {
						return sval{}, false, fmt.Errorf("merged is replaced under a condition in %s", m.fn)
					}
					m.merged = l.Name
					m.result = map[string]sval{}
					for _, el := range cl.Elts {
						kv, ok := el.(*ast.KeyValueExpr)
						if !ok {
							return sval{}, false, fmt.Errorf("%s: result literal without field names", m.fn)
						}
						k, ok := kv.Key.(*ast.Ident)
						if !ok {
							return sval{}, false, fmt.Errorf("%s: result literal without field names", m.fn)
						}
						if err := m.assign(k.Name, kv.Value, vars, pathFields); err != nil {
							return sval{}, false, err
						}
					}
					continue
				}
				fs := map[string]bool{}
				v, err := m.eval(s.Rhs[0], vars, top, fs)
				if err != nil {
					return sval{}, false, err
				}
				vars[l.Name] = v
			case *ast.SelectorExpr:
				id, ok := l.X.(*ast.Ident)
				if !ok || !top || id.Name != m.merged || m.merged == "" {
					return sval{}, false, fmt.Errorf("unrecognised assignment in %s", m.fn)
				}
				if err := m.assign(l.Sel.Name, s.Rhs[0], vars, pathFields); err != nil {
					return sval{}, false, err
				}
			default:
				return sval{}, false, fmt.Errorf("unrecognised assignment in %s", m.fn)
			}
		case *ast.IfStmt:
			if s.Init != nil {
				return sval{}, false, fmt.Errorf("unrecognised if statement in %s", m.fn)
			}
			fs := map[string]bool{}
			for k := range pathFields {
				fs[k] = true
			}
			c, err := m.cond(s.Cond, vars, top, fs)
			if err != nil {
				return sval{}, false, err
			}
			var branch []ast.Stmt
			if c {
				branch = s.Body.List
			} else {
				switch e := s.Else.(type) {
				case *ast.BlockStmt:
					branch = e.List
				case *ast.IfStmt:
					branch = []ast.Stmt{e}
				}
			}
			// the other branch is checked for shape in the world where it is taken
			v, ret, err := m.exec(branch, vars, top, fs)
			if err != nil || ret {
				return v, ret, err
			}
		case *ast.SwitchStmt:
			// switch { case c1: ... case c2: ... default: ... } - the first clause whose condition holds
			if s.Init != nil || s.Tag != nil {
				return sval{}, false, fmt.Errorf("unrecognised switch statement in %s", m.fn)
			}
			fs := map[string]bool{}
			for k := range pathFields {
				fs[k] = true
			}
			var chosen []ast.Stmt
			var deflt []ast.Stmt
			found := false
			for _, cl := range s.Body.List {
				cc := cl.(*ast.CaseClause)
				if cc.List == nil {
					deflt = cc.Body
					continue
				}
				if found {
					continue
				}
				for _, ce := range cc.List {
					c, err := m.cond(ce, vars, top, fs)
					if err != nil {
						return sval{}, false, err
					}
					if c {
						chosen, found = cc.Body, true
						break
					}
				}
			}
			if !found {
				chosen = deflt
			}
			v, ret, err := m.exec(chosen, vars, top, fs)
			if err != nil || ret {
				return v, ret, err
			}
		case *ast.ReturnStmt:
			if top {
				return sval{}, true, nil
			}
			if len(s.Results) != 1 {
				return sval{}, false, fmt.Errorf("%s: helper returns %d values", m.fn, len(s.Results))
			}
			v, err := m.eval(s.Results[0], vars, top, pathFields)
			return v, true, err
		case *ast.BlockStmt:
			v, ret, err := m.exec(s.List, vars, top, pathFields)
			if err != nil || ret {
				return v, ret, err
			}
		default:
			return sval{}, false, fmt.Errorf("unrecognised statement in %s", m.fn)
		}
	}
	return sval{}, false, nil
}

func (m *mergeInterp) assign(f string, rhs ast.Expr, vars map[string]sval, pathFields map[string]bool) error {
	fs := map[string]bool{}
	for k := range pathFields {
		fs[k] = true
	}
	v, err := m.eval(rhs, vars, true, fs)
	if err != nil {
		return err
	}
	if v.src != 0 && v.field != f {
		return fmt.Errorf("merged.%s is assigned something else than base.%s / override.%s in %s", f, f, f, m.fn)
	}
	for g := range fs {
		if g != f {
			*m.cross = append(*m.cross, fmt.Sprintf("the stanza for %s in %s looks at %s", f, m.fn, g))
		}
	}
	seen := false
	for _, o := range *m.order {
		if o == f {
			seen = true
		}
	}
	if !seen {
		*m.order = append(*m.order, f)
	}
	m.result[f] = v
	return nil
}

var mergePkg *pkgSrc

func mergeStanzas(fd *ast.FuncDecl) ([]string, error) {
	if fd == nil || fd.Body == nil {
		return nil, fmt.Errorf("function not found")
	}
	var params []string
	for _, prm := range fd.Type.Params.List {
		for _, n := range prm.Names {
			params = append(params, n.Name)
		}
	}
	if len(params) != 2 {
		return nil, fmt.Errorf("%s does not take (base, override)", fd.Name.Name)
	}
	// `return &T{F: ..., G: ...}` at the end is the result object built and returned in one statement
	body := fd.Body.List
	if n := len(body); n > 0 {
		if rs, ok := body[n-1].(*ast.ReturnStmt); ok && len(rs.Results) == 1 {
			if ue, ok := rs.Results[0].(*ast.UnaryExpr); ok && ue.Op == token.AND {
				if _, ok := ue.X.(*ast.CompositeLit); ok {
					res := ast.NewIdent("mergedResult")
					body = append(append([]ast.Stmt{}, body[:n-1]...),
						&ast.AssignStmt{Lhs: []ast.Expr{res}, Tok: token.DEFINE, Rhs: []ast.Expr{ue}},
						&ast.ReturnStmt{Results: []ast.Expr{res}})
				}
			}
		}
	}
	var order, cross []string
	worlds := [][2]bool{{false, false}, {false, true}, {true, false}, {true, true}}
	// first pass: shape errors, and the fields assigned in any world (in the order of their first assignment)
	for _, w := range worlds {
		m := &mergeInterp{p: mergePkg, fn: fd.Name.Name, base: params[0], over: params[1], ovSet: w[0], baseSet: w[1], order: &order, cross: &cross}
		if _, _, err := m.exec(body, map[string]sval{}, true, map[string]bool{}); err != nil {
			return nil, err
		}
		if m.merged == "" {
			return nil, fmt.Errorf("%s builds no result object", fd.Name.Name)
		}
	}
	if len(cross) > 0 {
		return nil, fmt.Errorf("%s", cross[0])
	}
	// second pass: a field is merged when the result is right in every world
	good := map[string]bool{}
	for _, f := range order {
		good[f] = true
	}
	for _, w := range worlds {
		m := &mergeInterp{p: mergePkg, fn: fd.Name.Name, base: params[0], over: params[1], ovSet: w[0], baseSet: w[1], order: &order, cross: &cross}
		if _, _, err := m.exec(body, map[string]sval{}, true, map[string]bool{}); err != nil {
			return nil, err
		}
		for _, f := range order {
			want := sval{}
			if w[0] {
				want = sval{2, f}
			} else if w[1] {
				want = sval{1, f}
			}
			if m.result[f] != want {
				good[f] = false
			}
		}
	}
	var out []string
	for _, f := range order {
		if good[f] {
			out = append(out, f)
		}
	}
	return out, nil
}

func genStyleFields(repo string) (string, error) {
	p, err := loadPkg(filepath.Join(repo, "pkg/style"))
	if err != nil {
		return "", err
	}
	mergePkg = p
	var b strings.Builder
	b.WriteString("From Coq Require Import List String.\nImport ListNotations.\nOpen Scope string_scope.\n\n")
	for _, x := range []struct{ typ, fn, name string }{{"ParagraphProperties", "mergeParagraphProperties", "ppr"}, {"RunProperties", "mergeRunProperties", "rpr"}} {
		fields, ok := p.structFields(x.typ)
		if !ok {
			return "", fmt.Errorf("struct %s not found", x.typ)
		}
		merged, err := mergeStanzas(p.funcDecl("", x.fn))
		if err != nil {
			return "", err
		}
		fmt.Fprintf(&b, "(* style.%s *)\nDefinition %s_fields : list string := %s.\n", x.typ, x.name, coqStringList(fields))
		fmt.Fprintf(&b, "(* fields handled by %s, in source order *)\nDefinition %s_merged : list string := %s.\n\n", x.fn, x.name, coqStringList(merged))
	}
	// GetStyleWithInheritance: the recursion must go through a visited set. By shape, not by name: a function reachable
	// from GetStyleWithInheritance that calls itself, marks an entry of a map or set (X[k] = ...) and tests an entry
	// of the same X in the condition of an if.
	guarded := false
	for _, g := range reachFuncs(p, p.funcDecl("StyleManager", "GetStyleWithInheritance"), 3, map[string]bool{}) {
		recursive := false
		marked := map[string]bool{}
		tested := map[string]bool{}
		// locals that hold an entry of a map (seen := X[k]; _, seen := X[k]): testing them tests the entry
		entryOf := map[string]string{}
		ast.Inspect(g.Body, func(n ast.Node) bool {
			if as, ok := n.(*ast.AssignStmt); ok && len(as.Rhs) == 1 {
				if ie, ok := as.Rhs[0].(*ast.IndexExpr); ok {
					for _, l := range as.Lhs {
						if id, ok := l.(*ast.Ident); ok && id.Name != "_" {
							entryOf[id.Name] = exprStringDeep(ie.X)
						}
					}
				}
			}
			return true
		})
		ast.Inspect(g.Body, func(n ast.Node) bool {
			switch x := n.(type) {
			case *ast.CallExpr:
				switch f := x.Fun.(type) {
				case *ast.Ident:
					recursive = recursive || f.Name == g.Name.Name
				case *ast.SelectorExpr:
					recursive = recursive || f.Sel.Name == g.Name.Name
				}
			case *ast.AssignStmt:
				for _, l := range x.Lhs {
					if ie, ok := l.(*ast.IndexExpr); ok {
						marked[exprStringDeep(ie.X)] = true
					}
				}
			case *ast.IfStmt:
				ast.Inspect(x.Cond, func(c ast.Node) bool {
					if ie, ok := c.(*ast.IndexExpr); ok {
						tested[exprStringDeep(ie.X)] = true
					}
					if id, ok := c.(*ast.Ident); ok {
						if x, ok := entryOf[id.Name]; ok {
							tested[x] = true
						}
					}
					return true
				})
			}
			return true
		})
		for k := range marked {
			if recursive && tested[k] && k != "?" {
				guarded = true
			}
		}
	}
	fmt.Fprintf(&b, "(* the based-on recursion consults a visited set *)\nDefinition resolve_has_visited_set : bool := %v.\n", guarded)
	return b.String(), nil
}

// ---- clone tables ------------------------------------------------------------------------------

type cloneRow struct {
	Fn, Typ  string
	Declared []string
	Copied   []string
	Pos      string
}

// cloneRows: for every function clone*(source ...) in the package, for every struct type of the
// package that the function builds (composite literal, or assignments through a local variable
// initialised with such a literal), the declared fields and the fields the function sets.
func cloneRows(p *pkgSrc) []cloneRow {
	var rows []cloneRow
	// the clone functions: by name (clone*), and by use - what a method called Clone reaches
	byUse := map[string]bool{}
	for _, fd := range p.allFuncs() {
		if fd.Name.Name == "Clone" && fd.Body != nil {
			for _, g := range reachFuncs(p, fd, 4, map[string]bool{}) {
				if g != fd {
					byUse[g.Name.Name] = true
				}
			}
		}
	}
	for _, fd := range p.allFuncs() {
		if !(strings.HasPrefix(fd.Name.Name, "clone") || byUse[fd.Name.Name]) || fd.Body == nil {
			continue
		}
		set := map[string]map[string]bool{} // type -> fields set
		varType := map[string]string{}      // local var -> struct type it was created as
		litType := func(e ast.Expr) (string, *ast.CompositeLit) {
			if u, ok := e.(*ast.UnaryExpr); ok && u.Op == token.AND {
				e = u.X
			}
			cl, ok := e.(*ast.CompositeLit)
			if !ok {
				return "", nil
			}
			if id, ok := cl.Type.(*ast.Ident); ok {
				return id.Name, cl
			}
			return "", nil
		}
		ast.Inspect(fd.Body, func(n ast.Node) bool {
			switch x := n.(type) {
			case *ast.CompositeLit:
				if id, ok := x.Type.(*ast.Ident); ok {
					if _, isStruct := p.structFields(id.Name); isStruct {
						if set[id.Name] == nil {
							set[id.Name] = map[string]bool{}
						}
						for _, el := range x.Elts {
							if kv, ok := el.(*ast.KeyValueExpr); ok {
								if k, ok := kv.Key.(*ast.Ident); ok {
									set[id.Name][k.Name] = true
								}
							}
						}
					}
				}
			case *ast.AssignStmt:
				if len(x.Lhs) == 1 && len(x.Rhs) == 1 {
					if id, ok := x.Lhs[0].(*ast.Ident); ok {
						if t, _ := litType(x.Rhs[0]); t != "" {
							varType[id.Name] = t
						}
					}
					if sel, ok := x.Lhs[0].(*ast.SelectorExpr); ok {
						// v.F = ...   or   v.G.F = ... (a field of the struct held in field G)
						var chain []string
						e := ast.Expr(sel)
						for {
							s2, ok := e.(*ast.SelectorExpr)
							if !ok {
								break
							}
							chain = append([]string{s2.Sel.Name}, chain...)
							e = s2.X
						}
						if id, ok := e.(*ast.Ident); ok {
							if t, ok := varType[id.Name]; ok {
								for i, f := range chain {
									if i == len(chain)-1 {
										if set[t] == nil {
											set[t] = map[string]bool{}
										}
										set[t][f] = true
									} else {
										t = p.fieldType(t, f)
										if t == "" {
											break
										}
									}
								}
							}
						}
					}
				}
			}
			return true
		})
		var types []string
		for t := range set {
			types = append(types, t)
		}
		sort.Strings(types)
		for _, t := range types {
			decl, _ := p.structFields(t)
			var copied []string
			for _, f := range decl {
				if set[t][f] {
					copied = append(copied, f)
				}
			}
			rows = append(rows, cloneRow{Fn: fd.Name.Name, Typ: t, Declared: decl, Copied: copied, Pos: p.pos(fd)})
		}
	}
	return rows
}

// reachableStructs: the struct types of the package reachable from root through fields (pointers, values, slices),
// root included, in order of discovery
func reachableStructs(p *pkgSrc, root string) []string {
	seen := map[string]bool{}
	var order []string
	var visit func(t string)
	visit = func(t string) {
		if seen[t] {
			return
		}
		fields, ok := p.structFields(t)
		if !ok {
			return
		}
		seen[t] = true
		order = append(order, t)
		for _, f := range fields {
			if ft := p.fieldElemType(t, f); ft != "" {
				visit(ft)
			}
		}
	}
	visit(root)
	return order
}

// fieldElemType: the named type a field holds, through pointers and slices
func (p *pkgSrc) fieldElemType(t, f string) string {
	for _, fn := range p.sortedFiles() {
		for _, d := range p.files[fn].Decls {
			gd, ok := d.(*ast.GenDecl)
			if !ok || gd.Tok != token.TYPE {
				continue
			}
			for _, s := range gd.Specs {
				ts := s.(*ast.TypeSpec)
				st, ok := ts.Type.(*ast.StructType)
				if ts.Name.Name != t || !ok {
					continue
				}
				for _, fl := range st.Fields.List {
					for _, n := range fl.Names {
						if n.Name != f {
							continue
						}
						e := fl.Type
						for {
							if se, ok := e.(*ast.StarExpr); ok {
								e = se.X
							} else if at, ok := e.(*ast.ArrayType); ok {
								e = at.Elt
							} else {
								break
							}
						}
						if id, ok := e.(*ast.Ident); ok {
							return id.Name
						}
						return ""
					}
				}
			}
		}
	}
	return ""
}

func genCloneFields(repo string) (string, error) {
	var b strings.Builder
	b.WriteString("From Coq Require Import List String.\nImport ListNotations.\nOpen Scope string_scope.\n\n")
	b.WriteString("(* (function, struct type, declared fields, fields the function sets) *)\n")
	for _, x := range []struct{ dir, name string }{{"pkg/style", "style_clone_rows"}, {"pkg/document", "document_clone_rows"}} {
		p, err := loadPkg(filepath.Join(repo, x.dir))
		if err != nil {
			return "", err
		}
		rows := cloneRows(p)
		if len(rows) == 0 {
			return "", fmt.Errorf("no clone functions found in %s", x.dir)
		}
		var xs []string
		for _, r := range rows {
			xs = append(xs, fmt.Sprintf("  (* %s *) (%s, %s, %s, %s)", r.Pos, coqString(r.Fn), coqString(r.Typ), coqStringList(r.Declared), coqStringList(r.Copied)))
		}
		fmt.Fprintf(&b, "Definition %s : list (string * string * list string * list string) := [\n%s\n].\n\n", x.name, strings.Join(xs, ";\n"))
		if x.dir == "pkg/style" {
			reach := reachableStructs(p, "Style")
			if len(reach) < 10 {
				return "", fmt.Errorf("only %d struct types reachable from style.Style", len(reach))
			}
			b.WriteString("(* the struct types a style can hold, directly or through other settings *)\n")
			fmt.Fprintf(&b, "Definition style_reachable_types : list string := %s.\n\n", coqStringList(reach))
		}
	}
	return b.String(), nil
}
