package main

import (
	"fmt"
	"go/ast"
	"go/token"
	"path/filepath"
	"sort"
	"strings"
)

func init() {
	register("StyleFields", genStyleFields)
	register("CloneFields", genCloneFields)
}

// structFields returns the field names of a struct type declared in the package (XMLName excluded).
func (p *pkgSrc) structFields(name string) ([]string, bool) {
	for _, fn := range p.sortedFiles() {
		for _, d := range p.files[fn].Decls {
			gd, ok := d.(*ast.GenDecl)
			if !ok || gd.Tok != token.TYPE {
				continue
			}
			for _, s := range gd.Specs {
				ts := s.(*ast.TypeSpec)
				if ts.Name.Name != name {
					continue
				}
				st, ok := ts.Type.(*ast.StructType)
				if !ok {
					return nil, false
				}
				var out []string
				for _, f := range st.Fields.List {
					for _, n := range f.Names {
						if n.Name != "XMLName" {
							out = append(out, n.Name)
						}
					}
				}
				return out, true
			}
		}
	}
	return nil, false
}

// fieldType returns the struct type name of field f of struct t ("" if it is not a struct of the package).
func (p *pkgSrc) fieldType(t, f string) string {
	for _, fn := range p.sortedFiles() {
		for _, d := range p.files[fn].Decls {
			gd, ok := d.(*ast.GenDecl)
			if !ok || gd.Tok != token.TYPE {
				continue
			}
			for _, s := range gd.Specs {
				ts := s.(*ast.TypeSpec)
				st, ok := ts.Type.(*ast.StructType)
				if ts.Name.Name != t || !ok {
					continue
				}
				for _, fl := range st.Fields.List {
					for _, n := range fl.Names {
						if n.Name == f {
							e := fl.Type
							if se, ok := e.(*ast.StarExpr); ok {
								e = se.X
							}
							if id, ok := e.(*ast.Ident); ok {
								return id.Name
							}
							return ""
						}
					}
				}
			}
		}
	}
	return ""
}

// mergeStanzas evaluates a merge function with parameters (base, override) and a local `merged` symbolically, field
// by field: the statements it understands are
//     merged.F = base.F            merged.F = override.F
//     if override.F != nil { ... } [else if base.F != nil { ... }] [else { ... }]      (and the same with base first)
// over assignments of the first two kinds for the same field F.  A field counts as merged when, for each of the four
// combinations of base.F / override.F being nil or not, merged.F ends up as override.F if that is not nil, else as
// base.F.  The fields merged are returned in the order of their first mention.  Anything else that touches merged
// makes the function untranslatable.
func mergeStanzas(fd *ast.FuncDecl) ([]string, error) {
	if fd == nil || fd.Body == nil {
		return nil, fmt.Errorf("function not found")
	}
	type world struct{ ovSet, baseSet bool }
	worlds := []world{{false, false}, {false, true}, {true, false}, {true, true}}
	// value of merged.F in a world: 0 nil, 1 base.F, 2 override.F
	state := map[string][4]int{}
	var order []string
	touch := func(f string) {
		if _, ok := state[f]; !ok {
			state[f] = [4]int{}
			order = append(order, f)
		}
	}
	selOf := func(e ast.Expr) (x, f string, ok bool) {
		s, isSel := e.(*ast.SelectorExpr)
		if !isSel {
			return "", "", false
		}
		id, isID := s.X.(*ast.Ident)
		if !isID {
			return "", "", false
		}
		return id.Name, s.Sel.Name, true
	}
	// cond: X.F != nil  /  X.F == nil
	condOf := func(e ast.Expr) (x, f string, neg bool, ok bool) {
		be, isBin := e.(*ast.BinaryExpr)
		if !isBin || (be.Op != token.NEQ && be.Op != token.EQL) {
			return "", "", false, false
		}
		if id, isNil := be.Y.(*ast.Ident); !isNil || id.Name != "nil" {
			return "", "", false, false
		}
		x, f, ok = selOf(be.X)
		if !ok || (x != "base" && x != "override") {
			return "", "", false, false
		}
		return x, f, be.Op == token.EQL, true
	}
	var exec func(list []ast.Stmt, active [4]bool, field string) error
	exec = func(list []ast.Stmt, active [4]bool, field string) error {
		for _, st := range list {
			switch s := st.(type) {
			case *ast.AssignStmt:
				if len(s.Lhs) != 1 || len(s.Rhs) != 1 {
					return fmt.Errorf("unrecognised assignment in %s", fd.Name.Name)
				}
				if id, ok := s.Lhs[0].(*ast.Ident); ok && id.Name == "merged" {
					if field != "" {
						return fmt.Errorf("merged is replaced under a condition in %s", fd.Name.Name)
					}
					continue // merged := &T{}
				}
				x, f, ok := selOf(s.Lhs[0])
				if !ok || x != "merged" {
					return fmt.Errorf("unrecognised assignment in %s", fd.Name.Name)
				}
				if field != "" && f != field {
					return fmt.Errorf("the stanza for %s in %s assigns %s", field, fd.Name.Name, f)
				}
				rx, rf, ok := selOf(s.Rhs[0])
				if !ok || rf != f || (rx != "base" && rx != "override") {
					return fmt.Errorf("merged.%s is assigned something else than base.%s / override.%s in %s", f, f, f, fd.Name.Name)
				}
				touch(f)
				v := state[f]
				for w := range worlds {
					if !active[w] {
						continue
					}
					switch {
					case rx == "base" && worlds[w].baseSet:
						v[w] = 1
					case rx == "override" && worlds[w].ovSet:
						v[w] = 2
					default:
						v[w] = 0
					}
				}
				state[f] = v
			case *ast.IfStmt:
				x, f, neg, ok := condOf(s.Cond)
				if !ok || s.Init != nil {
					// the leading nil guards: if base == nil { return override } / if override == nil { return base }
					if be, isBin := s.Cond.(*ast.BinaryExpr); isBin && be.Op == token.EQL && field == "" {
						if _, isID := be.X.(*ast.Ident); isID {
							continue
						}
					}
					return fmt.Errorf("unrecognised if statement in %s", fd.Name.Name)
				}
				if field != "" && f != field {
					return fmt.Errorf("the stanza for %s in %s tests %s", field, fd.Name.Name, f)
				}
				touch(f)
				var thenW, elseW [4]bool
				for w := range worlds {
					set := worlds[w].baseSet
					if x == "override" {
						set = worlds[w].ovSet
					}
					holds := set != neg
					thenW[w] = active[w] && holds
					elseW[w] = active[w] && !holds
				}
				if err := exec(s.Body.List, thenW, f); err != nil {
					return err
				}
				switch e := s.Else.(type) {
				case nil:
				case *ast.BlockStmt:
					if err := exec(e.List, elseW, f); err != nil {
						return err
					}
				case *ast.IfStmt:
					if err := exec([]ast.Stmt{e}, elseW, f); err != nil {
						return err
					}
				}
			case *ast.ReturnStmt:
				continue
			default:
				return fmt.Errorf("unrecognised statement in %s", fd.Name.Name)
			}
		}
		return nil
	}
	if err := exec(fd.Body.List, [4]bool{true, true, true, true}, ""); err != nil {
		return nil, err
	}
	var out []string
	for _, f := range order {
		v := state[f]
		good := true
		for w := range worlds {
			want := 0
			if worlds[w].ovSet {
				want = 2
			} else if worlds[w].baseSet {
				want = 1
			}
			if v[w] != want {
				good = false
			}
		}
		if good {
			out = append(out, f)
		}
	}
	return out, nil
}

func genStyleFields(repo string) (string, error) {
	p, err := loadPkg(filepath.Join(repo, "pkg/style"))
	if err != nil {
		return "", err
	}
	var b strings.Builder
	b.WriteString("From Coq Require Import List String.\nImport ListNotations.\nOpen Scope string_scope.\n\n")
	for _, x := range []struct{ typ, fn, name string }{{"ParagraphProperties", "mergeParagraphProperties", "ppr"}, {"RunProperties", "mergeRunProperties", "rpr"}} {
		fields, ok := p.structFields(x.typ)
		if !ok {
			return "", fmt.Errorf("struct %s not found", x.typ)
		}
		merged, err := mergeStanzas(p.funcDecl("", x.fn))
		if err != nil {
			return "", err
		}
		fmt.Fprintf(&b, "(* style.%s *)\nDefinition %s_fields : list string := %s.\n", x.typ, x.name, coqStringList(fields))
		fmt.Fprintf(&b, "(* fields handled by %s, in source order *)\nDefinition %s_merged : list string := %s.\n\n", x.fn, x.name, coqStringList(merged))
	}
	// GetStyleWithInheritance: the recursion must go through a visited set
	fd := p.funcDecl("StyleManager", "getStyleWithInheritance")
	guarded := false
	if fd != nil {
		ast.Inspect(fd, func(n ast.Node) bool {
			if ie, ok := n.(*ast.IndexExpr); ok {
				if id, ok := ie.X.(*ast.Ident); ok && id.Name == "visiting" {
					guarded = true
				}
			}
			return true
		})
	}
	fmt.Fprintf(&b, "(* the based-on recursion consults a visited set *)\nDefinition resolve_has_visited_set : bool := %v.\n", guarded)
	return b.String(), nil
}

// ---- clone tables ------------------------------------------------------------------------------

type cloneRow struct {
	Fn, Typ  string
	Declared []string
	Copied   []string
	Pos      string
}

// cloneRows: for every function clone*(source ...) in the package, for every struct type of the
// package that the function builds (composite literal, or assignments through a local variable
// initialised with such a literal), the declared fields and the fields the function sets.
func cloneRows(p *pkgSrc) []cloneRow {
	var rows []cloneRow
	for _, fd := range p.allFuncs() {
		if !strings.HasPrefix(fd.Name.Name, "clone") || fd.Body == nil {
			continue
		}
		set := map[string]map[string]bool{} // type -> fields set
		varType := map[string]string{}      // local var -> struct type it was created as
		litType := func(e ast.Expr) (string, *ast.CompositeLit) {
			if u, ok := e.(*ast.UnaryExpr); ok && u.Op == token.AND {
				e = u.X
			}
			cl, ok := e.(*ast.CompositeLit)
			if !ok {
				return "", nil
			}
			if id, ok := cl.Type.(*ast.Ident); ok {
				return id.Name, cl
			}
			return "", nil
		}
		ast.Inspect(fd.Body, func(n ast.Node) bool {
			switch x := n.(type) {
			case *ast.CompositeLit:
				if id, ok := x.Type.(*ast.Ident); ok {
					if _, isStruct := p.structFields(id.Name); isStruct {
						if set[id.Name] == nil {
							set[id.Name] = map[string]bool{}
						}
						for _, el := range x.Elts {
							if kv, ok := el.(*ast.KeyValueExpr); ok {
								if k, ok := kv.Key.(*ast.Ident); ok {
									set[id.Name][k.Name] = true
								}
							}
						}
					}
				}
			case *ast.AssignStmt:
				if len(x.Lhs) == 1 && len(x.Rhs) == 1 {
					if id, ok := x.Lhs[0].(*ast.Ident); ok {
						if t, _ := litType(x.Rhs[0]); t != "" {
							varType[id.Name] = t
						}
					}
					if sel, ok := x.Lhs[0].(*ast.SelectorExpr); ok {
						// v.F = ...   or   v.G.F = ... (a field of the struct held in field G)
						var chain []string
						e := ast.Expr(sel)
						for {
							s2, ok := e.(*ast.SelectorExpr)
							if !ok {
								break
							}
							chain = append([]string{s2.Sel.Name}, chain...)
							e = s2.X
						}
						if id, ok := e.(*ast.Ident); ok {
							if t, ok := varType[id.Name]; ok {
								for i, f := range chain {
									if i == len(chain)-1 {
										if set[t] == nil {
											set[t] = map[string]bool{}
										}
										set[t][f] = true
									} else {
										t = p.fieldType(t, f)
										if t == "" {
											break
										}
									}
								}
							}
						}
					}
				}
			}
			return true
		})
		var types []string
		for t := range set {
			types = append(types, t)
		}
		sort.Strings(types)
		for _, t := range types {
			decl, _ := p.structFields(t)
			var copied []string
			for _, f := range decl {
				if set[t][f] {
					copied = append(copied, f)
				}
			}
			rows = append(rows, cloneRow{Fn: fd.Name.Name, Typ: t, Declared: decl, Copied: copied, Pos: p.pos(fd)})
		}
	}
	return rows
}

// reachableStructs: the struct types of the package reachable from root through fields (pointers, values, slices),
// root included, in order of discovery
func reachableStructs(p *pkgSrc, root string) []string {
	seen := map[string]bool{}
	var order []string
	var visit func(t string)
	visit = func(t string) {
		if seen[t] {
			return
		}
		fields, ok := p.structFields(t)
		if !ok {
			return
		}
		seen[t] = true
		order = append(order, t)
		for _, f := range fields {
			if ft := p.fieldElemType(t, f); ft != "" {
				visit(ft)
			}
		}
	}
	visit(root)
	return order
}

// fieldElemType: the named type a field holds, through pointers and slices
func (p *pkgSrc) fieldElemType(t, f string) string {
	for _, fn := range p.sortedFiles() {
		for _, d := range p.files[fn].Decls {
			gd, ok := d.(*ast.GenDecl)
			if !ok || gd.Tok != token.TYPE {
				continue
			}
			for _, s := range gd.Specs {
				ts := s.(*ast.TypeSpec)
				st, ok := ts.Type.(*ast.StructType)
				if ts.Name.Name != t || !ok {
					continue
				}
				for _, fl := range st.Fields.List {
					for _, n := range fl.Names {
						if n.Name != f {
							continue
						}
						e := fl.Type
						for {
							if se, ok := e.(*ast.StarExpr); ok {
								e = se.X
							} else if at, ok := e.(*ast.ArrayType); ok {
								e = at.Elt
							} else {
								break
							}
						}
						if id, ok := e.(*ast.Ident); ok {
							return id.Name
						}
						return ""
					}
				}
			}
		}
	}
	return ""
}

func genCloneFields(repo string) (string, error) {
	var b strings.Builder
	b.WriteString("From Coq Require Import List String.\nImport ListNotations.\nOpen Scope string_scope.\n\n")
	b.WriteString("(* (function, struct type, declared fields, fields the function sets) *)\n")
	for _, x := range []struct{ dir, name string }{{"pkg/style", "style_clone_rows"}, {"pkg/document", "document_clone_rows"}} {
		p, err := loadPkg(filepath.Join(repo, x.dir))
		if err != nil {
			return "", err
		}
		rows := cloneRows(p)
		if len(rows) == 0 {
			return "", fmt.Errorf("no clone functions found in %s", x.dir)
		}
		var xs []string
		for _, r := range rows {
			xs = append(xs, fmt.Sprintf("  (* %s *) (%s, %s, %s, %s)", r.Pos, coqString(r.Fn), coqString(r.Typ), coqStringList(r.Declared), coqStringList(r.Copied)))
		}
		fmt.Fprintf(&b, "Definition %s : list (string * string * list string * list string) := [\n%s\n].\n\n", x.name, strings.Join(xs, ";\n"))
		if x.dir == "pkg/style" {
			reach := reachableStructs(p, "Style")
			if len(reach) < 10 {
				return "", fmt.Errorf("only %d struct types reachable from style.Style", len(reach))
			}
			b.WriteString("(* the struct types a style can hold, directly or through other settings *)\n")
			fmt.Fprintf(&b, "Definition style_reachable_types : list string := %s.\n\n", coqStringList(reach))
		}
	}
	return b.String(), nil
}
