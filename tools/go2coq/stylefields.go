package main

import (
	"fmt"
	"go/ast"
	"go/token"
	"path/filepath"
	"sort"
	"strings"
)

func init() {
	register("StyleFields", genStyleFields)
	register("CloneFields", genCloneFields)
}

// structFields returns the field names of a struct type declared in the package (XMLName excluded).
func (p *pkgSrc) structFields(name string) ([]string, bool) {
	for _, fn := range p.sortedFiles() {
		for _, d := range p.files[fn].Decls {
			gd, ok := d.(*ast.GenDecl)
			if !ok || gd.Tok != token.TYPE {
				continue
			}
			for _, s := range gd.Specs {
				ts := s.(*ast.TypeSpec)
				if ts.Name.Name != name {
					continue
				}
				st, ok := ts.Type.(*ast.StructType)
				if !ok {
					return nil, false
				}
				var out []string
				for _, f := range st.Fields.List {
					for _, n := range f.Names {
						if n.Name != "XMLName" {
							out = append(out, n.Name)
						}
					}
				}
				return out, true
			}
		}
	}
	return nil, false
}

// fieldType returns the struct type name of field f of struct t ("" if it is not a struct of the package).
func (p *pkgSrc) fieldType(t, f string) string {
	for _, fn := range p.sortedFiles() {
		for _, d := range p.files[fn].Decls {
			gd, ok := d.(*ast.GenDecl)
			if !ok || gd.Tok != token.TYPE {
				continue
			}
			for _, s := range gd.Specs {
				ts := s.(*ast.TypeSpec)
				st, ok := ts.Type.(*ast.StructType)
				if ts.Name.Name != t || !ok {
					continue
				}
				for _, fl := range st.Fields.List {
					for _, n := range fl.Names {
						if n.Name == f {
							e := fl.Type
							if se, ok := e.(*ast.StarExpr); ok {
								e = se.X
							}
							if id, ok := e.(*ast.Ident); ok {
								return id.Name
							}
							return ""
						}
					}
				}
			}
		}
	}
	return ""
}

// mergeStanzas recognises, in a merge function with parameters (base, override) and a local
// `merged`, the statements
//     if override.F != nil { merged.F = override.F } else if base.F != nil { merged.F = base.F }
// and returns the fields F in source order. Any other statement that assigns merged.X makes the
// function untranslatable.
func mergeStanzas(fd *ast.FuncDecl) ([]string, error) {
	if fd == nil || fd.Body == nil {
		return nil, fmt.Errorf("function not found")
	}
	var out []string
	isSel := func(e ast.Expr, x, f string) bool {
		s, ok := e.(*ast.SelectorExpr)
		if !ok {
			return false
		}
		id, ok := s.X.(*ast.Ident)
		return ok && id.Name == x && (f == "" || s.Sel.Name == f)
	}
	selField := func(e ast.Expr) string { return e.(*ast.SelectorExpr).Sel.Name }
	notNil := func(e ast.Expr, x string) (string, bool) {
		be, ok := e.(*ast.BinaryExpr)
		if !ok || be.Op != token.NEQ || !isSel(be.X, x, "") {
			return "", false
		}
		if id, ok := be.Y.(*ast.Ident); !ok || id.Name != "nil" {
			return "", false
		}
		return selField(be.X), true
	}
	oneAssign := func(b *ast.BlockStmt, from, f string) bool {
		if b == nil || len(b.List) != 1 {
			return false
		}
		as, ok := b.List[0].(*ast.AssignStmt)
		return ok && len(as.Lhs) == 1 && len(as.Rhs) == 1 && isSel(as.Lhs[0], "merged", f) && isSel(as.Rhs[0], from, f)
	}
	for _, st := range fd.Body.List {
		switch s := st.(type) {
		case *ast.IfStmt:
			f, ok := notNil(s.Cond, "override")
			if !ok {
				// the two leading nil guards: if base == nil { return override } / if override == nil { return base }
				if be, ok := s.Cond.(*ast.BinaryExpr); ok && be.Op == token.EQL {
					continue
				}
				return nil, fmt.Errorf("unrecognised if statement in %s", fd.Name.Name)
			}
			el, ok := s.Else.(*ast.IfStmt)
			if !ok || !oneAssign(s.Body, "override", f) {
				return nil, fmt.Errorf("stanza for %s in %s has an unexpected shape", f, fd.Name.Name)
			}
			f2, ok := notNil(el.Cond, "base")
			if !ok || f2 != f || !oneAssign(el.Body, "base", f) || el.Else != nil {
				return nil, fmt.Errorf("stanza for %s in %s has an unexpected else branch", f, fd.Name.Name)
			}
			out = append(out, f)
		case *ast.AssignStmt:
			// merged := &T{}
			if len(s.Lhs) == 1 {
				if id, ok := s.Lhs[0].(*ast.Ident); ok && id.Name == "merged" {
					continue
				}
			}
			return nil, fmt.Errorf("unrecognised assignment in %s", fd.Name.Name)
		case *ast.ReturnStmt:
			continue
		default:
			return nil, fmt.Errorf("unrecognised statement in %s", fd.Name.Name)
		}
	}
	return out, nil
}

func genStyleFields(repo string) (string, error) {
	p, err := loadPkg(filepath.Join(repo, "pkg/style"))
	if err != nil {
		return "", err
	}
	var b strings.Builder
	b.WriteString("From Coq Require Import List String.\nImport ListNotations.\nOpen Scope string_scope.\n\n")
	for _, x := range []struct{ typ, fn, name string }{{"ParagraphProperties", "mergeParagraphProperties", "ppr"}, {"RunProperties", "mergeRunProperties", "rpr"}} {
		fields, ok := p.structFields(x.typ)
		if !ok {
			return "", fmt.Errorf("struct %s not found", x.typ)
		}
		merged, err := mergeStanzas(p.funcDecl("", x.fn))
		if err != nil {
			return "", err
		}
		fmt.Fprintf(&b, "(* style.%s *)\nDefinition %s_fields : list string := %s.\n", x.typ, x.name, coqStringList(fields))
		fmt.Fprintf(&b, "(* fields handled by %s, in source order *)\nDefinition %s_merged : list string := %s.\n\n", x.fn, x.name, coqStringList(merged))
	}
	// GetStyleWithInheritance: the recursion must go through a visited set
	fd := p.funcDecl("StyleManager", "getStyleWithInheritance")
	guarded := false
	if fd != nil {
		ast.Inspect(fd, func(n ast.Node) bool {
			if ie, ok := n.(*ast.IndexExpr); ok {
				if id, ok := ie.X.(*ast.Ident); ok && id.Name == "visiting" {
					guarded = true
				}
			}
			return true
		})
	}
	fmt.Fprintf(&b, "(* the based-on recursion consults a visited set *)\nDefinition resolve_has_visited_set : bool := %v.\n", guarded)
	return b.String(), nil
}

// ---- clone tables ------------------------------------------------------------------------------

type cloneRow struct {
	Fn, Typ  string
	Declared []string
	Copied   []string
	Pos      string
}

// cloneRows: for every function clone*(source ...) in the package, for every struct type of the
// package that the function builds (composite literal, or assignments through a local variable
// initialised with such a literal), the declared fields and the fields the function sets.
func cloneRows(p *pkgSrc) []cloneRow {
	var rows []cloneRow
	for _, fd := range p.allFuncs() {
		if !strings.HasPrefix(fd.Name.Name, "clone") || fd.Body == nil {
			continue
		}
		set := map[string]map[string]bool{} // type -> fields set
		varType := map[string]string{}      // local var -> struct type it was created as
		litType := func(e ast.Expr) (string, *ast.CompositeLit) {
			if u, ok := e.(*ast.UnaryExpr); ok && u.Op == token.AND {
				e = u.X
			}
			cl, ok := e.(*ast.CompositeLit)
			if !ok {
				return "", nil
			}
			if id, ok := cl.Type.(*ast.Ident); ok {
				return id.Name, cl
			}
			return "", nil
		}
		ast.Inspect(fd.Body, func(n ast.Node) bool {
			switch x := n.(type) {
			case *ast.CompositeLit:
				if id, ok := x.Type.(*ast.Ident); ok {
					if _, isStruct := p.structFields(id.Name); isStruct {
						if set[id.Name] == nil {
							set[id.Name] = map[string]bool{}
						}
						for _, el := range x.Elts {
							if kv, ok := el.(*ast.KeyValueExpr); ok {
								if k, ok := kv.Key.(*ast.Ident); ok {
									set[id.Name][k.Name] = true
								}
							}
						}
					}
				}
			case *ast.AssignStmt:
				if len(x.Lhs) == 1 && len(x.Rhs) == 1 {
					if id, ok := x.Lhs[0].(*ast.Ident); ok {
						if t, _ := litType(x.Rhs[0]); t != "" {
							varType[id.Name] = t
						}
					}
					if sel, ok := x.Lhs[0].(*ast.SelectorExpr); ok {
						// v.F = ...   or   v.G.F = ... (a field of the struct held in field G)
						var chain []string
						e := ast.Expr(sel)
						for {
							s2, ok := e.(*ast.SelectorExpr)
							if !ok {
								break
							}
							chain = append([]string{s2.Sel.Name}, chain...)
							e = s2.X
						}
						if id, ok := e.(*ast.Ident); ok {
							if t, ok := varType[id.Name]; ok {
								for i, f := range chain {
									if i == len(chain)-1 {
										if set[t] == nil {
											set[t] = map[string]bool{}
										}
										set[t][f] = true
									} else {
										t = p.fieldType(t, f)
										if t == "" {
											break
										}
									}
								}
							}
						}
					}
				}
			}
			return true
		})
		var types []string
		for t := range set {
			types = append(types, t)
		}
		sort.Strings(types)
		for _, t := range types {
			decl, _ := p.structFields(t)
			var copied []string
			for _, f := range decl {
				if set[t][f] {
					copied = append(copied, f)
				}
			}
			rows = append(rows, cloneRow{Fn: fd.Name.Name, Typ: t, Declared: decl, Copied: copied, Pos: p.pos(fd)})
		}
	}
	return rows
}

// reachableStructs: the struct types of the package reachable from root through fields (pointers, values, slices),
// root included, in order of discovery
func reachableStructs(p *pkgSrc, root string) []string {
	seen := map[string]bool{}
	var order []string
	var visit func(t string)
	visit = func(t string) {
		if seen[t] {
			return
		}
		fields, ok := p.structFields(t)
		if !ok {
			return
		}
		seen[t] = true
		order = append(order, t)
		for _, f := range fields {
			if ft := p.fieldElemType(t, f); ft != "" {
				visit(ft)
			}
		}
	}
	visit(root)
	return order
}

// fieldElemType: the named type a field holds, through pointers and slices
func (p *pkgSrc) fieldElemType(t, f string) string {
	for _, fn := range p.sortedFiles() {
		for _, d := range p.files[fn].Decls {
			gd, ok := d.(*ast.GenDecl)
			if !ok || gd.Tok != token.TYPE {
				continue
			}
			for _, s := range gd.Specs {
				ts := s.(*ast.TypeSpec)
				st, ok := ts.Type.(*ast.StructType)
				if ts.Name.Name != t || !ok {
					continue
				}
				for _, fl := range st.Fields.List {
					for _, n := range fl.Names {
						if n.Name != f {
							continue
						}
						e := fl.Type
						for {
							if se, ok := e.(*ast.StarExpr); ok {
								e = se.X
							} else if at, ok := e.(*ast.ArrayType); ok {
								e = at.Elt
							} else {
								break
							}
						}
						if id, ok := e.(*ast.Ident); ok {
							return id.Name
						}
						return ""
					}
				}
			}
		}
	}
	return ""
}

func genCloneFields(repo string) (string, error) {
	var b strings.Builder
	b.WriteString("From Coq Require Import List String.\nImport ListNotations.\nOpen Scope string_scope.\n\n")
	b.WriteString("(* (function, struct type, declared fields, fields the function sets) *)\n")
	for _, x := range []struct{ dir, name string }{{"pkg/style", "style_clone_rows"}, {"pkg/document", "document_clone_rows"}} {
		p, err := loadPkg(filepath.Join(repo, x.dir))
		if err != nil {
			return "", err
		}
		rows := cloneRows(p)
		if len(rows) == 0 {
			return "", fmt.Errorf("no clone functions found in %s", x.dir)
		}
		var xs []string
		for _, r := range rows {
			xs = append(xs, fmt.Sprintf("  (* %s *) (%s, %s, %s, %s)", r.Pos, coqString(r.Fn), coqString(r.Typ), coqStringList(r.Declared), coqStringList(r.Copied)))
		}
		fmt.Fprintf(&b, "Definition %s : list (string * string * list string * list string) := [\n%s\n].\n\n", x.name, strings.Join(xs, ";\n"))
		if x.dir == "pkg/style" {
			reach := reachableStructs(p, "Style")
			if len(reach) < 10 {
				return "", fmt.Errorf("only %d struct types reachable from style.Style", len(reach))
			}
			b.WriteString("(* the struct types a style can hold, directly or through other settings *)\n")
			fmt.Fprintf(&b, "Definition style_reachable_types : list string := %s.\n\n", coqStringList(reach))
		}
	}
	return b.String(), nil
}
