package main

import (
	"fmt"
	"go/ast"
	"go/token"
	"path/filepath"
	"sort"
	"strconv"
	"strings"
)

func init() {
	register("NumKey", genNumKey)
	register("HeadingMap", genHeadingMap)
}

// genNumKey: the fields of the list configuration that enter the cache key of abstract numbering
// definitions (the arguments of the Sprintf assigned to abstractKey in getOrCreateNumbering), and the
// range of levels createAbstractNum defines.
func genNumKey(repo string) (string, error) {
	p, err := loadPkg(filepath.Join(repo, "pkg/document"))
	if err != nil {
		return "", err
	}
	fd := p.funcDecl("Document", "getOrCreateNumbering")
	if fd == nil {
		return "", fmt.Errorf("getOrCreateNumbering not found")
	}
	// by use, not by name: the key is the expression the map of abstract numbering definitions is indexed with (in
	// getOrCreateNumbering or a function of the package it calls); its fields are the fields of the *ListConfig
	// parameter that occur in the expression (or in the definition of the variable that holds it)
	// the cache, by shape: the struct fields of the package of type map[string]*AbstractNum
	cacheFields := map[string]bool{}
	for _, fn := range p.sortedFiles() {
		ast.Inspect(p.files[fn], func(n ast.Node) bool {
			st, ok := n.(*ast.StructType)
			if !ok {
				return true
			}
			for _, f := range st.Fields.List {
				if mt, ok := f.Type.(*ast.MapType); ok && exprString(mt.Key) == "string" && exprString(mt.Value) == "*AbstractNum" {
					for _, nm := range f.Names {
						cacheFields[nm.Name] = true
					}
				}
			}
			return true
		})
	}
	if len(cacheFields) == 0 {
		return "", fmt.Errorf("no struct field of type map[string]*AbstractNum (the cache of abstract numbering definitions) found")
	}
	var fields []string
	found := false
	for _, g := range reachFuncs(p, fd, 3, map[string]bool{}) {
		cfgParams := map[string]bool{}
		if g.Type.Params != nil {
			for _, prm := range g.Type.Params.List {
				if exprString(prm.Type) == "*ListConfig" {
					for _, n := range prm.Names {
						cfgParams[n.Name] = true
					}
				}
			}
		}
		var keyExprs []ast.Expr
		ast.Inspect(g.Body, func(n ast.Node) bool {
			ie, ok := n.(*ast.IndexExpr)
			if ok {
				if sel, isSel := ie.X.(*ast.SelectorExpr); isSel && cacheFields[sel.Sel.Name] {
					keyExprs = append(keyExprs, ie.Index)
				}
			}
			return true
		})
		for _, ke := range keyExprs {
			def := ke
			if id, ok := ke.(*ast.Ident); ok {
				ast.Inspect(g.Body, func(n ast.Node) bool {
					as, ok := n.(*ast.AssignStmt)
					if ok && len(as.Lhs) == 1 && len(as.Rhs) == 1 {
						if l, ok := as.Lhs[0].(*ast.Ident); ok && l.Name == id.Name {
							def = as.Rhs[0]
						}
					}
					return true
				})
			}
			ast.Inspect(def, func(n ast.Node) bool {
				if sel, ok := n.(*ast.SelectorExpr); ok {
					if x, ok := sel.X.(*ast.Ident); ok && cfgParams[x.Name] {
						found = true
						dup := false
						for _, f := range fields {
							if f == sel.Sel.Name {
								dup = true
							}
						}
						if !dup {
							fields = append(fields, sel.Sel.Name)
						}
					}
				}
				return true
			})
		}
	}
	if !found {
		return "", fmt.Errorf("the key of the abstract numbering cache (the index of a map[string]*AbstractNum field) does not mention the list configuration")
	}
	// level range: for i := LO; i <= HI; i++ in createAbstractNum (literals or named constants)
	consts := numConsts(p)
	lo, hi := "", ""
	// by use: the loop (in getOrCreateNumbering or a function of the package it calls) whose body fills .Levels
	for _, cf := range reachFuncs(p, fd, 3, map[string]bool{}) {
		ast.Inspect(cf, func(n ast.Node) bool {
			fs, ok := n.(*ast.ForStmt)
			if !ok {
				return true
			}
			fills := false
			ast.Inspect(fs.Body, func(m ast.Node) bool {
				switch x := m.(type) {
				case *ast.SelectorExpr:
					if x.Sel.Name == "Levels" {
						fills = true
					}
				case *ast.CompositeLit:
					if id, ok := x.Type.(*ast.Ident); ok && id.Name == "Level" {
						fills = true
					}
				case *ast.CallExpr:
					// a call of a function of the package that returns a *Level
					name := ""
					switch f := x.Fun.(type) {
					case *ast.Ident:
						name = f.Name
					case *ast.SelectorExpr:
						name = f.Sel.Name
					}
					for _, g := range p.allFuncs() {
						if g.Name.Name == name && g.Type.Results != nil && len(g.Type.Results.List) == 1 && exprString(g.Type.Results.List[0].Type) == "*Level" {
							fills = true
						}
					}
				}
				return true
			})
			if !fills {
				return true
			}
			if as, ok := fs.Init.(*ast.AssignStmt); ok && len(as.Rhs) == 1 {
				if l, ok := numOf(as.Rhs[0], consts); ok {
					lo = l
				}
			}
			// i <= b, or i < b+1 (the bound as a literal or a named constant)
			if be, ok := fs.Cond.(*ast.BinaryExpr); ok && (be.Op == token.LEQ || be.Op == token.LSS) {
				if l, ok := numOf(be.Y, consts); ok {
					if be.Op == token.LEQ {
						hi = l
					} else if n, err := strconv.Atoi(l); err == nil && n > 0 {
						hi = strconv.Itoa(n - 1)
					}
				}
			}
			return true
		})
	}
	if lo == "" || hi == "" {
		return "", fmt.Errorf("the loop that fills the levels of an abstract numbering definition (`for i := a; i <= b; i++` or `i < b`) not found")
	}
	var b strings.Builder
	b.WriteString("From Coq Require Import List String.\nImport ListNotations.\nOpen Scope string_scope.\n\n")
	fmt.Fprintf(&b, "(* fields of ListConfig that enter the cache key of abstract numbering definitions *)\nDefinition numkey_fields : list string := %s.\n", coqStringList(fields))
	fmt.Fprintf(&b, "(* levels defined by createAbstractNum *)\nDefinition level_lo : nat := %s.\nDefinition level_hi : nat := %s.\n", lo, hi)
	return b.String(), nil
}

// genHeadingMap: getHeadingLevel as a table over the style ids its source can tell apart. The candidates are the
// string literals of getHeadingLevel, of the functions of the package it calls and of the tables of the package these
// name, each also followed by 0..10; the level of a candidate is what the function returns for a paragraph with that
// style id, computed by the evaluator of goeval.go (which refuses what it does not know, so that a function written
// in a way it cannot follow is reported as untranslatable rather than guessed at). Ids outside the table are covered
// by the general rule of Model/Lists.v, which the correspondence check compares with the code.
func genHeadingMap(repo string) (string, error) {
	p, err := loadPkg(filepath.Join(repo, "pkg/document"))
	if err != nil {
		return "", err
	}
	fd := p.funcDecl("Document", "getHeadingLevel")
	if fd == nil {
		return "", fmt.Errorf("getHeadingLevel not found")
	}
	if fd.Type.Params == nil || len(fd.Type.Params.List) != 1 || len(fd.Type.Params.List[0].Names) != 1 || exprString(fd.Type.Params.List[0].Type) != "*Paragraph" {
		return "", fmt.Errorf("getHeadingLevel does not take one paragraph")
	}
	var cands []string
	seen := map[string]bool{}
	add := func(c string) {
		if !seen[c] && len(c) <= 40 {
			seen[c] = true
			cands = append(cands, c)
		}
	}
	var lits []string
	litSeen := map[string]bool{}
	collect := func(n ast.Node) {
		ast.Inspect(n, func(m ast.Node) bool {
			if bl, ok := m.(*ast.BasicLit); ok && bl.Kind == token.STRING {
				v := unquote(bl.Value)
				if !litSeen[v] {
					litSeen[v] = true
					lits = append(lits, v)
				}
			}
			return true
		})
	}
	named := map[string]bool{}
	for _, g := range reachFuncs(p, fd, 3, map[string]bool{}) {
		collect(g.Body)
		ast.Inspect(g.Body, func(m ast.Node) bool {
			if id, ok := m.(*ast.Ident); ok {
				named[id.Name] = true
			}
			return true
		})
	}
	for _, fn := range p.sortedFiles() {
		for _, d := range p.files[fn].Decls {
			gd, ok := d.(*ast.GenDecl)
			if !ok || (gd.Tok != token.VAR && gd.Tok != token.CONST) {
				continue
			}
			for _, sp := range gd.Specs {
				vs := sp.(*ast.ValueSpec)
				for i, n := range vs.Names {
					if named[n.Name] && i < len(vs.Values) {
						collect(vs.Values[i])
					}
				}
			}
		}
	}
	for _, l := range lits {
		add(l)
	}
	for _, l := range lits {
		for d := 0; d <= 10; d++ {
			add(l + strconv.Itoa(d))
		}
	}
	var rows []string
	for _, c := range cands {
		in := &gInterp{p: p}
		res, err := in.callFunc(fd, []gval{gopaque{path: "paragraph", leaves: map[string]gval{"Val": c}}})
		if err != nil {
			return "", fmt.Errorf("getHeadingLevel on %q: %v", c, err)
		}
		if len(res) != 1 {
			return "", fmt.Errorf("getHeadingLevel has %d results", len(res))
		}
		lvl, ok := res[0].(int64)
		if !ok {
			return "", fmt.Errorf("getHeadingLevel does not return an integer")
		}
		if lvl < 0 {
			return "", fmt.Errorf("getHeadingLevel(%q) is negative", c)
		}
		if lvl != 0 {
			rows = append(rows, fmt.Sprintf("(%s, %d)", coqString(c), lvl))
		}
	}
	if len(rows) == 0 {
		return "", fmt.Errorf("getHeadingLevel maps none of the style ids its source names to a level")
	}
	sort.Strings(rows)
	var b strings.Builder
	b.WriteString("From Coq Require Import List String.\nImport ListNotations.\nOpen Scope string_scope.\n\n")
	fmt.Fprintf(&b, "(* getHeadingLevel: style id -> heading level, for the ids its source names (evaluated, sorted) *)\nDefinition heading_table : list (string * nat) := [\n  %s\n].\n", strings.Join(rows, ";\n  "))
	return b.String(), nil
}
