package main

import (
	"fmt"
	"go/ast"
	"go/token"
	"path/filepath"
	"strconv"
	"strings"
)

func init() {
	register("NumKey", genNumKey)
	register("HeadingMap", genHeadingMap)
}

// genNumKey: the fields of the list configuration that enter the cache key of abstract numbering
// definitions (the arguments of the Sprintf assigned to abstractKey in getOrCreateNumbering), and the
// range of levels createAbstractNum defines.
func genNumKey(repo string) (string, error) {
	p, err := loadPkg(filepath.Join(repo, "pkg/document"))
	if err != nil {
		return "", err
	}
	fd := p.funcDecl("Document", "getOrCreateNumbering")
	if fd == nil {
		return "", fmt.Errorf("getOrCreateNumbering not found")
	}
	// by use, not by name: the key is the expression the map of abstract numbering definitions is indexed with (in
	// getOrCreateNumbering or a function of the package it calls); its fields are the fields of the *ListConfig
	// parameter that occur in the expression (or in the definition of the variable that holds it)
	var fields []string
	found := false
	for _, g := range reachFuncs(p, fd, 3, map[string]bool{}) {
		cfgParams := map[string]bool{}
		if g.Type.Params != nil {
			for _, prm := range g.Type.Params.List {
				if exprString(prm.Type) == "*ListConfig" {
					for _, n := range prm.Names {
						cfgParams[n.Name] = true
					}
				}
			}
		}
		var keyExprs []ast.Expr
		ast.Inspect(g.Body, func(n ast.Node) bool {
			ie, ok := n.(*ast.IndexExpr)
			if ok && strings.HasSuffix(exprStringDeep(ie.X), ".abstractNums") {
				keyExprs = append(keyExprs, ie.Index)
			}
			return true
		})
		for _, ke := range keyExprs {
			def := ke
			if id, ok := ke.(*ast.Ident); ok {
				ast.Inspect(g.Body, func(n ast.Node) bool {
					as, ok := n.(*ast.AssignStmt)
					if ok && len(as.Lhs) == 1 && len(as.Rhs) == 1 {
						if l, ok := as.Lhs[0].(*ast.Ident); ok && l.Name == id.Name {
							def = as.Rhs[0]
						}
					}
					return true
				})
			}
			ast.Inspect(def, func(n ast.Node) bool {
				if sel, ok := n.(*ast.SelectorExpr); ok {
					if x, ok := sel.X.(*ast.Ident); ok && cfgParams[x.Name] {
						found = true
						dup := false
						for _, f := range fields {
							if f == sel.Sel.Name {
								dup = true
							}
						}
						if !dup {
							fields = append(fields, sel.Sel.Name)
						}
					}
				}
				return true
			})
		}
	}
	if !found {
		return "", fmt.Errorf("the key of the abstract numbering cache (index of .abstractNums) does not mention the list configuration")
	}
	// level range: for i := LO; i <= HI; i++ in createAbstractNum (literals or named constants)
	consts := numConsts(p)
	lo, hi := "", ""
	if cf := p.funcDecl("Document", "createAbstractNum"); cf != nil {
		ast.Inspect(cf, func(n ast.Node) bool {
			fs, ok := n.(*ast.ForStmt)
			if !ok {
				return true
			}
			if as, ok := fs.Init.(*ast.AssignStmt); ok && len(as.Rhs) == 1 {
				if l, ok := numOf(as.Rhs[0], consts); ok {
					lo = l
				}
			}
			// i <= b, or i < b+1 (the bound as a literal or a named constant)
			if be, ok := fs.Cond.(*ast.BinaryExpr); ok && (be.Op == token.LEQ || be.Op == token.LSS) {
				if l, ok := numOf(be.Y, consts); ok {
					if be.Op == token.LEQ {
						hi = l
					} else if n, err := strconv.Atoi(l); err == nil && n > 0 {
						hi = strconv.Itoa(n - 1)
					}
				}
			}
			return true
		})
	}
	if lo == "" || hi == "" {
		return "", fmt.Errorf("createAbstractNum: level loop `for i := a; i <= b; i++` (or `i < b`) not found")
	}
	var b strings.Builder
	b.WriteString("From Coq Require Import List String.\nImport ListNotations.\nOpen Scope string_scope.\n\n")
	fmt.Fprintf(&b, "(* fields of ListConfig that enter the cache key of abstract numbering definitions *)\nDefinition numkey_fields : list string := %s.\n", coqStringList(fields))
	fmt.Fprintf(&b, "(* levels defined by createAbstractNum *)\nDefinition level_lo : nat := %s.\nDefinition level_hi : nat := %s.\n", lo, hi)
	return b.String(), nil
}

// genHeadingMap: the `switch styleVal { case "...": return N }` tables of getHeadingLevel.
func genHeadingMap(repo string) (string, error) {
	p, err := loadPkg(filepath.Join(repo, "pkg/document"))
	if err != nil {
		return "", err
	}
	fd := p.funcDecl("Document", "getHeadingLevel")
	if fd == nil {
		return "", fmt.Errorf("getHeadingLevel not found")
	}
	var rows []string
	ast.Inspect(fd, func(n ast.Node) bool {
		sw, ok := n.(*ast.SwitchStmt)
		if !ok {
			return true
		}
		for _, st := range sw.Body.List {
			cc := st.(*ast.CaseClause)
			lvl := ""
			for _, s := range cc.Body {
				if rs, ok := s.(*ast.ReturnStmt); ok && len(rs.Results) == 1 {
					if bl, ok := rs.Results[0].(*ast.BasicLit); ok {
						lvl = bl.Value
					}
				}
			}
			for _, e := range cc.List {
				if bl, ok := e.(*ast.BasicLit); ok && bl.Kind == token.STRING && lvl != "" {
					rows = append(rows, fmt.Sprintf("(%s, %s)", coqString(unquote(bl.Value)), lvl))
				}
			}
		}
		return true
	})
	if len(rows) == 0 {
		return "", fmt.Errorf("no style tables found in getHeadingLevel")
	}
	var b strings.Builder
	b.WriteString("From Coq Require Import List String.\nImport ListNotations.\nOpen Scope string_scope.\n\n")
	fmt.Fprintf(&b, "(* getHeadingLevel: style id -> heading level (switch tables, in source order) *)\nDefinition heading_table : list (string * nat) := [\n  %s\n].\n", strings.Join(rows, ";\n  "))
	return b.String(), nil
}
