package main

import (
	"fmt"
	"go/ast"
	"go/token"
	"path/filepath"
	"strings"
)

func init() { register("SaveEffects", genSaveEffects) }

// callName renders the callee of a call expression as "recv.Method" / "pkg.Func" / "func".
func callName(c *ast.CallExpr) string {
	switch f := c.Fun.(type) {
	case *ast.SelectorExpr:
		if id, ok := f.X.(*ast.Ident); ok {
			return id.Name + "." + f.Sel.Name
		}
		return "?." + f.Sel.Name
	case *ast.Ident:
		return f.Name
	}
	return "?"
}

// returnsError: the block returns a non-nil error expression (anything but the identifier nil).
// returnsError: the block returns a non-nil error. When v names the error that was just tested and others the error
// variables of earlier calls, a return that is built from one of the others and not from v does not count: at that
// point the other variable is nil (its call succeeded), and wrapping nil gives nil.
func returnsError(b *ast.BlockStmt) bool { return returnsErrorOf(b, "", nil) }

func returnsErrorOf(b *ast.BlockStmt, v string, others map[string]bool) bool {
	if b == nil {
		return false
	}
	for _, st := range b.List {
		if rs, ok := st.(*ast.ReturnStmt); ok && len(rs.Results) >= 1 {
			last := rs.Results[len(rs.Results)-1]
			if id, ok := last.(*ast.Ident); ok && id.Name == "nil" {
				return false
			}
			usesV, usesOther := false, false
			ast.Inspect(last, func(n ast.Node) bool {
				if id, ok := n.(*ast.Ident); ok {
					if v != "" && id.Name == v {
						usesV = true
					} else if others[id.Name] {
						usesOther = true
					}
				}
				return true
			})
			if usesOther && !usesV {
				return false
			}
			return true
		}
	}
	return false
}

// isErrNotNil: the condition `v != nil` for the variable v that holds the error of the call
func isErrNotNil(e ast.Expr, v string) bool {
	if p, ok := e.(*ast.ParenExpr); ok {
		return isErrNotNil(p.X, v)
	}
	be, ok := e.(*ast.BinaryExpr)
	if !ok || be.Op != token.NEQ || v == "" {
		return false
	}
	x, ok1 := be.X.(*ast.Ident)
	y, ok2 := be.Y.(*ast.Ident)
	if ok1 && ok2 && x.Name == "nil" {
		x, y = y, x
	}
	return ok1 && ok2 && x.Name == v && y.Name == "nil"
}

// errVarOf: the variable that receives the error of a call - by Go's convention the last result; "" when it is
// discarded or not a plain variable
func errVarOf(lhs []ast.Expr) string {
	if len(lhs) == 0 {
		return ""
	}
	id, ok := lhs[len(lhs)-1].(*ast.Ident)
	if !ok || id.Name == "_" {
		return ""
	}
	return id.Name
}

type effect struct {
	Call    string
	Checked bool
	How     string
	Pos     string
}

// saveEffects walks the statements of a function in order and classifies every call of interest.
//
// Calls are named by the role of their receiver, not by the name of the variable: a variable assigned from
// zip.NewWriter is a "zipWriter", one assigned from os.Create / os.OpenFile a "file", one assigned from the Create of
// a zipWriter a "writer"; a parameter takes the role of the argument it is called with.  Calls of functions and
// methods declared in the same package are followed (their effects appear in place, in order); an effect inside such
// a function reaches the return value of the outer function only if it is checked there and the call of the function
// is checked too.
type saveWalk struct {
	p           *pkgSrc
	interesting func(string) bool
	out         []effect
	truncates   bool
	visiting    map[string]bool
	errVars     map[string]bool
	otherPaths  []string // files created or opened for writing under a name that is not the target handed to Save
}

func (w *saveWalk) roleName(c *ast.CallExpr, roles map[string]string) string {
	if f, ok := c.Fun.(*ast.SelectorExpr); ok {
		if id, ok := f.X.(*ast.Ident); ok {
			if r, ok := roles[id.Name]; ok {
				return r + "." + f.Sel.Name
			}
		}
	}
	return callName(c)
}

// localFunc: the declaration of the function or method a call refers to, when it is declared in this package
func (w *saveWalk) localFunc(c *ast.CallExpr) *ast.FuncDecl {
	name := ""
	switch f := c.Fun.(type) {
	case *ast.Ident:
		name = f.Name
	case *ast.SelectorExpr:
		if _, ok := f.X.(*ast.Ident); ok {
			name = f.Sel.Name
		}
	}
	if name == "" {
		return nil
	}
	var found *ast.FuncDecl
	n := 0
	for _, fd := range w.p.allFuncs() {
		if fd.Name.Name == name && fd.Body != nil {
			found = fd
			n++
		}
	}
	if n != 1 {
		return nil
	}
	// a selector call must be a method call on a value (d.helper), not a call into another package (os.Create)
	if sel, ok := c.Fun.(*ast.SelectorExpr); ok && found.Recv == nil {
		_ = sel
		return nil
	}
	return found
}

func (w *saveWalk) noteRoles(lhs []ast.Expr, c *ast.CallExpr, roles map[string]string) {
	if len(lhs) == 0 {
		return
	}
	id, ok := lhs[0].(*ast.Ident)
	if !ok || id.Name == "_" {
		return
	}
	switch n := w.roleName(c, roles); n {
	case "zip.NewWriter":
		roles[id.Name] = "zipWriter"
	case "os.Create", "os.OpenFile":
		roles[id.Name] = "file"
	case "zipWriter.Create":
		roles[id.Name] = "writer"
	}
}

// call: one call met in statement position; checked = its error reaches the return value of the function walked
func (w *saveWalk) call(c *ast.CallExpr, checked bool, how string, roles map[string]string, outerChecked bool) {
	name := w.roleName(c, roles)
	if name == "os.OpenFile" && len(c.Args) >= 2 {
		ast.Inspect(c.Args[1], func(m ast.Node) bool {
			if s, ok := m.(*ast.SelectorExpr); ok && s.Sel.Name == "O_TRUNC" {
				w.truncates = true
			}
			return true
		})
	}
	if name == "os.Create" {
		w.truncates = true
	}
	if (name == "os.Create" || name == "os.OpenFile") && len(c.Args) >= 1 {
		// the file that is written is the target itself (a variable that holds the parameter of Save)
		id, isID := c.Args[0].(*ast.Ident)
		if !isID || roles[id.Name] != "target" {
			w.otherPaths = append(w.otherPaths, w.p.pos(c))
		}
	}
	if w.interesting(name) {
		w.out = append(w.out, effect{name, checked && outerChecked, how, w.p.pos(c)})
		return
	}
	if fd := w.localFunc(c); fd != nil && !w.visiting[fd.Name.Name] && len(w.visiting) < 6 {
		inner := map[string]string{}
		if fd.Type.Params != nil {
			k := 0
			for _, prm := range fd.Type.Params.List {
				for _, pn := range prm.Names {
					if k < len(c.Args) {
						a := c.Args[k]
						if u, ok := a.(*ast.UnaryExpr); ok {
							a = u.X
						}
						if id, ok := a.(*ast.Ident); ok {
							if r, ok := roles[id.Name]; ok {
								inner[pn.Name] = r
							}
						}
					}
					k++
				}
			}
		}
		w.visiting[fd.Name.Name] = true
		w.walk(fd.Body.List, inner, checked && outerChecked)
		delete(w.visiting, fd.Name.Name)
	}
}

// error variables of the calls met so far in the function being walked
func (w *saveWalk) noteErrVar(v string) {
	if v == "" {
		return
	}
	if w.errVars == nil {
		w.errVars = map[string]bool{}
	}
	w.errVars[v] = true
}

func (w *saveWalk) otherErrVars(v string) map[string]bool {
	out := map[string]bool{}
	for k := range w.errVars {
		if k != v {
			out[k] = true
		}
	}
	return out
}

func (w *saveWalk) walk(list []ast.Stmt, roles map[string]string, outerChecked bool) {
	for i, st := range list {
		switch s := st.(type) {
		case *ast.IfStmt:
			if as, ok := s.Init.(*ast.AssignStmt); ok && len(as.Rhs) == 1 {
				if c, ok := as.Rhs[0].(*ast.CallExpr); ok {
					w.call(c, isErrNotNil(s.Cond, errVarOf(as.Lhs)) && returnsErrorOf(s.Body, errVarOf(as.Lhs), w.otherErrVars(errVarOf(as.Lhs))), "if err := ...; err != nil { return err }", roles, outerChecked)
					w.noteErrVar(errVarOf(as.Lhs))
					w.noteRoles(as.Lhs, c, roles)
				}
			}
			w.walk(s.Body.List, roles, outerChecked)
			if eb, ok := s.Else.(*ast.BlockStmt); ok {
				w.walk(eb.List, roles, outerChecked)
			}
		case *ast.AssignStmt:
			if len(s.Rhs) == 1 {
				if c, ok := s.Rhs[0].(*ast.CallExpr); ok {
					checked := false
					// x, err := f(); if err != nil { return ... } as the next statement
					ev := errVarOf(s.Lhs)
					if ev != "" {
						checked = handledByNext(list[i+1:], ev, w.otherErrVars(ev))
					}
					w.noteErrVar(ev)
					w.call(c, checked, "assigned, then checked by the next statement", roles, outerChecked)
					w.noteRoles(s.Lhs, c, roles)
				}
			}
		case *ast.DeclStmt:
			// var x = f()
			if gd, ok := s.Decl.(*ast.GenDecl); ok {
				for _, sp := range gd.Specs {
					if vs, ok := sp.(*ast.ValueSpec); ok && len(vs.Values) == 1 && len(vs.Names) >= 1 {
						if c, ok := vs.Values[0].(*ast.CallExpr); ok {
							w.call(c, false, "declared", roles, outerChecked)
							w.noteRoles([]ast.Expr{vs.Names[0]}, c, roles)
						}
					}
				}
			}
		case *ast.DeferStmt:
			w.call(s.Call, false, "deferred: result dropped", roles, outerChecked)
		case *ast.ExprStmt:
			if c, ok := s.X.(*ast.CallExpr); ok {
				w.call(c, false, "expression statement: result dropped", roles, outerChecked)
			}
		case *ast.RangeStmt:
			w.walk(s.Body.List, roles, outerChecked)
		case *ast.ForStmt:
			w.walk(s.Body.List, roles, outerChecked)
		case *ast.BlockStmt:
			w.walk(s.List, roles, outerChecked)
		case *ast.SwitchStmt:
			for _, cc := range s.Body.List {
				if cl, ok := cc.(*ast.CaseClause); ok {
					w.walk(cl.Body, roles, outerChecked)
				}
			}
		case *ast.ReturnStmt:
			for _, r := range s.Results {
				if c, ok := r.(*ast.CallExpr); ok {
					w.call(c, true, "returned", roles, outerChecked)
				}
			}
		}
	}
}

func saveEffects(p *pkgSrc, fd *ast.FuncDecl, interesting func(string) bool) ([]effect, bool, []string) {
	w := &saveWalk{p: p, interesting: interesting, visiting: map[string]bool{fd.Name.Name: true}}
	roles := map[string]string{}
	if fd.Type.Params != nil && len(fd.Type.Params.List) > 0 && len(fd.Type.Params.List[0].Names) > 0 {
		roles[fd.Type.Params.List[0].Names[0].Name] = "target"
	}
	w.walk(fd.Body.List, roles, true)
	return w.out, w.truncates, w.otherPaths
}

func genSaveEffects(repo string) (string, error) {
	p, err := loadPkg(filepath.Join(repo, "pkg/document"))
	if err != nil {
		return "", err
	}
	fd := p.funcDecl("Document", "Save")
	if fd == nil {
		return "", fmt.Errorf("Document.Save not found")
	}
	interesting := func(n string) bool {
		switch n {
		case "os.MkdirAll", "os.Create", "os.OpenFile", "zipWriter.Create", "writer.Write", "zipWriter.Close", "file.Close", "zipWriter.Flush", "file.Sync":
			return true
		}
		return false
	}
	effs, truncates, otherPaths := saveEffects(p, fd, interesting)
	var b strings.Builder
	b.WriteString("From Coq Require Import List String Bool.\nImport ListNotations.\nOpen Scope string_scope.\n\n")
	b.WriteString("(* calls of Document.Save that can fail, in source order: (call, its error reaches the return value) *)\nDefinition save_effects : list (string * bool) := [\n")
	var rows []string
	opens := 0
	for _, e := range effs {
		rows = append(rows, fmt.Sprintf("  (* %s: %s *) (%s, %v)", e.Pos, e.How, coqString(e.Call), e.Checked))
		if e.Call == "os.Create" || e.Call == "os.OpenFile" {
			opens++
		}
	}
	b.WriteString(strings.Join(rows, ";\n") + "\n].\n\n")
	if opens != 1 {
		return "", fmt.Errorf("Save opens the target %d times (expected exactly one os.Create / os.OpenFile)", opens)
	}
	fmt.Fprintf(&b, "(* the target file is opened with truncation (os.Create, or os.OpenFile with O_TRUNC) *)\nDefinition save_open_truncates : bool := %v.\n", truncates)
	fmt.Fprintf(&b, "(* Save creates no file under a name of its own making (a name derived from the target can be the same for two\n   targets; os.CreateTemp is not counted): positions of such calls *)\nDefinition save_other_files : list string := %s.\n", coqStringList(otherPaths))
	return b.String(), nil
}

// isErrIsNil: the condition `v == nil`
func isErrIsNil(e ast.Expr, v string) bool {
	if p, ok := e.(*ast.ParenExpr); ok {
		return isErrIsNil(p.X, v)
	}
	be, ok := e.(*ast.BinaryExpr)
	if !ok || be.Op != token.EQL || v == "" {
		return false
	}
	x, ok1 := be.X.(*ast.Ident)
	y, ok2 := be.Y.(*ast.Ident)
	if ok1 && ok2 && x.Name == "nil" {
		x, y = y, x
	}
	return ok1 && ok2 && x.Name == v && y.Name == "nil"
}

// handledBy: the statement that follows a call makes the error held by v reach the return value whenever it is not
// nil: `if v != nil { return ..err }`, `if v == nil {...} else { return ..err }`, `return .., v`, or a tagless switch
// whose clauses other than `case v == nil` (there must be a default among them) all return the error
func handledBy(st ast.Stmt, v string, others map[string]bool) bool {
	switch nx := st.(type) {
	case *ast.IfStmt:
		if nx.Init != nil {
			return false
		}
		if isErrNotNil(nx.Cond, v) {
			return returnsErrorOf(nx.Body, v, others)
		}
		if isErrIsNil(nx.Cond, v) {
			eb, ok := nx.Else.(*ast.BlockStmt)
			return ok && returnsErrorOf(eb, v, others)
		}
	case *ast.ReturnStmt:
		if len(nx.Results) >= 1 {
			id, ok := nx.Results[len(nx.Results)-1].(*ast.Ident)
			return ok && id.Name == v
		}
	case *ast.SwitchStmt:
		if nx.Tag != nil || nx.Init != nil {
			return false
		}
		sawDefault, sawNil := false, false
		for i, cl := range nx.Body.List {
			cc := cl.(*ast.CaseClause)
			if len(cc.List) == 1 && isErrIsNil(cc.List[0], v) {
				if i != 0 {
					return false // an earlier clause could take a nil error away; keep to the plain shape
				}
				sawNil = true
				continue
			}
			if cc.List == nil {
				sawDefault = true
			}
			if !returnsErrorOf(&ast.BlockStmt{List: cc.Body}, v, others) {
				return false
			}
		}
		return sawDefault && sawNil
	}
	return false
}

// handledByNext: the statements that follow a call handle its error: the first one does (handledBy), or it is an
// early return for a special case of the error (`if v != nil && ... { return ..err }`) and what follows handles it
func handledByNext(rest []ast.Stmt, v string, others map[string]bool) bool {
	for _, st := range rest {
		if handledBy(st, v, others) {
			return true
		}
		is, ok := st.(*ast.IfStmt)
		if !ok || is.Init != nil || is.Else != nil {
			return false
		}
		var conj []ast.Expr
		var flat func(e ast.Expr)
		flat = func(e ast.Expr) {
			if b, ok := e.(*ast.BinaryExpr); ok && b.Op == token.LAND {
				flat(b.X)
				flat(b.Y)
				return
			}
			conj = append(conj, e)
		}
		flat(is.Cond)
		special := false
		for _, c := range conj {
			if isErrNotNil(c, v) {
				special = true
			}
		}
		if !special || !returnsErrorOf(is.Body, v, others) {
			return false
		}
	}
	return false
}
