package main

import (
	"fmt"
	"go/ast"
	"go/token"
	"path/filepath"
	"strings"
)

func init() { register("SaveEffects", genSaveEffects) }

// callName renders the callee of a call expression as "recv.Method" / "pkg.Func" / "func".
func callName(c *ast.CallExpr) string {
	switch f := c.Fun.(type) {
	case *ast.SelectorExpr:
		if id, ok := f.X.(*ast.Ident); ok {
			return id.Name + "." + f.Sel.Name
		}
		return "?." + f.Sel.Name
	case *ast.Ident:
		return f.Name
	}
	return "?"
}

// returnsError: the block returns a non-nil error expression (anything but the identifier nil).
func returnsError(b *ast.BlockStmt) bool {
	if b == nil {
		return false
	}
	for _, st := range b.List {
		if rs, ok := st.(*ast.ReturnStmt); ok && len(rs.Results) >= 1 {
			last := rs.Results[len(rs.Results)-1]
			if id, ok := last.(*ast.Ident); ok && id.Name == "nil" {
				return false
			}
			return true
		}
	}
	return false
}

func isErrNotNil(e ast.Expr) bool {
	be, ok := e.(*ast.BinaryExpr)
	if !ok || be.Op != token.NEQ {
		return false
	}
	x, ok1 := be.X.(*ast.Ident)
	y, ok2 := be.Y.(*ast.Ident)
	return ok1 && ok2 && x.Name == "err" && y.Name == "nil"
}

type effect struct {
	Call    string
	Checked bool
	How     string
	Pos     string
}

// saveEffects walks the statements of a function in order and classifies every call of interest.
func saveEffects(p *pkgSrc, fd *ast.FuncDecl, interesting func(string) bool) []effect {
	var out []effect
	var walk func(list []ast.Stmt)
	walk = func(list []ast.Stmt) {
		for i, st := range list {
			switch s := st.(type) {
			case *ast.IfStmt:
				if as, ok := s.Init.(*ast.AssignStmt); ok && len(as.Rhs) == 1 {
					if c, ok := as.Rhs[0].(*ast.CallExpr); ok && interesting(callName(c)) {
						out = append(out, effect{callName(c), isErrNotNil(s.Cond) && returnsError(s.Body), "if err := ...; err != nil { return err }", p.pos(c)})
					}
				}
				walk(s.Body.List)
				if eb, ok := s.Else.(*ast.BlockStmt); ok {
					walk(eb.List)
				}
			case *ast.AssignStmt:
				if len(s.Rhs) == 1 {
					if c, ok := s.Rhs[0].(*ast.CallExpr); ok && interesting(callName(c)) {
						checked := false
						// x, err := f(); if err != nil { return ... } as the next statement
						assignsErr := false
						for _, l := range s.Lhs {
							if id, ok := l.(*ast.Ident); ok && id.Name == "err" {
								assignsErr = true
							}
						}
						if assignsErr && i+1 < len(list) {
							if nx, ok := list[i+1].(*ast.IfStmt); ok && nx.Init == nil && isErrNotNil(nx.Cond) && returnsError(nx.Body) {
								checked = true
							}
						}
						out = append(out, effect{callName(c), checked, "assigned, then checked by the next statement", p.pos(c)})
					}
				}
			case *ast.DeferStmt:
				if interesting(callName(s.Call)) {
					out = append(out, effect{callName(s.Call), false, "deferred: result dropped", p.pos(s.Call)})
				}
			case *ast.ExprStmt:
				if c, ok := s.X.(*ast.CallExpr); ok && interesting(callName(c)) {
					out = append(out, effect{callName(c), false, "expression statement: result dropped", p.pos(c)})
				}
			case *ast.RangeStmt:
				walk(s.Body.List)
			case *ast.ForStmt:
				walk(s.Body.List)
			case *ast.BlockStmt:
				walk(s.List)
			case *ast.ReturnStmt:
				for _, r := range s.Results {
					if c, ok := r.(*ast.CallExpr); ok && interesting(callName(c)) {
						out = append(out, effect{callName(c), true, "returned", p.pos(c)})
					}
				}
			}
		}
	}
	walk(fd.Body.List)
	return out
}

func genSaveEffects(repo string) (string, error) {
	p, err := loadPkg(filepath.Join(repo, "pkg/document"))
	if err != nil {
		return "", err
	}
	fd := p.funcDecl("Document", "Save")
	if fd == nil {
		return "", fmt.Errorf("Document.Save not found")
	}
	interesting := func(n string) bool {
		switch n {
		case "os.MkdirAll", "os.Create", "os.OpenFile", "zipWriter.Create", "writer.Write", "zipWriter.Close", "file.Close", "zipWriter.Flush", "file.Sync":
			return true
		}
		return false
	}
	effs := saveEffects(p, fd, interesting)
	var b strings.Builder
	b.WriteString("From Coq Require Import List String Bool.\nImport ListNotations.\nOpen Scope string_scope.\n\n")
	b.WriteString("(* calls of Document.Save that can fail, in source order: (call, its error reaches the return value) *)\nDefinition save_effects : list (string * bool) := [\n")
	var rows []string
	opens, truncates := 0, false
	for _, e := range effs {
		rows = append(rows, fmt.Sprintf("  (* %s: %s *) (%s, %v)", e.Pos, e.How, coqString(e.Call), e.Checked))
		if e.Call == "os.Create" {
			opens++
			truncates = true
		}
		if e.Call == "os.OpenFile" {
			opens++
		}
	}
	b.WriteString(strings.Join(rows, ";\n") + "\n].\n\n")
	// os.OpenFile: does the flag expression mention O_TRUNC?
	ast.Inspect(fd, func(n ast.Node) bool {
		if c, ok := n.(*ast.CallExpr); ok && callName(c) == "os.OpenFile" && len(c.Args) >= 2 {
			ast.Inspect(c.Args[1], func(m ast.Node) bool {
				if s, ok := m.(*ast.SelectorExpr); ok && s.Sel.Name == "O_TRUNC" {
					truncates = true
				}
				return true
			})
		}
		return true
	})
	if opens != 1 {
		return "", fmt.Errorf("Save opens the target %d times (expected exactly one os.Create / os.OpenFile)", opens)
	}
	fmt.Fprintf(&b, "(* the target file is opened with truncation (os.Create, or os.OpenFile with O_TRUNC) *)\nDefinition save_open_truncates : bool := %v.\n", truncates)
	return b.String(), nil
}
