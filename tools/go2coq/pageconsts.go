package main

import (
	"fmt"
	"go/ast"
	"go/token"
	"path/filepath"
	"sort"
	"strings"
)

func init() { register("PageConsts", genPageConsts) }

// floatLit returns the literal text of a numeric literal expression (INT or FLOAT), optionally negated.
func floatLit(e ast.Expr) (string, bool) {
	switch v := e.(type) {
	case *ast.BasicLit:
		if v.Kind == token.FLOAT || v.Kind == token.INT {
			return v.Value, true
		}
	case *ast.UnaryExpr:
		if v.Op == token.SUB {
			s, ok := floatLit(v.X)
			return "-" + s, ok
		}
	}
	return "", false
}

func localConst(fd *ast.FuncDecl, name string) (string, bool) {
	var res string
	found := false
	ast.Inspect(fd, func(n ast.Node) bool {
		gd, ok := n.(*ast.GenDecl)
		if !ok || gd.Tok != token.CONST {
			return true
		}
		for _, s := range gd.Specs {
			vs := s.(*ast.ValueSpec)
			for i, nm := range vs.Names {
				if nm.Name == name && i < len(vs.Values) {
					if l, ok := floatLit(vs.Values[i]); ok {
						res, found = l, true
					}
				}
			}
		}
		return true
	})
	return res, found
}

// singleReturnBinary matches "func f(x) T { return x OP lit }".
func singleReturnBinary(fd *ast.FuncDecl, op token.Token) (string, bool) {
	if fd == nil || fd.Body == nil || len(fd.Body.List) != 1 {
		return "", false
	}
	rs, ok := fd.Body.List[0].(*ast.ReturnStmt)
	if !ok || len(rs.Results) != 1 {
		return "", false
	}
	be, ok := rs.Results[0].(*ast.BinaryExpr)
	if !ok || be.Op != op {
		return "", false
	}
	if _, ok := be.X.(*ast.Ident); !ok {
		return "", false
	}
	return floatLit(be.Y)
}

func genPageConsts(repo string) (string, error) {
	p, err := loadPkg(filepath.Join(repo, "pkg/document"))
	if err != nil {
		return "", err
	}
	consts := p.stringConsts()
	var b strings.Builder
	b.WriteString("From Coq Require Import ZArith List String.\nImport ListNotations.\nOpen Scope Z_scope.\nOpen Scope string_scope.\n\n")

	// mmToTwips / twipsToMM
	mul, ok := singleReturnBinary(p.funcDecl("", "mmToTwips"), token.MUL)
	if !ok {
		return "", fmt.Errorf("mmToTwips is not `return mm * <literal>`")
	}
	div, ok := singleReturnBinary(p.funcDecl("", "twipsToMM"), token.QUO)
	if !ok {
		return "", fmt.Errorf("twipsToMM is not `return twips / <literal>`")
	}
	m12, ok1 := decimalScaled(mul, 12)
	d12, ok2 := decimalScaled(div, 12)
	if !ok1 || !ok2 {
		return "", fmt.Errorf("conversion constants need more than 12 decimals")
	}
	fmt.Fprintf(&b, "(* page.go mmToTwips: mm * %s ; twipsToMM: twips / %s *)\n", mul, div)
	fmt.Fprintf(&b, "Definition mm_to_twips_e12 : Z := %s.\nDefinition twips_to_mm_div_e12 : Z := %s.\n\n", m12, d12)

	// predefinedSizes
	var sizes []string
	found := false
	for _, fn := range p.sortedFiles() {
		for _, d := range p.files[fn].Decls {
			gd, ok := d.(*ast.GenDecl)
			if !ok || gd.Tok != token.VAR {
				continue
			}
			for _, s := range gd.Specs {
				vs := s.(*ast.ValueSpec)
				if len(vs.Names) != 1 || vs.Names[0].Name != "predefinedSizes" || len(vs.Values) != 1 {
					continue
				}
				cl, ok := vs.Values[0].(*ast.CompositeLit)
				if !ok {
					return "", fmt.Errorf("predefinedSizes is not a composite literal")
				}
				found = true
				for _, el := range cl.Elts {
					kv, ok := el.(*ast.KeyValueExpr)
					if !ok {
						return "", fmt.Errorf("predefinedSizes element shape")
					}
					kid, ok := kv.Key.(*ast.Ident)
					if !ok {
						return "", fmt.Errorf("predefinedSizes key shape")
					}
					name, ok := consts[kid.Name]
					if !ok {
						return "", fmt.Errorf("predefinedSizes key %s is not a string constant", kid.Name)
					}
					vl, ok := kv.Value.(*ast.CompositeLit)
					if !ok || len(vl.Elts) != 2 {
						return "", fmt.Errorf("predefinedSizes value shape")
					}
					var dims []string
					for _, e := range vl.Elts {
						if kv2, ok := e.(*ast.KeyValueExpr); ok {
							e = kv2.Value
						}
						l, ok := floatLit(e)
						if !ok {
							return "", fmt.Errorf("predefinedSizes dimension is not a literal")
						}
						um, ok := decimalScaled(l, 3)
						if !ok {
							return "", fmt.Errorf("predefinedSizes dimension %s has more than 3 decimals", l)
						}
						dims = append(dims, um)
					}
					sizes = append(sizes, fmt.Sprintf("(%s, (%s, %s))", coqString(name), dims[0], dims[1]))
				}
			}
		}
	}
	if !found {
		return "", fmt.Errorf("predefinedSizes not found")
	}
	sort.Strings(sizes)
	fmt.Fprintf(&b, "(* predefinedSizes, micrometres (name, (width, height)), sorted by name *)\nDefinition predefined_um : list (string * (Z * Z)) :=\n  [%s].\n\n", strings.Join(sizes, ";\n   "))

	// custom-size name and orientation strings
	for _, c := range []string{"PageSizeCustom", "PageSizeA4", "OrientationPortrait", "OrientationLandscape"} {
		v, ok := consts[c]
		if !ok {
			return "", fmt.Errorf("constant %s not found", c)
		}
		fmt.Fprintf(&b, "Definition c_%s : string := %s.\n", c, coqString(v))
	}

	// tolerance, min, max
	tol, ok := localConst(p.funcDecl("", "identifyPageSize"), "tolerance")
	if !ok {
		return "", fmt.Errorf("identifyPageSize: const tolerance not found")
	}
	mn, ok1 := localConst(p.funcDecl("", "validatePageSettings"), "minSize")
	mx, ok2 := localConst(p.funcDecl("", "validatePageSettings"), "maxSize")
	if !ok1 || !ok2 {
		return "", fmt.Errorf("validatePageSettings: minSize/maxSize not found")
	}
	gtol, ok := localConst(p.funcDecl("Document", "GetPageSettings"), "tolerance")
	if !ok {
		return "", fmt.Errorf("GetPageSettings: const tolerance not found")
	}
	gtu, okg := decimalScaled(gtol, 3)
	if !okg {
		return "", fmt.Errorf("GetPageSettings tolerance precision")
	}
	tu, oka := decimalScaled(tol, 3)
	mnu, okb := decimalScaled(mn, 3)
	mxu, okc := decimalScaled(mx, 3)
	if !oka || !okb || !okc {
		return "", fmt.Errorf("tolerance/min/max have more than 3 decimals")
	}
	fmt.Fprintf(&b, "\nDefinition get_tolerance_um : Z := %s.\n", gtu)
	fmt.Fprintf(&b, "\nDefinition tolerance_um : Z := %s.\nDefinition min_custom_um : Z := %s.\nDefinition max_custom_um : Z := %s.\n", tu, mnu, mxu)

	// DefaultPageSettings
	dfd := p.funcDecl("", "DefaultPageSettings")
	if dfd == nil {
		return "", fmt.Errorf("DefaultPageSettings not found")
	}
	defs := map[string]string{}
	ast.Inspect(dfd, func(n ast.Node) bool {
		cl, ok := n.(*ast.CompositeLit)
		if !ok {
			return true
		}
		for _, el := range cl.Elts {
			kv, ok := el.(*ast.KeyValueExpr)
			if !ok {
				continue
			}
			k := kv.Key.(*ast.Ident).Name
			if l, ok := floatLit(kv.Value); ok {
				defs[k] = l
			} else if id, ok := kv.Value.(*ast.Ident); ok {
				if v, ok := consts[id.Name]; ok {
					defs[k] = "\x00" + v
				}
			}
		}
		return false
	})
	numField := func(k string, scale int) (string, error) {
		v, ok := defs[k]
		if !ok {
			return "", fmt.Errorf("DefaultPageSettings.%s not a literal", k)
		}
		s, ok := decimalScaled(v, scale)
		if !ok {
			return "", fmt.Errorf("DefaultPageSettings.%s precision", k)
		}
		return s, nil
	}
	strField := func(k string) (string, error) {
		v, ok := defs[k]
		if !ok || !strings.HasPrefix(v, "\x00") {
			return "", fmt.Errorf("DefaultPageSettings.%s not a string constant", k)
		}
		return v[1:], nil
	}
	b.WriteString("\n(* DefaultPageSettings (lengths in micrometres) *)\n")
	for _, k := range []string{"MarginTop", "MarginRight", "MarginBottom", "MarginLeft", "HeaderDistance", "FooterDistance", "GutterWidth"} {
		s, err := numField(k, 3)
		if err != nil {
			return "", err
		}
		fmt.Fprintf(&b, "Definition default_%s_um : Z := %s.\n", k, s)
	}
	for _, k := range []string{"DocGridLinePitch", "DocGridCharSpace"} {
		s, err := numField(k, 0)
		if err != nil {
			return "", err
		}
		fmt.Fprintf(&b, "Definition default_%s : Z := %s.\n", k, s)
	}
	for _, k := range []string{"Size", "Orientation", "DocGridType"} {
		s, err := strField(k)
		if err != nil {
			return "", err
		}
		fmt.Fprintf(&b, "Definition default_%s : string := %s.\n", k, coqString(s))
	}
	return b.String(), nil
}
