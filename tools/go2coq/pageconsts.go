package main

import (
	"fmt"
	"go/ast"
	"go/token"
	"path/filepath"
	"sort"
	"strings"
)

func init() { register("PageConsts", genPageConsts) }

// floatLit returns the literal text of a numeric literal expression (INT or FLOAT), optionally negated.
func floatLit(e ast.Expr) (string, bool) {
	switch v := e.(type) {
	case *ast.BasicLit:
		if v.Kind == token.FLOAT || v.Kind == token.INT {
			return v.Value, true
		}
	case *ast.UnaryExpr:
		if v.Op == token.SUB {
			s, ok := floatLit(v.X)
			return "-" + s, ok
		}
	}
	return "", false
}

// numConsts: every numeric constant declared in the package, at package level or inside a function (name -> literal)
func numConsts(p *pkgSrc) map[string]string {
	m := map[string]string{}
	for _, fn := range p.sortedFiles() {
		ast.Inspect(p.files[fn], func(n ast.Node) bool {
			gd, ok := n.(*ast.GenDecl)
			if !ok || gd.Tok != token.CONST {
				return true
			}
			for _, s := range gd.Specs {
				vs := s.(*ast.ValueSpec)
				for i, nm := range vs.Names {
					if i < len(vs.Values) {
						if l, ok := floatLit(vs.Values[i]); ok {
							if old, dup := m[nm.Name]; dup && old != l {
								m[nm.Name] = "?" // two constants of one name with different values: not resolvable by name
							} else {
								m[nm.Name] = l
							}
						}
					}
				}
			}
			return true
		})
	}
	return m
}

// numOf: a numeric literal, or an identifier that names a numeric constant
func numOf(e ast.Expr, consts map[string]string) (string, bool) {
	if l, ok := floatLit(e); ok {
		return l, true
	}
	if id, ok := e.(*ast.Ident); ok {
		if l, ok := consts[id.Name]; ok && l != "?" {
			return l, true
		}
	}
	if pe, ok := e.(*ast.ParenExpr); ok {
		return numOf(pe.X, consts)
	}
	return "", false
}

// reachFuncs: fd and the functions of the package it calls, to a small depth
func reachFuncs(p *pkgSrc, fd *ast.FuncDecl, depth int, seen map[string]bool) []*ast.FuncDecl {
	if fd == nil || fd.Body == nil || seen[fd.Name.Name] {
		return nil
	}
	seen[fd.Name.Name] = true
	out := []*ast.FuncDecl{fd}
	if depth == 0 {
		return out
	}
	ast.Inspect(fd.Body, func(n ast.Node) bool {
		ce, ok := n.(*ast.CallExpr)
		if !ok {
			return true
		}
		name := ""
		switch f := ce.Fun.(type) {
		case *ast.Ident:
			name = f.Name
		case *ast.SelectorExpr:
			name = f.Sel.Name
		}
		var target *ast.FuncDecl
		cnt := 0
		for _, g := range p.allFuncs() {
			if g.Name.Name == name && g.Body != nil {
				target = g
				cnt++
			}
		}
		if cnt == 1 {
			out = append(out, reachFuncs(p, target, depth-1, seen)...)
		}
		return true
	})
	return out
}

// lessThanConsts: the numeric constants that the result of a call is compared with by < or <= in fd and what it calls
func lessThanConsts(p *pkgSrc, fd *ast.FuncDecl, consts map[string]string) []string {
	set := map[string]bool{}
	for _, g := range reachFuncs(p, fd, 2, map[string]bool{}) {
		ast.Inspect(g.Body, func(n ast.Node) bool {
			be, ok := n.(*ast.BinaryExpr)
			if _, isCall := func() (ast.Expr, bool) {
				if !ok {
					return nil, false
				}
				c, is := be.X.(*ast.CallExpr)
				return c, is
			}(); ok && isCall && (be.Op == token.LSS || be.Op == token.LEQ) {
				// a distance (the result of a call, abs(a-b)) compared with a constant
				if l, ok := numOf(be.Y, consts); ok {
					set[l] = true
				}
			}
			return true
		})
	}
	var out []string
	for l := range set {
		out = append(out, l)
	}
	sort.Strings(out)
	return out
}

// convertedConsts: the numeric constants handed to mmToTwips (or a one-argument function of the package around it) in
// fd and what it calls
func convertedConsts(p *pkgSrc, fd *ast.FuncDecl, consts map[string]string) []string {
	set := map[string]bool{}
	// the bodies of the functions reached, and the initialisers of the package-level variables these bodies name (a
	// bound converted once: var minTwips = toTwips(minMM))
	var scopes []ast.Node
	named := map[string]bool{}
	for _, g := range reachFuncs(p, fd, 2, map[string]bool{}) {
		scopes = append(scopes, g.Body)
		ast.Inspect(g.Body, func(n ast.Node) bool {
			if id, ok := n.(*ast.Ident); ok {
				named[id.Name] = true
			}
			return true
		})
	}
	for _, fn := range p.sortedFiles() {
		for _, d := range p.files[fn].Decls {
			gd, ok := d.(*ast.GenDecl)
			if !ok || gd.Tok != token.VAR {
				continue
			}
			for _, sp := range gd.Specs {
				vs := sp.(*ast.ValueSpec)
				for i, nm := range vs.Names {
					if named[nm.Name] && i < len(vs.Values) {
						scopes = append(scopes, vs.Values[i])
					}
				}
			}
		}
	}
	for _, scope := range scopes {
		ast.Inspect(scope, func(n ast.Node) bool {
			ce, ok := n.(*ast.CallExpr)
			// mmToTwips(c), or a wrapper of the package around it: f(c) with a single argument
			if id, isIdent := func() (*ast.Ident, bool) {
				if !ok {
					return nil, false
				}
				i, is := ce.Fun.(*ast.Ident)
				return i, is
			}(); ok && isIdent && len(ce.Args) == 1 && p.funcDecl("", id.Name) != nil {
				if l, ok := numOf(ce.Args[0], consts); ok {
					set[l] = true
				}
			}
			return true
		})
	}
	var out []string
	for l := range set {
		out = append(out, l)
	}
	return out
}

func localConst(fd *ast.FuncDecl, name string) (string, bool) {
	var res string
	found := false
	ast.Inspect(fd, func(n ast.Node) bool {
		gd, ok := n.(*ast.GenDecl)
		if !ok || gd.Tok != token.CONST {
			return true
		}
		for _, s := range gd.Specs {
			vs := s.(*ast.ValueSpec)
			for i, nm := range vs.Names {
				if nm.Name == name && i < len(vs.Values) {
					if l, ok := floatLit(vs.Values[i]); ok {
						res, found = l, true
					}
				}
			}
		}
		return true
	})
	return res, found
}

// singleReturnBinary matches "func f(x) T { return x OP lit }".
func singleReturnBinary(fd *ast.FuncDecl, op token.Token) (string, bool) {
	if fd == nil || fd.Body == nil || len(fd.Body.List) != 1 {
		return "", false
	}
	rs, ok := fd.Body.List[0].(*ast.ReturnStmt)
	if !ok || len(rs.Results) != 1 {
		return "", false
	}
	be, ok := rs.Results[0].(*ast.BinaryExpr)
	if !ok || be.Op != op {
		return "", false
	}
	if _, ok := be.X.(*ast.Ident); !ok {
		return "", false
	}
	return numOf(be.Y, pkgNumConsts)
}

// pkgNumConsts: the numeric constants of the package being translated
var pkgNumConsts = map[string]string{}

func genPageConsts(repo string) (string, error) {
	p, err := loadPkg(filepath.Join(repo, "pkg/document"))
	if err != nil {
		return "", err
	}
	consts := p.stringConsts()
	pkgNumConsts = numConsts(p)
	var b strings.Builder
	b.WriteString("From Coq Require Import ZArith List String.\nImport ListNotations.\nOpen Scope Z_scope.\nOpen Scope string_scope.\n\n")

	// mmToTwips / twipsToMM
	mul, ok := singleReturnBinary(p.funcDecl("", "mmToTwips"), token.MUL)
	if !ok {
		return "", fmt.Errorf("mmToTwips is not `return mm * <literal>`")
	}
	div, ok := singleReturnBinary(p.funcDecl("", "twipsToMM"), token.QUO)
	if !ok {
		return "", fmt.Errorf("twipsToMM is not `return twips / <literal>`")
	}
	m12, ok1 := decimalScaled(mul, 12)
	d12, ok2 := decimalScaled(div, 12)
	if !ok1 || !ok2 {
		return "", fmt.Errorf("conversion constants need more than 12 decimals")
	}
	fmt.Fprintf(&b, "(* page.go mmToTwips: mm * %s ; twipsToMM: twips / %s *)\n", mul, div)
	fmt.Fprintf(&b, "Definition mm_to_twips_e12 : Z := %s.\nDefinition twips_to_mm_div_e12 : Z := %s.\n\n", m12, d12)

	// predefinedSizes
	var sizes []string
	found := false
	swappedDecl := false
	for _, fn := range p.sortedFiles() {
		for _, d := range p.files[fn].Decls {
			gd, ok := d.(*ast.GenDecl)
			if !ok || gd.Tok != token.VAR {
				continue
			}
			for _, s := range gd.Specs {
				vs := s.(*ast.ValueSpec)
				// by shape, not by name: the package-level map from PageSize to a struct of two float64 (width, height)
				if len(vs.Names) != 1 || len(vs.Values) != 1 {
					continue
				}
				cl, ok := vs.Values[0].(*ast.CompositeLit)
				if !ok {
					continue
				}
				mt, ok := cl.Type.(*ast.MapType)
				if !ok || exprString(mt.Key) != "PageSize" {
					continue
				}
				st, ok := mt.Value.(*ast.StructType)
				if !ok {
					// a named struct type of the package
					if id, isID := mt.Value.(*ast.Ident); isID {
						st = structTypeOf(p, id.Name)
					}
					if st == nil {
						continue
					}
				}
				var dimNames []string
				for _, f := range st.Fields.List {
					if exprString(f.Type) != "float64" {
						dimNames = nil
						break
					}
					for _, n := range f.Names {
						dimNames = append(dimNames, n.Name)
					}
				}
				if len(dimNames) != 2 {
					continue
				}
				// which of the two is the width: by name when the names say so (a struct may declare the height first),
				// otherwise the first one
				lw := func(n string) bool { return strings.Contains(strings.ToLower(n), "wid") }
				lh := func(n string) bool { return strings.Contains(strings.ToLower(n), "hei") }
				if lh(dimNames[0]) && lw(dimNames[1]) && !lw(dimNames[0]) && !lh(dimNames[1]) {
					dimNames[0], dimNames[1] = dimNames[1], dimNames[0]
					swappedDecl = true
				}
				if found {
					return "", fmt.Errorf("two tables of page sizes")
				}
				found = true
				for _, el := range cl.Elts {
					kv, ok := el.(*ast.KeyValueExpr)
					if !ok {
						return "", fmt.Errorf("predefinedSizes element shape")
					}
					kid, ok := kv.Key.(*ast.Ident)
					if !ok {
						return "", fmt.Errorf("predefinedSizes key shape")
					}
					name, ok := consts[kid.Name]
					if !ok {
						return "", fmt.Errorf("predefinedSizes key %s is not a string constant", kid.Name)
					}
					vl, ok := kv.Value.(*ast.CompositeLit)
					if !ok || len(vl.Elts) != 2 {
						return "", fmt.Errorf("predefinedSizes value shape")
					}
					dims := make([]string, 2)
					for k, e := range vl.Elts {
						pos := k
						if swappedDecl && k < 2 {
							pos = 1 - k // unkeyed values follow the order of declaration
						}
						if kv2, ok := e.(*ast.KeyValueExpr); ok {
							e = kv2.Value
							pos = -1
							if kn, ok := kv2.Key.(*ast.Ident); ok {
								for di, dn := range dimNames {
									if dn == kn.Name {
										pos = di
									}
								}
							}
							if pos < 0 {
								return "", fmt.Errorf("predefinedSizes value names an unknown field")
							}
						}
						l, ok := floatLit(e)
						if !ok {
							return "", fmt.Errorf("predefinedSizes dimension is not a literal")
						}
						um, ok := decimalScaled(l, 3)
						if !ok {
							return "", fmt.Errorf("predefinedSizes dimension %s has more than 3 decimals", l)
						}
						dims[pos] = um
					}
					if dims[0] == "" || dims[1] == "" {
						return "", fmt.Errorf("predefinedSizes value does not give both dimensions")
					}
					sizes = append(sizes, fmt.Sprintf("(%s, (%s, %s))", coqString(name), dims[0], dims[1]))
				}
			}
		}
	}
	if !found {
		return "", fmt.Errorf("predefinedSizes not found")
	}
	sort.Strings(sizes)
	fmt.Fprintf(&b, "(* predefinedSizes, micrometres (name, (width, height)), sorted by name *)\nDefinition predefined_um : list (string * (Z * Z)) :=\n  [%s].\n\n", strings.Join(sizes, ";\n   "))

	// custom-size name and orientation strings
	for _, c := range []string{"PageSizeCustom", "PageSizeA4", "OrientationPortrait", "OrientationLandscape"} {
		v, ok := consts[c]
		if !ok {
			return "", fmt.Errorf("constant %s not found", c)
		}
		fmt.Fprintf(&b, "Definition c_%s : string := %s.\n", c, coqString(v))
	}

	// tolerance, min, max
	// by use, not by name: the constant sizes are compared with (identifyPageSize, GetPageSettings), and the two
	// constants that validatePageSettings converts to twips
	tols := lessThanConsts(p, p.funcDecl("", "identifyPageSize"), pkgNumConsts)
	if len(tols) != 1 {
		return "", fmt.Errorf("identifyPageSize: %d constants used as a tolerance (one expected): %v", len(tols), tols)
	}
	tol := tols[0]
	bounds := convertedConsts(p, p.funcDecl("", "validatePageSettings"), pkgNumConsts)
	if len(bounds) != 2 {
		return "", fmt.Errorf("validatePageSettings: %d constants converted to twips (minimum and maximum expected): %v", len(bounds), bounds)
	}
	b0, okb0 := decimalScaled(bounds[0], 3)
	b1, okb1 := decimalScaled(bounds[1], 3)
	if !okb0 || !okb1 {
		return "", fmt.Errorf("validatePageSettings: bounds have more than 3 decimals")
	}
	mn, mx := bounds[0], bounds[1]
	if len(b0) > len(b1) || (len(b0) == len(b1) && b0 > b1) {
		mn, mx = bounds[1], bounds[0]
	}
	gtols := lessThanConsts(p, p.funcDecl("Document", "GetPageSettings"), pkgNumConsts)
	if len(gtols) != 1 {
		return "", fmt.Errorf("GetPageSettings: %d constants used as a tolerance (one expected): %v", len(gtols), gtols)
	}
	gtol := gtols[0]
	gtu, okg := decimalScaled(gtol, 3)
	if !okg {
		return "", fmt.Errorf("GetPageSettings tolerance precision")
	}
	tu, oka := decimalScaled(tol, 3)
	mnu, okb := decimalScaled(mn, 3)
	mxu, okc := decimalScaled(mx, 3)
	if !oka || !okb || !okc {
		return "", fmt.Errorf("tolerance/min/max have more than 3 decimals")
	}
	fmt.Fprintf(&b, "\nDefinition get_tolerance_um : Z := %s.\n", gtu)
	fmt.Fprintf(&b, "\nDefinition tolerance_um : Z := %s.\nDefinition min_custom_um : Z := %s.\nDefinition max_custom_um : Z := %s.\n", tu, mnu, mxu)

	// DefaultPageSettings
	dfd := p.funcDecl("", "DefaultPageSettings")
	if dfd == nil {
		return "", fmt.Errorf("DefaultPageSettings not found")
	}
	defs := map[string]string{}
	ast.Inspect(dfd, func(n ast.Node) bool {
		cl, ok := n.(*ast.CompositeLit)
		if !ok {
			return true
		}
		for _, el := range cl.Elts {
			kv, ok := el.(*ast.KeyValueExpr)
			if !ok {
				continue
			}
			k := kv.Key.(*ast.Ident).Name
			if l, ok := floatLit(kv.Value); ok {
				defs[k] = l
			} else if id, ok := kv.Value.(*ast.Ident); ok {
				if v, ok := consts[id.Name]; ok {
					defs[k] = "\x00" + v
				} else if l, ok := numOf(id, pkgNumConsts); ok {
					defs[k] = l // a named numeric constant
				}
			}
		}
		return false
	})
	numField := func(k string, scale int) (string, error) {
		v, ok := defs[k]
		if !ok {
			return "", fmt.Errorf("DefaultPageSettings.%s not a literal", k)
		}
		s, ok := decimalScaled(v, scale)
		if !ok {
			return "", fmt.Errorf("DefaultPageSettings.%s precision", k)
		}
		return s, nil
	}
	strField := func(k string) (string, error) {
		v, ok := defs[k]
		if !ok || !strings.HasPrefix(v, "\x00") {
			return "", fmt.Errorf("DefaultPageSettings.%s not a string constant", k)
		}
		return v[1:], nil
	}
	b.WriteString("\n(* DefaultPageSettings (lengths in micrometres) *)\n")
	for _, k := range []string{"MarginTop", "MarginRight", "MarginBottom", "MarginLeft", "HeaderDistance", "FooterDistance", "GutterWidth"} {
		s, err := numField(k, 3)
		if err != nil {
			return "", err
		}
		fmt.Fprintf(&b, "Definition default_%s_um : Z := %s.\n", k, s)
	}
	for _, k := range []string{"DocGridLinePitch", "DocGridCharSpace"} {
		s, err := numField(k, 0)
		if err != nil {
			return "", err
		}
		fmt.Fprintf(&b, "Definition default_%s : Z := %s.\n", k, s)
	}
	for _, k := range []string{"Size", "Orientation", "DocGridType"} {
		s, err := strField(k)
		if err != nil {
			return "", err
		}
		fmt.Fprintf(&b, "Definition default_%s : string := %s.\n", k, coqString(s))
	}
	return b.String(), nil
}

// structTypeOf: the struct type declared under this name in the package (nil if there is none)
func structTypeOf(p *pkgSrc, name string) *ast.StructType {
	for _, fn := range p.sortedFiles() {
		for _, d := range p.files[fn].Decls {
			gd, ok := d.(*ast.GenDecl)
			if !ok || gd.Tok != token.TYPE {
				continue
			}
			for _, sp := range gd.Specs {
				ts := sp.(*ast.TypeSpec)
				if ts.Name.Name == name {
					if st, ok := ts.Type.(*ast.StructType); ok {
						return st
					}
				}
			}
		}
	}
	return nil
}
