package main

import (
	"fmt"
	"go/ast"
	"go/token"
	"path/filepath"
	"sort"
	"strconv"
	"strings"
)

func init() {
	register("MdTables", genMdTables)
}

// runeLit: a character literal ('x', '\\', '\” ...) as its code
func runeLit(e ast.Expr) (int, bool) {
	if p, ok := e.(*ast.ParenExpr); ok {
		return runeLit(p.X)
	}
	bl, ok := e.(*ast.BasicLit)
	if !ok || bl.Kind != token.CHAR {
		return 0, false
	}
	r, _, _, err := strconv.UnquoteChar(bl.Value[1:len(bl.Value)-1], '\'')
	if err != nil {
		return 0, false
	}
	return int(r), true
}

// writesBackslash: the statement list writes a backslash to a builder/buffer (WriteByte('\\'), WriteRune('\\'),
// WriteString("\\")) or appends one
func writesBackslash(stmts []ast.Stmt) bool {
	found := false
	for _, s := range stmts {
		ast.Inspect(s, func(n ast.Node) bool {
			ce, ok := n.(*ast.CallExpr)
			if !ok || len(ce.Args) == 0 {
				return true
			}
			for _, a := range ce.Args {
				if c, ok := runeLit(a); ok && c == '\\' {
					found = true
				}
				if s, ok := strLit(a); ok && s == "\\" {
					found = true
				}
			}
			return true
		})
	}
	return found
}

// runeSetOfCond: the set of characters for which a condition over the loop variable v holds, for the shapes
//
//	v == 'a' || v == 'b' ...      strings.ContainsRune(S, v)      strings.IndexRune(S, v) >= 0 / != -1
//	strings.ContainsAny(S, string(v))
func runeSetOfCond(e ast.Expr, v string) ([]int, bool) {
	switch x := e.(type) {
	case *ast.ParenExpr:
		return runeSetOfCond(x.X, v)
	case *ast.BinaryExpr:
		switch x.Op {
		case token.LOR:
			a, ok1 := runeSetOfCond(x.X, v)
			b, ok2 := runeSetOfCond(x.Y, v)
			return append(a, b...), ok1 && ok2
		case token.EQL:
			if id, ok := x.X.(*ast.Ident); ok && id.Name == v {
				if c, ok := runeLit(x.Y); ok {
					return []int{c}, true
				}
			}
			if id, ok := x.Y.(*ast.Ident); ok && id.Name == v {
				if c, ok := runeLit(x.X); ok {
					return []int{c}, true
				}
			}
		case token.GEQ, token.NEQ, token.GTR:
			// strings.IndexRune(S, v) >= 0   /  != -1  /  > -1
			if ce, ok := x.X.(*ast.CallExpr); ok && exprStringDeep(ce.Fun) == "strings.IndexRune" && len(ce.Args) == 2 {
				if id, ok := ce.Args[1].(*ast.Ident); ok && id.Name == v {
					if s, ok := strLit(ce.Args[0]); ok {
						rhs := exprStringDeep(x.Y)
						if (x.Op == token.GEQ && rhs == "0") || (x.Op != token.GEQ && rhs == "-1") {
							return runesOf(s), true
						}
					}
				}
			}
		}
	case *ast.CallExpr:
		fn := exprStringDeep(x.Fun)
		if fn == "strings.ContainsRune" && len(x.Args) == 2 {
			if id, ok := x.Args[1].(*ast.Ident); ok && id.Name == v {
				if s, ok := strLit(x.Args[0]); ok {
					return runesOf(s), true
				}
			}
		}
		if fn == "strings.ContainsAny" && len(x.Args) == 2 {
			if conv, ok := x.Args[1].(*ast.CallExpr); ok && exprStringDeep(conv.Fun) == "string" && len(conv.Args) == 1 {
				if id, ok := conv.Args[0].(*ast.Ident); ok && id.Name == v {
					if s, ok := strLit(x.Args[0]); ok {
						return runesOf(s), true
					}
				}
			}
		}
	}
	return nil, false
}

func runesOf(s string) []int {
	var out []int
	for _, r := range s {
		out = append(out, int(r))
	}
	return out
}

// escapeSetOf: fd is a func(string) string that walks its argument character by character and writes a backslash
// in front of the characters of a set; the set, or ok=false when the function is not of that shape
func escapeSetOf(fd *ast.FuncDecl) (set []int, ok bool, why string) {
	if fd.Body == nil || fd.Type.Params == nil || len(fd.Type.Params.List) != 1 || fd.Type.Results == nil || len(fd.Type.Results.List) != 1 {
		return nil, false, "signature"
	}
	if exprString(fd.Type.Params.List[0].Type) != "string" || exprString(fd.Type.Results.List[0].Type) != "string" {
		return nil, false, "signature"
	}
	// string constants and variables declared inside the function count like package-level constants
	saved := map[string]string{}
	for k, v := range constStrings {
		saved[k] = v
	}
	defer func() { constStrings = saved }()
	local := map[string]string{}
	for k, v := range saved {
		local[k] = v
	}
	constStrings = local
	ast.Inspect(fd.Body, func(n ast.Node) bool {
		switch x := n.(type) {
		case *ast.ValueSpec:
			for i, nm := range x.Names {
				if i < len(x.Values) {
					if v, ok := strLit(x.Values[i]); ok {
						local[nm.Name] = v
					}
				}
			}
		case *ast.AssignStmt:
			if x.Tok == token.DEFINE && len(x.Lhs) == len(x.Rhs) {
				for i := range x.Lhs {
					if id, ok := x.Lhs[i].(*ast.Ident); ok {
						if v, ok := strLit(x.Rhs[i]); ok {
							local[id.Name] = v
						}
					}
				}
			}
		}
		return true
	})
	var loops []*ast.RangeStmt
	ast.Inspect(fd.Body, func(n ast.Node) bool {
		if rs, ok := n.(*ast.RangeStmt); ok {
			loops = append(loops, rs)
		}
		return true
	})
	if len(loops) != 1 {
		return nil, false, "not exactly one range loop"
	}
	rs := loops[0]
	v, isID := rs.Value.(*ast.Ident)
	if !isID {
		return nil, false, "range without a value variable"
	}
	found := 0
	for _, st := range rs.Body.List {
		switch s := st.(type) {
		case *ast.SwitchStmt:
			if id, ok := s.Tag.(*ast.Ident); !ok || id.Name != v.Name {
				continue
			}
			for _, c := range s.Body.List {
				cc := c.(*ast.CaseClause)
				if !writesBackslash(cc.Body) {
					continue
				}
				if cc.List == nil {
					return nil, false, "the default case writes a backslash"
				}
				for _, e := range cc.List {
					code, ok := runeLit(e)
					if !ok {
						return nil, false, "a case label that is not a character literal"
					}
					set = append(set, code)
				}
				found++
			}
		case *ast.IfStmt:
			if !writesBackslash(s.Body.List) {
				continue
			}
			cs, ok := runeSetOfCond(s.Cond, v.Name)
			if !ok {
				return nil, false, "the condition under which a backslash is written is not a character set over the loop variable"
			}
			set = append(set, cs...)
			found++
		}
	}
	if found == 0 {
		return nil, false, "no backslash written under a character test"
	}
	return set, true, ""
}

// genMdTables: the set of characters the Markdown exporter escapes with a backslash (escapeMarkdownText, found by
// shape: the one package-level func(string) string of pkg/markdown's writer that walks its argument and writes a
// backslash in front of the members of a character set).
func genMdTables(repo string) (string, error) {
	p, err := loadPkg(filepath.Join(repo, "pkg/markdown"))
	if err != nil {
		return "", err
	}
	constStrings = p.stringConsts()
	type cand struct {
		name string
		set  []int
		pos  string
	}
	var cands []cand
	var reasons []string
	for _, fd := range p.allFuncs() {
		if fd.Recv != nil {
			continue
		}
		set, ok, why := escapeSetOf(fd)
		if ok {
			cands = append(cands, cand{fd.Name.Name, set, p.pos(fd)})
		} else if strings.Contains(strings.ToLower(fd.Name.Name), "escape") && why != "signature" {
			reasons = append(reasons, fd.Name.Name+": "+why)
		}
	}
	if len(cands) != 1 {
		return "", fmt.Errorf("expected one function that escapes a set of characters with a backslash, found %d %v", len(cands), reasons)
	}
	set := cands[0].set
	sort.Ints(set)
	var uniq []string
	for i, c := range set {
		if i == 0 || c != set[i-1] {
			uniq = append(uniq, strconv.Itoa(c))
		}
	}
	var b strings.Builder
	b.WriteString("From Coq Require Import List.\nImport ListNotations.\n\n")
	fmt.Fprintf(&b, "(* %s (%s): the characters (codes) written with a backslash in front *)\nDefinition md_escape_set : list nat := [%s].\n", cands[0].name, cands[0].pos, strings.Join(uniq, "; "))
	return b.String(), nil
}
