package main

// A small evaluator for the pure, string-and-integer part of Go: enough to run a function such as getHeadingLevel
// (switches, map and slice tables of the package, prefix tests, helper functions of the package, the strings and
// strconv functions such code uses) on a concrete argument.  Anything outside the subset is an error, and the
// generator that asked for the evaluation reports UNTRANSLATABLE: the evaluator never guesses.
//
// Values: int64 (int, byte, rune), string, bool, []gval (slices), gmapv (maps with string keys), gopaque (a pointer
// into the argument: every field chain below it is non-nil, and the chains named in `leaves` yield given values),
// gnil.

import (
	"fmt"
	"go/ast"
	"go/token"
	"strconv"
	"strings"
)

type gval interface{}

type gnil struct{}

type gmapv map[string]gval

type gopaque struct {
	path   string
	leaves map[string]gval // field name of the last selector -> value
}

type gEnv struct {
	vars   map[string]gval
	parent *gEnv
}

func (e *gEnv) lookup(n string) (gval, bool) {
	for s := e; s != nil; s = s.parent {
		if v, ok := s.vars[n]; ok {
			return v, true
		}
	}
	return nil, false
}

func (e *gEnv) set(n string, v gval) bool {
	for s := e; s != nil; s = s.parent {
		if _, ok := s.vars[n]; ok {
			s.vars[n] = v
			return true
		}
	}
	return false
}

type gInterp struct {
	p     *pkgSrc
	steps int
	depth int
}

type gCtl int

const (
	gNext gCtl = iota
	gReturn
	gBreak
	gContinue
)

func (in *gInterp) tick() error {
	in.steps++
	if in.steps > 200000 {
		return fmt.Errorf("evaluation does not end within the step limit")
	}
	return nil
}

// pkgValue: a constant or a variable of the package with a literal initialiser
func (in *gInterp) pkgValue(name string) (gval, bool, error) {
	for _, fn := range in.p.sortedFiles() {
		for _, d := range in.p.files[fn].Decls {
			gd, ok := d.(*ast.GenDecl)
			if !ok || (gd.Tok != token.CONST && gd.Tok != token.VAR) {
				continue
			}
			for _, sp := range gd.Specs {
				vs := sp.(*ast.ValueSpec)
				for i, n := range vs.Names {
					if n.Name != name {
						continue
					}
					if i >= len(vs.Values) {
						return nil, false, fmt.Errorf("%s has no initialiser of its own", name)
					}
					v, err := in.expr(vs.Values[i], &gEnv{vars: map[string]gval{}})
					return v, true, err
				}
			}
		}
	}
	return nil, false, nil
}

func (in *gInterp) callFunc(fd *ast.FuncDecl, args []gval) ([]gval, error) {
	in.depth++
	defer func() { in.depth-- }()
	if in.depth > 40 {
		return nil, fmt.Errorf("call depth")
	}
	env := &gEnv{vars: map[string]gval{}}
	if fd.Recv != nil && len(fd.Recv.List) == 1 && len(fd.Recv.List[0].Names) == 1 {
		env.vars[fd.Recv.List[0].Names[0].Name] = gopaque{path: "recv"}
	}
	k := 0
	if fd.Type.Params != nil {
		for _, prm := range fd.Type.Params.List {
			for _, n := range prm.Names {
				if k >= len(args) {
					return nil, fmt.Errorf("%s: too few arguments", fd.Name.Name)
				}
				env.vars[n.Name] = args[k]
				k++
			}
		}
	}
	if k != len(args) {
		return nil, fmt.Errorf("%s: %d arguments for %d parameters", fd.Name.Name, len(args), k)
	}
	var named []string
	if fd.Type.Results != nil {
		for _, r := range fd.Type.Results.List {
			for _, n := range r.Names {
				named = append(named, n.Name)
				z, err := zeroOf(r.Type)
				if err != nil {
					return nil, err
				}
				env.vars[n.Name] = z
			}
		}
	}
	ctl, res, err := in.block(fd.Body.List, env)
	if err != nil {
		return nil, fmt.Errorf("%s: %v", fd.Name.Name, err)
	}
	if ctl != gReturn {
		if fd.Type.Results == nil || len(fd.Type.Results.List) == 0 {
			return nil, nil
		}
		return nil, fmt.Errorf("%s: falls off its end", fd.Name.Name)
	}
	if res == nil && len(named) > 0 {
		for _, n := range named {
			v, _ := env.lookup(n)
			res = append(res, v)
		}
	}
	return res, nil
}

func zeroOf(t ast.Expr) (gval, error) {
	switch exprString(t) {
	case "int", "int64", "byte", "rune", "uint8", "int32":
		return int64(0), nil
	case "string":
		return "", nil
	case "bool":
		return false, nil
	case "error":
		return gnil{}, nil
	}
	return nil, fmt.Errorf("zero value of %s", exprString(t))
}

func (in *gInterp) block(stmts []ast.Stmt, env *gEnv) (gCtl, []gval, error) {
	scope := &gEnv{vars: map[string]gval{}, parent: env}
	for _, s := range stmts {
		ctl, res, err := in.stmt(s, scope)
		if err != nil || ctl != gNext {
			return ctl, res, err
		}
	}
	return gNext, nil, nil
}

func (in *gInterp) assign(lhs ast.Expr, v gval, define bool, env *gEnv) error {
	id, ok := lhs.(*ast.Ident)
	if !ok {
		return fmt.Errorf("assignment to something that is not a local variable")
	}
	if id.Name == "_" {
		return nil
	}
	if define {
		env.vars[id.Name] = v
		return nil
	}
	if !env.set(id.Name, v) {
		return fmt.Errorf("assignment to %s, which is not a local variable", id.Name)
	}
	return nil
}

func (in *gInterp) stmt(s ast.Stmt, env *gEnv) (gCtl, []gval, error) {
	if err := in.tick(); err != nil {
		return gNext, nil, err
	}
	switch x := s.(type) {
	case *ast.BlockStmt:
		return in.block(x.List, env)
	case *ast.EmptyStmt:
		return gNext, nil, nil
	case *ast.ExprStmt:
		// a call for its effect (logging): pure code has none; evaluate the arguments only when it is a package function
		if ce, ok := x.X.(*ast.CallExpr); ok {
			if id, ok := ce.Fun.(*ast.Ident); ok && (strings.HasSuffix(id.Name, "f") || strings.HasPrefix(id.Name, "Debug") || strings.HasPrefix(id.Name, "Info") || strings.HasPrefix(id.Name, "Warn")) {
				return gNext, nil, nil
			}
		}
		return gNext, nil, fmt.Errorf("statement with an effect")
	case *ast.ReturnStmt:
		var res []gval
		if len(x.Results) == 1 {
			vs, err := in.exprMulti(x.Results[0], env, 0)
			if err != nil {
				return gNext, nil, err
			}
			return gReturn, vs, nil
		}
		for _, r := range x.Results {
			v, err := in.expr(r, env)
			if err != nil {
				return gNext, nil, err
			}
			res = append(res, v)
		}
		return gReturn, res, nil
	case *ast.BranchStmt:
		if x.Label != nil {
			return gNext, nil, fmt.Errorf("labelled branch")
		}
		switch x.Tok {
		case token.BREAK:
			return gBreak, nil, nil
		case token.CONTINUE:
			return gContinue, nil, nil
		}
		return gNext, nil, fmt.Errorf("branch %s", x.Tok)
	case *ast.DeclStmt:
		gd, ok := x.Decl.(*ast.GenDecl)
		if !ok || (gd.Tok != token.VAR && gd.Tok != token.CONST) {
			return gNext, nil, fmt.Errorf("local declaration")
		}
		for _, sp := range gd.Specs {
			vs := sp.(*ast.ValueSpec)
			for i, n := range vs.Names {
				var v gval
				var err error
				if i < len(vs.Values) {
					v, err = in.expr(vs.Values[i], env)
				} else if vs.Type != nil {
					v, err = zeroOf(vs.Type)
				} else {
					err = fmt.Errorf("declaration of %s without a value", n.Name)
				}
				if err != nil {
					return gNext, nil, err
				}
				env.vars[n.Name] = v
			}
		}
		return gNext, nil, nil
	case *ast.IncDecStmt:
		v, err := in.expr(x.X, env)
		if err != nil {
			return gNext, nil, err
		}
		n, ok := v.(int64)
		if !ok {
			return gNext, nil, fmt.Errorf("++ on a non-integer")
		}
		if x.Tok == token.INC {
			n++
		} else {
			n--
		}
		return gNext, nil, in.assign(x.X, n, false, env)
	case *ast.AssignStmt:
		define := x.Tok == token.DEFINE
		if x.Tok != token.DEFINE && x.Tok != token.ASSIGN {
			if len(x.Lhs) != 1 || len(x.Rhs) != 1 {
				return gNext, nil, fmt.Errorf("compound assignment")
			}
			var op token.Token
			switch x.Tok {
			case token.ADD_ASSIGN:
				op = token.ADD
			case token.SUB_ASSIGN:
				op = token.SUB
			case token.MUL_ASSIGN:
				op = token.MUL
			default:
				return gNext, nil, fmt.Errorf("assignment operator %s", x.Tok)
			}
			v, err := in.expr(&ast.BinaryExpr{X: x.Lhs[0], Op: op, Y: x.Rhs[0]}, env)
			if err != nil {
				return gNext, nil, err
			}
			return gNext, nil, in.assign(x.Lhs[0], v, false, env)
		}
		if len(x.Rhs) == 1 && len(x.Lhs) > 1 {
			vs, err := in.exprMulti(x.Rhs[0], env, len(x.Lhs))
			if err != nil {
				return gNext, nil, err
			}
			if len(vs) != len(x.Lhs) {
				return gNext, nil, fmt.Errorf("%d values for %d variables", len(vs), len(x.Lhs))
			}
			for i, l := range x.Lhs {
				if err := in.assign(l, vs[i], define, env); err != nil {
					return gNext, nil, err
				}
			}
			return gNext, nil, nil
		}
		if len(x.Lhs) != len(x.Rhs) {
			return gNext, nil, fmt.Errorf("assignment shape")
		}
		var vals []gval
		for _, r := range x.Rhs {
			v, err := in.expr(r, env)
			if err != nil {
				return gNext, nil, err
			}
			vals = append(vals, v)
		}
		for i, l := range x.Lhs {
			if err := in.assign(l, vals[i], define, env); err != nil {
				return gNext, nil, err
			}
		}
		return gNext, nil, nil
	case *ast.IfStmt:
		scope := &gEnv{vars: map[string]gval{}, parent: env}
		if x.Init != nil {
			if ctl, res, err := in.stmt(x.Init, scope); err != nil || ctl != gNext {
				return ctl, res, err
			}
		}
		c, err := in.expr(x.Cond, scope)
		if err != nil {
			return gNext, nil, err
		}
		b, ok := c.(bool)
		if !ok {
			return gNext, nil, fmt.Errorf("condition is not a boolean")
		}
		if b {
			return in.block(x.Body.List, scope)
		}
		if x.Else != nil {
			return in.stmt(x.Else, scope)
		}
		return gNext, nil, nil
	case *ast.SwitchStmt:
		scope := &gEnv{vars: map[string]gval{}, parent: env}
		if x.Init != nil {
			if ctl, res, err := in.stmt(x.Init, scope); err != nil || ctl != gNext {
				return ctl, res, err
			}
		}
		var tag gval = true
		if x.Tag != nil {
			v, err := in.expr(x.Tag, scope)
			if err != nil {
				return gNext, nil, err
			}
			tag = v
		}
		var chosen *ast.CaseClause
		var def *ast.CaseClause
	clauses:
		for _, cl := range x.Body.List {
			cc := cl.(*ast.CaseClause)
			if cc.List == nil {
				def = cc
				continue
			}
			for _, e := range cc.List {
				v, err := in.expr(e, scope)
				if err != nil {
					return gNext, nil, err
				}
				if v == tag {
					chosen = cc
					break clauses
				}
			}
		}
		if chosen == nil {
			chosen = def
		}
		if chosen == nil {
			return gNext, nil, nil
		}
		for _, s := range chosen.Body {
			if br, ok := s.(*ast.BranchStmt); ok && br.Tok == token.FALLTHROUGH {
				return gNext, nil, fmt.Errorf("fallthrough")
			}
		}
		ctl, res, err := in.block(chosen.Body, scope)
		if ctl == gBreak {
			ctl = gNext
		}
		return ctl, res, err
	case *ast.ForStmt:
		scope := &gEnv{vars: map[string]gval{}, parent: env}
		if x.Init != nil {
			if ctl, res, err := in.stmt(x.Init, scope); err != nil || ctl != gNext {
				return ctl, res, err
			}
		}
		for {
			if err := in.tick(); err != nil {
				return gNext, nil, err
			}
			if x.Cond != nil {
				c, err := in.expr(x.Cond, scope)
				if err != nil {
					return gNext, nil, err
				}
				if b, ok := c.(bool); !ok || !b {
					if !ok {
						return gNext, nil, fmt.Errorf("loop condition is not a boolean")
					}
					break
				}
			}
			ctl, res, err := in.block(x.Body.List, scope)
			if err != nil || ctl == gReturn {
				return ctl, res, err
			}
			if ctl == gBreak {
				break
			}
			if x.Post != nil {
				if _, _, err := in.stmt(x.Post, scope); err != nil {
					return gNext, nil, err
				}
			}
		}
		return gNext, nil, nil
	case *ast.RangeStmt:
		coll, err := in.expr(x.X, env)
		if err != nil {
			return gNext, nil, err
		}
		var keys, vals []gval
		switch c := coll.(type) {
		case []gval:
			for i, v := range c {
				keys = append(keys, int64(i))
				vals = append(vals, v)
			}
		case string:
			for i, r := range c {
				keys = append(keys, int64(i))
				vals = append(vals, int64(r))
			}
		default:
			return gNext, nil, fmt.Errorf("range over something that is neither a slice nor a string (the order of a map is not fixed)")
		}
		for i := range keys {
			scope := &gEnv{vars: map[string]gval{}, parent: env}
			if x.Key != nil {
				if err := in.assign(x.Key, keys[i], x.Tok == token.DEFINE, scope); err != nil {
					return gNext, nil, err
				}
			}
			if x.Value != nil {
				if err := in.assign(x.Value, vals[i], x.Tok == token.DEFINE, scope); err != nil {
					return gNext, nil, err
				}
			}
			ctl, res, err := in.block(x.Body.List, scope)
			if err != nil || ctl == gReturn {
				return ctl, res, err
			}
			if ctl == gBreak {
				break
			}
		}
		return gNext, nil, nil
	}
	return gNext, nil, fmt.Errorf("statement %T", s)
}

// exprMulti: an expression in a place that takes want values (0 = as many as it has)
func (in *gInterp) exprMulti(e ast.Expr, env *gEnv, want int) ([]gval, error) {
	switch x := e.(type) {
	case *ast.ParenExpr:
		return in.exprMulti(x.X, env, want)
	case *ast.IndexExpr:
		if want == 2 {
			m, err := in.expr(x.X, env)
			if err != nil {
				return nil, err
			}
			mm, ok := m.(gmapv)
			if !ok {
				return nil, fmt.Errorf("comma-ok index of something that is not a map")
			}
			k, err := in.expr(x.Index, env)
			if err != nil {
				return nil, err
			}
			ks, ok := k.(string)
			if !ok {
				return nil, fmt.Errorf("map key is not a string")
			}
			v, has := mm[ks]
			if !has {
				v = mm["\x00zero"]
			}
			return []gval{v, has}, nil
		}
	case *ast.CallExpr:
		return in.call(x, env)
	}
	v, err := in.expr(e, env)
	if err != nil {
		return nil, err
	}
	return []gval{v}, nil
}

func (in *gInterp) expr(e ast.Expr, env *gEnv) (gval, error) {
	if err := in.tick(); err != nil {
		return nil, err
	}
	switch x := e.(type) {
	case *ast.ParenExpr:
		return in.expr(x.X, env)
	case *ast.BasicLit:
		switch x.Kind {
		case token.INT:
			n, err := strconv.ParseInt(x.Value, 0, 64)
			return n, err
		case token.STRING:
			s, err := strconv.Unquote(x.Value)
			return s, err
		case token.CHAR:
			s, err := strconv.Unquote(x.Value)
			if err != nil {
				return nil, err
			}
			r := []rune(s)
			if len(r) != 1 {
				return nil, fmt.Errorf("character literal %s", x.Value)
			}
			return int64(r[0]), nil
		}
		return nil, fmt.Errorf("literal %s", x.Value)
	case *ast.Ident:
		switch x.Name {
		case "true":
			return true, nil
		case "false":
			return false, nil
		case "nil":
			return gnil{}, nil
		}
		if v, ok := env.lookup(x.Name); ok {
			return v, nil
		}
		v, ok, err := in.pkgValue(x.Name)
		if err != nil {
			return nil, err
		}
		if ok {
			return v, nil
		}
		return nil, fmt.Errorf("unknown name %s", x.Name)
	case *ast.SelectorExpr:
		base, err := in.expr(x.X, env)
		if err != nil {
			return nil, err
		}
		o, ok := base.(gopaque)
		if !ok {
			return nil, fmt.Errorf("field %s of a value that is not part of the argument", x.Sel.Name)
		}
		if v, ok := o.leaves[x.Sel.Name]; ok {
			return v, nil
		}
		return gopaque{path: o.path + "." + x.Sel.Name, leaves: o.leaves}, nil
	case *ast.UnaryExpr:
		v, err := in.expr(x.X, env)
		if err != nil {
			return nil, err
		}
		switch x.Op {
		case token.NOT:
			if b, ok := v.(bool); ok {
				return !b, nil
			}
		case token.SUB:
			if n, ok := v.(int64); ok {
				return -n, nil
			}
		case token.ADD:
			if n, ok := v.(int64); ok {
				return n, nil
			}
		}
		return nil, fmt.Errorf("unary %s", x.Op)
	case *ast.BinaryExpr:
		l, err := in.expr(x.X, env)
		if err != nil {
			return nil, err
		}
		if x.Op == token.LAND || x.Op == token.LOR {
			lb, ok := l.(bool)
			if !ok {
				return nil, fmt.Errorf("%s on a non-boolean", x.Op)
			}
			if (x.Op == token.LAND && !lb) || (x.Op == token.LOR && lb) {
				return lb, nil
			}
			r, err := in.expr(x.Y, env)
			if err != nil {
				return nil, err
			}
			rb, ok := r.(bool)
			if !ok {
				return nil, fmt.Errorf("%s on a non-boolean", x.Op)
			}
			return rb, nil
		}
		r, err := in.expr(x.Y, env)
		if err != nil {
			return nil, err
		}
		// comparisons with nil: a pointer into the argument is never nil
		_, lnil := l.(gnil)
		_, rnil := r.(gnil)
		if lnil || rnil {
			_, lo := l.(gopaque)
			_, ro := r.(gopaque)
			eq := lnil && rnil
			if !(lo || ro || eq) {
				return nil, fmt.Errorf("comparison of a value with nil")
			}
			switch x.Op {
			case token.EQL:
				return eq, nil
			case token.NEQ:
				return !eq, nil
			}
			return nil, fmt.Errorf("nil under %s", x.Op)
		}
		switch a := l.(type) {
		case int64:
			b, ok := r.(int64)
			if !ok {
				return nil, fmt.Errorf("integer %s non-integer", x.Op)
			}
			switch x.Op {
			case token.ADD:
				return a + b, nil
			case token.SUB:
				return a - b, nil
			case token.MUL:
				return a * b, nil
			case token.QUO:
				if b == 0 {
					return nil, fmt.Errorf("division by zero")
				}
				return a / b, nil
			case token.REM:
				if b == 0 {
					return nil, fmt.Errorf("division by zero")
				}
				return a % b, nil
			case token.EQL:
				return a == b, nil
			case token.NEQ:
				return a != b, nil
			case token.LSS:
				return a < b, nil
			case token.LEQ:
				return a <= b, nil
			case token.GTR:
				return a > b, nil
			case token.GEQ:
				return a >= b, nil
			}
		case string:
			b, ok := r.(string)
			if !ok {
				return nil, fmt.Errorf("string %s non-string", x.Op)
			}
			switch x.Op {
			case token.ADD:
				return a + b, nil
			case token.EQL:
				return a == b, nil
			case token.NEQ:
				return a != b, nil
			case token.LSS:
				return a < b, nil
			case token.LEQ:
				return a <= b, nil
			case token.GTR:
				return a > b, nil
			case token.GEQ:
				return a >= b, nil
			}
		case bool:
			b, ok := r.(bool)
			if ok && x.Op == token.EQL {
				return a == b, nil
			}
			if ok && x.Op == token.NEQ {
				return a != b, nil
			}
		}
		return nil, fmt.Errorf("operator %s on these operands", x.Op)
	case *ast.IndexExpr:
		c, err := in.expr(x.X, env)
		if err != nil {
			return nil, err
		}
		k, err := in.expr(x.Index, env)
		if err != nil {
			return nil, err
		}
		switch cc := c.(type) {
		case string:
			i, ok := k.(int64)
			if !ok || i < 0 || int(i) >= len(cc) {
				return nil, fmt.Errorf("string index out of range (the code would panic)")
			}
			return int64(cc[i]), nil
		case []gval:
			i, ok := k.(int64)
			if !ok || i < 0 || int(i) >= len(cc) {
				return nil, fmt.Errorf("slice index out of range (the code would panic)")
			}
			return cc[i], nil
		case gmapv:
			ks, ok := k.(string)
			if !ok {
				return nil, fmt.Errorf("map key is not a string")
			}
			if v, has := cc[ks]; has {
				return v, nil
			}
			return cc["\x00zero"], nil
		}
		return nil, fmt.Errorf("index of a value that is not a string, a slice or a map")
	case *ast.SliceExpr:
		c, err := in.expr(x.X, env)
		if err != nil {
			return nil, err
		}
		if x.Slice3 {
			return nil, fmt.Errorf("three-index slice")
		}
		bound := func(b ast.Expr, def int64) (int64, error) {
			if b == nil {
				return def, nil
			}
			v, err := in.expr(b, env)
			if err != nil {
				return 0, err
			}
			n, ok := v.(int64)
			if !ok {
				return 0, fmt.Errorf("slice bound is not an integer")
			}
			return n, nil
		}
		switch cc := c.(type) {
		case string:
			lo, err := bound(x.Low, 0)
			if err != nil {
				return nil, err
			}
			hi, err := bound(x.High, int64(len(cc)))
			if err != nil {
				return nil, err
			}
			if lo < 0 || hi > int64(len(cc)) || lo > hi {
				return nil, fmt.Errorf("slice bounds out of range (the code would panic)")
			}
			return cc[lo:hi], nil
		case []gval:
			lo, err := bound(x.Low, 0)
			if err != nil {
				return nil, err
			}
			hi, err := bound(x.High, int64(len(cc)))
			if err != nil {
				return nil, err
			}
			if lo < 0 || hi > int64(len(cc)) || lo > hi {
				return nil, fmt.Errorf("slice bounds out of range (the code would panic)")
			}
			return append([]gval{}, cc[lo:hi]...), nil
		}
		return nil, fmt.Errorf("slice of a value that is neither a string nor a slice")
	case *ast.CompositeLit:
		switch t := x.Type.(type) {
		case *ast.ArrayType:
			var out []gval
			for _, el := range x.Elts {
				if _, isKV := el.(*ast.KeyValueExpr); isKV {
					return nil, fmt.Errorf("keyed slice literal")
				}
				v, err := in.expr(el, env)
				if err != nil {
					return nil, err
				}
				out = append(out, v)
			}
			return out, nil
		case *ast.MapType:
			if exprString(t.Key) != "string" {
				return nil, fmt.Errorf("map with keys that are not strings")
			}
			z, err := zeroOf(t.Value)
			if err != nil {
				return nil, err
			}
			out := gmapv{"\x00zero": z}
			for _, el := range x.Elts {
				kv, ok := el.(*ast.KeyValueExpr)
				if !ok {
					return nil, fmt.Errorf("map literal element")
				}
				k, err := in.expr(kv.Key, env)
				if err != nil {
					return nil, err
				}
				ks, ok := k.(string)
				if !ok {
					return nil, fmt.Errorf("map key is not a string")
				}
				v, err := in.expr(kv.Value, env)
				if err != nil {
					return nil, err
				}
				out[ks] = v
			}
			return out, nil
		}
		return nil, fmt.Errorf("composite literal of this type")
	case *ast.CallExpr:
		vs, err := in.call(x, env)
		if err != nil {
			return nil, err
		}
		if len(vs) != 1 {
			return nil, fmt.Errorf("call with %d results where one value is needed", len(vs))
		}
		return vs[0], nil
	}
	return nil, fmt.Errorf("expression %T", e)
}

func (in *gInterp) call(ce *ast.CallExpr, env *gEnv) ([]gval, error) {
	var args []gval
	for _, a := range ce.Args {
		v, err := in.expr(a, env)
		if err != nil {
			return nil, err
		}
		args = append(args, v)
	}
	str := func(i int) (string, error) {
		if i >= len(args) {
			return "", fmt.Errorf("missing argument")
		}
		s, ok := args[i].(string)
		if !ok {
			return "", fmt.Errorf("argument is not a string")
		}
		return s, nil
	}
	name := ""
	switch f := ce.Fun.(type) {
	case *ast.Ident:
		name = f.Name
		if _, shadow := env.lookup(name); shadow {
			return nil, fmt.Errorf("call of a function value")
		}
		switch name {
		case "len":
			if len(args) != 1 {
				return nil, fmt.Errorf("len")
			}
			switch c := args[0].(type) {
			case string:
				return []gval{int64(len(c))}, nil
			case []gval:
				return []gval{int64(len(c))}, nil
			case gmapv:
				return []gval{int64(len(c) - 1)}, nil
			}
			return nil, fmt.Errorf("len of this value")
		case "int", "int64", "int32", "rune", "uint":
			if n, ok := args[0].(int64); ok && len(args) == 1 {
				return []gval{n}, nil
			}
			return nil, fmt.Errorf("conversion to %s", name)
		case "byte", "uint8":
			if n, ok := args[0].(int64); ok && len(args) == 1 {
				return []gval{n & 0xff}, nil
			}
			return nil, fmt.Errorf("conversion to %s", name)
		case "string":
			switch a := args[0].(type) {
			case string:
				return []gval{a}, nil
			case int64:
				return []gval{string(rune(a))}, nil
			}
			return nil, fmt.Errorf("conversion to string")
		}
	case *ast.SelectorExpr:
		if pk, ok := f.X.(*ast.Ident); ok {
			if _, isVar := env.lookup(pk.Name); !isVar {
				switch pk.Name + "." + f.Sel.Name {
				case "strings.ToLower", "strings.ToUpper", "strings.TrimSpace":
					s, err := str(0)
					if err != nil {
						return nil, err
					}
					switch f.Sel.Name {
					case "ToLower":
						return []gval{strings.ToLower(s)}, nil
					case "ToUpper":
						return []gval{strings.ToUpper(s)}, nil
					}
					return []gval{strings.TrimSpace(s)}, nil
				case "strings.HasPrefix", "strings.HasSuffix", "strings.Contains", "strings.EqualFold", "strings.TrimPrefix", "strings.TrimSuffix", "strings.Index":
					a, err := str(0)
					if err != nil {
						return nil, err
					}
					b, err := str(1)
					if err != nil {
						return nil, err
					}
					switch f.Sel.Name {
					case "HasPrefix":
						return []gval{strings.HasPrefix(a, b)}, nil
					case "HasSuffix":
						return []gval{strings.HasSuffix(a, b)}, nil
					case "Contains":
						return []gval{strings.Contains(a, b)}, nil
					case "EqualFold":
						return []gval{strings.EqualFold(a, b)}, nil
					case "TrimPrefix":
						return []gval{strings.TrimPrefix(a, b)}, nil
					case "TrimSuffix":
						return []gval{strings.TrimSuffix(a, b)}, nil
					}
					return []gval{int64(strings.Index(a, b))}, nil
				case "strconv.Itoa":
					if n, ok := args[0].(int64); ok && len(args) == 1 {
						return []gval{strconv.Itoa(int(n))}, nil
					}
					return nil, fmt.Errorf("strconv.Itoa")
				case "strconv.Atoi":
					s, err := str(0)
					if err != nil {
						return nil, err
					}
					n, aerr := strconv.Atoi(s)
					if aerr != nil {
						return []gval{int64(0), gopaque{path: "error"}}, nil
					}
					return []gval{int64(n), gnil{}}, nil
				}
				if _, _, err := in.pkgValue(pk.Name); err == nil {
					// not a variable of the package either: a function of another package
					if in.p.funcDecl("", f.Sel.Name) == nil {
						return nil, fmt.Errorf("call of %s.%s", pk.Name, f.Sel.Name)
					}
				}
			}
		}
		name = f.Sel.Name // a method of the package, the receiver plays no part in pure code
	default:
		return nil, fmt.Errorf("call of a computed function")
	}
	var target *ast.FuncDecl
	cnt := 0
	for _, g := range in.p.allFuncs() {
		if g.Name.Name == name && g.Body != nil {
			target = g
			cnt++
		}
	}
	if cnt != 1 {
		return nil, fmt.Errorf("call of %s (%d functions of that name in the package)", name, cnt)
	}
	return in.callFunc(target, args)
}
