package main

// Schema: the two sides of the document round trip as tables.
//
//	w_schema   for every struct type of pkg/document that carries xml tags: its fields as
//	           (Go field name, local XML name, kind, shape, element type); kind is one of
//	           attr | elem | chardata | ns (namespace declaration) | skip (xml:"-")
//	           shape is one of str | val | opt | list (string-like scalar, struct by value, pointer, slice)
//	w_custom   the struct types with a hand-written MarshalXML
//	w_roots    the types that may stand in Body.Elements (they have an ElementType method)
//	r_known    for every struct type: the string literals (case labels, attribute names compared
//	           or looked up) occurring in the reader functions that construct a value of that type;
//	           a reader function is one with an *xml.Decoder, xml.StartElement or []xml.Attr parameter
//	r_absent   struct types of w_schema that no reader function constructs
//
// The tables say which names the reader can react to, per type; they do not say what it does with
// them (that is what the correspondence check observes).

import (
	"fmt"
	"go/ast"
	"go/token"
	"path/filepath"
	"reflect"
	"sort"
	"strings"
)

func init() {
	register("Schema", genSchema)
}

type sField struct {
	goName, local, kind, shape, elem string
	omitempty                        bool
}

func typeShape(e ast.Expr) (shape, elem string) {
	switch t := e.(type) {
	case *ast.Ident:
		switch t.Name {
		case "string", "bool", "int", "int64", "float64":
			return "str", t.Name
		}
		return "val", t.Name
	case *ast.StarExpr:
		_, el := typeShape(t.X)
		if id, ok := t.X.(*ast.Ident); ok {
			switch id.Name {
			case "string", "bool", "int", "int64", "float64":
				return "str", id.Name
			}
		}
		return "opt", el
	case *ast.ArrayType:
		_, el := typeShape(t.Elt)
		if id, ok := t.Elt.(*ast.Ident); ok && (id.Name == "byte" || id.Name == "string") {
			return "str", id.Name
		}
		return "list", el
	case *ast.SelectorExpr:
		return "str", "xml.Name"
	case *ast.InterfaceType:
		return "list", "interface"
	}
	return "str", "?"
}

func genSchema(repo string) (string, error) {
	p, err := loadPkg(filepath.Join(repo, "pkg/document"))
	if err != nil {
		return "", err
	}
	type sType struct {
		name    string
		xmlName string
		fields  []sField
	}
	types := map[string]*sType{}
	var order []string
	for _, fn := range p.sortedFiles() {
		for _, d := range p.files[fn].Decls {
			gd, ok := d.(*ast.GenDecl)
			if !ok || gd.Tok != token.TYPE {
				continue
			}
			for _, s := range gd.Specs {
				ts := s.(*ast.TypeSpec)
				st, ok := ts.Type.(*ast.StructType)
				if !ok {
					continue
				}
				t := &sType{name: ts.Name.Name}
				tagged := false
				for _, f := range st.Fields.List {
					if f.Tag == nil {
						continue
					}
					tag := reflect.StructTag(unquote(f.Tag.Value)).Get("xml")
					if tag == "" {
						continue
					}
					tagged = true
					parts := strings.Split(tag, ",")
					name := parts[0]
					fl := map[string]bool{}
					for _, x := range parts[1:] {
						fl[x] = true
					}
					local := name
					if i := strings.LastIndexByte(name, ':'); i >= 0 {
						local = name[i+1:]
					}
					for _, nm := range f.Names {
						if nm.Name == "XMLName" {
							t.xmlName = local
							continue
						}
						sh, el := typeShape(f.Type)
						sf := sField{goName: nm.Name, local: local, shape: sh, elem: el, omitempty: fl["omitempty"]}
						switch {
						case name == "-":
							sf.kind = "skip"
						case strings.HasPrefix(name, "xmlns:") || name == "xmlns":
							sf.kind = "ns"
						case fl["attr"]:
							sf.kind = "attr"
						case fl["chardata"] || fl["innerxml"]:
							sf.kind = "chardata"
						default:
							sf.kind = "elem"
						}
						t.fields = append(t.fields, sf)
					}
				}
				if tagged {
					types[t.name] = t
					order = append(order, t.name)
				}
			}
		}
	}
	if len(types) < 50 {
		return "", fmt.Errorf("only %d tagged struct types found in pkg/document", len(types))
	}
	sort.Strings(order)
	// element name of a struct-typed child: the XMLName tag of its type wins over the field tag
	for _, t := range types {
		for i := range t.fields {
			f := &t.fields[i]
			if f.kind == "elem" && f.shape != "str" {
				if ct, ok := types[f.elem]; ok && ct.xmlName != "" {
					f.local = ct.xmlName
				}
			}
		}
	}
	var custom, roots []string
	for _, fd := range p.allFuncs() {
		if fd.Recv == nil {
			continue
		}
		switch fd.Name.Name {
		case "MarshalXML":
			custom = append(custom, recvName(fd))
		case "ElementType":
			roots = append(roots, recvName(fd))
		}
	}
	sort.Strings(custom)
	sort.Strings(roots)
	if len(roots) == 0 {
		return "", fmt.Errorf("no ElementType methods found")
	}

	// reader side
	isReader := func(fd *ast.FuncDecl) bool {
		if fd.Type.Params == nil {
			return false
		}
		for _, prm := range fd.Type.Params.List {
			s := exprString(prm.Type)
			if s == "*xml.Decoder" || s == "xml.StartElement" || s == "[]xml.Attr" {
				return true
			}
		}
		return false
	}
	constStrings = p.stringConsts()
	// helpers that only look at attributes (xml.StartElement / []xml.Attr, no decoder): their literals count for
	// the reader functions that call them - what the helper reads ends up in the value the caller builds
	takesDecoder := func(fd *ast.FuncDecl) bool {
		for _, prm := range fd.Type.Params.List {
			if exprString(prm.Type) == "*xml.Decoder" {
				return true
			}
		}
		return false
	}
	funcLits := func(fd *ast.FuncDecl) map[string]bool {
		lits := map[string]bool{}
		ast.Inspect(fd.Body, func(n ast.Node) bool {
			switch x := n.(type) {
			case *ast.CaseClause:
				for _, e := range x.List {
					if blv, ok := strLit(e); ok {
						lits[blv] = true
					}
				}
			case *ast.CallExpr:
				if callName(x) == "getAttributeValue" && len(x.Args) == 2 {
					if blv, ok := strLit(x.Args[1]); ok {
						lits[blv] = true
					}
				}
			case *ast.BinaryExpr:
				if x.Op == token.EQL || x.Op == token.NEQ {
					for _, e := range []ast.Expr{x.X, x.Y} {
						if blv, ok := strLit(e); ok {
							lits[blv] = true
						}
					}
				}
			case *ast.CompositeLit:
				mapKeyLits(x, lits)
			}
			return true
		})
		return lits
	}
	attrHelpers := map[string]*ast.FuncDecl{}
	for _, fd := range p.allFuncs() {
		if fd.Body != nil && isReader(fd) && !takesDecoder(fd) && fd.Name.Name != "MarshalXML" && fd.Name.Name != "getAttributeValue" {
			attrHelpers[fd.Name.Name] = fd
		}
	}
	var helperLits func(fd *ast.FuncDecl, seen map[string]bool, into map[string]bool)
	helperLits = func(fd *ast.FuncDecl, seen map[string]bool, into map[string]bool) {
		ast.Inspect(fd.Body, func(n ast.Node) bool {
			ce, ok := n.(*ast.CallExpr)
			if !ok {
				return true
			}
			name := ""
			switch f := ce.Fun.(type) {
			case *ast.Ident:
				name = f.Name
			case *ast.SelectorExpr:
				name = f.Sel.Name
			}
			if h, ok := attrHelpers[name]; ok && !seen[name] {
				seen[name] = true
				for l := range funcLits(h) {
					into[l] = true
				}
				helperLits(h, seen, into)
			}
			return true
		})
	}
	isCarrier := func(fd *ast.FuncDecl) bool {
		if fd.Body == nil || !isReader(fd) || !takesDecoder(fd) || fd.Name.Name == "MarshalXML" {
			return false
		}
		// a function that is handed a value of the document model by pointer fills that value: its names are that type's
		for _, prm := range fd.Type.Params.List {
			if se, ok := prm.Type.(*ast.StarExpr); ok {
				if id, ok := se.X.(*ast.Ident); ok {
					if _, isModel := types[id.Name]; isModel {
						return false
					}
				}
			}
		}
		if fd.Type.Results == nil {
			return true
		}
		for _, res := range fd.Type.Results.List {
			t := res.Type
			if se, ok := t.(*ast.StarExpr); ok {
				t = se.X
			}
			switch x := t.(type) {
			case *ast.Ident:
				if _, isModel := types[x.Name]; isModel {
					return false
				}
			case *ast.InterfaceType, *ast.ArrayType, *ast.MapType:
				return false
			}
		}
		return true
	}
	var carrierLits func(fd *ast.FuncDecl, seen map[string]bool, into map[string]bool)
	carrierLits = func(fd *ast.FuncDecl, seen map[string]bool, into map[string]bool) {
		ast.Inspect(fd.Body, func(n ast.Node) bool {
			ce, ok := n.(*ast.CallExpr)
			if !ok {
				return true
			}
			name := ""
			switch f := ce.Fun.(type) {
			case *ast.Ident:
				name = f.Name
			case *ast.SelectorExpr:
				name = f.Sel.Name
			}
			if name == "" || seen[name] || name == "skipElement" {
				return true
			}
			var g *ast.FuncDecl
			cnt := 0
			for _, c := range p.allFuncs() {
				if c.Name.Name == name {
					g = c
					cnt++
				}
			}
			if cnt == 1 && isCarrier(g) {
				seen[name] = true
				for l := range funcLits(g) {
					into[l] = true
				}
				helperLits(g, seen, into)
				carrierLits(g, seen, into)
			}
			return true
		})
	}
	known := map[string]map[string]bool{}
	anyCases := map[string]bool{}
	nReaders := 0
	for _, fd := range p.allFuncs() {
		if fd.Body == nil || !isReader(fd) || fd.Name.Name == "MarshalXML" {
			continue
		}
		nReaders++
		lits := map[string]bool{}
		typeParams := typeParamSets(p, fd)
		helperLits(fd, map[string]bool{fd.Name.Name: true}, lits)
		built := map[string]bool{}
		ast.Inspect(fd.Body, func(n ast.Node) bool {
			switch x := n.(type) {
			case *ast.CaseClause:
				for _, e := range x.List {
					if blv, ok := strLit(e); ok {
						lits[blv] = true
					}
				}
			case *ast.CallExpr:
				if callName(x) == "getAttributeValue" && len(x.Args) == 2 {
					if blv, ok := strLit(x.Args[1]); ok {
						lits[blv] = true
					}
				}
			case *ast.BinaryExpr:
				if x.Op == token.EQL || x.Op == token.NEQ {
					for _, e := range []ast.Expr{x.X, x.Y} {
						if blv, ok := strLit(e); ok {
							lits[blv] = true
						}
					}
				}
			case *ast.CompositeLit:
				if id, ok := x.Type.(*ast.Ident); ok {
					built[id.Name] = true
				}
				mapKeyLits(x, lits)
			case *ast.Ident:
				// a use of a type parameter stands for every type of its constraint
				for _, tn := range typeParams[x.Name] {
					built[tn] = true
				}
			}
			return true
		})
		// a reader function of the package that hands back no value of the document model (it returns plain values or a
		// record of its own, or fills what it is handed): what it reads ends up in the value its caller builds
		carrierLits(fd, map[string]bool{fd.Name.Name: true}, lits)
		// a reader function whose result is interface{} decides which element names may stand in a
		// heterogeneous list (the document body)
		if fd.Type.Results != nil {
			for _, res := range fd.Type.Results.List {
				if it, ok := res.Type.(*ast.InterfaceType); ok && len(it.Methods.List) == 0 {
					for l := range lits {
						anyCases[l] = true
					}
				}
			}
		}
		// a value handed in by pointer is filled by this function as well (parseParagraphInto(decoder, formula *MathParagraph))
		if fd.Type.Params != nil {
			for _, prm := range fd.Type.Params.List {
				if se, ok := prm.Type.(*ast.StarExpr); ok {
					if id, ok := se.X.(*ast.Ident); ok {
						built[id.Name] = true
					}
				}
			}
		}
		for tn := range built {
			if _, ok := types[tn]; !ok {
				continue
			}
			if known[tn] == nil {
				known[tn] = map[string]bool{}
			}
			for l := range lits {
				known[tn][l] = true
			}
		}
	}
	if nReaders < 20 {
		return "", fmt.Errorf("only %d reader functions found", nReaders)
	}

	var b strings.Builder
	b.WriteString("From Coq Require Import String List.\nImport ListNotations.\nOpen Scope string_scope.\n\n")
	b.WriteString("(* (Go field, local XML name, kind, shape, element type, omitempty) *)\n")
	b.WriteString("Definition w_schema : list (string * list (string * string * string * string * string * bool)) := [\n")
	for i, tn := range order {
		t := types[tn]
		var fs []string
		for _, f := range t.fields {
			om := "false"
			if f.omitempty {
				om = "true"
			}
			fs = append(fs, fmt.Sprintf("(%s, %s, %s, %s, %s, %s)", coqString(f.goName), coqString(f.local), coqString(f.kind), coqString(f.shape), coqString(f.elem), om))
		}
		sep := ";"
		if i == len(order)-1 {
			sep = ""
		}
		fmt.Fprintf(&b, "  (%s, [%s])%s\n", coqString(tn), strings.Join(fs, "; "), sep)
	}
	b.WriteString("].\n\n")
	b.WriteString("Definition w_xmlname : list (string * string) := [")
	first := true
	for _, tn := range order {
		if types[tn].xmlName == "" {
			continue
		}
		if !first {
			b.WriteString("; ")
		}
		first = false
		fmt.Fprintf(&b, "(%s, %s)", coqString(tn), coqString(types[tn].xmlName))
	}
	b.WriteString("].\n")
	fmt.Fprintf(&b, "Definition w_custom : list string := %s.\n", coqStringList(custom))
	fmt.Fprintf(&b, "Definition w_roots : list string := %s.\n\n", coqStringList(roots))
	b.WriteString("Definition r_known : list (string * list string) := [\n")
	var ks []string
	for tn := range known {
		ks = append(ks, tn)
	}
	sort.Strings(ks)
	for i, tn := range ks {
		var ls []string
		for l := range known[tn] {
			ls = append(ls, l)
		}
		sort.Strings(ls)
		sep := ";"
		if i == len(ks)-1 {
			sep = ""
		}
		fmt.Fprintf(&b, "  (%s, %s)%s\n", coqString(tn), coqStringList(ls), sep)
	}
	b.WriteString("].\n\n")
	var absent []string
	for _, tn := range order {
		if known[tn] == nil {
			absent = append(absent, tn)
		}
	}
	fmt.Fprintf(&b, "Definition r_absent : list string := %s.\n", coqStringList(absent))
	var ac []string
	for l := range anyCases {
		ac = append(ac, l)
	}
	sort.Strings(ac)
	if len(ac) == 0 {
		return "", fmt.Errorf("no reader function returning interface{} found")
	}
	fmt.Fprintf(&b, "Definition r_any_cases : list string := %s.\n", coqStringList(ac))
	fmt.Fprintf(&b, "Definition r_reader_functions : nat := %d.\n", nReaders)
	return b.String(), nil
}

func exprString(e ast.Expr) string {
	switch t := e.(type) {
	case *ast.Ident:
		return t.Name
	case *ast.StarExpr:
		return "*" + exprString(t.X)
	case *ast.SelectorExpr:
		return exprString(t.X) + "." + t.Sel.Name
	case *ast.ArrayType:
		return "[]" + exprString(t.Elt)
	}
	return "?"
}

// mapKeyLits: the string keys of a map literal (a table from element or attribute names to what is done with them)
func mapKeyLits(cl *ast.CompositeLit, into map[string]bool) {
	if _, ok := cl.Type.(*ast.MapType); !ok {
		return
	}
	for _, el := range cl.Elts {
		if kv, ok := el.(*ast.KeyValueExpr); ok {
			if blv, ok := strLit(kv.Key); ok {
				into[blv] = true
			}
		}
	}
}

// typeParamSets: for a generic function, the named types each type parameter may stand for (the union its constraint
// lists, directly or through an interface of the package)
func typeParamSets(p *pkgSrc, fd *ast.FuncDecl) map[string][]string {
	out := map[string][]string{}
	if fd.Type.TypeParams == nil {
		return out
	}
	var union func(e ast.Expr, depth int) []string
	union = func(e ast.Expr, depth int) []string {
		if depth > 4 {
			return nil
		}
		switch x := e.(type) {
		case *ast.BinaryExpr:
			if x.Op == token.OR {
				return append(union(x.X, depth+1), union(x.Y, depth+1)...)
			}
		case *ast.UnaryExpr:
			if x.Op == token.TILDE {
				return union(x.X, depth+1)
			}
		case *ast.ParenExpr:
			return union(x.X, depth+1)
		case *ast.InterfaceType:
			var r []string
			for _, m := range x.Methods.List {
				if len(m.Names) == 0 {
					r = append(r, union(m.Type, depth+1)...)
				}
			}
			return r
		case *ast.Ident:
			for _, fn := range p.sortedFiles() {
				for _, d := range p.files[fn].Decls {
					gd, ok := d.(*ast.GenDecl)
					if !ok || gd.Tok != token.TYPE {
						continue
					}
					for _, sp := range gd.Specs {
						ts := sp.(*ast.TypeSpec)
						if ts.Name.Name == x.Name {
							if it, ok := ts.Type.(*ast.InterfaceType); ok {
								return union(it, depth+1)
							}
							return []string{x.Name}
						}
					}
				}
			}
			return []string{x.Name}
		}
		return nil
	}
	for _, f := range fd.Type.TypeParams.List {
		set := union(f.Type, 0)
		for _, n := range f.Names {
			out[n.Name] = set
		}
	}
	return out
}
