package main

// Walkers: the token walkers of the document reader as a table.
//
// A reader function is a function of pkg/document with an *xml.Decoder parameter.  Every one of them must
// have one of two shapes, otherwise the table is untranslatable:
//
//	loop        exactly one `for` statement over tokens, at the top level of the body, whose first statement is
//	            `token, err := decoder.Token()`, followed by the error return(s); then a type switch with a
//	            branch for xml.StartElement (a switch / if chain on the local name, or plain statements) and a
//	            branch for xml.EndElement (return when the local name is a literal or the name parameter).
//	            skipElement is the loop with a depth counter.
//	dispatch    no loop: a switch on the local name of the start element that was handed in.
//
// For every case the handler is what the case does with the token stream: hand it to another reader function
// (sub), skip the element (skip), read its text (text), or nothing (none); `stop` says that the case leaves the
// loop afterwards (return / goto).  The table says nothing about what a case stores.

import (
	"fmt"
	"go/ast"
	"go/token"
	"path/filepath"
	"sort"
	"strings"
)

func init() {
	register("Walkers", genWalkers)
}

type wHandler struct {
	kind, arg string
	stop      bool
}

func (h wHandler) coq() string {
	st := "false"
	if h.stop {
		st = "true"
	}
	switch h.kind {
	case "sub":
		return fmt.Sprintf("(mkH (HSub %s) %s)", coqString(h.arg), st)
	case "text":
		return fmt.Sprintf("(mkH (HText %s) %s)", coqString(h.arg), st)
	case "skip":
		return fmt.Sprintf("(mkH HSkip %s)", st)
	}
	return fmt.Sprintf("(mkH HNone %s)", st)
}

type wCase struct {
	name  string
	guard bool // an additional condition on the namespace
	h     wHandler
}

type wWalker struct {
	name     string
	loop     bool
	depth    bool // skipElement: ends when the depth counter reaches zero
	eofOK    bool
	ends     []string
	cases    []wCase
	def      wHandler
	hasCases bool
}

func isDecoderParam(fd *ast.FuncDecl) bool {
	if fd.Type.Params == nil {
		return false
	}
	for _, prm := range fd.Type.Params.List {
		if exprString(prm.Type) == "*xml.Decoder" {
			return true
		}
	}
	return false
}

// nameCond recognises `X.Name.Local == "lit"` possibly conjoined with other conditions
func nameCond(e ast.Expr) (name string, guarded bool, ok bool) {
	switch x := e.(type) {
	case *ast.ParenExpr:
		return nameCond(x.X)
	case *ast.BinaryExpr:
		if x.Op == token.LAND {
			n1, _, ok1 := nameCond(x.X)
			n2, _, ok2 := nameCond(x.Y)
			if ok1 && !ok2 {
				return n1, true, true
			}
			if ok2 && !ok1 {
				return n2, true, true
			}
			return "", false, false
		}
		if x.Op == token.EQL {
			for _, pr := range [][2]ast.Expr{{x.X, x.Y}, {x.Y, x.X}} {
				if strings.HasSuffix(exprStringDeep(pr[0]), ".Name.Local") {
					if bl, ok := pr[1].(*ast.BasicLit); ok && bl.Kind == token.STRING {
						return unquote(bl.Value), false, true
					}
				}
			}
		}
	}
	return "", false, false
}

func exprStringDeep(e ast.Expr) string {
	switch t := e.(type) {
	case *ast.Ident:
		return t.Name
	case *ast.SelectorExpr:
		return exprStringDeep(t.X) + "." + t.Sel.Name
	case *ast.StarExpr:
		return "*" + exprStringDeep(t.X)
	}
	return "?"
}

type wCtx struct {
	p       *pkgSrc
	readers map[string]bool
}

// handlerOf classifies a statement list by the reader functions it calls
func (c *wCtx) handlerOf(stmts []ast.Stmt, where string) (wHandler, error) {
	var calls []wHandler
	var err error
	for _, s := range stmts {
		ast.Inspect(s, func(n ast.Node) bool {
			ce, ok := n.(*ast.CallExpr)
			if !ok {
				return true
			}
			se, ok := ce.Fun.(*ast.SelectorExpr)
			if !ok {
				return true
			}
			fn := se.Sel.Name
			if !c.readers[fn] {
				return true
			}
			switch fn {
			case "skipElement":
				calls = append(calls, wHandler{kind: "skip"})
			case "readElementText":
				arg := "$cur"
				if len(ce.Args) == 2 {
					if bl, ok := ce.Args[1].(*ast.BasicLit); ok && bl.Kind == token.STRING {
						arg = unquote(bl.Value)
					} else if !strings.HasSuffix(exprStringDeep(ce.Args[1]), "Name.Local") {
						err = fmt.Errorf("%s: readElementText with an end name that is neither a literal nor the current name", where)
					}
				}
				calls = append(calls, wHandler{kind: "text", arg: arg})
			default:
				calls = append(calls, wHandler{kind: "sub", arg: fn})
			}
			return true
		})
	}
	if err != nil {
		return wHandler{}, err
	}
	h := wHandler{kind: "none"}
	if len(calls) > 1 {
		return h, fmt.Errorf("%s: more than one reader call in one case (%d)", where, len(calls))
	}
	if len(calls) == 1 {
		h = calls[0]
	}
	// does the case leave the loop afterwards?
	if len(stmts) > 0 {
		switch last := stmts[len(stmts)-1].(type) {
		case *ast.BranchStmt:
			if last.Tok == token.GOTO || last.Tok == token.BREAK && last.Label != nil {
				h.stop = true
			}
		case *ast.ReturnStmt:
			h.stop = true
		}
	}
	return h, nil
}

// casesOf reads the dispatch on the local name out of a statement list
func (c *wCtx) casesOf(stmts []ast.Stmt, w *wWalker, where string) error {
	if len(stmts) == 1 {
		switch s := stmts[0].(type) {
		case *ast.SwitchStmt:
			tagged := s.Tag != nil && strings.HasSuffix(exprStringDeep(s.Tag), "Name.Local")
			if tagged || s.Tag == nil {
				for _, cl := range s.Body.List {
					cc := cl.(*ast.CaseClause)
					h, err := c.handlerOf(cc.Body, where)
					if err != nil {
						return err
					}
					if cc.List == nil {
						w.def = h
						continue
					}
					for _, e := range cc.List {
						if tagged {
							bl, ok := e.(*ast.BasicLit)
							if !ok || bl.Kind != token.STRING {
								return fmt.Errorf("%s: case label is not a string literal", where)
							}
							w.cases = append(w.cases, wCase{unquote(bl.Value), false, h})
						} else {
							nm, g, ok := nameCond(e)
							if !ok {
								return fmt.Errorf("%s: case condition is not a comparison of the local name", where)
							}
							w.cases = append(w.cases, wCase{nm, g, h})
						}
					}
				}
				w.hasCases = true
				return nil
			}
		case *ast.IfStmt:
			// an if chain on the local name, every branch a handler
			var cs []wCase
			def := wHandler{kind: "none"}
			cur := ast.Stmt(s)
			okChain := true
			for cur != nil {
				is, ok := cur.(*ast.IfStmt)
				if !ok {
					if blk, ok := cur.(*ast.BlockStmt); ok {
						h, err := c.handlerOf(blk.List, where)
						if err != nil {
							return err
						}
						def = h
					}
					break
				}
				nm, g, ok := nameCond(is.Cond)
				if !ok || is.Init != nil {
					okChain = false
					break
				}
				h, err := c.handlerOf(is.Body.List, where)
				if err != nil {
					return err
				}
				cs = append(cs, wCase{nm, g, h})
				cur = is.Else
			}
			if okChain {
				w.cases = append(w.cases, cs...)
				w.def = def
				w.hasCases = true
				return nil
			}
		}
	}
	// plain statements: one handler for every element.  A reader call under a condition on the name would make
	// the handler depend on the name: not translatable here.
	for _, s := range stmts {
		bad := false
		ast.Inspect(s, func(n ast.Node) bool {
			is, ok := n.(*ast.IfStmt)
			if !ok {
				return true
			}
			if _, _, isName := nameCond(is.Cond); isName {
				h, _ := c.handlerOf(is.Body.List, where)
				if h.kind != "none" {
					bad = true
				}
			}
			return true
		})
		if bad {
			return fmt.Errorf("%s: a reader call under a name condition among plain statements", where)
		}
	}
	h, err := c.handlerOf(stmts, where)
	if err != nil {
		return err
	}
	w.def = h
	return nil
}

func genWalkers(repo string) (string, error) {
	p, err := loadPkg(filepath.Join(repo, "pkg/document"))
	if err != nil {
		return "", err
	}
	c := &wCtx{p: p, readers: map[string]bool{}}
	var fds []*ast.FuncDecl
	for _, fd := range p.allFuncs() {
		if fd.Body != nil && (isDecoderParam(fd) || callsToken(fd)) && fd.Name.Name != "MarshalXML" && fd.Name.Name != "UnmarshalXML" {
			c.readers[fd.Name.Name] = true
			fds = append(fds, fd)
		}
	}
	if len(fds) < 20 {
		return "", fmt.Errorf("only %d reader functions found", len(fds))
	}
	sort.Slice(fds, func(i, j int) bool { return fds[i].Name.Name < fds[j].Name.Name })
	var ws []*wWalker
	for _, fd := range fds {
		where := fd.Name.Name
		w := &wWalker{name: fd.Name.Name, def: wHandler{kind: "none"}}
		// parameters that carry the end name
		nameParams := map[string]bool{}
		for _, prm := range fd.Type.Params.List {
			if exprString(prm.Type) == "string" {
				for _, n := range prm.Names {
					nameParams[n.Name] = true
				}
			}
		}
		var loops []*ast.ForStmt
		for _, s := range fd.Body.List {
			if fs, ok := s.(*ast.ForStmt); ok {
				loops = append(loops, fs)
			}
		}
		// no for statement may hide deeper in the body
		nFor := 0
		ast.Inspect(fd.Body, func(n ast.Node) bool {
			if _, ok := n.(*ast.ForStmt); ok {
				nFor++
			}
			if _, ok := n.(*ast.FuncLit); ok {
				nFor += 100
			}
			return true
		})
		if nFor != len(loops) || len(loops) > 1 {
			return "", fmt.Errorf("%s: %d for statements, %d at the top level of the body (one token loop at most, no closures)", where, nFor, len(loops))
		}
		if len(loops) == 0 {
			// dispatcher: a single switch on the name of the element handed in
			var sw *ast.SwitchStmt
			for _, s := range fd.Body.List {
				if x, ok := s.(*ast.SwitchStmt); ok {
					if sw != nil {
						return "", fmt.Errorf("%s: two switch statements in a dispatcher", where)
					}
					sw = x
				}
			}
			if sw == nil {
				return "", fmt.Errorf("%s: neither a token loop nor a dispatcher", where)
			}
			if err := c.casesOf([]ast.Stmt{sw}, w, where); err != nil {
				return "", err
			}
			for i := range w.cases {
				w.cases[i].h.stop = false
			}
			w.def.stop = false
			ws = append(ws, w)
			continue
		}
		w.loop = true
		loop := loops[0]
		if loop.Init != nil || loop.Post != nil {
			return "", fmt.Errorf("%s: the token loop has an init or post statement", where)
		}
		if loop.Cond != nil {
			// skipElement: for depth > 0
			if exprStringDeep(loop.Cond.(*ast.BinaryExpr).X) != "depth" {
				return "", fmt.Errorf("%s: loop condition is not the depth counter", where)
			}
			w.depth = true
		}
		body := loop.Body.List
		if len(body) < 3 {
			return "", fmt.Errorf("%s: token loop too short", where)
		}
		as, ok := body[0].(*ast.AssignStmt)
		if !ok || len(as.Rhs) != 1 {
			return "", fmt.Errorf("%s: the loop does not begin with token, err := decoder.Token()", where)
		}
		ce, ok := as.Rhs[0].(*ast.CallExpr)
		if !ok || !strings.HasSuffix(exprStringDeep(ce.Fun), ".Token") || len(as.Lhs) != 2 || exprStringDeep(as.Lhs[1]) != "err" {
			return "", fmt.Errorf("%s: the loop does not begin with token, err := decoder.Token()", where)
		}
		idx := 1
		sawErrReturn := false
		for idx < len(body) {
			is, ok := body[idx].(*ast.IfStmt)
			if !ok {
				break
			}
			cond := is.Cond
			be, ok := cond.(*ast.BinaryExpr)
			if !ok || exprStringDeep(be.X) != "err" {
				break
			}
			if be.Op == token.EQL && exprStringDeep(be.Y) == "io.EOF" {
				if len(is.Body.List) != 1 {
					return "", fmt.Errorf("%s: unexpected io.EOF handling", where)
				}
				if br, ok := is.Body.List[0].(*ast.BranchStmt); !ok || br.Tok != token.BREAK {
					return "", fmt.Errorf("%s: io.EOF is not handled by break", where)
				}
				w.eofOK = true
			} else if be.Op == token.NEQ && exprStringDeep(be.Y) == "nil" {
				if len(is.Body.List) == 0 {
					return "", fmt.Errorf("%s: err != nil without return", where)
				}
				if _, ok := is.Body.List[len(is.Body.List)-1].(*ast.ReturnStmt); !ok {
					return "", fmt.Errorf("%s: err != nil does not return", where)
				}
				sawErrReturn = true
			} else {
				break
			}
			idx++
		}
		if !sawErrReturn {
			return "", fmt.Errorf("%s: the loop does not return when Token fails", where)
		}
		if idx != len(body)-1 {
			return "", fmt.Errorf("%s: %d statements after the error checks (one type switch expected)", where, len(body)-idx)
		}
		ts, ok := body[idx].(*ast.TypeSwitchStmt)
		if !ok {
			return "", fmt.Errorf("%s: the loop body is not a type switch over the token", where)
		}
		for _, cl := range ts.Body.List {
			cc := cl.(*ast.CaseClause)
			if len(cc.List) != 1 {
				return "", fmt.Errorf("%s: type switch clause with %d types", where, len(cc.List))
			}
			switch exprStringDeep(cc.List[0]) {
			case "xml.StartElement":
				if w.depth {
					continue // depth++
				}
				if err := c.casesOf(cc.Body, w, where); err != nil {
					return "", err
				}
			case "xml.EndElement":
				if w.depth {
					continue // depth--
				}
				for _, s := range cc.Body {
					is, ok := s.(*ast.IfStmt)
					if !ok {
						return "", fmt.Errorf("%s: statement other than if in the EndElement branch", where)
					}
					be, ok := is.Cond.(*ast.BinaryExpr)
					if !ok || be.Op != token.EQL || !strings.HasSuffix(exprStringDeep(be.X), "Name.Local") {
						return "", fmt.Errorf("%s: EndElement condition is not a comparison of the local name", where)
					}
					if len(is.Body.List) == 0 {
						return "", fmt.Errorf("%s: EndElement branch does not return", where)
					}
					if _, ok := is.Body.List[len(is.Body.List)-1].(*ast.ReturnStmt); !ok {
						return "", fmt.Errorf("%s: EndElement branch does not return", where)
					}
					if bl, ok := be.Y.(*ast.BasicLit); ok && bl.Kind == token.STRING {
						w.ends = append(w.ends, unquote(bl.Value))
					} else if id, ok := be.Y.(*ast.Ident); ok && nameParams[id.Name] {
						w.ends = append(w.ends, "$param")
					} else if strings.HasSuffix(exprStringDeep(be.Y), "Name.Local") {
						w.ends = append(w.ends, "$param")
					} else {
						return "", fmt.Errorf("%s: EndElement compares with something that is neither a literal nor a name parameter", where)
					}
				}
			case "xml.CharData", "xml.Comment", "xml.ProcInst", "xml.Directive":
				// no effect on the token stream
				for _, s := range cc.Body {
					h, err := c.handlerOf([]ast.Stmt{s}, where)
					if err != nil || h.kind != "none" {
						return "", fmt.Errorf("%s: a reader call in a non-element branch", where)
					}
				}
			default:
				return "", fmt.Errorf("%s: unexpected token type %s", where, exprStringDeep(cc.List[0]))
			}
		}
		if !w.depth && len(w.ends) == 0 && !w.eofOK {
			return "", fmt.Errorf("%s: the loop never returns on an end element", where)
		}
		ws = append(ws, w)
	}
	// how a sub call passes the end name: a literal second/third argument is not used by any walker with $param
	// other than through the start element; recorded as the name of the current element.
	var b strings.Builder
	b.WriteString("From Coq Require Import String List Bool.\nFrom WZ Require Import Model.Walk.\nImport ListNotations.\nOpen Scope string_scope.\n\n")
	b.WriteString("Definition walkers : list walker := [\n")
	for i, w := range ws {
		var cs []string
		for _, cse := range w.cases {
			g := "false"
			if cse.guard {
				g = "true"
			}
			cs = append(cs, fmt.Sprintf("(%s, %s, %s)", coqString(cse.name), g, cse.h.coq()))
		}
		kind := "WDispatch"
		if w.loop {
			kind = "WLoop"
		}
		if w.depth {
			kind = "WDepth"
		}
		eof := "false"
		if w.eofOK {
			eof = "true"
		}
		sep := ";"
		if i == len(ws)-1 {
			sep = ""
		}
		fmt.Fprintf(&b, "  mkW %s %s %s %s [%s] %s%s\n", coqString(w.name), kind, eof, coqStringList(w.ends), strings.Join(cs, "; "), w.def.coq(), sep)
	}
	b.WriteString("].\n")
	return b.String(), nil
}

// callsToken: the function pulls tokens from a decoder it created itself (the entry point parseDocument)
func callsToken(fd *ast.FuncDecl) bool {
	found := false
	ast.Inspect(fd.Body, func(n ast.Node) bool {
		if ce, ok := n.(*ast.CallExpr); ok {
			if strings.HasSuffix(exprStringDeep(ce.Fun), ".Token") && len(ce.Args) == 0 {
				found = true
			}
		}
		return true
	})
	return found
}
