package main

// Walkers: the token walkers of the document reader as a table.
//
// A reader function is a function of pkg/document with an *xml.Decoder parameter.  Every one of them must
// have one of two shapes, otherwise the table is untranslatable:
//
//	loop        exactly one `for` statement over tokens, at the top level of the body, whose first statement is
//	            `token, err := decoder.Token()`, followed by the error return(s); then a type switch with a
//	            branch for xml.StartElement (a switch / if chain on the local name, or plain statements) and a
//	            branch for xml.EndElement (return when the local name is a literal or the name parameter).
//	            skipElement is the loop with a depth counter.
//	dispatch    no loop: a switch on the local name of the start element that was handed in.
//
// For every case the handler is what the case does with the token stream: hand it to another reader function
// (sub), skip the element (skip), read its text (text), or nothing (none); `stop` says that the case leaves the
// loop afterwards (return / goto).  The table says nothing about what a case stores.

import (
	"fmt"
	"go/ast"
	"go/token"
	"path/filepath"
	"sort"
	"strings"
)

func init() {
	register("Walkers", genWalkers)
}

type wHandler struct {
	kind, arg string
	stop      bool
}

func (h wHandler) coq() string {
	st := "false"
	if h.stop {
		st = "true"
	}
	switch h.kind {
	case "sub":
		return fmt.Sprintf("(mkH (HSub %s) %s)", coqString(h.arg), st)
	case "text":
		return fmt.Sprintf("(mkH (HText %s) %s)", coqString(h.arg), st)
	case "skip":
		return fmt.Sprintf("(mkH HSkip %s)", st)
	}
	return fmt.Sprintf("(mkH HNone %s)", st)
}

type wCase struct {
	name    string
	guard   bool // an additional condition on the namespace
	h       wHandler
	badCond bool // the additional condition is about something else than the namespace
}

// guardsAreNamespace: every conjunct of a case condition compares the local name or the namespace
func guardsAreNamespace(e ast.Expr) bool {
	e = inlineNamePredicate(e)
	switch x := e.(type) {
	case *ast.ParenExpr:
		return guardsAreNamespace(x.X)
	case *ast.BinaryExpr:
		if x.Op == token.LAND {
			return guardsAreNamespace(x.X) && guardsAreNamespace(x.Y)
		}
		if _, _, ok := nameCond(x); ok {
			return true
		}
		return isSpaceCond(x)
	}
	return false
}

type wWalker struct {
	name     string
	loop     bool
	depth    bool // skipElement: ends when the depth counter reaches zero
	eofOK    bool
	ends     []string
	cases    []wCase
	def      wHandler
	hasCases bool
}

func isDecoderParam(fd *ast.FuncDecl) bool {
	if fd.Type.Params == nil {
		return false
	}
	for _, prm := range fd.Type.Params.List {
		if exprString(prm.Type) == "*xml.Decoder" {
			return true
		}
	}
	return false
}

// isSpaceCond: a comparison of the namespace of the element (X.Name.Space == ...)
func isSpaceCond(e ast.Expr) bool {
	e = inlineNamePredicate(e)
	switch x := e.(type) {
	case *ast.ParenExpr:
		return isSpaceCond(x.X)
	case *ast.BinaryExpr:
		if x.Op == token.EQL {
			return strings.HasSuffix(exprStringDeep(x.X), ".Name.Space") || strings.HasSuffix(exprStringDeep(x.Y), ".Name.Space")
		}
	}
	return false
}

// otherGuards: the conjuncts of a case condition that are neither the comparison of the local name nor one of the
// namespace
var otherGuards int

// nameCond recognises `X.Name.Local == "lit"` possibly conjoined with other conditions
func nameCond(e ast.Expr) (name string, guarded bool, ok bool) {
	e = inlineNamePredicate(e)
	switch x := e.(type) {
	case *ast.ParenExpr:
		return nameCond(x.X)
	case *ast.BinaryExpr:
		if x.Op == token.LAND {
			n1, _, ok1 := nameCond(x.X)
			n2, _, ok2 := nameCond(x.Y)
			if ok1 && !ok2 {
				if !isSpaceCond(x.Y) {
					otherGuards++
				}
				return n1, true, true
			}
			if ok2 && !ok1 {
				if !isSpaceCond(x.X) {
					otherGuards++
				}
				return n2, true, true
			}
			return "", false, false
		}
		if x.Op == token.EQL {
			for _, pr := range [][2]ast.Expr{{x.X, x.Y}, {x.Y, x.X}} {
				if strings.HasSuffix(exprStringDeep(pr[0]), ".Name.Local") {
					if blv, ok := strLit(pr[1]); ok {
						return blv, false, true
					}
				}
			}
		}
	}
	return "", false, false
}

// tokenHelper: the call is of a function of the package that reads exactly one token from the decoder it is handed
// and returns (token, err) [result 2] or (token, end-of-input, err) [result 3], the end of the input being reported
// through the flag with a nil error; 0 otherwise. Shape: no loops, one call of Token(), every return after an error test
// returns a non-nil error exactly when the test was `err != nil`.
func (c *wCtx) tokenHelper(ce *ast.CallExpr) int {
	id, ok := ce.Fun.(*ast.Ident)
	if !ok {
		if sel, isSel := ce.Fun.(*ast.SelectorExpr); isSel {
			id = sel.Sel
		} else {
			return 0
		}
	}
	return tokenHelperDecl(c.p.funcDecl("", id.Name))
}

func tokenHelperDecl(fd *ast.FuncDecl) int {
	if fd == nil || fd.Body == nil || fd.Type.Results == nil {
		return 0
	}
	nres := 0
	var resTypes []string
	for _, r := range fd.Type.Results.List {
		k := len(r.Names)
		if k == 0 {
			k = 1
		}
		for i := 0; i < k; i++ {
			resTypes = append(resTypes, exprStringDeep(r.Type))
		}
		nres += k
	}
	if nres != 2 && nres != 3 {
		return 0
	}
	if resTypes[0] != "xml.Token" || resTypes[nres-1] != "error" || (nres == 3 && resTypes[1] != "bool") {
		return 0
	}
	tokens, loops, bad := 0, 0, false
	ast.Inspect(fd.Body, func(n ast.Node) bool {
		switch x := n.(type) {
		case *ast.ForStmt, *ast.RangeStmt:
			loops++
		case *ast.CallExpr:
			if strings.HasSuffix(exprStringDeep(x.Fun), ".Token") {
				tokens++
			}
		case *ast.IfStmt:
			// if err == io.EOF { return _, true, nil }   /  if err != nil { return _, false, <not nil> }
			be, ok := x.Cond.(*ast.BinaryExpr)
			if !ok || len(x.Body.List) == 0 {
				bad = true
				return true
			}
			rs, ok := x.Body.List[len(x.Body.List)-1].(*ast.ReturnStmt)
			if !ok || len(rs.Results) != nres {
				bad = true
				return true
			}
			last := exprStringDeep(rs.Results[nres-1])
			switch {
			case be.Op == token.EQL && exprStringDeep(be.Y) == "io.EOF":
				if nres != 3 || last != "nil" || exprStringDeep(rs.Results[1]) != "true" {
					bad = true
				}
			case be.Op == token.NEQ && exprStringDeep(be.Y) == "nil":
				if last == "nil" || (nres == 3 && exprStringDeep(rs.Results[1]) != "false") {
					bad = true
				}
			default:
				bad = true
			}
		}
		return true
	})
	if tokens != 1 || loops != 0 || bad {
		return 0
	}
	return nres
}

func exprStringDeep(e ast.Expr) string {
	switch t := e.(type) {
	case *ast.Ident:
		return t.Name
	case *ast.SelectorExpr:
		return exprStringDeep(t.X) + "." + t.Sel.Name
	case *ast.StarExpr:
		return "*" + exprStringDeep(t.X)
	}
	return "?"
}

type wCtx struct {
	p       *pkgSrc
	readers map[string]bool
}

// handlerOf classifies a statement list by the reader functions it calls
func (c *wCtx) handlerOf(stmts []ast.Stmt, where string) (wHandler, error) {
	var calls []wHandler
	var err error
	for _, s := range stmts {
		ast.Inspect(s, func(n ast.Node) bool {
			ce, ok := n.(*ast.CallExpr)
			if !ok {
				return true
			}
			se, ok := ce.Fun.(*ast.SelectorExpr)
			if !ok {
				return true
			}
			fn := se.Sel.Name
			if !c.readers[fn] {
				return true
			}
			switch fn {
			case "skipElement":
				calls = append(calls, wHandler{kind: "skip"})
			case "readElementText":
				arg := "$cur"
				if len(ce.Args) == 2 {
					if blv, ok := strLit(ce.Args[1]); ok {
						arg = blv
					} else if !strings.HasSuffix(exprStringDeep(ce.Args[1]), "Name.Local") {
						err = fmt.Errorf("%s: readElementText with an end name that is neither a literal nor the current name", where)
					}
				}
				calls = append(calls, wHandler{kind: "text", arg: arg})
			default:
				calls = append(calls, wHandler{kind: "sub", arg: fn})
			}
			return true
		})
	}
	if err != nil {
		return wHandler{}, err
	}
	h := wHandler{kind: "none"}
	if len(calls) > 1 {
		return h, fmt.Errorf("%s: more than one reader call in one case (%d)", where, len(calls))
	}
	if len(calls) == 1 {
		h = calls[0]
	}
	// does the case leave the loop afterwards?
	if len(stmts) > 0 {
		switch last := stmts[len(stmts)-1].(type) {
		case *ast.BranchStmt:
			if last.Tok == token.GOTO || last.Tok == token.BREAK && last.Label != nil {
				h.stop = true
			}
		case *ast.ReturnStmt:
			h.stop = true
		}
	}
	return h, nil
}

// altHandlers: the handlers of the alternative paths through a statement list that branches by
// `if cond { ...; return ... }`
func (c *wCtx) altHandlers(stmts []ast.Stmt, where string) ([]wHandler, error) {
	for i, s := range stmts {
		is, ok := s.(*ast.IfStmt)
		if !ok || is.Else != nil || len(is.Body.List) == 0 {
			continue
		}
		if _, ret := is.Body.List[len(is.Body.List)-1].(*ast.ReturnStmt); !ret {
			continue
		}
		prefix := append([]ast.Stmt{}, stmts[:i]...)
		if is.Init != nil {
			prefix = append(prefix, is.Init)
		}
		a, err := c.altHandlers(append(append([]ast.Stmt{}, prefix...), is.Body.List...), where)
		if err != nil {
			return nil, err
		}
		b, err := c.altHandlers(append(append([]ast.Stmt{}, prefix...), stmts[i+1:]...), where)
		if err != nil {
			return nil, err
		}
		return append(a, b...), nil
	}
	h, err := c.handlerOf(stmts, where)
	if err != nil {
		return nil, err
	}
	return []wHandler{h}, nil
}

// endsWithContinue: the statement list leaves the current iteration by itself
func endsWithContinue(stmts []ast.Stmt) bool {
	if len(stmts) == 0 {
		return false
	}
	br, ok := stmts[len(stmts)-1].(*ast.BranchStmt)
	return ok && br.Tok == token.CONTINUE
}

// nameAliases: local variables that hold the local name of the current element (name := t.Name.Local)
func nameAliases(stmts []ast.Stmt) map[string]bool {
	al := map[string]bool{}
	for _, s := range stmts {
		if as, ok := s.(*ast.AssignStmt); ok && len(as.Lhs) == 1 && len(as.Rhs) == 1 {
			if id, ok := as.Lhs[0].(*ast.Ident); ok && strings.HasSuffix(exprStringDeep(as.Rhs[0]), "Name.Local") {
				al[id.Name] = true
			}
		}
	}
	return al
}

// casesOf reads the dispatch on the local name out of a statement list: statements without reader calls, then a
// switch or an if chain on the local name, then statements that every case which does not leave the iteration by
// itself runs into (a skip shared by all cases)
func (c *wCtx) casesOf(stmts []ast.Stmt, w *wWalker, where string) error {
	stmts = inlineNameFlags(stmts)
	// if !(<condition on the name>) { continue } (also written as a disjunction of != comparisons): what follows runs
	// under the condition
	for k, st := range stmts {
		if is, ok := st.(*ast.IfStmt); ok && is.Init == nil && is.Else == nil && len(is.Body.List) == 1 && endsWithContinue(is.Body.List) {
			if pos, ok := negateCond(is.Cond); ok {
				if _, guarded, isName := nameCond(pos); isName && guarded {
					pre := stmts[:k]
					clean := true
					for _, ps := range pre {
						if h, err := c.handlerOf([]ast.Stmt{ps}, where); err != nil || h.kind != "none" {
							clean = false
						}
					}
					if clean {
						wrapped := append(append([]ast.Stmt{}, pre...), &ast.IfStmt{Cond: pos, Body: &ast.BlockStmt{List: stmts[k+1:]}})
						return c.casesOf(wrapped, w, where)
					}
				}
			}
		}
		if _, isAssign := st.(*ast.AssignStmt); !isAssign {
			break
		}
	}
	// if X.Name.Local != "lit" { ...; continue } followed by what is done for "lit"
	if len(stmts) >= 1 {
		if is, ok := stmts[0].(*ast.IfStmt); ok && is.Init == nil && is.Else == nil && endsWithContinue(is.Body.List) {
			if be, ok := is.Cond.(*ast.BinaryExpr); ok && be.Op == token.NEQ {
				for _, pr := range [][2]ast.Expr{{be.X, be.Y}, {be.Y, be.X}} {
					if strings.HasSuffix(exprStringDeep(pr[0]), ".Name.Local") {
						if nm, isLit := strLit(pr[1]); isLit {
							other, err := c.handlerOf(is.Body.List, where)
							if err != nil {
								return err
							}
							sub := &wWalker{def: wHandler{kind: "none"}}
							if err := c.casesOf(stmts[1:], sub, where); err != nil {
								return err
							}
							if sub.hasCases {
								return fmt.Errorf("%s: a dispatch on the name after a negated name condition", where)
							}
							w.cases = append(w.cases, wCase{name: nm, h: sub.def})
							w.def = other
							w.hasCases = true
							return nil
						}
					}
				}
			}
		}
	}
	k := -1
	for i, s := range stmts {
		switch s.(type) {
		case *ast.SwitchStmt, *ast.IfStmt:
			k = i
		}
		if k >= 0 {
			break
		}
		if h, err := c.handlerOf([]ast.Stmt{s}, where); err != nil || h.kind != "none" {
			break
		}
	}
	if k >= 0 {
		aliases := nameAliases(stmts[:k])
		isName := func(e ast.Expr) bool {
			if strings.HasSuffix(exprStringDeep(e), "Name.Local") {
				return true
			}
			id, ok := e.(*ast.Ident)
			return ok && aliases[id.Name]
		}
		trailing, err := c.handlerOf(stmts[k+1:], where)
		if err != nil {
			return err
		}
		var cs []wCase
		def := wHandler{kind: "none"}
		defGiven := false
		type caseBody struct {
			names  []string
			guards []bool
			body   []ast.Stmt
			isDef  bool
			bad    bool
		}
		var bodies []caseBody
		ok := false
		switch s := stmts[k].(type) {
		case *ast.SwitchStmt:
			tagged := s.Tag != nil && isName(s.Tag)
			if s.Init == nil && (tagged || s.Tag == nil) {
				ok = true
				for _, cl := range s.Body.List {
					cc := cl.(*ast.CaseClause)
					cb := caseBody{body: cc.Body, isDef: cc.List == nil}
					for _, e := range cc.List {
						if tagged {
							blv, isLit := strLit(e)
							if !isLit {
								return fmt.Errorf("%s: case label is not a string literal", where)
							}
							cb.names = append(cb.names, blv)
							cb.guards = append(cb.guards, false)
						} else {
							nm, g, isCond := nameCond(e)
							if !isCond {
								return fmt.Errorf("%s: case condition is not a comparison of the local name", where)
							}
							cb.names = append(cb.names, nm)
							cb.guards = append(cb.guards, g)
							cb.bad = cb.bad || (g && !guardsAreNamespace(e))
						}
					}
					bodies = append(bodies, cb)
				}
			}
		case *ast.IfStmt:
			// an if chain on the local name, every branch a handler
			ok = true
			cur := ast.Stmt(s)
			for cur != nil {
				is, isIf := cur.(*ast.IfStmt)
				if !isIf {
					if blk, isBlk := cur.(*ast.BlockStmt); isBlk {
						bodies = append(bodies, caseBody{body: blk.List, isDef: true})
					}
					break
				}
				nm, g, isCond := nameCond(is.Cond)
				if !isCond || is.Init != nil {
					ok = false
					break
				}
				bodies = append(bodies, caseBody{names: []string{nm}, guards: []bool{g}, body: is.Body.List, bad: g && !guardsAreNamespace(is.Cond)})
				cur = is.Else
			}
		}
		if ok {
			for _, cb := range bodies {
				h, err := c.handlerOf(cb.body, where)
				if err != nil {
					return err
				}
				if trailing.kind != "none" && !h.stop && !endsWithContinue(cb.body) {
					if h.kind != "none" {
						return fmt.Errorf("%s: a case with a reader call runs into the reader call that follows the switch", where)
					}
					h = trailing
				}
				if cb.isDef {
					def, defGiven = h, true
					continue
				}
				for i, nm := range cb.names {
					cs = append(cs, wCase{name: nm, guard: cb.guards[i], h: h, badCond: cb.bad})
				}
			}
			if !defGiven {
				def = trailing
			}
			w.cases = append(w.cases, cs...)
			w.def = def
			w.hasCases = true
			return nil
		}
	}
	// plain statements: one handler for every element.  A reader call under a condition on the name would make
	// the handler depend on the name: not translatable here.
	for _, s := range stmts {
		bad := false
		ast.Inspect(s, func(n ast.Node) bool {
			is, ok := n.(*ast.IfStmt)
			if !ok {
				return true
			}
			mentionsName := false
			ast.Inspect(is.Cond, func(m ast.Node) bool {
				if e, ok := m.(ast.Expr); ok && strings.HasSuffix(exprStringDeep(e), ".Name.Local") {
					mentionsName = true
				}
				return true
			})
			if mentionsName {
				h, _ := c.handlerOf(is.Body.List, where)
				if h.kind != "none" || endsWithContinue(is.Body.List) {
					bad = true
				}
			}
			return true
		})
		if bad {
			return fmt.Errorf("%s: a reader call under a name condition among plain statements", where)
		}
	}
	h, err := c.handlerOf(stmts, where)
	if err != nil {
		return err
	}
	w.def = h
	return nil
}

func genWalkers(repo string) (string, error) {
	p, err := loadPkg(filepath.Join(repo, "pkg/document"))
	if err != nil {
		return "", err
	}
	constStrings = p.stringConsts()
	c := &wCtx{p: p, readers: map[string]bool{}}
	curWalkPkg = p
	var fds []*ast.FuncDecl
	// the reader functions: those that are handed the decoder of the part being read, and the entry points that
	// create that decoder and hand it to one of them (parseDocument).  A function that walks a decoder of its own
	// without calling a reader function (helpers that look into other parts) is not part of this walk.
	for _, fd := range p.allFuncs() {
		if fd.Body != nil && isDecoderParam(fd) && fd.Name.Name != "MarshalXML" && fd.Name.Name != "UnmarshalXML" && tokenHelperDecl(fd) == 0 {
			c.readers[fd.Name.Name] = true
			fds = append(fds, fd)
		}
	}
	for _, fd := range p.allFuncs() {
		if fd.Body == nil || c.readers[fd.Name.Name] || !callsToken(fd) || fd.Name.Name == "MarshalXML" || fd.Name.Name == "UnmarshalXML" {
			continue
		}
		handsOn := false
		ast.Inspect(fd.Body, func(n ast.Node) bool {
			if ce, ok := n.(*ast.CallExpr); ok {
				if se, ok := ce.Fun.(*ast.SelectorExpr); ok && c.readers[se.Sel.Name] {
					handsOn = true
				}
			}
			return true
		})
		if handsOn {
			c.readers[fd.Name.Name] = true
			fds = append(fds, fd)
		}
	}
	if len(fds) < 20 {
		return "", fmt.Errorf("only %d reader functions found", len(fds))
	}
	sort.Slice(fds, func(i, j int) bool { return fds[i].Name.Name < fds[j].Name.Name })
	var ws []*wWalker
	for _, fd := range fds {
		where := fd.Name.Name
		w := &wWalker{name: fd.Name.Name, def: wHandler{kind: "none"}}
		// parameters that carry the end name
		nameParams := map[string]bool{}
		for _, prm := range fd.Type.Params.List {
			if exprString(prm.Type) == "string" {
				for _, n := range prm.Names {
					nameParams[n.Name] = true
				}
			}
		}
		var loops []*ast.ForStmt
		for _, s := range fd.Body.List {
			if ls, ok := s.(*ast.LabeledStmt); ok {
				s = ls.Stmt // Loop: for { ... break Loop ... }
			}
			if fs, ok := s.(*ast.ForStmt); ok {
				loops = append(loops, fs)
			}
		}
		// no for statement may hide deeper in the body
		nFor := 0
		ast.Inspect(fd.Body, func(n ast.Node) bool {
			if _, ok := n.(*ast.ForStmt); ok {
				nFor++
			}
			if fl, ok := n.(*ast.FuncLit); ok {
				// a closure that touches the token stream (a reader call, Token()) hides control flow; one that does
				// not (a deferred clean-up) is of no concern
				touches := false
				ast.Inspect(fl.Body, func(m ast.Node) bool {
					if ce, ok := m.(*ast.CallExpr); ok {
						if se, ok := ce.Fun.(*ast.SelectorExpr); ok && (c.readers[se.Sel.Name] || se.Sel.Name == "Token") {
							touches = true
						}
						if id, ok := ce.Fun.(*ast.Ident); ok && c.readers[id.Name] {
							touches = true
						}
					}
					if _, ok := m.(*ast.ForStmt); ok {
						touches = true
					}
					return true
				})
				if touches {
					nFor += 100
				}
				return false
			}
			return true
		})
		if nFor != len(loops) || len(loops) > 1 {
			return "", fmt.Errorf("%s: %d for statements, %d at the top level of the body (one token loop at most, no closures)", where, nFor, len(loops))
		}
		if len(loops) == 0 {
			// dispatcher: a single switch on the name of the element handed in
			var sw *ast.SwitchStmt
			for _, s := range fd.Body.List {
				if x, ok := s.(*ast.SwitchStmt); ok {
					if sw != nil {
						return "", fmt.Errorf("%s: two switch statements in a dispatcher", where)
					}
					sw = x
				}
			}
			if sw == nil {
				// a helper that hands the element on (or skips it) whatever its name: every path through its early
				// returns does the same to the token stream
				hs, err := c.altHandlers(fd.Body.List, where)
				if err != nil {
					return "", err
				}
				h := hs[0]
				for _, o := range hs[1:] {
					if o.kind != h.kind || o.arg != h.arg {
						return "", fmt.Errorf("%s: the paths of the helper treat the token stream differently", where)
					}
				}
				h.stop = false
				w.def = h
				ws = append(ws, w)
				continue
			}
			// what follows the switch is what the names without a case of their own run into
			swStmts := []ast.Stmt{sw}
			for si, s := range fd.Body.List {
				if s == ast.Stmt(sw) {
					swStmts = fd.Body.List[si:]
				}
			}
			if err := c.casesOf(swStmts, w, where); err != nil {
				return "", err
			}
			for i := range w.cases {
				w.cases[i].h.stop = false
			}
			w.def.stop = false
			ws = append(ws, w)
			continue
		}
		w.loop = true
		loop := loops[0]
		if loop.Post != nil || (loop.Init != nil && loop.Cond == nil) {
			return "", fmt.Errorf("%s: the token loop has an init or post statement", where)
		}
		depthVar := ""
		if loop.Cond != nil {
			// skipElement: depth := 1 (before the loop or as its init statement); for depth > 0
			be, ok := loop.Cond.(*ast.BinaryExpr)
			if !ok {
				return "", fmt.Errorf("%s: loop condition is not `counter > 0`", where)
			}
			zero, isLit := be.Y.(*ast.BasicLit)
			if be.Op != token.GTR || !isLit || zero.Value != "0" {
				return "", fmt.Errorf("%s: loop condition is not `counter > 0`", where)
			}
			id, ok := be.X.(*ast.Ident)
			if !ok {
				return "", fmt.Errorf("%s: loop condition is not the depth counter", where)
			}
			depthVar = id.Name
			inits := []ast.Stmt{}
			if loop.Init != nil {
				inits = append(inits, loop.Init)
			}
			for _, s := range fd.Body.List {
				if _, isFor := s.(*ast.ForStmt); isFor {
					break
				}
				inits = append(inits, s)
			}
			startsAtOne := false
			for _, s := range inits {
				if as, ok := s.(*ast.AssignStmt); ok && len(as.Lhs) == 1 && len(as.Rhs) == 1 && exprStringDeep(as.Lhs[0]) == depthVar {
					bl, isLit := as.Rhs[0].(*ast.BasicLit)
					startsAtOne = isLit && bl.Value == "1"
				}
			}
			if !startsAtOne {
				return "", fmt.Errorf("%s: the depth counter does not start at 1", where)
			}
			w.depth = true
		}
		// the same loop written without a condition: depth := 1; for { ... case end: depth--; if depth == 0 { return nil } }
		depthReturns := false
		if loop.Cond == nil {
			cand := ""
			for _, s := range fd.Body.List {
				if _, isFor := s.(*ast.ForStmt); isFor {
					break
				}
				if as, ok := s.(*ast.AssignStmt); ok && len(as.Lhs) == 1 && len(as.Rhs) == 1 {
					if bl, isLit := as.Rhs[0].(*ast.BasicLit); isLit && bl.Value == "1" {
						cand = exprStringDeep(as.Lhs[0])
					}
				}
			}
			if cand != "" {
				counted := false
				ast.Inspect(loop.Body, func(n ast.Node) bool {
					if ids, ok := n.(*ast.IncDecStmt); ok && exprStringDeep(ids.X) == cand {
						counted = true
					}
					return true
				})
				if counted {
					depthVar = cand
					w.depth = true
					depthReturns = true
				}
			}
		}
		// in a depth loop a start element counts up and an end element counts down, and nothing else happens
		depthClause := func(body []ast.Stmt, tok token.Token) bool {
			if depthReturns && tok == token.DEC {
				// the count and the way out: if depth == 0 { return nil }
				if len(body) != 2 {
					return false
				}
				is, ok := body[1].(*ast.IfStmt)
				if !ok || is.Init != nil || is.Else != nil || len(is.Body.List) != 1 {
					return false
				}
				be, ok := is.Cond.(*ast.BinaryExpr)
				zero, isLit := be.Y.(*ast.BasicLit)
				if !ok || be.Op != token.EQL || exprStringDeep(be.X) != depthVar || !isLit || zero.Value != "0" {
					return false
				}
				rs, ok := is.Body.List[0].(*ast.ReturnStmt)
				if !ok {
					return false
				}
				if len(rs.Results) > 0 {
					if id, ok := rs.Results[len(rs.Results)-1].(*ast.Ident); !ok || id.Name != "nil" {
						return false
					}
				}
				body = body[:1]
			}
			if len(body) != 1 {
				return false
			}
			ids, ok := body[0].(*ast.IncDecStmt)
			return ok && ids.Tok == tok && exprStringDeep(ids.X) == depthVar
		}
		body := loop.Body.List
		// statements before the Token call that do not touch the token stream (remembering the input offset)
		for len(body) > 0 {
			as0, ok := body[0].(*ast.AssignStmt)
			if !ok || len(as0.Rhs) != 1 {
				break
			}
			if ce, ok := as0.Rhs[0].(*ast.CallExpr); ok && (strings.HasSuffix(exprStringDeep(ce.Fun), ".Token") || c.tokenHelper(ce) != 0) {
				break
			}
			if h, err := c.handlerOf([]ast.Stmt{as0}, where); err != nil || h.kind != "none" {
				break
			}
			body = body[1:]
		}
		if len(body) < 3 {
			return "", fmt.Errorf("%s: token loop too short", where)
		}
		as, ok := body[0].(*ast.AssignStmt)
		if !ok || len(as.Rhs) != 1 {
			return "", fmt.Errorf("%s: the loop does not begin with token, err := decoder.Token()", where)
		}
		ce, ok := as.Rhs[0].(*ast.CallExpr)
		if !ok {
			return "", fmt.Errorf("%s: the loop does not begin with token, err := decoder.Token()", where)
		}
		// the token is read by decoder.Token() itself, or by a function of the package that reads exactly one token and
		// hands back (token, err) or (token, end of input, err)
		errVar, eofVar := "", ""
		switch {
		case strings.HasSuffix(exprStringDeep(ce.Fun), ".Token") && len(as.Lhs) == 2:
			errVar = exprStringDeep(as.Lhs[1])
		default:
			h := c.tokenHelper(ce)
			if h == 0 || len(as.Lhs) != h {
				return "", fmt.Errorf("%s: the loop does not begin with token, err := decoder.Token()", where)
			}
			errVar = exprStringDeep(as.Lhs[h-1])
			if h == 3 {
				eofVar = exprStringDeep(as.Lhs[1])
			}
		}
		if errVar == "_" || errVar == "?" {
			return "", fmt.Errorf("%s: the error of reading a token is dropped", where)
		}
		idx := 1
		sawErrReturn := false
		eofBody := func(is *ast.IfStmt) error {
			if len(is.Body.List) != 1 {
				return fmt.Errorf("%s: unexpected io.EOF handling", where)
			}
			switch x := is.Body.List[0].(type) {
			case *ast.BranchStmt:
				if x.Tok != token.BREAK {
					return fmt.Errorf("%s: io.EOF is not handled by break or return", where)
				}
			case *ast.ReturnStmt:
				// return nil / return x, nil: the end of the input ends the walk without an error
				if len(x.Results) > 0 {
					if id, ok := x.Results[len(x.Results)-1].(*ast.Ident); !ok || id.Name != "nil" {
						return fmt.Errorf("%s: io.EOF returns an error", where)
					}
				}
			default:
				return fmt.Errorf("%s: io.EOF is not handled by break or return", where)
			}
			return nil
		}
		for idx < len(body) {
			is, ok := body[idx].(*ast.IfStmt)
			if !ok {
				break
			}
			cond := is.Cond
			if id, isID := cond.(*ast.Ident); isID && eofVar != "" && id.Name == eofVar {
				if err := eofBody(is); err != nil {
					return "", err
				}
				w.eofOK = true
				idx++
				continue
			}
			be, ok := cond.(*ast.BinaryExpr)
			if !ok || exprStringDeep(be.X) != errVar {
				break
			}
			if be.Op == token.EQL && exprStringDeep(be.Y) == "io.EOF" {
				if err := eofBody(is); err != nil {
					return "", err
				}
				w.eofOK = true
			} else if be.Op == token.NEQ && exprStringDeep(be.Y) == "nil" {
				if len(is.Body.List) == 0 {
					return "", fmt.Errorf("%s: err != nil without return", where)
				}
				if _, ok := is.Body.List[len(is.Body.List)-1].(*ast.ReturnStmt); !ok {
					return "", fmt.Errorf("%s: err != nil does not return", where)
				}
				sawErrReturn = true
			} else {
				break
			}
			idx++
		}
		if !sawErrReturn {
			return "", fmt.Errorf("%s: the loop does not return when Token fails", where)
		}
		// instead of a type switch: x, ok := token.(xml.StartElement); if !ok { continue }; then the start-element branch
		if idx+1 < len(body) {
			if as2, ok := body[idx].(*ast.AssignStmt); ok && len(as2.Lhs) == 2 && len(as2.Rhs) == 1 {
				if ta, ok := as2.Rhs[0].(*ast.TypeAssertExpr); ok && ta.Type != nil && exprStringDeep(ta.Type) == "xml.StartElement" {
					okName := exprStringDeep(as2.Lhs[1])
					if is, ok := body[idx+1].(*ast.IfStmt); ok && is.Init == nil && is.Else == nil && endsWithContinue(is.Body.List) && len(is.Body.List) == 1 {
						// if !ok || A != x || B != y { continue } followed by what is done otherwise: by De Morgan the rest
						// runs under ok && A == x && B == y
						if guard, isChain := negatedGuard(is.Cond, okName); isChain && !w.depth {
							rest := body[idx+2:]
							synth := &ast.IfStmt{Cond: guard, Body: &ast.BlockStmt{List: rest}}
							before := len(w.cases)
							if err := c.casesOf([]ast.Stmt{synth}, w, where); err != nil {
								return "", err
							}
							if n := len(rest); n > 0 {
								if br, ok := rest[n-1].(*ast.BranchStmt); ok && br.Tok == token.BREAK && br.Label == nil {
									for i := before; i < len(w.cases); i++ {
										w.cases[i].h.stop = true
									}
								}
							}
							if !w.eofOK {
								return "", fmt.Errorf("%s: the loop never returns on an end element", where)
							}
							ws = append(ws, w)
							continue
						}
						if ue, ok := is.Cond.(*ast.UnaryExpr); ok && ue.Op == token.NOT && exprStringDeep(ue.X) == okName && !w.depth {
							// (no switch stands between these statements and the loop: a plain break leaves the loop)
							if err := c.casesOf(breaksLeaveLoop(body[idx+2:]), w, where); err != nil {
								return "", err
							}
							if !w.eofOK {
								return "", fmt.Errorf("%s: the loop never returns on an end element", where)
							}
							ws = append(ws, w)
							continue
						}
					}
				}
			}
		}
		// or in one statement: if x, ok := token.(xml.StartElement); ok && <condition on the name> { ... }
		if idx == len(body)-1 && !w.depth {
			if is, ok := body[idx].(*ast.IfStmt); ok && is.Else == nil {
				if as2, ok := is.Init.(*ast.AssignStmt); ok && len(as2.Lhs) == 2 && len(as2.Rhs) == 1 {
					if ta, ok := as2.Rhs[0].(*ast.TypeAssertExpr); ok && ta.Type != nil && exprStringDeep(ta.Type) == "xml.StartElement" {
						okName := exprStringDeep(as2.Lhs[1])
						if be, ok := is.Cond.(*ast.BinaryExpr); ok && be.Op == token.LAND {
							// the leftmost conjunct must be the ok flag
							var conj []ast.Expr
							var flat func(e ast.Expr)
							flat = func(e ast.Expr) {
								if b, ok := e.(*ast.BinaryExpr); ok && b.Op == token.LAND {
									flat(b.X)
									flat(b.Y)
									return
								}
								conj = append(conj, e)
							}
							flat(be)
							if len(conj) >= 2 && exprStringDeep(conj[0]) == okName {
								rest := conj[1]
								for _, e := range conj[2:] {
									rest = &ast.BinaryExpr{X: rest, Op: token.LAND, Y: e}
								}
								synth := &ast.IfStmt{Cond: rest, Body: is.Body}
								before := len(w.cases)
								if err := c.casesOf([]ast.Stmt{synth}, w, where); err != nil {
									return "", err
								}
								// here no switch stands between the statement and the loop: a plain break leaves the loop
								if n := len(is.Body.List); n > 0 {
									if br, ok := is.Body.List[n-1].(*ast.BranchStmt); ok && br.Tok == token.BREAK && br.Label == nil {
										for i := before; i < len(w.cases); i++ {
											w.cases[i].h.stop = true
										}
									}
								}
								if !w.eofOK {
									return "", fmt.Errorf("%s: the loop never returns on an end element", where)
								}
								ws = append(ws, w)
								continue
							}
						}
					}
				}
			}
		}
		if synth, ok := ifAssertsToSwitch(body[idx:]); ok {
			body = append(append([]ast.Stmt{}, body[:idx]...), synth)
		}
		if idx != len(body)-1 {
			return "", fmt.Errorf("%s: %d statements after the error checks (one type switch expected)", where, len(body)-idx)
		}
		ts, ok := body[idx].(*ast.TypeSwitchStmt)
		if !ok {
			return "", fmt.Errorf("%s: the loop body is not a type switch over the token", where)
		}
		sawUp, sawDown := false, false
		for _, cl := range ts.Body.List {
			cc := cl.(*ast.CaseClause)
			if len(cc.List) != 1 {
				return "", fmt.Errorf("%s: type switch clause with %d types", where, len(cc.List))
			}
			switch exprStringDeep(cc.List[0]) {
			case "xml.StartElement":
				if w.depth {
					if !depthClause(cc.Body, token.INC) {
						return "", fmt.Errorf("%s: a start element does not just count the depth up", where)
					}
					sawUp = true
					continue
				}
				if err := c.casesOf(cc.Body, w, where); err != nil {
					return "", err
				}
			case "xml.EndElement":
				if w.depth {
					if !depthClause(cc.Body, token.DEC) {
						return "", fmt.Errorf("%s: an end element does not just count the depth down", where)
					}
					sawDown = true
					continue
				}
				for _, s := range cc.Body {
					is, ok := s.(*ast.IfStmt)
					if !ok {
						return "", fmt.Errorf("%s: statement other than if in the EndElement branch", where)
					}
					be, ok := is.Cond.(*ast.BinaryExpr)
					if !ok || be.Op != token.EQL || !strings.HasSuffix(exprStringDeep(be.X), "Name.Local") {
						return "", fmt.Errorf("%s: EndElement condition is not a comparison of the local name", where)
					}
					if len(is.Body.List) == 0 {
						return "", fmt.Errorf("%s: EndElement branch does not return", where)
					}
					if _, ok := is.Body.List[len(is.Body.List)-1].(*ast.ReturnStmt); !ok {
						return "", fmt.Errorf("%s: EndElement branch does not return", where)
					}
					if blv, ok := strLit(be.Y); ok {
						w.ends = append(w.ends, blv)
					} else if id, ok := be.Y.(*ast.Ident); ok && nameParams[id.Name] {
						w.ends = append(w.ends, "$param")
					} else if strings.HasSuffix(exprStringDeep(be.Y), "Name.Local") {
						w.ends = append(w.ends, "$param")
					} else {
						return "", fmt.Errorf("%s: EndElement compares with something that is neither a literal nor a name parameter", where)
					}
				}
			case "xml.CharData", "xml.Comment", "xml.ProcInst", "xml.Directive":
				// no effect on the token stream
				for _, s := range cc.Body {
					h, err := c.handlerOf([]ast.Stmt{s}, where)
					if err != nil || h.kind != "none" {
						return "", fmt.Errorf("%s: a reader call in a non-element branch", where)
					}
				}
			default:
				return "", fmt.Errorf("%s: unexpected token type %s", where, exprStringDeep(cc.List[0]))
			}
		}
		if w.depth && !(sawUp && sawDown) {
			return "", fmt.Errorf("%s: the depth loop does not count both start and end elements", where)
		}
		if !w.depth && len(w.ends) == 0 && !w.eofOK {
			return "", fmt.Errorf("%s: the loop never returns on an end element", where)
		}
		ws = append(ws, w)
	}
	// a condition beside the name matters for the token stream only if the case does something else than the default
	for _, w := range ws {
		for i := range w.cases {
			cs := &w.cases[i]
			if cs.guard && cs.h.kind == w.def.kind && cs.h.arg == w.def.arg && cs.h.stop == w.def.stop {
				cs.guard = false
			}
			if cs.guard && cs.badCond {
				return "", fmt.Errorf("%s: the case for %q depends on a condition that is neither the name nor the namespace", w.name, cs.name)
			}
		}
	}
	// helpers without a token loop: one that does the same for every name is replaced by what it does; a dispatcher
	// reached from a dispatcher is replaced by the handler it has for the name in question
	byName := map[string]*wWalker{}
	for _, w := range ws {
		byName[w.name] = w
	}
	for iter := 0; iter < 6; iter++ {
		for _, w := range ws {
			resolve := func(h wHandler, name string) wHandler {
				if h.kind != "sub" {
					return h
				}
				g, ok := byName[h.arg]
				if !ok || g.loop {
					return h
				}
				if len(g.cases) == 0 {
					r := g.def
					r.stop = h.stop
					return r
				}
				if !w.loop && name != "" {
					r := g.def
					for _, gc := range g.cases {
						if gc.name == name && !gc.guard {
							r = gc.h
						}
					}
					r.stop = h.stop
					return r
				}
				return h
			}
			for i := range w.cases {
				w.cases[i].h = resolve(w.cases[i].h, w.cases[i].name)
			}
			if !w.loop && w.def.kind == "sub" {
				if g, ok := byName[w.def.arg]; ok && !g.loop && len(g.cases) > 0 {
					have := map[string]bool{}
					for _, cs := range w.cases {
						have[cs.name] = true
					}
					for _, gc := range g.cases {
						if !have[gc.name] {
							w.cases = append(w.cases, gc)
						}
					}
					w.def = g.def
					continue
				}
			}
			w.def = resolve(w.def, "")
		}
	}
	// how a sub call passes the end name: a literal second/third argument is not used by any walker with $param
	// other than through the start element; recorded as the name of the current element.
	_ = otherGuards
	var b strings.Builder
	b.WriteString("From Coq Require Import String List Bool.\nFrom WZ Require Import Model.Walk.\nImport ListNotations.\nOpen Scope string_scope.\n\n")
	b.WriteString("Definition walkers : list walker := [\n")
	for i, w := range ws {
		var cs []string
		for _, cse := range w.cases {
			g := "false"
			if cse.guard {
				g = "true"
			}
			cs = append(cs, fmt.Sprintf("(%s, %s, %s)", coqString(cse.name), g, cse.h.coq()))
		}
		kind := "WDispatch"
		if w.loop {
			kind = "WLoop"
		}
		if w.depth {
			kind = "WDepth"
		}
		eof := "false"
		if w.eofOK {
			eof = "true"
		}
		sep := ";"
		if i == len(ws)-1 {
			sep = ""
		}
		fmt.Fprintf(&b, "  mkW %s %s %s %s [%s] %s%s\n", coqString(w.name), kind, eof, coqStringList(w.ends), strings.Join(cs, "; "), w.def.coq(), sep)
	}
	b.WriteString("].\n")
	entry, err := c.entryWalker(byName)
	if err != nil {
		return "", err
	}
	fmt.Fprintf(&b, "\n(* the walker the main part is handed to *)\nDefinition entry_walker : string := %s.\n", coqString(entry))
	return b.String(), nil
}

// entryWalker: the function that takes the main part out of the package and creates the decoder over it is the
// entry of the walk when it pulls the tokens itself; when it hands the decoder on, the entry is the (one) token loop
// it hands it to
func (c *wCtx) entryWalker(byName map[string]*wWalker) (string, error) {
	var cands []*ast.FuncDecl
	for _, fd := range c.p.allFuncs() {
		if fd.Body == nil {
			continue
		}
		newDec, mainPart := false, false
		ast.Inspect(fd.Body, func(n ast.Node) bool {
			switch x := n.(type) {
			case *ast.CallExpr:
				if exprStringDeep(x.Fun) == "xml.NewDecoder" {
					newDec = true
				}
			case *ast.BasicLit:
				if v, ok := strLit(x); ok && v == "word/document.xml" {
					mainPart = true
				}
			case *ast.Ident:
				if v, ok := constStrings[x.Name]; ok && v == "word/document.xml" {
					mainPart = true
				}
			}
			return true
		})
		if newDec && mainPart {
			cands = append(cands, fd)
		}
	}
	if len(cands) != 1 {
		return "", fmt.Errorf("entry point: %d functions create a decoder over the main part (one expected)", len(cands))
	}
	fd := cands[0]
	if w, ok := byName[fd.Name.Name]; ok && w.loop {
		return fd.Name.Name, nil
	}
	var handed []string
	ast.Inspect(fd.Body, func(n ast.Node) bool {
		if ce, ok := n.(*ast.CallExpr); ok {
			name := ""
			switch f := ce.Fun.(type) {
			case *ast.SelectorExpr:
				name = f.Sel.Name
			case *ast.Ident:
				name = f.Name
			}
			if w, ok := byName[name]; ok && w.loop {
				handed = append(handed, name)
			}
		}
		return true
	})
	if len(handed) != 1 {
		return "", fmt.Errorf("entry point: %s hands the decoder of the main part to %d token loops (one expected)", fd.Name.Name, len(handed))
	}
	return handed[0], nil
}

// inlineNamePredicate: a call of a one-line predicate of the package over the name of the element
// (func f(name xml.Name) bool { return <expr> }) is replaced by its expression over the argument
func inlineNamePredicate(e ast.Expr) ast.Expr {
	ce, ok := e.(*ast.CallExpr)
	if !ok || len(ce.Args) != 1 || curWalkPkg == nil || !strings.HasSuffix(exprStringDeep(ce.Args[0]), ".Name") {
		return e
	}
	fname := ""
	switch f := ce.Fun.(type) {
	case *ast.Ident:
		fname = f.Name
	case *ast.SelectorExpr:
		fname = f.Sel.Name
	}
	fd := curWalkPkg.funcDecl("", fname)
	if fd == nil || fd.Body == nil || len(fd.Body.List) != 1 || fd.Type.Params == nil || len(fd.Type.Params.List) != 1 || len(fd.Type.Params.List[0].Names) != 1 {
		return e
	}
	if exprString(fd.Type.Params.List[0].Type) != "xml.Name" {
		return e
	}
	rs, ok := fd.Body.List[0].(*ast.ReturnStmt)
	if !ok || len(rs.Results) != 1 {
		return e
	}
	out, ok := substIdent(rs.Results[0], fd.Type.Params.List[0].Names[0].Name, ce.Args[0])
	if !ok {
		return e
	}
	return out
}

func substIdent(e ast.Expr, name string, by ast.Expr) (ast.Expr, bool) {
	switch x := e.(type) {
	case *ast.Ident:
		if x.Name == name {
			return by, true
		}
		return x, true
	case *ast.BasicLit:
		return x, true
	case *ast.ParenExpr:
		in, ok := substIdent(x.X, name, by)
		return &ast.ParenExpr{X: in}, ok
	case *ast.SelectorExpr:
		in, ok := substIdent(x.X, name, by)
		return &ast.SelectorExpr{X: in, Sel: x.Sel}, ok
	case *ast.BinaryExpr:
		l, ok1 := substIdent(x.X, name, by)
		r, ok2 := substIdent(x.Y, name, by)
		return &ast.BinaryExpr{X: l, Op: x.Op, Y: r}, ok1 && ok2
	case *ast.UnaryExpr:
		in, ok := substIdent(x.X, name, by)
		return &ast.UnaryExpr{Op: x.Op, X: in}, ok
	}
	return e, false
}

var curWalkPkg *pkgSrc

// callsToken: the function pulls tokens from a decoder it created itself (the entry point parseDocument)
func callsToken(fd *ast.FuncDecl) bool {
	found := false
	ast.Inspect(fd.Body, func(n ast.Node) bool {
		if ce, ok := n.(*ast.CallExpr); ok {
			if strings.HasSuffix(exprStringDeep(ce.Fun), ".Token") && len(ce.Args) == 0 {
				found = true
			}
			if id, ok := ce.Fun.(*ast.Ident); ok && curWalkPkg != nil && tokenHelperDecl(curWalkPkg.funcDecl("", id.Name)) != 0 {
				found = true
			}
		}
		return true
	})
	return found
}

// ifAssertsToSwitch: a run of statements `if x, ok := token.(T); ok [&& cond] { ... }` over pairwise different token
// types does what a type switch with one clause per type does (at most one of them applies to a token, and falling out
// of a clause goes on with the loop just as `continue` does). A body with a plain break is refused: in the run of ifs it
// leaves the loop, in a switch it would not.
func ifAssertsToSwitch(stmts []ast.Stmt) (*ast.TypeSwitchStmt, bool) {
	if len(stmts) == 0 {
		return nil, false
	}
	seen := map[string]bool{}
	ts := &ast.TypeSwitchStmt{Body: &ast.BlockStmt{}}
	for _, s := range stmts {
		is, ok := s.(*ast.IfStmt)
		if !ok || is.Else != nil {
			return nil, false
		}
		as, ok := is.Init.(*ast.AssignStmt)
		if !ok || len(as.Lhs) != 2 || len(as.Rhs) != 1 {
			return nil, false
		}
		ta, ok := as.Rhs[0].(*ast.TypeAssertExpr)
		if !ok || ta.Type == nil {
			return nil, false
		}
		tn := exprStringDeep(ta.Type)
		if seen[tn] {
			return nil, false
		}
		seen[tn] = true
		okName := exprStringDeep(as.Lhs[1])
		var conj []ast.Expr
		var flat func(e ast.Expr)
		flat = func(e ast.Expr) {
			if b, ok := e.(*ast.BinaryExpr); ok && b.Op == token.LAND {
				flat(b.X)
				flat(b.Y)
				return
			}
			conj = append(conj, e)
		}
		flat(is.Cond)
		if exprStringDeep(conj[0]) != okName {
			return nil, false
		}
		bad := false
		ast.Inspect(is.Body, func(n ast.Node) bool {
			if br, ok := n.(*ast.BranchStmt); ok && br.Tok == token.BREAK && br.Label == nil {
				bad = true
			}
			return true
		})
		if bad {
			return nil, false
		}
		blist := is.Body.List
		if n := len(blist); n > 0 {
			if br, ok := blist[n-1].(*ast.BranchStmt); ok && br.Tok == token.CONTINUE && br.Label == nil {
				blist = blist[:n-1]
			}
		}
		if len(conj) > 1 {
			rest := conj[1]
			for _, e := range conj[2:] {
				rest = &ast.BinaryExpr{X: rest, Op: token.LAND, Y: e}
			}
			blist = []ast.Stmt{&ast.IfStmt{Cond: rest, Body: &ast.BlockStmt{List: blist}}}
		}
		ts.Body.List = append(ts.Body.List, &ast.CaseClause{List: []ast.Expr{ta.Type}, Body: blist})
	}
	return ts, true
}

// negatedGuard: for a condition `!ok || d1 || d2 ...` (at least one further disjunct, each a != comparison, a negated
// call or a negated parenthesis) the conjunction of the negated disjuncts after !ok
func negatedGuard(cond ast.Expr, okName string) (ast.Expr, bool) {
	var disj []ast.Expr
	var flat func(e ast.Expr)
	flat = func(e ast.Expr) {
		if b, ok := e.(*ast.BinaryExpr); ok && b.Op == token.LOR {
			flat(b.X)
			flat(b.Y)
			return
		}
		disj = append(disj, e)
	}
	flat(cond)
	if len(disj) < 2 {
		return nil, false
	}
	first, ok := disj[0].(*ast.UnaryExpr)
	if !ok || first.Op != token.NOT || exprStringDeep(first.X) != okName {
		return nil, false
	}
	var out ast.Expr
	for _, d := range disj[1:] {
		var neg ast.Expr
		switch x := d.(type) {
		case *ast.BinaryExpr:
			switch x.Op {
			case token.NEQ:
				neg = &ast.BinaryExpr{X: x.X, Op: token.EQL, Y: x.Y}
			default:
				return nil, false
			}
		case *ast.UnaryExpr:
			if x.Op != token.NOT {
				return nil, false
			}
			neg = x.X
		default:
			return nil, false
		}
		if out == nil {
			out = neg
		} else {
			out = &ast.BinaryExpr{X: out, Op: token.LAND, Y: neg}
		}
	}
	return out, true
}

// inlineNameFlags: a boolean local that holds a condition on the name of the element (isRoot := t.Name.Local == "x" &&
// t.Name.Space == ns) is replaced by that condition where an if statement of the same list tests it; the assignment
// itself goes (it touches nothing but the name)
func inlineNameFlags(stmts []ast.Stmt) []ast.Stmt {
	flags := map[string]ast.Expr{}
	mentionsName := func(e ast.Expr) bool {
		found := false
		ast.Inspect(e, func(n ast.Node) bool {
			if x, ok := n.(ast.Expr); ok {
				s := exprStringDeep(x)
				if strings.HasSuffix(s, ".Name.Local") || strings.HasSuffix(s, ".Name.Space") {
					found = true
				}
			}
			return true
		})
		return found
	}
	var out []ast.Stmt
	changed := false
	for _, st := range stmts {
		if as, ok := st.(*ast.AssignStmt); ok && as.Tok == token.DEFINE && len(as.Lhs) == 1 && len(as.Rhs) == 1 {
			if id, ok := as.Lhs[0].(*ast.Ident); ok {
				if be, ok := as.Rhs[0].(*ast.BinaryExpr); ok && (be.Op == token.LAND || be.Op == token.LOR || be.Op == token.EQL || be.Op == token.NEQ) && mentionsName(be) {
					flags[id.Name] = &ast.ParenExpr{X: be}
					changed = true
					continue
				}
			}
		}
		if is, ok := st.(*ast.IfStmt); ok && len(flags) > 0 {
			cond := is.Cond
			for name, by := range flags {
				if nc, ok := substIdent(cond, name, by); ok {
					cond = nc
				}
			}
			out = append(out, &ast.IfStmt{Init: is.Init, Cond: cond, Body: is.Body, Else: is.Else})
			continue
		}
		out = append(out, st)
	}
	if !changed {
		return stmts
	}
	// a flag that is still mentioned somewhere else: leave everything as it was (the caller refuses or not as before)
	still := false
	for _, st := range out {
		ast.Inspect(st, func(n ast.Node) bool {
			if id, ok := n.(*ast.Ident); ok {
				if _, isFlag := flags[id.Name]; isFlag {
					still = true
				}
			}
			return true
		})
	}
	if still {
		return stmts
	}
	return out
}

// negateCond: the negation of a condition built from !x, a != b and disjunctions of such
func negateCond(e ast.Expr) (ast.Expr, bool) {
	switch x := e.(type) {
	case *ast.ParenExpr:
		return negateCond(x.X)
	case *ast.UnaryExpr:
		if x.Op == token.NOT {
			return x.X, true
		}
	case *ast.BinaryExpr:
		switch x.Op {
		case token.NEQ:
			return &ast.BinaryExpr{X: x.X, Op: token.EQL, Y: x.Y}, true
		case token.LOR:
			l, ok1 := negateCond(x.X)
			r, ok2 := negateCond(x.Y)
			if ok1 && ok2 {
				return &ast.BinaryExpr{X: l, Op: token.LAND, Y: r}, true
			}
		}
	}
	return nil, false
}

// breaksLeaveLoop: in a statement list that stands directly in the loop body, a plain break at the end of the list or
// at the end of the body of one of its if statements leaves the loop; it is written as a return here, which is what the
// classification of handlers understands as "the walk of this loop ends"
func breaksLeaveLoop(stmts []ast.Stmt) []ast.Stmt {
	isBreak := func(st ast.Stmt) bool {
		br, ok := st.(*ast.BranchStmt)
		return ok && br.Tok == token.BREAK && br.Label == nil
	}
	out := make([]ast.Stmt, 0, len(stmts))
	for i, st := range stmts {
		if i == len(stmts)-1 && isBreak(st) {
			out = append(out, &ast.ReturnStmt{})
			continue
		}
		if is, ok := st.(*ast.IfStmt); ok && is.Else == nil {
			if n := len(is.Body.List); n > 0 && isBreak(is.Body.List[n-1]) {
				nb := append(append([]ast.Stmt{}, is.Body.List[:n-1]...), &ast.ReturnStmt{})
				out = append(out, &ast.IfStmt{Init: is.Init, Cond: is.Cond, Body: &ast.BlockStmt{List: nb}})
				continue
			}
		}
		out = append(out, st)
	}
	return out
}
