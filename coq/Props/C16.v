(* C16 - text templates render according to the documented substitution semantics.
   Model: Model/Template.v - the engine's passes on the tokens of the template text (render_tk), the engine's
   text-level pipeline with re-lexing between the steps (render_str, what the correspondence check runs against
   the real engine), and the documented semantics as an interpreter over syntax trees (ref). *)
From Coq Require Import String List Bool Arith.
Import ListNotations.
From WZ Require Import Model.Template Proofs.TemplateProofs Proofs.TemplateInst Proofs.TemplateLex.
Open Scope string_scope.

(* For every template of the grammar - text, variables, conditionals with or without else whose branches hold text,
   variables and loop specials, loops nested to any depth with conditionals and loops in their bodies - and all
   data - any strings, missing and empty entries, lists of strings and of maps nested to any depth - the pass
   pipeline run on the tokens of the template yields exactly the documented rendering: unknown variables stay,
   conditions refer to the fields of the innermost enclosing map item (absent = false) or to the global conditions,
   every loop body is emitted once per item with the item's fields (falling back to the enclosing items and the
   global variables), the item itself, its index and first/last flags, recursively.
   Partial: (1) the statement is about tokens - the text-level engine is covered by C16_text_is_reference_partial
   below for values and literal text without an opening brace, and is false with directive-like text in values
   (C16_refuted_value_reinterpreted); (2) a conditional inside a loop over items that are not maps is outside
   typed_node; (3) blocks/inheritance and image placeholders are not modelled. *)
Theorem C16_pipeline_is_reference_partial :
  forall e ns, wf_top ns = true -> forallb (typed_node (e_lists e)) ns = true -> env_ok e = true ->
  unlex (render_tk e (flatten ns)) = ref e ns.
Proof. exact render_ref. Qed.
Print Assumptions C16_pipeline_is_reference_partial.

(* the loop pass finds, for every {{#each}} of a well-formed body, exactly its own {{/each}} - at any nesting depth *)
Theorem C16_each_matching :
  forall body tail, forallb wf_node body = true ->
  split_each (flatten body ++ KEndEach :: tail) 0 = Some (flatten body, tail).
Proof. exact split_each_body. Qed.
Print Assumptions C16_each_matching.

(* the recursion bound of the loop pass is never what stops it *)
Theorem C16_loops_fuel_irrelevant :
  forall f1 f2 lists ts, List.length ts < f1 -> List.length ts < f2 ->
  loops (fun x => x) f1 lists ts = loops (fun x => x) f2 lists ts.
Proof. exact loops_fuel. Qed.
Print Assumptions C16_loops_fuel_irrelevant.

(* the premises are met by a template with nested loops, inner conditionals, missing and empty lists *)
Theorem C16_example_premises :
  wf_top ex_ast = true /\ forallb (typed_node (e_lists ex_env)) ex_ast = true /\ env_ok ex_env = true.
Proof. exact ex_premises. Qed.
Print Assumptions C16_example_premises.

Theorem C16_example_text_level : render_str ex_env (unlex (flatten ex_ast)) = ref ex_env ex_ast.
Proof. exact ex_text_level. Qed.
Print Assumptions C16_example_text_level.

(* ---- the link between the engine's text and the tokens (Proofs/TemplateLex.v) ----
   Printing well-formed tokens (literals without an opening brace, names that are words and not this/else) and lexing
   the text again gives the same tokens with adjacent literals joined and empty ones dropped. *)
Theorem C16_lexer_roundtrip : forall ts, forallb tok_ok ts = true -> lex (unlex ts) = norm ts.
Proof. exact lex_unlex. Qed.
Print Assumptions C16_lexer_roundtrip.

(* The engine goes back to text between its steps (after the variables, after every replacement inside a loop body,
   after the loops); for data whose strings hold no opening brace every one of those steps only joins literals, and
   the text the engine produces is the text of the token-level pipeline. *)
Theorem C16_text_is_tokens :
  forall e ts, env_clean e = true -> forallb tok_ok ts = true -> render_str e (unlex ts) = unlex (render_tk e ts).
Proof. exact render_str_tk. Qed.
Print Assumptions C16_text_is_tokens.

(* Hence the property on the engine's text: for every template of the grammar whose literal text holds no opening
   brace and all data whose strings hold none, rendering the template text yields exactly the documented rendering.
   Partial: braces in literals and values are left to the correspondence check; (2) and (3) as above. *)
Theorem C16_text_is_reference_partial :
  forall e ns, wf_top ns = true -> forallb (typed_node (e_lists e)) ns = true -> env_ok e = true ->
  env_clean e = true -> forallb tok_ok (flatten ns) = true ->
  render_str e (unlex (flatten ns)) = ref e ns.
Proof. exact render_text_ref. Qed.
Print Assumptions C16_text_is_reference_partial.

Theorem C16_example_text_premises : env_clean ex_env = true /\ forallb tok_ok (flatten ex_ast) = true.
Proof. exact ex_text_premises. Qed.
Print Assumptions C16_example_text_premises.

(* known finding: "values are inserted verbatim" does not hold for a value with directive-like text *)
Theorem C16_refuted_value_reinterpreted :
  exists e tpl ns, lex tpl = flatten ns /\ render_str e tpl <> ref e ns.
Proof.
  exists bad_env, "a{{v}}b", [NLit "a"; NVar "v"; NLit "b"]. split; [vm_compute; reflexivity | exact value_reinterpreted].
Qed.
Print Assumptions C16_refuted_value_reinterpreted.
