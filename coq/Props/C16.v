(* C16 - text templates render according to the documented substitution semantics.
   Model: Model/Template.v - the engine's passes on the tokens of the template text (render_tk), the engine's
   text-level pipeline with re-lexing between the steps (render_str, what the correspondence check runs against
   the real engine), and the documented semantics as an interpreter over syntax trees (ref). *)
From Coq Require Import String List Bool Arith.
Import ListNotations.
From WZ Require Import Model.Template Proofs.TemplateProofs Proofs.TemplateInst.
Open Scope string_scope.

(* For every template of the grammar - text, variables, conditionals with or without else whose branches hold text,
   variables and loop specials, loops nested to any depth with conditionals and loops in their bodies - and all
   data - any strings, missing and empty entries, lists of strings and of maps nested to any depth - the pass
   pipeline run on the tokens of the template yields exactly the documented rendering: unknown variables stay,
   conditions refer to the fields of the innermost enclosing map item (absent = false) or to the global conditions,
   every loop body is emitted once per item with the item's fields (falling back to the enclosing items and the
   global variables), the item itself, its index and first/last flags, recursively.
   Partial: (1) the statement is about tokens - it covers the text-level engine for values and literal text
   without braces (that link is run for every generated case, Corr/TemplateCorr.v code 3) and is false with
   directive-like text in values (C16_refuted_value_reinterpreted); (2) a conditional inside a loop over items that
   are not maps is outside typed_node; (3) blocks/inheritance and image placeholders are not modelled. *)
Theorem C16_pipeline_is_reference_partial :
  forall e ns, wf_top ns = true -> forallb (typed_node (e_lists e)) ns = true -> env_ok e = true ->
  unlex (render_tk e (flatten ns)) = ref e ns.
Proof. exact render_ref. Qed.
Print Assumptions C16_pipeline_is_reference_partial.

(* the loop pass finds, for every {{#each}} of a well-formed body, exactly its own {{/each}} - at any nesting depth *)
Theorem C16_each_matching :
  forall body tail, forallb wf_node body = true ->
  split_each (flatten body ++ KEndEach :: tail) 0 = Some (flatten body, tail).
Proof. exact split_each_body. Qed.
Print Assumptions C16_each_matching.

(* the recursion bound of the loop pass is never what stops it *)
Theorem C16_loops_fuel_irrelevant :
  forall f1 f2 lists ts, List.length ts < f1 -> List.length ts < f2 ->
  loops (fun x => x) f1 lists ts = loops (fun x => x) f2 lists ts.
Proof. exact loops_fuel. Qed.
Print Assumptions C16_loops_fuel_irrelevant.

(* the premises are met by a template with nested loops, inner conditionals, missing and empty lists *)
Theorem C16_example_premises :
  wf_top ex_ast = true /\ forallb (typed_node (e_lists ex_env)) ex_ast = true /\ env_ok ex_env = true.
Proof. exact ex_premises. Qed.
Print Assumptions C16_example_premises.

Theorem C16_example_text_level : render_str ex_env (unlex (flatten ex_ast)) = ref ex_env ex_ast.
Proof. exact ex_text_level. Qed.
Print Assumptions C16_example_text_level.

(* known finding: "values are inserted verbatim" does not hold for a value with directive-like text *)
Theorem C16_refuted_value_reinterpreted :
  exists e tpl ns, lex tpl = flatten ns /\ render_str e tpl <> ref e ns.
Proof.
  exists bad_env, "a{{v}}b", [NLit "a"; NVar "v"; NLit "b"]. split; [vm_compute; reflexivity | exact value_reinterpreted].
Qed.
Print Assumptions C16_refuted_value_reinterpreted.
