(* C02 - relationships and relationship references always resolve, uniquely.
   Model: Model/Pkg.v.  Inv (Proofs/PkgProofs.v) holds for a new document (C02_inv_new), for every
   opened package that passes the decidable check inv_b (C02_inv_opened; evaluated on every
   generated foreign package by the correspondence check), is preserved by every call
   (C02_inv_step), by template rendering (C02_inv_render), and no call ever gets stuck
   (C02_step_total, C02_fresh_total).  The remaining theorems read the property's clauses off Inv
   for every history. *)
From Coq Require Import List Bool Arith NArith ZArith.
From WZ Require Import Model.Pkg Proofs.PkgProofs.
Import ListNotations.

Theorem C02_inv_new : Inv new_pkg.
Proof. exact inv_new. Qed.
Print Assumptions C02_inv_new.

Theorem C02_inv_opened : forall k, inv_b k = true -> Inv k.
Proof. exact inv_b_sound. Qed.
Print Assumptions C02_inv_opened.

Theorem C02_inv_step : forall k o k', Inv k -> step k o = Some k' -> Inv k'.
Proof. exact step_inv. Qed.
Print Assumptions C02_inv_step.

Theorem C02_inv_render : forall k imgs k', Inv k -> render k imgs = Some k' -> Inv k'.
Proof. exact render_inv. Qed.
Print Assumptions C02_inv_render.

(* id allocation always succeeds, whatever ids the opened package uses *)
Theorem C02_fresh_total : forall k, exists i, fresh k = Some i.
Proof. exact fresh_total. Qed.
Print Assumptions C02_fresh_total.

Theorem C02_fresh_is_new : forall k i, fresh k = Some i -> ~ In i (ids k) /\ sid k <> Some i.
Proof. exact fresh_spec. Qed.
Print Assumptions C02_fresh_is_new.

Theorem C02_styles_id_free : forall k, ~ In (styles_id k) (ids k).
Proof. exact styles_id_free. Qed.
Print Assumptions C02_styles_id_free.

Theorem C02_step_total : forall k o, exists k', step k o = Some k'.
Proof. exact step_total. Qed.
Print Assumptions C02_step_total.

(* ids unique in the saved document relationship part, after any history *)
Theorem C02_ids_unique : forall k ops k', Inv k -> run k ops = Some k' -> NoDup (map r_id (saved_rels k')).
Proof. exact reach_ids_unique. Qed.
Print Assumptions C02_ids_unique.

(* every internal relationship points at a part that is present *)
Theorem C02_targets_exist : forall k ops k' r p, Inv k -> run k ops = Some k' ->
  In r (saved_rels k') -> r_target r = TPart p -> In p (saved_part_names k').
Proof. exact reach_targets_exist. Qed.
Print Assumptions C02_targets_exist.

(* every id used by the body resolves to a relationship of the matching kind *)
Theorem C02_refs_resolve : forall k ops k', Inv k -> run k ops = Some k' ->
  (forall kd i, In (kd, i) (hrefs k') -> exists p, In (mkRel i KHeader (TPart p)) (saved_rels k') /\ In p (saved_part_names k'))
  /\ (forall kd i, In (kd, i) (frefs k') -> exists p, In (mkRel i KFooter (TPart p)) (saved_rels k') /\ In p (saved_part_names k'))
  /\ (forall i b, In (i, b) (pics k') -> exists p, In (mkRel i KImage (TPart p)) (saved_rels k') /\ get_part p (save_parts k') = Some b).
Proof. exact reach_refs_resolve. Qed.
Print Assumptions C02_refs_resolve.

(* non-vacuity: a concrete opened package with non-contiguous ids, styles not rId1, satisfies the
   premises, and an image added to it gets an id nobody uses *)
Example C02_example_foreign :
  let k := mkPkg [mkRel (RId 3) KImage (TPart (PMedia 7 EPng)); mkRel (RId 1) (KOther 1) (TPart (PForeign 5 EXml)); mkRel (RForeign 9) (KOther 0) (TExternal 0)]
                 (Some (RId 5)) [(PMedia 7 EPng, 44%N); (PForeign 5 EXml, 0%N); (PStyles, 0%N); (PDoc, 0%N)]
                 [ERels; EXml; EPng] [PDoc; PStyles] 8%Z [] [] [(RId 3, 44%N)] [] in
  inv_b k = true /\ fresh k = Some (RId 6) /\ styles_id k = RId 5.
Proof. vm_compute. repeat split; reflexivity. Qed.
