(* C09 - tables stay well-formed grids under every sequence of structural edits.
   Model: Model/Table.v (physical cells, Go slice rules incl. panics).  The FULL property is proved
   on merge-free tables; with merges the faithful model refutes it (one witness per known finding)
   and what is proved is named _partial. *)
From Coq Require Import List Bool Arith NArith ZArith.
From WZ Require Import Model.Table Proofs.TableProofs.
Import ListNotations.

(* on a merge-free table no call panics, and every successful call that is not a merge leaves a
   merge-free table (rows of exactly the grid's length, every cell with >= 1 paragraph) *)
Theorem C09_plain_step : forall t o, plain t = true -> is_merge o = false ->
  step t o <> Panic /\ (forall t', step t o = Ok t' -> plain t' = true).
Proof. exact plain_step. Qed.
Print Assumptions C09_plain_step.

(* a merge-free table is a well-formed grid in the property's sense *)
Theorem C09_plain_grid_inv : forall t, plain t = true -> grid_inv t = true.
Proof. exact plain_grid_inv. Qed.
Print Assumptions C09_plain_grid_inv.

(* ... hence after ANY sequence of non-merge calls (failing calls leave the table as it was) *)
Theorem C09_plain_histories : forall ops t, plain t = true -> forallb (fun o => negb (is_merge o)) ops = true ->
  exists t', fold_left (fun s o => match step s o with Ok s' => s' | _ => s end) ops t = t' /\ plain t' = true /\ grid_inv t' = true.
Proof. exact plain_run_grid_inv. Qed.
Print Assumptions C09_plain_histories.

(* contents: cells not targeted are where a plain rows-by-columns matrix says they are *)
Theorem C09_insert_row_matrix : forall t pos data t', step t (InsertRow pos data) = Ok t' ->
  exists n, matrix t' = firstn (Z.to_nat pos) (matrix t) ++ map (fun i => nth_text data i) (seq 0 n) :: skipn (Z.to_nat pos) (matrix t).
Proof. exact insert_row_matrix. Qed.
Print Assumptions C09_insert_row_matrix.

Theorem C09_delete_row_matrix : forall t i t', step t (DeleteRow i) = Ok t' ->
  matrix t' = firstn (Z.to_nat i) (matrix t) ++ skipn (S (Z.to_nat i)) (matrix t).
Proof. exact delete_row_matrix. Qed.
Print Assumptions C09_delete_row_matrix.

Theorem C09_delete_rows_matrix : forall t a b t', step t (DeleteRows a b) = Ok t' ->
  matrix t' = firstn (Z.to_nat a) (matrix t) ++ skipn (S (Z.to_nat b)) (matrix t).
Proof. exact delete_rows_matrix. Qed.
Print Assumptions C09_delete_rows_matrix.

Theorem C09_delete_column_matrix : forall t i t', step t (DeleteColumn i) = Ok t' ->
  matrix t' = map (fun rw => firstn (Z.to_nat i) rw ++ skipn (S (Z.to_nat i)) rw) (matrix t).
Proof. exact delete_column_matrix. Qed.
Print Assumptions C09_delete_column_matrix.

Theorem C09_set_cell_text_matrix : forall t r c x t', step t (SetCellText r c x) = Ok t' ->
  matrix t' = update_nth (Z.to_nat r) (update_nth (Z.to_nat c) (fun _ => x)) (matrix t).
Proof. exact set_cell_text_matrix. Qed.
Print Assumptions C09_set_cell_text_matrix.

(* with merges - partial: merging unit-span cells keeps the row spanning the grid *)
Theorem C09_hmerge_row_width_partial : forall rw a b, forallb good_cell rw = true -> a < b -> b < length rw ->
  row_width (merge_h_row a b rw) = row_width rw.
Proof. exact merge_h_row_width. Qed.
Print Assumptions C09_hmerge_row_width_partial.

Theorem C09_merges_on_plain_ok_partial :
  match after [MergeH 0 0 1; SetCellText 0 0 7%N; Unmerge 0 0] t33, after [MergeV 0 2 1; Unmerge 0 1] t33, after [MergeRange 0 1 1 2] t33 with
  | Some a, Some b, Some c => plain a = true /\ plain b = true /\ grid_inv c = true
  | _, _, _ => False
  end.
Proof. exact merges_on_plain_ok. Qed.
Print Assumptions C09_merges_on_plain_ok_partial.

(* a call that is refused leaves the table exactly as it was: every call, every table (for the range merge, which
   works in several steps, this is the repaired behaviour; the correspondence compares the table after every refused
   call of the hostile histories) *)
Theorem C09_error_unchanged : forall t o, step t o = Err -> state_after t o = Some t.
Proof. exact error_unchanged. Qed.
Print Assumptions C09_error_unchanged.

(* the full property is false of the faithful model once a table contains merges: the known findings *)
(* the column edits address physical cells: after a horizontal merge the new column is not one column of the grid
   (in row 1 it stands behind the merged cell, one grid column further right than in rows 0 and 2) *)
Theorem C09_refuted_insert_column_after_hmerge :
  match after [MergeH 1 0 1; InsertColumn 1 [5; 5; 5]%N 1000%N] t33 with
  | Some t => map (fun rw => row_width (firstn 1 rw)) (rows t) = [1; 2; 1] | None => False end.
Proof. exact refuted_insert_column_after_hmerge. Qed.
Print Assumptions C09_refuted_insert_column_after_hmerge.

(* deleting physical cell 0 of every row removes one grid column in rows 0 and 2 and two in row 1 *)
Theorem C09_refuted_delete_column_after_hmerge :
  match after [MergeH 1 0 1; DeleteColumn 0] t33 with Some t => grid_inv t = false | None => False end.
Proof. exact refuted_delete_column_after_hmerge. Qed.
Print Assumptions C09_refuted_delete_column_after_hmerge.

(* but no column edit panics, whatever the table (any grid definition, rows of different lengths, merges): on a row
   that is shorter because of a merge the edit is refused with the table unchanged (repaired) *)
Theorem C09_column_edit_never_panics : forall t o, is_column_edit o = true -> step t o <> Panic.
Proof. exact column_edit_never_panics. Qed.
Print Assumptions C09_column_edit_never_panics.

Theorem C09_column_edit_refused_on_short_row :
  match after [MergeH 1 0 2] t33 with
  | Some t => step t (InsertColumn 3 [] 1000%N) = Err /\ step t (DeleteColumn 2) = Err /\ step t (DeleteColumns 1 2) = Err
  | None => False end.
Proof. exact column_edit_refused_on_short_row. Qed.
Print Assumptions C09_column_edit_refused_on_short_row.

Theorem C09_refuted_insert_row_after_hmerge :
  match after [MergeH 0 0 1; InsertRow 1 []] t33 with Some t => grid_inv t = false | None => False end.
Proof. exact refuted_insert_row_after_hmerge. Qed.
Print Assumptions C09_refuted_insert_row_after_hmerge.

Theorem C09_refuted_delete_row_splits_vmerge :
  match after [MergeV 0 2 1; DeleteRow 0] t33 with Some t => grid_inv t = false | None => False end.
Proof. exact refuted_delete_row_splits_vmerge. Qed.
Print Assumptions C09_refuted_delete_row_splits_vmerge.

(* unmerging the start of a vertical chain in a row whose physical cells a horizontal merge has shifted: the table was a
   well-formed grid before the call and is not after it (recorded finding q_merged_table_unmerge_misaligned) *)
Theorem C09_refuted_unmerge_after_hmerge :
  match after [MergeV 0 2 2; MergeH 0 0 1] t33, after [MergeV 0 2 2; MergeH 0 0 1; Unmerge 0 1] t33 with
  | Some a, Some b => grid_inv a = true /\ grid_inv b = false | _, _ => False end.
Proof. exact refuted_unmerge_after_hmerge. Qed.
Print Assumptions C09_refuted_unmerge_after_hmerge.

Theorem C09_refuted_merge_again :
  match after [MergeH 0 0 1; MergeV 0 1 1] t33 with Some t => grid_inv t = false | None => False end.
Proof. exact refuted_merge_again. Qed.
Print Assumptions C09_refuted_merge_again.
