(* C10 - every picture shows exactly the image bytes it was given.  (The sizing rule is in
   Model/Extent.v / Props C10 extent theorems below.) *)
From Coq Require Import List Bool Arith NArith ZArith.
From WZ Require Import Model.Pkg Proofs.PkgProofs.
Import ListNotations.

Theorem C10_inv_step : forall k o k', Inv k -> step k o = Some k' -> Inv k'.
Proof. exact step_inv. Qed.
Print Assumptions C10_inv_step.

Theorem C10_inv_render : forall k imgs k', Inv k -> render k imgs = Some k' -> Inv k'.
Proof. exact render_inv. Qed.
Print Assumptions C10_inv_render.

(* after any history every picture resolves, through exactly one relationship, to a media part
   holding the bytes given for it *)
Theorem C10_pictures_resolve : forall k ops k' i b, Inv k -> run k ops = Some k' -> In (i, b) (pics k') ->
  exists p, In (mkRel i KImage (TPart p)) (saved_rels k')
            /\ get_part p (save_parts k') = Some b
            /\ (forall r, In r (saved_rels k') -> r_id r = i -> r = mkRel i KImage (TPart p)).
Proof. exact reach_pictures. Qed.
Print Assumptions C10_pictures_resolve.

(* earlier pictures stay (with the bytes stated by C10_pictures_resolve) when more are added *)
Theorem C10_earlier_pictures_kept : forall ops k k' x, run k ops = Some k' -> In x (pics k) -> In x (pics k').
Proof. exact run_pics_kept. Qed.
Print Assumptions C10_earlier_pictures_kept.

(* a new image never takes the name of an existing media part (also after save + reopen) *)
Theorem C10_new_media_fresh : forall k f, Inv k -> ~ In (PMedia (nimg k) (ext_of_fmt f)) (names k).
Proof. exact new_media_fresh. Qed.
Print Assumptions C10_new_media_fresh.

Example C10_example : exists k', run new_pkg [AddImage FPng 7%N true; AddHF false HDefault 1%N; SaveReopen; AddImage FJpeg 8%N false] = Some k'
  /\ pics k' = [(RId 2, 7%N); (RId 4, 8%N)] /\ nimg k' = 2%Z.
Proof. eexists. vm_compute. repeat split; reflexivity. Qed.
