(* C10 - every picture shows exactly the image bytes it was given, at the requested size.
   Bytes and relationships: Model/Pkg.v.  The sizing rule and the caller's size configurations over histories of
   additions: Model/Extent.v (theorems at the end). *)
From Coq Require Import List Bool Arith NArith ZArith.
From WZ Require Import Model.Pkg Proofs.PkgProofs Model.Extent Proofs.ExtentProofs.
Import ListNotations.

Theorem C10_inv_step : forall k o k', Inv k -> step k o = Some k' -> Inv k'.
Proof. exact step_inv. Qed.
Print Assumptions C10_inv_step.

Theorem C10_inv_render : forall k imgs k', Inv k -> render k imgs = Some k' -> Inv k'.
Proof. exact render_inv. Qed.
Print Assumptions C10_inv_render.

(* after any history every picture resolves, through exactly one relationship, to a media part
   holding the bytes given for it *)
Theorem C10_pictures_resolve : forall k ops k' i b, Inv k -> run k ops = Some k' -> In (i, b) (pics k') ->
  exists p, In (mkRel i KImage (TPart p)) (saved_rels k')
            /\ get_part p (save_parts k') = Some b
            /\ (forall r, In r (saved_rels k') -> r_id r = i -> r = mkRel i KImage (TPart p)).
Proof. exact reach_pictures. Qed.
Print Assumptions C10_pictures_resolve.

(* earlier pictures stay (with the bytes stated by C10_pictures_resolve) when more are added *)
Theorem C10_earlier_pictures_kept : forall ops k k' x, run k ops = Some k' -> In x (pics k) -> In x (pics k').
Proof. exact run_pics_kept. Qed.
Print Assumptions C10_earlier_pictures_kept.

(* a new image never takes the name of an existing media part (also after save + reopen) *)
Theorem C10_new_media_fresh : forall k f, Inv k -> ~ In (PMedia (nimg k) (ext_of_fmt f)) (names k).
Proof. exact new_media_fresh. Qed.
Print Assumptions C10_new_media_fresh.

Example C10_example : exists k', run new_pkg [AddImage FPng 7%N true; AddHF false HDefault 1%N; SaveReopen; AddImage FJpeg 8%N false] = Some k'
  /\ pics k' = [(RId 2, 7%N); (RId 4, 8%N)] /\ nimg k' = 2%Z.
Proof. eexists. vm_compute. repeat split; reflexivity. Qed.

(* ---- the displayed size (Model/Extent.v): lengths in pixels, micrometres and EMU ---- *)
Open Scope Z_scope.

(* both dimensions given: exactly those *)
Theorem C10_extent_explicit :
  forall pw ph w h k, 0 < w -> 0 < h -> extent pw ph (Some (mkSize w h k)) = (w * um_emu, h * um_emu).
Proof. exact extent_explicit. Qed.
Print Assumptions C10_extent_explicit.

(* one dimension and the aspect-ratio flag: the other dimension is the one the pixel aspect ratio gives (rounded down
   to a whole EMU) *)
Theorem C10_extent_width_keeps_ratio :
  forall pw ph w, 0 < w -> 0 < pw -> 0 <= ph ->
  let '(cx, cy) := extent pw ph (Some (mkSize w 0 true)) in
  cx = w * um_emu /\ cy * pw <= cx * ph < (cy + 1) * pw.
Proof. exact extent_width_keeps_ratio. Qed.
Print Assumptions C10_extent_width_keeps_ratio.

Theorem C10_extent_height_keeps_ratio :
  forall pw ph h, 0 < h -> 0 < ph -> 0 <= pw ->
  let '(cx, cy) := extent pw ph (Some (mkSize 0 h true)) in
  cy = h * um_emu /\ cx * ph <= cy * pw < (cx + 1) * ph.
Proof. exact extent_height_keeps_ratio. Qed.
Print Assumptions C10_extent_height_keeps_ratio.

(* no configuration, or one that gives nothing usable: the pixel size at 96 dpi *)
Theorem C10_extent_default : forall pw ph, extent pw ph None = (pw * px_emu, ph * px_emu).
Proof. exact extent_default. Qed.
Print Assumptions C10_extent_default.

Theorem C10_extent_unusable :
  forall pw ph w h k, (w <= 0 /\ h <= 0) \/ (k = false /\ (w <= 0 \/ h <= 0)) ->
  extent pw ph (Some (mkSize w h k)) = (pw * px_emu, ph * px_emu).
Proof. exact extent_unusable. Qed.
Print Assumptions C10_extent_unusable.

(* over histories of additions and of the caller's own changes to its configurations: earlier pictures keep their
   extent; the library never changes a configuration of the caller; so two pictures added with one unchanged
   configuration are each sized by their own pixel size *)
Theorem C10_extents_kept : forall ops s, exists t, shown (xrun s ops) = shown s ++ t.
Proof. exact xrun_prefix. Qed.
Print Assumptions C10_extents_kept.

Theorem C10_configurations_untouched : forall ops s, store (xrun s ops) = store (xrun s (caller_only ops)).
Proof. exact store_frame. Qed.
Print Assumptions C10_configurations_untouched.

Theorem C10_same_configuration_twice :
  forall s i c pw1 ph1 pw2 ph2, lookup i (store s) = Some c ->
  shown (xrun s [XAdd pw1 ph1 (Some i); XAdd pw2 ph2 (Some i)])
  = shown s ++ [extent pw1 ph1 (Some c); extent pw2 ph2 (Some c)].
Proof. exact same_cfg_twice. Qed.
Print Assumptions C10_same_configuration_twice.

Example C10_extent_example :
  shown (xrun (mkX [] []) [XSet 1 (mkSize 40000 0 true); XAdd 200 100 (Some 1%nat); XAdd 100 200 (Some 1%nat); XAdd 10 10 None;
                           XSet 1 (mkSize 10000 20000 false); XAdd 7 9 (Some 1%nat)])
  = [(1440000, 720000); (1440000, 2880000); (95250, 95250); (360000, 720000)].
Proof. exact ex_history. Qed.
