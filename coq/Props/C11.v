(* C11 - each header/footer kind has exactly one, current, resolvable definition. *)
From Coq Require Import List Bool Arith NArith ZArith.
From WZ Require Import Model.Pkg Proofs.PkgProofs.
Import ListNotations.

Theorem C11_inv_step : forall k o k', Inv k -> step k o = Some k' -> Inv k'.
Proof. exact step_inv. Qed.
Print Assumptions C11_inv_step.

Theorem C11_inv_render : forall k imgs k', Inv k -> render k imgs = Some k' -> Inv k'.
Proof. exact render_inv. Qed.
Print Assumptions C11_inv_render.

Theorem C11_one_per_kind : forall k ops k', Inv k -> run k ops = Some k' ->
  NoDup (map fst (hrefs k')) /\ NoDup (map fst (frefs k')).
Proof. exact reach_one_ref_per_kind. Qed.
Print Assumptions C11_one_per_kind.

Theorem C11_header_refs_resolve : forall k kd i, Inv k -> In (kd, i) (hrefs k) ->
  exists p, In (mkRel i KHeader (TPart p)) (saved_rels k) /\ In p (saved_part_names k).
Proof. exact header_refs_resolve. Qed.
Print Assumptions C11_header_refs_resolve.

Theorem C11_footer_refs_resolve : forall k kd i, Inv k -> In (kd, i) (frefs k) ->
  exists p, In (mkRel i KFooter (TPart p)) (saved_rels k) /\ In p (saved_part_names k).
Proof. exact footer_refs_resolve. Qed.
Print Assumptions C11_footer_refs_resolve.

(* the call installs the reference of its kind; the reference resolves to a part that holds the payload of this call
   (the part has the library's name for the kind, or - when an opened document uses a part of that name for another
   kind - the first free numbered name) *)
Theorem C11_header_latest : forall k kd payload k', Inv k -> step k (AddHF false kd payload) = Some k' ->
  exists i p, In (kd, i) (hrefs k') /\ In (mkRel i KHeader (TPart p)) (drels k')
            /\ get_part p (parts k') = Some payload.
Proof. exact header_latest. Qed.
Print Assumptions C11_header_latest.

Theorem C11_footer_latest : forall k kd payload k', Inv k -> step k (AddHF true kd payload) = Some k' ->
  exists i p, In (kd, i) (frefs k') /\ In (mkRel i KFooter (TPart p)) (drels k')
            /\ get_part p (parts k') = Some payload.
Proof. exact footer_latest. Qed.
Print Assumptions C11_footer_latest.

(* ... and keeps it until the next call for the same kind, through saves, reopens and other calls *)
Theorem C11_header_payload_persists : forall k kd payload k1 ops k2,
  step k (AddHF false kd payload) = Some k1 ->
  (forall o, In o ops -> forall p, o <> AddHF false kd p) ->
  run k1 ops = Some k2 -> get_part (hf_part false kd k) (parts k2) = Some payload.
Proof. exact header_payload_persists. Qed.
Print Assumptions C11_header_payload_persists.

(* a call for one kind leaves the definitions of the other kinds alone: the part a reference of another kind resolves
   to keeps its payload - also when the opened document calls that part by the name the library uses for the kind
   being set (Word numbers header parts as it likes: header1.xml may be the first-page header), or uses one part for
   two kinds (repair b901942 of the tree; the part name is chosen by hf_part) *)
Theorem C11_header_other_kinds_kept : forall k kd payload k' kd' j q,
  Inv k -> step k (AddHF false kd payload) = Some k' ->
  kd' <> kd -> In (kd', j) (hrefs k) -> In (mkRel j KHeader (TPart q)) (drels k) ->
  get_part q (parts k') = get_part q (parts k).
Proof. exact header_other_kinds_kept. Qed.
Print Assumptions C11_header_other_kinds_kept.

(* the repaired case: the opened package uses header1.xml for its first-page header; a default header is added *)
Example C11_example_name_taken :
  let k := mkPkg [mkRel (RId 7) KHeader (TPart (PHeader HDefault))] None [(PHeader HDefault, 5%N)] [] [PHeader HDefault] 0%Z
                 [(HFirst, RId 7)] [] [] [] in
  exists k', step k (AddHF false HDefault 9%N) = Some k'
  /\ get_part (PHeader HDefault) (parts k') = Some 5%N /\ get_part (PHeaderN 2) (parts k') = Some 9%N
  /\ hrefs k' = [(HFirst, RId 7); (HDefault, RId 3)].
Proof. eexists. vm_compute. repeat split; reflexivity. Qed.

Example C11_example : exists k', run new_pkg [AddHF false HDefault 1%N; AddHF false HDefault 2%N; SaveReopen; AddHF true HEven 3%N] = Some k'
  /\ hrefs k' = [(HDefault, RId 3)] /\ frefs k' = [(HEven, RId 4)] /\ get_part (PHeader HDefault) (parts k') = Some 2%N.
Proof. eexists. vm_compute. repeat split; reflexivity. Qed.
