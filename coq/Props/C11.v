(* C11 - each header/footer kind has exactly one, current, resolvable definition. *)
From Coq Require Import List Bool Arith NArith ZArith.
From WZ Require Import Model.Pkg Proofs.PkgProofs.
Import ListNotations.

Theorem C11_inv_step : forall k o k', Inv k -> step k o = Some k' -> Inv k'.
Proof. exact step_inv. Qed.
Print Assumptions C11_inv_step.

Theorem C11_inv_render : forall k imgs k', Inv k -> render k imgs = Some k' -> Inv k'.
Proof. exact render_inv. Qed.
Print Assumptions C11_inv_render.

Theorem C11_one_per_kind : forall k ops k', Inv k -> run k ops = Some k' ->
  NoDup (map fst (hrefs k')) /\ NoDup (map fst (frefs k')).
Proof. exact reach_one_ref_per_kind. Qed.
Print Assumptions C11_one_per_kind.

Theorem C11_header_refs_resolve : forall k kd i, Inv k -> In (kd, i) (hrefs k) ->
  exists p, In (mkRel i KHeader (TPart p)) (saved_rels k) /\ In p (saved_part_names k).
Proof. exact header_refs_resolve. Qed.
Print Assumptions C11_header_refs_resolve.

Theorem C11_footer_refs_resolve : forall k kd i, Inv k -> In (kd, i) (frefs k) ->
  exists p, In (mkRel i KFooter (TPart p)) (saved_rels k) /\ In p (saved_part_names k).
Proof. exact footer_refs_resolve. Qed.
Print Assumptions C11_footer_refs_resolve.

(* the call installs the reference of its kind and the part holds the payload of this call *)
Theorem C11_header_latest : forall k kd payload k', Inv k -> step k (AddHF false kd payload) = Some k' ->
  exists i, In (kd, i) (hrefs k') /\ In (mkRel i KHeader (TPart (PHeader kd))) (drels k')
            /\ get_part (PHeader kd) (parts k') = Some payload.
Proof. exact header_latest. Qed.
Print Assumptions C11_header_latest.

Theorem C11_footer_latest : forall k kd payload k', Inv k -> step k (AddHF true kd payload) = Some k' ->
  exists i, In (kd, i) (frefs k') /\ In (mkRel i KFooter (TPart (PFooter kd))) (drels k')
            /\ get_part (PFooter kd) (parts k') = Some payload.
Proof. exact footer_latest. Qed.
Print Assumptions C11_footer_latest.

(* ... and keeps it until the next call for the same kind, through saves, reopens and other calls *)
Theorem C11_header_payload_persists : forall k kd payload k1 ops k2,
  step k (AddHF false kd payload) = Some k1 ->
  (forall o, In o ops -> forall p, o <> AddHF false kd p) ->
  run k1 ops = Some k2 -> get_part (PHeader kd) (parts k2) = Some payload.
Proof. exact header_payload_persists. Qed.
Print Assumptions C11_header_payload_persists.

Example C11_example : exists k', run new_pkg [AddHF false HDefault 1%N; AddHF false HDefault 2%N; SaveReopen; AddHF true HEven 3%N] = Some k'
  /\ hrefs k' = [(HDefault, RId 3)] /\ frefs k' = [(HEven, RId 4)] /\ get_part (PHeader HDefault) (parts k') = Some 2%N.
Proof. eexists. vm_compute. repeat split; reflexivity. Qed.
