(* C13 - everything a document refers to by id is defined in the same package (style ids;
   numbering and note ids of library-created documents are C15's theorems).
   Model: Model/Refs.v. *)
From Coq Require Import List Bool Arith NArith.
From WZ Require Import Model.Refs Proofs.RefsProofs.
Import ListNotations.

Theorem C13_inv_new : forall pre, Inv (new_doc pre).
Proof. exact inv_new. Qed.
Print Assumptions C13_inv_new.

Theorem C13_inv_step : forall s o, Inv s -> (match o with RemoveStyle i => ~ In i (used s) | _ => True end) -> Inv (step s o).
Proof. exact step_inv. Qed.
Print Assumptions C13_inv_step.

(* in every saved package every style id used by the body is defined in the styles part, for every
   history of style creation/removal, styled content, saves, reopens and renderings in which a style
   is removed only while nothing uses it *)
Theorem C13_saved_defines_used : forall ops pre, admissible ops (new_doc pre) ->
  forall i, In i (used (run ops (new_doc pre))) -> In i (save_part (run ops (new_doc pre))).
Proof. exact saved_defines_used. Qed.
Print Assumptions C13_saved_defines_used.

Theorem C13_opened_defines_used : forall s i, Inv s -> In i (used s) -> In i (save_part s).
Proof. exact save_part_defines. Qed.
Print Assumptions C13_opened_defines_used.

(* styles added through the style API are present in the next save no matter how many times the
   document was saved or reopened before *)
Theorem C13_custom_in_next_save : forall s i, In i (save_part (step s (AddCustom i))).
Proof. exact add_custom_then_save. Qed.
Print Assumptions C13_custom_in_next_save.

Theorem C13_foreign_definitions_kept : forall s ids i, part s = Some ids -> generated s = false -> In i ids -> In i (save_part s).
Proof. exact foreign_definitions_kept. Qed.
Print Assumptions C13_foreign_definitions_kept.

(* the pinned commit wrote the styles part once: same history, old rule vs repaired rule *)
Theorem C13_refuted_styles_once_before_fix :
  let s1 := mkR [1; 2]%N [] (Some (save_part_old (new_doc [1; 2]%N))) true [] in
  let s2 := step (step s1 (AddCustom 7%N)) (UseStyle 7%N) in
  used s2 = [7%N] /\ save_part_old s2 = [1; 2]%N /\ save_part s2 = [1; 2; 7]%N.
Proof. exact refuted_styles_once. Qed.
Print Assumptions C13_refuted_styles_once_before_fix.
