(* C04 - opening and re-saving an existing package is non-destructive: clauses (i)-(iii) on M-PKG. *)
From Coq Require Import List Bool Arith NArith ZArith.
From WZ Require Import Model.Pkg Proofs.PkgProofs.
Import ListNotations.

Theorem C04_inv_opened : forall k, inv_b k = true -> Inv k.
Proof. exact inv_b_sound. Qed.
Print Assumptions C04_inv_opened.

(* (i) a part no call targets keeps its bytes over the whole history (Save targets only the five
   regenerated parts, and an existing styles part is kept: C04_existing_styles_kept) *)
Theorem C04_passthrough : forall ops k k' p,
  run k ops = Some k' ->
  (forall pre o post, ops = pre ++ o :: post -> forall km, run k pre = Some km -> ~ In p (targets_of km o)) ->
  get_part p (parts k') = get_part p (parts k).
Proof. exact run_untargeted_kept. Qed.
Print Assumptions C04_passthrough.

Theorem C04_existing_styles_kept : forall k c, get_part PStyles (parts k) = Some c -> get_part PStyles (save_parts k) = Some c.
Proof. exact existing_styles_kept. Qed.
Print Assumptions C04_existing_styles_kept.

(* (ii) every relationship keeps id, kind, target and mode: the list only grows at the end *)
Theorem C04_rels_kept : forall ops k k', run k ops = Some k' -> exists l, drels k' = drels k ++ l.
Proof. exact run_rels_kept. Qed.
Print Assumptions C04_rels_kept.

Theorem C04_styles_id_kept : forall k s, Inv k -> sid k = Some s -> styles_id k = s.
Proof. exact styles_id_kept. Qed.
Print Assumptions C04_styles_id_kept.

(* (iii) existing media are never overwritten or renamed by newly added images *)
Theorem C04_new_media_fresh : forall k f, Inv k -> ~ In (PMedia (nimg k) (ext_of_fmt f)) (names k).
Proof. exact new_media_fresh. Qed.
Print Assumptions C04_new_media_fresh.

Theorem C04_inv_step : forall k o k', Inv k -> step k o = Some k' -> Inv k'.
Proof. exact step_inv. Qed.
Print Assumptions C04_inv_step.
