(* C15 - lists, notes and tables of contents reflect exactly the calls made.
   Model: Model/Lists.v (numbering manager, per-document note registry, heading collection);
   Gen/NumKey.v and Gen/HeadingMap.v are regenerated from numbering.go / toc.go on every run. *)
From Coq Require Import List Bool Arith NArith ZArith String.
From WZ Require Import Gen.NumKey Gen.HeadingMap Model.Lists Proofs.ListsProofs.
Import ListNotations.

(* instance obligation: the cache key of numbering definitions contains type, symbol and start
   value; levels 0..8 are defined *)
Theorem C15_numkey_complete : numkey_ok = true.
Proof. exact numkey_ok_true. Qed.
Print Assumptions C15_numkey_complete.

Theorem C15_lists_inv_init : InvN n_init.
Proof. exact invn_init. Qed.
Print Assumptions C15_lists_inv_init.

Theorem C15_lists_inv_step : forall s c, InvN s -> InvN (fst (add_item s c)).
Proof. exact add_item_inv. Qed.
Print Assumptions C15_lists_inv_step.

(* (a) every list item refers to a definition that has, at the item's (clamped) level, the
   requested number format, bullet symbol / pattern and start value *)
Theorem C15_item_definition : forall s c, InvN s ->
  let '(s', (numid, ilvl)) := add_item s c in
  level_def s' numid ilvl = Some (fmt_of (l_type c), text_of (l_type c) (l_sym c) ilvl, l_start c)
  /\ ilvl = clamp_level (l_level c) /\ ilvl <= 8.
Proof. exact item_definition. Qed.
Print Assumptions C15_item_definition.

Theorem C15_earlier_items_kept : forall s c numid ilvl d, InvN s -> level_def s numid ilvl = Some d ->
  level_def (fst (add_item s c)) numid ilvl = Some d.
Proof. exact earlier_items_kept. Qed.
Print Assumptions C15_earlier_items_kept.

(* restarting the numbering of a list (RestartNumbering): the invariant is kept, every definition handed out before
   stays what it was - also when the list named does not exist -, and the new numbering id of an existing list means
   at every level what the old one means *)
Theorem C15_restart_inv : forall s numid, InvN s -> InvN (restart s numid).
Proof. exact restart_inv. Qed.
Print Assumptions C15_restart_inv.

Theorem C15_restart_keeps : forall s numid n ilvl d, level_def s n ilvl = Some d -> level_def (restart s numid) n ilvl = Some d.
Proof. exact restart_keeps. Qed.
Print Assumptions C15_restart_keeps.

Theorem C15_restart_same_definition : forall s numid ilvl, InvN s -> find_inst numid (instances s) <> None ->
  level_def (restart s numid) (next_num s) ilvl = level_def s numid ilvl.
Proof. exact restart_same_definition. Qed.
Print Assumptions C15_restart_same_definition.

(* reopened documents: save, open (or rendering as a document template), then the first list call.  The numbering
   manager of the new document takes the existing part over: the invariant holds, every definition handed out before
   means what it meant, and the first item afterwards gets an id that is not in use, with the definition requested *)
Theorem C15_reopen_inv : forall s, InvN s -> InvN (reopen s).
Proof. exact reopen_inv. Qed.
Print Assumptions C15_reopen_inv.

Theorem C15_reopen_keeps : forall s n ilvl, level_def (reopen s) n ilvl = level_def s n ilvl.
Proof. exact reopen_keeps. Qed.
Print Assumptions C15_reopen_keeps.

Theorem C15_reopen_then_item : forall s c, InvN s ->
  let '(s', (numid, ilvl)) := add_item (reopen s) c in
  find_inst numid (instances s) = None
  /\ level_def s' numid ilvl = Some (fmt_of (l_type c), text_of (l_type c) (l_sym c) ilvl, l_start c).
Proof. exact reopen_then_item. Qed.
Print Assumptions C15_reopen_then_item.

(* (b) notes: every added note is there exactly once under a fresh id; removal removes exactly
   that note, and fails without changing anything when the id is not a live note *)
Theorem C15_add_note_spec : forall s t, InvNotes s ->
  InvNotes (add_note s t) /\ live (add_note s t) = (live s ++ [(next_id s, t)])%list /\ ~ In (next_id s) (map fst (live s)).
Proof. exact add_note_spec. Qed.
Print Assumptions C15_add_note_spec.

Theorem C15_remove_note_spec : forall s id, InvNotes s ->
  let '(s', ok) := remove_note s id in
  InvNotes s'
  /\ (ok = true -> In id (map fst (live s)) /\ ~ In id (map fst (live s'))
                   /\ forall q, fst q <> id -> (In q (live s') <-> In q (live s)))
  /\ (ok = false -> ~ In id (map fst (live s)) /\ s' = s).
Proof. exact remove_note_spec. Qed.
Print Assumptions C15_remove_note_spec.

(* notes through save and open: the same notes, and the next note gets an id that is not in use *)
Theorem C15_reopen_notes_spec : forall s, InvNotes s ->
  InvNotes (reopen_notes s) /\ live (reopen_notes s) = live s /\ ~ In (next_id (reopen_notes s)) (map fst (live s)).
Proof. exact reopen_notes_spec. Qed.
Print Assumptions C15_reopen_notes_spec.

(* (c) a table of contents lists exactly the headings up to the requested level, in body order *)
Theorem C15_collect_spec : forall maxl body t l,
  In (t, l) (collect maxl body) <-> In (l, t) body /\ 0 < l /\ l <= maxl /\ t <> 0%N.
Proof. exact collect_spec. Qed.
Print Assumptions C15_collect_spec.

Theorem C15_collect_order : forall maxl b1 b2, collect maxl (b1 ++ b2)%list = (collect maxl b1 ++ collect maxl b2)%list.
Proof. exact collect_app. Qed.
Print Assumptions C15_collect_order.

Theorem C15_update_after_generate : forall s maxl, t_toc (fst (upd_toc (gen_toc s maxl))) = Some (collect maxl (t_body s)).
Proof. exact upd_after_gen. Qed.
Print Assumptions C15_update_after_generate.

Theorem C15_update_idempotent : forall s, fst (upd_toc (fst (upd_toc s))) = fst (upd_toc s).
Proof. exact upd_toc_idempotent. Qed.
Print Assumptions C15_update_idempotent.

Theorem C15_heading_ids_map :
  map style_level ["Heading1"; "Heading2"; "Heading3"; "Heading4"; "Heading5"; "Heading6"; "Heading7"; "Heading8"; "Heading9"]%string
  = [1; 2; 3; 4; 5; 6; 7; 8; 9].
Proof. exact heading_ids_map. Qed.
Print Assumptions C15_heading_ids_map.

Theorem C15_toc_entries_not_collected :
  map style_level ["13"; "14"; "15"; "16"; "17"; "18"; "19"; "20"; "21"; "TOC1"; "TOC9"]%string = repeat 0 11.
Proof. exact toc_ids_not_headings. Qed.
Print Assumptions C15_toc_entries_not_collected.
