(* C01 - every saved document is a well-formed OOXML package: clauses (b)-(d) on M-PKG
   (content-types and package relationship parts present, every part has a content type, part
   names distinct).  Clause (a), well-formedness of the XML text, is in Props/C01 via Model/XmlText. *)
From Coq Require Import List Bool Arith NArith ZArith.
From WZ Require Import Model.Pkg Proofs.PkgProofs.
Import ListNotations.

Theorem C01_inv_new : Inv new_pkg.
Proof. exact inv_new. Qed.
Print Assumptions C01_inv_new.

Theorem C01_inv_step : forall k o k', Inv k -> step k o = Some k' -> Inv k'.
Proof. exact step_inv. Qed.
Print Assumptions C01_inv_step.

Theorem C01_inv_render : forall k imgs k', Inv k -> render k imgs = Some k' -> Inv k'.
Proof. exact render_inv. Qed.
Print Assumptions C01_inv_render.

(* every part of the saved package other than [Content_Types].xml has a content type *)
Theorem C01_content_type_cover : forall k ops k' p, Inv k -> run k ops = Some k' ->
  In p (saved_part_names k') -> p <> PCT -> covered k' p.
Proof. exact reach_covered. Qed.
Print Assumptions C01_content_type_cover.

(* the content-types part, the package relationships and the main part are always written *)
Theorem C01_core_parts_present : forall k x, In x [PDoc; PStyles; PCT; PRels; PDocRels] -> In x (saved_part_names k).
Proof. intros k x H. apply saved_names. now right. Qed.
Print Assumptions C01_core_parts_present.

Example C01_example : exists k', run new_pkg [AddImage FJpeg 7%N true; AddNote false; AddList; SetProps] = Some k'
  /\ defaults k' = [ERels; EXml; EJpeg] /\ overrides k' = [PDoc; PStyles; PFootnotes; PNumbering; PCore; PApp].
Proof. eexists. vm_compute. repeat split; reflexivity. Qed.
