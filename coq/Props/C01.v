(* C01 - every saved document is a well-formed OOXML package: clauses (b)-(d) on M-PKG
   (content-types and package relationship parts present, every part has a content type, part
   names distinct).  Clause (a), well-formedness of the XML text, is in Props/C01 via Model/XmlText. *)
From Coq Require Import List Bool Arith NArith ZArith String Ascii.
From WZ Require Import Model.Pkg Proofs.PkgProofs Model.RawPart Proofs.RawPartProofs.
Import ListNotations.

Theorem C01_inv_new : Inv new_pkg.
Proof. exact inv_new. Qed.
Print Assumptions C01_inv_new.

Theorem C01_inv_step : forall k o k', Inv k -> step k o = Some k' -> Inv k'.
Proof. exact step_inv. Qed.
Print Assumptions C01_inv_step.

Theorem C01_inv_render : forall k imgs k', Inv k -> render k imgs = Some k' -> Inv k'.
Proof. exact render_inv. Qed.
Print Assumptions C01_inv_render.

(* every part of the saved package other than [Content_Types].xml has a content type *)
Theorem C01_content_type_cover : forall k ops k' p, Inv k -> run k ops = Some k' ->
  In p (saved_part_names k') -> p <> PCT -> covered k' p.
Proof. exact reach_covered. Qed.
Print Assumptions C01_content_type_cover.

(* the content-types part, the package relationships and the main part are always written *)
Theorem C01_core_parts_present : forall k x, In x [PDoc; PStyles; PCT; PRels; PDocRels] -> In x (saved_part_names k).
Proof. intros k x H. apply saved_names. now right. Qed.
Print Assumptions C01_core_parts_present.

Example C01_example : exists k', run new_pkg [AddImage FJpeg 7%N true; AddNote false; AddList; SetProps] = Some k'
  /\ defaults k' = [ERels; EXml; EJpeg] /\ overrides k' = [PDoc; PStyles; PFootnotes; PNumbering; PCore; PApp].
Proof. eexists. vm_compute. repeat split; reflexivity. Qed.

(* ---- parts of an opened package that the library extends (numbering, footnotes, endnotes): M-RAW ---- *)

(* the reader on any well-formed part (a tree of elements, text, comments, processing instructions, at any depth,
   with anything but elements before and after the root) whose root has the expected local name: the start tag as it
   stands in the source, whether it declares the prefix w, and the element children of the root - each with exactly the
   text it spans - in order; text, comments and processing instructions between the children are not kept *)
Theorem C01_adopted_part_read : forall rl a o c ks pro epi,
  others pro -> others epi ->
  read_raw (flat_map toks pro ++ toks (NElem rl a o c ks) ++ flat_map toks epi) rl
  = Some (mkPart o (declares_w a) (flat_map child_of ks)).
Proof. exact read_raw_wellformed. Qed.
Print Assumptions C01_adopted_part_read.

(* a part with another root is not taken over *)
Theorem C01_adopted_part_other_root : forall rl l a o c ks pro rest,
  others pro -> String.eqb l rl = false ->
  read_raw (flat_map toks pro ++ toks (NElem l a o c ks) ++ rest) rl = None.
Proof. exact read_raw_other_root. Qed.
Print Assumptions C01_adopted_part_other_root.

(* the tags the writers put around the kept and the new content name the same element: for a start tag "<" q d ...
   (q free of blanks, "/" and ">", d one of those - every start tag the tokeniser reports has this shape), whatever
   follows the name (attributes or none, line breaks, self-closing or not, the prefix w declared or not), the written
   start tag is "<" q followed by a blank, "/" or ">", and the end tag is "</" q ">" *)
Theorem C01_adopted_part_tags_match : forall q d rest w kids x,
  name_ok q -> is_delim d = true ->
  let p := mkPart (str (lt_char :: q ++ d :: rest)) w kids in
  close_tag p = ("</" ++ str q ++ ">")%string /\
  exists t, open_tag p x = str (lt_char :: q ++ t) /\ starts_delim t.
Proof. exact part_tags_match. Qed.
Print Assumptions C01_adopted_part_tags_match.

(* ids handed out after the takeover are above every numeric id among the kept definitions of the kind, so a new
   definition never shares its id with a kept one *)
Theorem C01_adopted_ids_fresh : forall cs c i,
  In c cs ->
  (is_abs c = true -> id_of "abstractNumId" c = Some i -> (i < next_abs_id cs)%Z) /\
  (is_num c = true -> id_of "numId" c = Some i -> (i < next_num_id cs)%Z) /\
  (forall note, is_real_note note c = true -> id_of "id" c = Some i -> (i < next_note_id note cs)%Z).
Proof.
  intros cs c i Hin. split; [|split].
  - intros Ha Hid. exact (next_abs_id_fresh cs c i Hin Ha Hid).
  - intros Hn Hid. exact (next_num_id_fresh cs c i Hin Hn Hid).
  - intros note Hr Hid. exact (proj1 (next_note_id_fresh note cs c i Hin Hr Hid)).
Qed.
Print Assumptions C01_adopted_ids_fresh.

Example C01_adopted_example :
  match read_raw ex_doc "numbering" with
  | Some p => numbering_with_existing p "urn:w" ["<w:abstractNum/>"%string] ["<w:num/>"%string]
  | None => ""%string
  end =
  "<ns0:numbering xmlns:ns0=""urn:w"" xmlns:w=""urn:w"">
  <ns0:abstractNum ns0:abstractNumId=""5""><ns0:lvl/></ns0:abstractNum>
<w:abstractNum/>
  <ns0:num ns0:numId=""9""/>
<w:num/>
</ns0:numbering>"%string.
Proof. exact ex_written. Qed.
