(* C20 - Word-to-Markdown export keeps reading order and text, and is stable.
   Model: Model/MdWrite.v - the writer on the blocks of the body (kind, runs with text and the four format flags,
   tables) under the export options.  The second half of the property - converting the Markdown back gives the same
   blocks and a second export the same Markdown - goes through the Markdown parser (goldmark), which is not
   modelled: it is decided by the harness on the real converter, for every generated document (partial). *)
From Coq Require Import String Ascii List Bool Arith.
Import ListNotations.
From WZ Require Import Model.MdWrite Proofs.MdWriteProofs.
Open Scope string_scope.
Open Scope list_scope.

(* body order: the Markdown of a body is the Markdown of any first part followed by the Markdown of the rest; every
   block is written exactly once, where it stands (any interleaving of paragraphs, lists and tables) *)
Theorem C20_blocks_in_body_order :
  forall o a b, write o (a ++ b) = append (fst (write_body o false a)) (write_from o (snd (write_body o false a)) b).
Proof. exact blocks_in_body_order. Qed.
Print Assumptions C20_blocks_in_body_order.

(* merging adjacent runs of equal formatting keeps every character, in order *)
Theorem C20_merge_keeps_text : forall rs, sconcat (map w_text (merge_runs rs)) = sconcat (map w_text rs).
Proof. exact merge_keeps_text. Qed.
Print Assumptions C20_merge_keeps_text.

(* every run's text is present exactly once: blanks in front, opening markers, the core with its metacharacters
   escaped, closing markers, blanks behind - and the three pieces are the run's text.  The core is escaped with
   backslashes, except that the final tilde of a struck-through run is the character reference &#126; (repair 6556858:
   the reader does not take ~~ for a closing marker behind a tilde, even an escaped one) *)
Theorem C20_run_text_once :
  forall o r, emph_ok o -> w_code r = false -> all_space (chars (w_text r)) = false ->
  exists lead core trail opening closing enc,
    format_run o r = (str lead ++ opening ++ str enc ++ closing ++ str trail)%string /\
    lead ++ core ++ trail = chars (w_text r) /\ unescape_chars (escape_chars core) = core /\
    (enc = escape_chars core \/
     (w_strike r = true /\ exists core', core = core' ++ [tilde] /\ enc = escape_chars core' ++ tilde_ref)).
Proof. exact format_run_keeps_text. Qed.
Print Assumptions C20_run_text_once.

(* escaping loses nothing: removing the backslashes gives the text back, for every text *)
Theorem C20_escape_invertible : forall cs, unescape_chars (escape_chars cs) = cs.
Proof. exact unescape_escape. Qed.
Print Assumptions C20_escape_invertible.

(* the escape set is the one the source has now (Gen/MdTables.v): it contains every character that begins or ends inline
   markup for the reader, and only ASCII punctuation (the reader takes a backslash before anything else literally) *)
Theorem C20_escape_set_covers_inline_syntax :
  forall c, In (code_of c) md_inline_significant -> needs_escape c = true.
Proof. exact escape_set_covers_inline_syntax. Qed.
Print Assumptions C20_escape_set_covers_inline_syntax.
Theorem C20_escape_set_is_punctuation :
  forall n, In n WZ.Gen.MdTables.md_escape_set -> (33 <= n <= 47 \/ 58 <= n <= 64 \/ 91 <= n <= 96 \/ 123 <= n <= 126).
Proof. exact escape_set_is_punctuation. Qed.
Print Assumptions C20_escape_set_is_punctuation.
(* a paragraph, quote or item text passed through escapeBlockStart does not begin like a list item ("-", "+", digits
   and "." or ")"), a block quote (">") or a setext underline ("=", "-") - for every text *)
Theorem C20_escape_block_start_safe : forall cs, block_start (escape_block_start cs) = false.
Proof. exact escape_block_start_safe. Qed.
Print Assumptions C20_escape_block_start_safe.
(* a wrapped paragraph is its lines (wrap_groups: the words of wrapWords filled up to the width), each passed through
   escapeBlockStart, joined by line breaks: no line of it begins like a list item, a quote or an underline, whatever
   words the wrapping happens to put first *)
Theorem C20_wrapped_lines_safe :
  forall cs max,
    let lines := map escape_block_start (wrap_groups (wrap_words cs [] 0 0 false) [] max) in
    wrap_lines (wrap_words cs [] 0 0 false) [] max = join_lines lines /\
    Forall (fun l => block_start l = false) lines.
Proof.
  intros cs max lines. split.
  - apply wrap_lines_groups. apply wrap_words_nonempty.
  - apply wrapped_lines_safe.
Qed.
Print Assumptions C20_wrapped_lines_safe.
Theorem C20_trim_decompose :
  forall p cs, existsb (fun c => negb (p c)) cs = true ->
  take_while p cs ++ trim_with p cs ++ rev (take_while p (rev cs)) = cs.
Proof. exact trim_decompose. Qed.
Print Assumptions C20_trim_decompose.

Theorem C20_example :
  write ex_opts ex_blocks =
  "## **Title \#1**

plain  **bold** *it\*al*``x`y``

- \- one
- ~~two~~

1\. after

```
  if a < b {
```

> q

| H | a\|b |
|-----|-----|
| c |  |

".
Proof. exact ex_written. Qed.
Print Assumptions C20_example.
