(* C07 - documents are independent of each other, sequentially and concurrently (operation
   granularity).  Model: Model/World.v; Gen/Globals.v lists every package-level variable of the
   three packages and its writers, regenerated from the sources on every run. *)
From Coq Require Import List Bool Arith String.
From WZ Require Import Gen.Globals Gen.SaveEffects Model.World Proofs.WorldProofs.
Import ListNotations.
Import ListNotations.

(* instance obligation: no process-wide mutable state (only error values, compiled regular
   expressions, the logger, the read-only page-size table; none of them written by any function) *)
Theorem C07_no_shared_mutable_state : globals_ok = true.
Proof. exact globals_ok_true. Qed.
Print Assumptions C07_no_shared_mutable_state.

(* for every document state type, every per-document step function, every number of documents and
   EVERY interleaving of their calls: document i ends in the state of its own calls run alone *)
Theorem C07_noninterference : forall (st op : Type) (step : st -> op -> st) (sigma : list (nat * op)) (w : world st) (i : nat),
  wrun_local st op step sigma w i = run_alone st op step (calls_of op i sigma) (w i).
Proof. exact noninterference. Qed.
Print Assumptions C07_noninterference.

Theorem C07_interleaving_irrelevant : forall (st op : Type) (step : st -> op -> st) (s1 s2 : list (nat * op)) (w : world st) (i : nat),
  calls_of op i s1 = calls_of op i s2 -> wrun_local st op step s1 w i = wrun_local st op step s2 w i.
Proof. exact interleaving_irrelevant. Qed.
Print Assumptions C07_interleaving_irrelevant.

Theorem C07_others_irrelevant : forall (st op : Type) (step : st -> op -> st) (sigma : list (nat * op)) (w : world st) (i : nat),
  (forall e, In e sigma -> fst e <> i) -> wrun_local st op step sigma w i = w i.
Proof. exact others_irrelevant. Qed.
Print Assumptions C07_others_irrelevant.

(* the pinned commit's process-wide note registry violated it (repaired by a fix: commit) *)
Theorem C07_refuted_shared_registry :
  let w0 : sworld := (([], 1), fun _ => mkSdoc []) in
  let w2 := wstep_shared (wstep_shared w0 0) 1 in
  own_notes (snd w2 1) = [1; 2] /\ own_notes (snd (wstep_shared w0 1) 1) = [1].
Proof. exact refuted_shared_registry. Qed.
Print Assumptions C07_refuted_shared_registry.

(* Save writes the target it is handed and creates no file under a name of its own making: a name computed from the
   target (a stem plus ".tmp", say) can be the same for two targets, and two documents saved at the same time would
   then write one file (table regenerated from Document.Save on every run; os.CreateTemp would not be listed) *)
Theorem C07_save_creates_only_its_target : save_other_files = [].
Proof. vm_compute. reflexivity. Qed.
Print Assumptions C07_save_creates_only_its_target.
