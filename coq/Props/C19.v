(* C19 - Markdown converts to Word totally and without losing or inventing text.
   Model: Model/MdRender.v - the renderer on the syntax tree the parser (goldmark, not modelled) delivers; the
   harness dumps that tree for every input, so the model runs on what the converter's own renderer sees.
   Totality of the converter on arbitrary bytes (no panic, well-formed package) is a statement about goldmark and the
   Go code and is covered by the totality stream of the harness; in the model the renderer is a total function by
   construction (structural recursion over the tree). *)
From Coq Require Import String List Bool Arith.
Import ListNotations.
From WZ Require Import Model.MdRender Proofs.MdRenderProofs.
Open Scope string_scope.
Open Scope list_scope.

(* every inline construct (emphasis, strong, code, strike-through, links, auto-links, soft breaks, anything unknown),
   nested to any depth, yields runs whose texts concatenate to exactly the text of its leaves: nothing lost, nothing
   doubled, nothing invented *)
Theorem C19_inline_text_kept :
  forall i f, supported i = true -> runs_text (render_inl f i) = extract i.
Proof. intros i f S. apply (inline_text_kept i S f). Qed.
Print Assumptions C19_inline_text_kept.

(* inline emphasis maps to run formatting, and nesting accumulates *)
Theorem C19_formatting_accumulates :
  forall i f, supported i = true -> Forall (fun r => fmt_le f (snd r)) (render_inl f i).
Proof. intros i f S. apply (formatting_accumulates i S f). Qed.
Print Assumptions C19_formatting_accumulates.

Theorem C19_strong_is_bold :
  forall k f, forallb supported k = true -> Forall (fun r => f_bold (snd r) = true) (render_inl f (IEmph 2 k)).
Proof. exact strong_is_bold. Qed.
Print Assumptions C19_strong_is_bold.

Theorem C19_emphasis_is_italic :
  forall k f, forallb supported k = true -> Forall (fun r => f_italic (snd r) = true) (render_inl f (IEmph 1 k)).
Proof. exact emphasis_is_italic. Qed.
Print Assumptions C19_emphasis_is_italic.

Theorem C19_strike_is_strike :
  forall k f, forallb supported k = true -> Forall (fun r => f_strike (snd r) = true) (render_inl f (IStrike k)).
Proof. exact strike_is_strike. Qed.
Print Assumptions C19_strike_is_strike.

(* blocks render one after the other, in order *)
Theorem C19_blocks_in_order : forall t a b, render t (a ++ b) = render t a ++ render t b.
Proof. exact blocks_in_order. Qed.
Print Assumptions C19_blocks_in_order.

Theorem C19_paragraph_text :
  forall t lv k, k <> [] -> forallb supported k = true -> map para_text (render_blk t lv (BPara k)) = [extract_list extract k].
Proof. exact paragraph_text. Qed.
Print Assumptions C19_paragraph_text.

(* headings map to the heading style of their level *)
Theorem C19_heading_style :
  forall t lv level k,
  render_blk t lv (BHeading level k) = [DPara ("Heading" ++ nat_digit level)%string false [(extract_list extract k, plain)]].
Proof. exact heading_block. Qed.
Print Assumptions C19_heading_style.

(* code keeps its lines and indentation: one paragraph per line, the line as it is (a blank line as one blank) *)
Theorem C19_code_keeps_lines :
  forall t lv lines, map para_text (render_blk t lv (BCode lines)) = map (fun l => if all_blank l then " " else l) lines.
Proof. exact code_keeps_lines. Qed.
Print Assumptions C19_code_keeps_lines.

(* tables keep their dimensions and cell text *)
Theorem C19_table_dimensions :
  forall lv h rows aligns,
  exists cells al, render_blk true lv (BTable h rows aligns) = [DTable cells al] /\
                   List.length cells = S (List.length rows) /\
                   cells = map (extract_list extract) h :: map (fun r => map (extract_list extract) (fst r)) rows.
Proof. exact table_dimensions. Qed.
Print Assumptions C19_table_dimensions.

Theorem C19_example :
  map para_text (render true ex_doc)
  = ["Title it"; "a b c d e fhttp://x"; "• one"; "  • sub"; "• two"; "  x"; "q1q2"; "l1"; " "; "	l3"; ""; "Hc!"].
Proof. exact ex_rendered. Qed.
Print Assumptions C19_example.
