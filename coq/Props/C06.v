(* C06 - opening never crashes or hangs, whatever the input bytes.
   Models: Model/Walk.v (the reader's token walkers; the table Gen/Walkers.v is read from pkg/document on every run and
   is untranslatable as soon as a reader function is not a one-token-per-iteration loop or a dispatcher),
   Model/Open.v (which parts Open needs), Model/Table.v (column edits on tables read without a grid definition).
   Not modelled: memory safety of the Go code in general - nil dereferences and index errors are searched for by the
   harness (documents generated from a grammar and from raw bytes, every opened document exercised under recover);
   the theorems cover termination, the error/fallback decisions and the one repaired panic. *)
From Coq Require Import String List Bool Arith NArith ZArith.
From WZ Require Import Model.Walk Model.Open Gen.Walkers Corr.WalkCorr Proofs.WalkProofs Proofs.OpenProofs.
From WZ Require Import Model.Table Proofs.TableProofs.
Import ListNotations.
Open Scope string_scope.

(* termination: for every walker table of the recognised shape, every walker, every position in every token stream -
   well-formed, truncated, mis-nested, of any length and nesting depth - the walk finishes within one step per token *)
Theorem C06_walk_terminates :
  forall ws eof fr ts, run ws eof (S (List.length ts)) fr ts <> OutOfFuel.
Proof. exact run_terminates. Qed.
Print Assumptions C06_walk_terminates.

Theorem C06_walk_consumes :
  forall ws eof fr ts r l, run ws eof (S (List.length ts)) fr ts = Done r l -> List.length r <= List.length ts.
Proof. exact run_consumes. Qed.
Print Assumptions C06_walk_consumes.

(* the step bound is not an artefact of the fuel: more fuel gives the same answer *)
Theorem C06_walk_fuel_irrelevant :
  forall ws eof fuel fr ts, run ws eof fuel fr ts <> OutOfFuel -> forall m, fuel <= m -> run ws eof m fr ts = run ws eof fuel fr ts.
Proof. exact run_mono. Qed.
Print Assumptions C06_walk_fuel_irrelevant.

(* instance obligations on the table read from the source *)
Theorem C06_table_consistent : table_ok walkers = true.
Proof. exact inst_table_ok. Qed.
Print Assumptions C06_table_consistent.

Theorem C06_entry_exists : find_walker walkers entry <> None.
Proof. exact inst_entry. Qed.
Print Assumptions C06_entry_exists.

(* in a consistent table every handler resolves: the only source of an error is the end of the token stream *)
Theorem C06_handlers_resolve :
  forall ws h n ns, table_ok ws = true -> handler_ok ws true h = true -> resolve ws h n ns <> None.
Proof. exact resolve_ok. Qed.
Print Assumptions C06_handlers_resolve.

(* Open answers on every package, and fails exactly for an unreadable container, a missing main part, or a main
   part on which the walk fails or never meets the root element *)
Theorem C06_open_answers :
  forall p, open_pkg walkers entry p = None <->
            p_zip_ok p = false \/ p_doc p = None \/
            exists eof ts, p_doc p = Some (eof, ts) /\ open_doc walkers entry eof ts = OpenErr.
Proof. intros p. apply open_pkg_answers. exact inst_entry. Qed.
Print Assumptions C06_open_answers.

Theorem C06_optional_parts_never_fail :
  forall ws en z d a b c e a' b' c' e',
  is_some (open_pkg ws en (mkPkg z d a b c e)) = is_some (open_pkg ws en (mkPkg z d a' b' c' e')).
Proof. exact optional_parts_never_fail. Qed.
Print Assumptions C06_optional_parts_never_fail.

Theorem C06_optional_parts_fall_back :
  forall ws en p d, open_pkg ws en p = Some d ->
  d_ct d = part_good (p_ct p) /\ d_rels d = part_good (p_rels p) /\ d_docrels d = part_good (p_docrels p).
Proof. exact optional_parts_fall_back. Qed.
Print Assumptions C06_optional_parts_fall_back.

(* the defects named in the property, on the current table *)
Theorem C06_empty_main_part_rejected : open_doc walkers entry true [] = OpenErr.
Proof. exact empty_main_part_rejected. Qed.
Print Assumptions C06_empty_main_part_rejected.

Theorem C06_strict_namespace_rejected :
  open_doc walkers entry true (doc_tokens false [TStart "body" false; TStart "p" false; TEnd "p"; TEnd "body"]) = OpenErr.
Proof. exact strict_namespace_rejected. Qed.
Print Assumptions C06_strict_namespace_rejected.

Theorem C06_truncated_body_rejected :
  open_doc walkers entry false [TStart "document" true; TStart "body" true; TStart "p" true; TStart "r" true] = OpenErr.
Proof. exact truncated_body_rejected. Qed.
Print Assumptions C06_truncated_body_rejected.

(* a table read without a grid definition (or with a grid that is too short or too long): no column edit panics *)
Theorem C06_column_edits_without_grid :
  forall g0 rws n o, forallb (good_row n) rws = true -> is_column_edit o = true -> step (mkTable g0 rws) o <> Panic.
Proof. exact column_edit_no_panic_any_grid. Qed.
Print Assumptions C06_column_edits_without_grid.

Theorem C06_example_insert_column_without_grid :
  step (mkTable None [[new_cell 1%N; new_cell 2%N]; [new_cell 3%N; new_cell 4%N]]) (InsertColumn 1 [9%N] 700%N)
  = Ok (mkTable (Some [0; 700; 0]%N) [[new_cell 1%N; new_cell 9%N; new_cell 2%N]; [new_cell 3%N; new_cell 0%N; new_cell 4%N]]).
Proof. exact insert_column_without_grid. Qed.
Print Assumptions C06_example_insert_column_without_grid.
