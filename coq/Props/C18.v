(* C18 - rendering a document template changes only its placeholders.
   Model: Model/DocTemplate.v - the rendering of one paragraph on pieces (one per byte of text with the index of its
   run, one anchor per run without text or with other content), the edits for conditionals and variables, the
   regrouping into runs; and the same rendering stated on what a reader sees: formatted characters and anchors.
   Gen/CloneFields.v (regenerated from template.go) lists, for every clone function, the declared and the copied
   fields.  Partial: loops written in running text, loop rows of tables, image placeholders, headers/footers and
   the other parts are covered by the oracle (reference substitution on the deep dump, part comparison), not by
   theorems. *)
From Coq Require Import List NArith Bool Arith String.
Import ListNotations.
From WZ Require Import Model.DocTemplate Proofs.DocTemplateProofs Gen.CloneFields Model.Style.

(* however the paragraph is cut into runs - any number of runs, cuts anywhere, also inside placeholders and
   directives, runs without text anywhere - the rendered paragraph is, character by character and anchor by anchor,
   the specification applied to its formatted characters: every surviving character keeps its formatting, a value
   takes the formatting of the first character of its placeholder, anchors stay *)
Theorem C18_paragraph_is_specification :
  forall holds vars rs, units (rendered holds vars rs) = render_units holds vars (units rs).
Proof. exact render_paragraph_units. Qed.
Print Assumptions C18_paragraph_is_specification.

Theorem C18_segmentation_irrelevant :
  forall holds vars rs1 rs2, units rs1 = units rs2 -> units (rendered holds vars rs1) = units (rendered holds vars rs2).
Proof. exact segmentation_irrelevant. Qed.
Print Assumptions C18_segmentation_irrelevant.

(* and what a reader who ignores formatting sees: the text of the rendered paragraph is the text-level rendering
   (conditionals resolved, then variables replaced, on the plain byte string) of the paragraph's text - the cutting
   into runs, the formatting and the runs without text have no influence on it *)
Theorem C18_text_is_text_rendering :
  forall holds vars rs, utext (units (rendered holds vars rs)) = render_text holds vars (utext (units rs)).
Proof. intros holds vars rs. rewrite render_paragraph_units. apply render_units_text. Qed.
Print Assumptions C18_text_is_text_rendering.

(* runs without text (page breaks, pictures, fields) are all kept, in their order *)
Theorem C18_anchors_kept :
  forall holds vars us, filter is_anchor_u (render_units holds vars us) = filter is_anchor_u us.
Proof. exact render_units_anchors. Qed.
Print Assumptions C18_anchors_kept.

(* regrouping the pieces into runs loses nothing *)
Theorem C18_regroup_faithful :
  forall rs fuel ps, List.length ps < fuel -> units (regroup fuel rs ps) = map (unit_of rs) ps.
Proof. exact regroup_units. Qed.
Print Assumptions C18_regroup_faithful.

(* instance obligation on the table read from template.go: every clone function sets every declared field of the
   struct it builds *)
Theorem C18_clone_complete : clone_rows_complete document_clone_rows = true.
Proof. vm_compute. reflexivity. Qed.
Print Assumptions C18_clone_complete.

Theorem C18_example :
  units (rendered ex_holds ex_vars ex_runs)
  = [UA 9 true; UB 68 1; UB 101 1; UB 97 1; UB 114 1; UB 32 1; UB 65 1; UB 110 1; UB 110 1;
     UB 44 3; UB 32 3; UB 68 3; UB 114 3; UB 33 4; UA 4 true]%N.
Proof. exact ex_rendered. Qed.
Print Assumptions C18_example.
