(* C17 - template rendering is pure, repeatable and safe to use concurrently.
   Model: Model/Engine.v - templates as immutable values (text, defined blocks, the template extended at load time),
   the cache as a map from names to such values; loading, removing and clearing rebind names, rendering walks the
   inheritance chain and runs the passes of Model/Template.v.  What the model cannot exhibit is a data race: the
   harness runs the concurrent plans under Go's race detector. *)
From Coq Require Import String List Bool Arith.
Import ListNotations.
From WZ Require Import Model.Template Model.Engine Proofs.EngineProofs.
Open Scope string_scope.

(* rendering changes nothing in the engine *)
Theorem C17_render_pure : forall c n e, fst (step c (ORender n e)) = c.
Proof. exact render_pure. Qed.
Print Assumptions C17_render_pure.

(* for every history of calls that does not rebind the name itself - loading derived templates, siblings, other bases,
   removing, clearing nothing, rendering anything - a template is bound to the same value afterwards ... *)
Theorem C17_unaffected_by_other_calls :
  forall ops c n, forallb (fun o => negb (binds o n)) ops = true -> lookup n (fst (run c ops)) = lookup n c.
Proof. exact unaffected. Qed.
Print Assumptions C17_unaffected_by_other_calls.

(* ... and therefore renders the same with the same data *)
Theorem C17_render_repeatable :
  forall ops c n e, forallb (fun o => negb (binds o n)) ops = true ->
  snd (step (fst (run c ops)) (ORender n e)) = snd (step c (ORender n e)).
Proof. exact render_unaffected. Qed.
Print Assumptions C17_render_repeatable.

(* in particular loading a derived template does not change its base or its siblings *)
Theorem C17_load_keeps_others : forall c n m content, n <> m -> lookup n (load c m content) = lookup n c.
Proof. exact load_keeps_others. Qed.
Print Assumptions C17_load_keeps_others.

(* every interleaving of the calls of any number of threads: a thread whose names (those it reads or binds, N) are
   not rebound by the others gets exactly the results of its own calls run alone *)
Theorem C17_noninterference :
  forall N i sigma c1 c2,
  agree N c1 c2 ->
  (forall j o, In (j, o) sigma -> j = i -> forall n, reads o n = true -> N n = true) ->
  (forall j o, In (j, o) sigma -> j <> i -> forall n, N n = true -> binds o n = false) ->
  run_tagged i c1 sigma = snd (run c2 (calls_of i sigma)).
Proof. exact noninterference. Qed.
Print Assumptions C17_noninterference.

(* the repaired defect on the model: base, two children, a grandchild; the base renders the same before and after *)
Theorem C17_example_inheritance :
  snd (run [] ex_ops) = [Some "T:A0|B0"; Some "T:A0|B0"; Some "T:A1|B0"; Some "T:A0|B2"; Some "T:A0|B0"; Some "T:A1|B3"; Some "T:A1|B0"; None].
Proof. exact inheritance_example. Qed.
Print Assumptions C17_example_inheritance.
