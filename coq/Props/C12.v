(* C12 - page-setting calls change only what they name, and settings read back as set.
   Only statements here; every proof is `exact <lemma of Proofs/PageProofs.v>`.
   Model: Model/Page.v (step = one API call on the section properties; get = GetPageSettings).
   Lengths: Um z = z micrometres as passed by the caller; Tw t = t twips as stored/read back;
   to_tw = the stored whole number of twips (mmToTwips then "%.0f"). *)
From Coq Require Import ZArith List String Bool.
From WZ Require Import Gen.PageConsts Model.Page Proofs.PageProofs.
Import ListNotations.
Open Scope Z_scope.

(* instance obligation on the constants regenerated from page.go *)
Theorem C12_consts : consts_ok = true.
Proof. exact consts_ok_true. Qed.
Print Assumptions C12_consts.

(* unit rounding: what is stored is within half a twip (1/40 pt) of the request *)
Theorem C12_unit_rounding : forall z, 2 * Z.abs (to_tw (Um z) * E15 - z * C) <= E15.
Proof. exact to_tw_Um_close. Qed.
Print Assumptions C12_unit_rounding.

(* what was stored reads back, and re-setting what was read stores the same twips *)
Theorem C12_twips_stable : forall t, to_tw (Tw t) = t.
Proof. exact to_tw_Tw. Qed.
Print Assumptions C12_twips_stable.

(* no page matches two predefined sizes: Go's map iteration order is irrelevant *)
Theorem C12_identify_unique : forall w h n1 n2 d1 d2,
  In (n1, d1) predefined_um -> In (n2, d2) predefined_um ->
  matches w h d1 = true -> matches w h d2 = true -> n1 = n2.
Proof. exact identify_unique. Qed.
Print Assumptions C12_identify_unique.

(* (i) settings read back as set *)
Theorem C12_set_get_lengths : forall s st, validate s = true ->
  mar_of (get (fst (set s st))) =
  (Tw (to_tw (s_mt s)), Tw (to_tw (s_mr s)), Tw (to_tw (s_mb s)), Tw (to_tw (s_ml s)),
   Tw (to_tw (s_hd s)), Tw (to_tw (s_fd s)), Tw (to_tw (s_gw s))).
Proof. exact set_get_margins. Qed.
Print Assumptions C12_set_get_lengths.

Theorem C12_set_get_orientation : forall s st, validate s = true -> s_ori (get (fst (set s st))) = s_ori s.
Proof. exact set_get_ori. Qed.
Print Assumptions C12_set_get_orientation.

Theorem C12_set_get_predefined_size : forall s st,
  validate s = true -> In (s_size s) size_names -> s_size (get (fst (set s st))) = s_size s.
Proof. exact set_get_predefined. Qed.
Print Assumptions C12_set_get_predefined_size.

(* a custom size reads back as the stored twips, or - within the documented 1 mm - as the
   predefined size it is near (never a rotated one) *)
Theorem C12_set_get_custom_size : forall s st,
  validate s = true -> s_size s = c_PageSizeCustom ->
  let g := get (fst (set s st)) in
  (s_size g = c_PageSizeCustom /\ s_cw g = Tw (to_tw (s_cw s)) /\ s_ch g = Tw (to_tw (s_ch s)))
  \/ (exists d, In (s_size g, d) predefined_um
                /\ near (Tw (to_tw (s_cw s))) (fst d) 1000 = true
                /\ near (Tw (to_tw (s_ch s))) (snd d) 1000 = true).
Proof. exact set_get_custom. Qed.
Print Assumptions C12_set_get_custom_size.

Theorem C12_set_get_grid : forall s st, validate s = true -> s_gtype s <> ""%string ->
  grid_of (get (fst (set s st))) = (s_gtype s, s_pitch s, if 0 <? s_cs s then s_cs s else default_DocGridCharSpace).
Proof. exact set_get_grid. Qed.
Print Assumptions C12_set_get_grid.

(* (ii) frame: for EVERY stored section (library-written or foreign), a call that does not name
   the page leaves size, custom dimensions and orientation as read *)
Theorem C12_setter_frame_page : forall st o, page_preserving o = true ->
  page_of (get (fst (step st o))) = page_of (get st).
Proof. exact setter_frame_page. Qed.
Print Assumptions C12_setter_frame_page.

(* ... and a custom page keeps its stored width and height (setting margins never alters size) *)
Theorem C12_setter_frame_physical : forall st o w h a,
  page_preserving o = true -> pg st = Some (w, h, a) ->
  s_size (get st) = c_PageSizeCustom -> snd (step st o) = true ->
  pg (fst (step st o)) = Some (w, h, if is_landscape a then c_OrientationLandscape else c_OrientationPortrait)
  \/ pg (fst (step st o)) = pg st.
Proof. exact setter_frame_physical. Qed.
Print Assumptions C12_setter_frame_physical.

Theorem C12_setter_frame_lengths : forall st o, names_no_length o = true ->
  tw7 (mar_of (get (fst (step st o)))) = tw7 (mar_of (get st)).
Proof. exact setter_frame_lengths. Qed.
Print Assumptions C12_setter_frame_lengths.

Theorem C12_margins_keep_hf_gutter : forall st t r b l,
  let g := get st in let g' := get (fst (step st (SetMargins t r b l))) in
  to_tw (s_hd g') = to_tw (s_hd g) /\ to_tw (s_fd g') = to_tw (s_fd g) /\ to_tw (s_gw g') = to_tw (s_gw g).
Proof. exact set_margins_keeps_hf_gutter. Qed.
Print Assumptions C12_margins_keep_hf_gutter.

Theorem C12_hf_keeps_margins_gutter : forall st h f,
  let g := get st in let g' := get (fst (step st (SetHF h f))) in
  to_tw (s_mt g') = to_tw (s_mt g) /\ to_tw (s_mr g') = to_tw (s_mr g) /\ to_tw (s_mb g') = to_tw (s_mb g)
  /\ to_tw (s_ml g') = to_tw (s_ml g) /\ to_tw (s_gw g') = to_tw (s_gw g).
Proof. exact set_hf_keeps_margins_gutter. Qed.
Print Assumptions C12_hf_keeps_margins_gutter.

Theorem C12_gutter_keeps_others : forall st w,
  let g := get st in let g' := get (fst (step st (SetGutter w))) in
  to_tw (s_mt g') = to_tw (s_mt g) /\ to_tw (s_mr g') = to_tw (s_mr g) /\ to_tw (s_mb g') = to_tw (s_mb g)
  /\ to_tw (s_ml g') = to_tw (s_ml g) /\ to_tw (s_hd g') = to_tw (s_hd g) /\ to_tw (s_fd g') = to_tw (s_fd g).
Proof. exact set_gutter_keeps_others. Qed.
Print Assumptions C12_gutter_keeps_others.

Theorem C12_margins_read_back : forall st t r b l, snd (step st (SetMargins t r b l)) = true ->
  let g' := get (fst (step st (SetMargins t r b l))) in
  s_mt g' = Tw (to_tw (Um t)) /\ s_mr g' = Tw (to_tw (Um r)) /\ s_mb g' = Tw (to_tw (Um b)) /\ s_ml g' = Tw (to_tw (Um l)).
Proof. exact set_margins_reads_back. Qed.
Print Assumptions C12_margins_read_back.

(* the grid survives every call that does not name it, in every state reachable through the API *)
Theorem C12_reachable_grid_wf : forall ops, grid_wf (grid (run ops empty_sect)).
Proof. exact reachable_grid_wf. Qed.
Print Assumptions C12_reachable_grid_wf.

Theorem C12_setter_frame_grid : forall st o, grid_wf (grid st) -> names_no_grid o = true ->
  grid_of (get (fst (step st o))) = grid_of (get st).
Proof. exact setter_frame_grid. Qed.
Print Assumptions C12_setter_frame_grid.

(* changing orientation swaps the physical page dimensions exactly once *)
Theorem C12_orient_custom : forall st w h a o',
  pg st = Some (w, h, a) -> s_size (get st) = c_PageSizeCustom ->
  snd (step st (SetOrient o')) = true ->
  pg (fst (step st (SetOrient o'))) =
    Some (if Bool.eqb (is_landscape o') (is_landscape a) then (w, h, o') else (h, w, o')).
Proof. exact orient_custom. Qed.
Print Assumptions C12_orient_custom.

Theorem C12_orient_predefined : forall st o',
  In (s_size (get st)) size_names -> snd (step st (SetOrient o')) = true ->
  pg (fst (step st (SetOrient o'))) = Some (pg_of (s_size (get st)) o').
Proof. exact orient_predefined. Qed.
Print Assumptions C12_orient_predefined.

Theorem C12_predefined_rotation : forallb (fun n =>
    let '(w, h, _) := pg_of n c_OrientationPortrait in
    let '(w', h', _) := pg_of n c_OrientationLandscape in (w =? h') && (h =? w')) size_names = true.
Proof. exact predef_rotation. Qed.
Print Assumptions C12_predefined_rotation.

Theorem C12_orient_idempotent : forall st o',
  let st1 := fst (step st (SetOrient o')) in
  page_of (get (fst (step st1 (SetOrient o')))) = page_of (get st1).
Proof. exact orient_idempotent. Qed.
Print Assumptions C12_orient_idempotent.

(* (iii) invalid requests are rejected without changing anything *)
Theorem C12_rejected_unchanged : forall st o, snd (step st o) = false -> fst (step st o) = st.
Proof. exact rejected_unchanged. Qed.
Print Assumptions C12_rejected_unchanged.

Theorem C12_invalid_settings_rejected : forall s st, validate s = false -> step st (SetAll s) = (st, false).
Proof. exact invalid_settings_rejected. Qed.
Print Assumptions C12_invalid_settings_rejected.

Theorem C12_invalid_orientation_rejected : forall st o,
  o <> c_OrientationPortrait -> o <> c_OrientationLandscape -> step st (SetOrient o) = (st, false).
Proof. exact invalid_orientation_rejected. Qed.
Print Assumptions C12_invalid_orientation_rejected.

Theorem C12_custom_out_of_range_rejected : forall st w h,
  to_tw (Um w) < to_tw (Um min_custom_um) \/ to_tw (Um max_custom_um) < to_tw (Um w)
  \/ to_tw (Um h) < to_tw (Um min_custom_um) \/ to_tw (Um max_custom_um) < to_tw (Um h) ->
  step st (SetCustom w h) = (st, false).
Proof. exact out_of_range_custom_rejected. Qed.
Print Assumptions C12_custom_out_of_range_rejected.

Theorem C12_negative_margins_rejected : forall st t r b l, t < 0 \/ r < 0 \/ b < 0 \/ l < 0 ->
  step st (SetMargins t r b l) = (st, false).
Proof. exact negative_margins_rejected. Qed.
Print Assumptions C12_negative_margins_rejected.

(* calls that name no page setting - headers, footers, the first-page flag, body content: op Other, tied to the code by
   the correspondence check - change no stored section; a history reads the same with and without them *)
Theorem C12_other_calls_change_nothing : forall st, step st Other = (st, true) /\ step st Reopen = (st, true).
Proof. exact other_calls_change_nothing. Qed.
Print Assumptions C12_other_calls_change_nothing.

Theorem C12_other_calls_in_a_history : forall ops1 ops2 st, run (ops1 ++ Other :: ops2) st = run (ops1 ++ ops2) st.
Proof. exact other_calls_in_a_history. Qed.
Print Assumptions C12_other_calls_in_a_history.

(* the behaviour of the pinned commit (before the fix: commit) violated (ii): witness *)
Theorem C12_refuted_custom_landscape_before_fix :
  let st1 := fst (step_with false empty_sect (SetAll landscape_custom)) in
  let st2 := fst (step_with false st1 (SetMargins 10000 10000 10000 10000)) in
  pg st1 = Some (11339, 5669, "landscape"%string) /\ pg st2 = Some (5669, 11339, "landscape"%string).
Proof. exact refuted_custom_landscape_prefix. Qed.
Print Assumptions C12_refuted_custom_landscape_before_fix.
