(* C05 - Save reports success only for a completely written, faithful file.
   Model: Model/SaveIO.v (buffered stream with sticky error in front of a file that fails at byte
   offset k; which call's error reaches the return value comes from Gen/SaveEffects.v, regenerated
   from Document.Save on every run). *)
From Coq Require Import List Bool Arith String.
From WZ Require Import Gen.SaveEffects Model.SaveIO Proofs.SaveIOProofs.
Import ListNotations.

(* instance obligation on the current source: the errors of every entry write, of closing the zip
   writer and of closing the file reach the return value, and the target is truncated *)
Theorem C05_source_all_checked : all_checked_c checks_of_source.
Proof. exact source_all_checked. Qed.
Print Assumptions C05_source_all_checked.

(* Save returns nil only if every byte of the package is in the file (for every buffering policy,
   every fault offset, whatever the target held before) *)
Theorem C05_ok_implies_complete : forall c k ff old ws cd, all_checked_c c ->
  fst (save c k ff old ws cd) = true ->
  snd (save c k ff old ws cd) = total ws + cd /\ fits k (total ws + cd) /\ ff = false.
Proof. exact ok_implies_complete. Qed.
Print Assumptions C05_ok_implies_complete.

(* a write failure at ANY byte offset of the output - including failures that only surface when
   buffered data is flushed at close - makes Save return an error *)
Theorem C05_fault_implies_error : forall c k ff old ws cd, all_checked_c c -> k < total ws + cd ->
  fst (save c (Some k) ff old ws cd) = false.
Proof. exact fault_implies_error. Qed.
Print Assumptions C05_fault_implies_error.

Theorem C05_close_failure_implies_error : forall c k old ws cd, all_checked_c c -> fst (save c k true old ws cd) = false.
Proof. exact fclose_failure_implies_error. Qed.
Print Assumptions C05_close_failure_implies_error.

Theorem C05_no_fault_ok : forall c old ws cd, all_checked_c c -> save c None false old ws cd = (true, total ws + cd).
Proof. exact no_fault_ok. Qed.
Print Assumptions C05_no_fault_ok.

(* what goes wrong when a Close result is dropped (the pinned commit) or the target is not truncated *)
Theorem C05_refuted_close_dropped :
  save (mkChecks true false false true) (Some 0) false 0 [W 300 0; W 1200 0] 100 = (true, 0).
Proof. exact refuted_close_dropped. Qed.
Print Assumptions C05_refuted_close_dropped.

Theorem C05_refuted_no_truncate :
  save (mkChecks true true true false) None false 5000 [W 300 0; W 1200 0] 100 = (true, 5000).
Proof. exact refuted_no_truncate. Qed.
Print Assumptions C05_refuted_no_truncate.
