(* C14 - style inheritance resolves to the nearest definition and always terminates.
   Model: Model/Style.v; the list of merged fields and the clone tables are regenerated from
   pkg/style/style.go on every run (Gen/StyleFields.v, Gen/CloneFields.v). *)
From Coq Require Import List Bool Arith NArith String.
From WZ Require Import Gen.StyleFields Gen.CloneFields Model.Style Proofs.StyleProofs.
Import ListNotations.

(* instance obligation: every paragraph-level and character-level formatting field has a merge
   stanza, and the recursion consults a visited set *)
Theorem C14_merge_complete : merge_complete = true.
Proof. exact merge_complete_true. Qed.
Print Assumptions C14_merge_complete.

(* (i) for every registry, every id and every merged field: the resolved setting is that of the
   style itself if it has one, otherwise of the nearest ancestor along the based-on chain that has
   one, otherwise none.  Together with C14_merge_complete this covers every declared field. *)
Theorem C14_resolve_nearest_paragraph : forall fuel reg visited id r f, In f ppr_merged ->
  resolve fuel reg visited id = Resolved r -> get_opt f (s_ppr r) = nearest fuel reg visited id s_ppr f.
Proof. exact resolve_nearest_ppr. Qed.
Print Assumptions C14_resolve_nearest_paragraph.

Theorem C14_resolve_nearest_run : forall fuel reg visited id r f, In f rpr_merged ->
  resolve fuel reg visited id = Resolved r -> get_opt f (s_rpr r) = nearest fuel reg visited id s_rpr f.
Proof. exact resolve_nearest_rpr. Qed.
Print Assumptions C14_resolve_nearest_run.

Theorem C14_every_paragraph_field_merged : forall f, In f ppr_fields -> In f ppr_merged.
Proof. exact ppr_field_merged. Qed.
Print Assumptions C14_every_paragraph_field_merged.

Theorem C14_every_run_field_merged : forall f, In f rpr_fields -> In f rpr_merged.
Proof. exact rpr_field_merged. Qed.
Print Assumptions C14_every_run_field_merged.

(* (ii) resolution terminates with a result for every based-on graph: missing parents, self
   loops, cycles of any length (the fuel |registry| is never exhausted) *)
Theorem C14_resolve_total : forall reg id, resolve_top reg id <> OutOfFuel.
Proof. exact resolve_total. Qed.
Print Assumptions C14_resolve_total.

(* (iii) resolution is a function of the registry: the model has no write effect; on the
   implementation the registry snapshot is compared before/after every query (q_unchanged) *)

(* (iv) cloning: every declared field of every struct the clone functions of pkg/style build is set *)
Theorem C14_clone_complete : clone_rows_complete style_clone_rows = true.
Proof. exact style_clone_complete. Qed.
Print Assumptions C14_clone_complete.

(* and every struct type a style can hold (table regenerated from the type declarations of pkg/style) is built afresh
   by a clone function: nothing reachable from a cloned style is shared with its source *)
Theorem C14_clone_deep : clone_types_covered style_clone_rows style_reachable_types = true.
Proof. exact style_clone_deep. Qed.
Print Assumptions C14_clone_deep.

Theorem C14_example_cycles :
  resolve_top cyc 1%N = Resolved (mkSty (Some 2%N) (Some [("Spacing"%string, 10%N); ("Justification"%string, 20%N)]) (Some [("Bold"%string, 22%N)]) None)
  /\ resolve_top cyc 3%N = Resolved (mkSty (Some 3%N) None (Some [("Italic"%string, 30%N)]) None).
Proof. exact cycle_resolves. Qed.
Print Assumptions C14_example_cycles.
