(* C08 - body editing behaves like an ordered list of elements.
   Model: Model/Body.v (elements = (kind, identity); step = one API call). *)
From Coq Require Import List Bool Arith NArith ZArith.
From WZ Require Import Model.Body Proofs.BodyProofs.
Import ListNotations.

(* (i) appending adds the new content at the end, in call order, without disturbing the rest *)
Theorem C08_append_spec : forall b es, step b (Append es) = (b ++ es, true).
Proof. exact append_spec. Qed.
Print Assumptions C08_append_spec.

(* (ii) removal by element index *)
Theorem C08_remove_at_in_range : forall b i, (0 <= i < Z.of_nat (length b))%Z ->
  step b (RemoveAt i) = (firstn (Z.to_nat i) b ++ skipn (S (Z.to_nat i)) b, true).
Proof. exact remove_at_in_range. Qed.
Print Assumptions C08_remove_at_in_range.

Theorem C08_remove_at_out_of_range : forall b i, (i < 0 \/ Z.of_nat (length b) <= i)%Z -> step b (RemoveAt i) = (b, false).
Proof. exact remove_at_out_of_range. Qed.
Print Assumptions C08_remove_at_out_of_range.

(* removal by paragraph index: exactly the i-th paragraph, everything else in order *)
Theorem C08_remove_para_at_spec : forall b i b', (0 <= i)%Z -> step b (RemoveParaAt i) = (b', true) ->
  exists n e, nth_error b n = Some e /\ is_para e = true /\ count_paras (firstn n b) = Z.to_nat i
              /\ b' = firstn n b ++ skipn (S n) b.
Proof. exact remove_para_at_spec. Qed.
Print Assumptions C08_remove_para_at_spec.

Theorem C08_remove_para_at_fails : forall b i, (i < 0)%Z \/ count_paras b <= Z.to_nat i -> step b (RemoveParaAt i) = (b, false).
Proof. exact remove_para_at_fails. Qed.
Print Assumptions C08_remove_para_at_fails.

(* removal by handle: exactly the paragraph with that identity; absent handles (already removed,
   or of another document) fail *)
Theorem C08_remove_handle_spec : forall b a b', step b (RemoveHandle a) = (b', true) ->
  exists n, nth_error b n = Some (KPara, a) /\ (forall j, j < n -> nth_error b j <> Some (KPara, a))
            /\ b' = firstn n b ++ skipn (S n) b.
Proof. exact remove_handle_spec. Qed.
Print Assumptions C08_remove_handle_spec.

Theorem C08_remove_handle_absent : forall b a, ~ In (KPara, a) b -> step b (RemoveHandle a) = (b, false).
Proof. exact remove_handle_absent. Qed.
Print Assumptions C08_remove_handle_absent.

(* failure never changes anything; success removes exactly one element *)
Theorem C08_failure_unchanged : forall b o, snd (step b o) = false -> fst (step b o) = b.
Proof. exact failure_unchanged. Qed.
Print Assumptions C08_failure_unchanged.

Theorem C08_removal_exact : forall b o, match o with RemoveAt _ | RemoveParaAt _ | RemoveHandle _ => True | _ => False end ->
  snd (step b o) = true -> exists n, n < length b /\ fst (step b o) = firstn n b ++ skipn (S n) b.
Proof. exact removal_exact. Qed.
Print Assumptions C08_removal_exact.

(* (iii) however the body was edited there is at most one section-settings element ... *)
Theorem C08_sect_at_most_once : forall ops b, Forall op_ok ops -> count_sect b <= 1 -> count_sect (run ops b) <= 1.
Proof. exact reachable_sect_le1. Qed.
Print Assumptions C08_sect_at_most_once.

(* ... so Save writes the other elements in body order followed by the section settings exactly
   once, and the element the page / header-footer lookups use (the first) is the one written (the last) *)
Theorem C08_saved_order : forall b, count_sect b <= 1 ->
  serialize b = filter (fun e => negb (is_sect e)) b ++ filter is_sect b /\ first_sect b = last_sect b.
Proof. exact serialize_once_last. Qed.
Print Assumptions C08_saved_order.

Theorem C08_saved_keeps_order : forall b,
  filter (fun e => negb (is_sect e)) (serialize b) = filter (fun e => negb (is_sect e)) b.
Proof. exact serialize_keeps_order. Qed.
Print Assumptions C08_saved_keeps_order.
