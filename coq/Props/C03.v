(* C03 - saving then opening a document loses nothing the library can express.
   Model: Model/Schema.v (table-driven writer and reader over generic trees); the writer schema (struct tags of
   pkg/document) and the reader's coverage (case labels and attribute names of the token walkers) are regenerated
   from the Go sources on every run (Gen/Schema.v).  Instance: Corr/SchemaCorr.v, Proofs/SchemaInst.v.
   Text escaping: Model/XmlText.v. *)
From Coq Require Import String List Bool Arith.
From Coq Require Import NArith.
From WZ Require Import Model.Schema Gen.Schema Corr.SchemaCorr Proofs.SchemaProofs Proofs.SchemaInst.
From WZ Require Import Model.XmlText Proofs.XmlTextProofs.
Import ListNotations.
Open Scope string_scope.

(* generic, for every schema whose struct types have pairwise distinct attribute names and element names: Open of
   what Save wrote is the value with exactly the fields the reader does not cover emptied - for values of any
   size and nesting depth *)
Theorem C03_read_write_erase :
  forall fields_of xmlname_of cov elty, (forall ty, type_ok (fields_of ty) = true) ->
  forall d el, conforms fields_of xmlname_of elty d = true ->
  read fields_of cov elty (d_ty d) (write fields_of xmlname_of el d) = erase fields_of xmlname_of cov elty d.
Proof. exact read_write_erase. Qed.
Print Assumptions C03_read_write_erase.

Theorem C03_erase_idem :
  forall fields_of xmlname_of cov elty d,
  erase fields_of xmlname_of cov elty (erase fields_of xmlname_of cov elty d) = erase fields_of xmlname_of cov elty d.
Proof. exact erase_idem. Qed.
Print Assumptions C03_erase_idem.

(* instance obligations on the tables read from the source *)
Theorem C03_schema_names_distinct : g_types_ok w_schema = true.
Proof. exact inst_types_ok. Qed.
Print Assumptions C03_schema_names_distinct.

(* every field the writer can emit for a type reachable from the document body has a reader case, except the
   listed ones (none) *)
Theorem C03_uncovered_is : I_uncovered = expected_uncovered.
Proof. exact inst_uncovered. Qed.
Print Assumptions C03_uncovered_is.

Theorem C03_reachable_covered_or_known :
  forallb (fun ty => memb ty covered_tys || memb ty (map (fun r => fst (fst r)) expected_uncovered)) I_reachable = true.
Proof. exact inst_reachable_split. Qed.
Print Assumptions C03_reachable_covered_or_known.

(* which element types come back from a heterogeneous list, per owner of the list: the body, and the content of a
   structured document tag (which may also hold text runs) *)
Theorem C03_body_elements_read_back :
  filter (ok_root "Body") ("Run" :: w_roots) = ["BookmarkEnd"; "BookmarkStart"; "Paragraph"; "SDT"; "SectionProperties"; "Table"]
  /\ filter (ok_root "SDTContent") ("Run" :: w_roots) = ["Run"; "BookmarkEnd"; "BookmarkStart"; "Paragraph"; "SDT"; "SectionProperties"; "Table"].
Proof. exact inst_roots. Qed.
Print Assumptions C03_body_elements_read_back.

(* the model's assumption about the reader of a tag's content is what the walker table of the source says *)
Theorem C03_sdt_content_dispatch :
  match Walk.find_walker Walkers.walkers "parseSDTContent" with
  | Some w => (map (fun c => fst (fst c)) (Walk.w_cases w), Walk.h_kind (Walk.w_def w)) = (["r"], Walk.HSub "parseBodySubElement")
  | None => False
  end.
Proof. exact sdt_content_dispatch. Qed.
Print Assumptions C03_sdt_content_dispatch.

(* with the tables of the current source: one cycle, and any number of further cycles, yield erase d *)
Theorem C03_cycle_stable :
  forall el n d, I_conforms d = true -> I_cycles el (S n) d = I_erase d.
Proof. exact inst_cycles_stable. Qed.
Print Assumptions C03_cycle_stable.

(* the property itself on the covered part of the schema: a body built from paragraphs, tables (nested to any
   depth), bookmarks, pictures and section settings comes back unchanged after any number of save/open cycles *)
Theorem C03_roundtrip_exact_partial :
  forall el n d, I_conforms d = true -> I_uses_only d = true -> I_cycles el n d = d.
Proof. exact inst_roundtrip_exact. Qed.
Print Assumptions C03_roundtrip_exact_partial.

(* and the reopened document is written exactly as the original was *)
Theorem C03_resave_same_partial :
  forall el d, I_conforms d = true -> I_uses_only d = true ->
  I_write el (I_read (d_ty d) (I_write el d)) = I_write el d.
Proof. exact inst_resave_same. Qed.
Print Assumptions C03_resave_same_partial.

(* the premises are met by a non-trivial document *)
Theorem C03_example : I_conforms ex_doc = true /\ I_uses_only ex_doc = true /\ I_cycles "body" 3 ex_doc = ex_doc.
Proof. exact ex_doc_premises. Qed.
Print Assumptions C03_example.

(* a generated table of contents (structured document tag with nested tag, bookmarks and text runs) meets them too *)
Theorem C03_example_sdt : I_conforms ex_sdt = true /\ I_uses_only ex_sdt = true /\ I_cycles "body" 2 ex_sdt = ex_sdt.
Proof. exact ex_sdt_premises. Qed.
Print Assumptions C03_example_sdt.

(* formula paragraphs are outside the model (the reader tells them from ordinary paragraphs by their content, the
   model dispatches by name): a value that holds one does not conform; their round trip is decided by the oracle *)
Theorem C03_math_outside_model : I_conforms ex_math = false.
Proof. exact math_outside_model. Qed.
Print Assumptions C03_math_outside_model.

(* text: every string of bytes XML can hold (blanks at either end, tabs, newlines, carriage returns, the
   metacharacters, bytes above 127) passes through the writer's escaping and the reader's decoding unchanged *)
Theorem C03_text_exact : forall s, forallb legal s = true -> unescape (escape s) = Some s.
Proof. exact unescape_escape. Qed.
Print Assumptions C03_text_exact.

Theorem C03_text_example :
  unescape (escape [32; 32; 9; 60; 38; 62; 34; 39; 10; 13; 228; 184; 173; 32]%N)
  = Some [32; 32; 9; 60; 38; 62; 34; 39; 10; 13; 228; 184; 173; 32]%N.
Proof. exact text_example. Qed.
Print Assumptions C03_text_example.
