(* M-MDW: the Word-to-Markdown writer (pkg/markdown/writer.go) on the blocks of a document body.

   A block is a paragraph with its kind (heading of a level, quote, code line, list item, ordinary) and its runs
   (text and the four format flags the writer looks at), or a table (rows of cells of paragraphs of runs).  The
   writer's state is one flag: the previous block was a list item.  Options: GFM tables or plain lines, setext
   headings, bullet marker, emphasis marker, wrapping and its width.

   Not modelled: footnotes, metadata header, images (the workload has none). *)
From Coq Require Import String Ascii List Bool Arith.
From WZ Require Import Gen.MdTables.
Import ListNotations.
Open Scope string_scope.
Open Scope list_scope.

Record wrun := mkWRun { w_text : string; w_bold : bool; w_italic : bool; w_strike : bool; w_code : bool }.

Inductive wblock :=
| WHeading (level : nat) (runs : list wrun)
| WPara (runs : list wrun)
| WQuote (runs : list wrun)
| WCode (runs : list wrun)
| WItem (runs : list wrun)
| WTable (rows : list (list (list (list wrun)))).

Record wopts := mkWOpts { o_gfm : bool; o_setext : bool; o_bullet : string; o_emph : string; o_wrap : bool; o_max : nat }.

(* ---------------- characters ---------------- *)
Definition chars (s : string) : list ascii := list_ascii_of_string s.
Definition str (cs : list ascii) : string := string_of_list_ascii cs.
Definition code_of (c : ascii) : nat := nat_of_ascii c.
Definition is_blank (c : ascii) : bool := Nat.eqb (code_of c) 32.
(* strings.TrimSpace on the texts of the workload: blank, tab, newline, carriage return, vertical tab, form feed *)
Definition is_space (c : ascii) : bool :=
  let n := code_of c in Nat.eqb n 32 || (Nat.leb 9 n && Nat.leb n 13).

Fixpoint drop_while (p : ascii -> bool) (cs : list ascii) : list ascii :=
  match cs with c :: r => if p c then drop_while p r else cs | [] => [] end.
Fixpoint take_while (p : ascii -> bool) (cs : list ascii) : list ascii :=
  match cs with c :: r => if p c then c :: take_while p r else [] | [] => [] end.
Definition trim_with (p : ascii -> bool) (cs : list ascii) : list ascii :=
  rev (drop_while p (rev (drop_while p cs))).
Definition all_space (cs : list ascii) : bool := forallb is_space cs.

Fixpoint sconcat (l : list string) : string := match l with [] => "" | x :: r => (x ++ sconcat r)%string end.
Fixpoint repeat_str (s : string) (n : nat) : string := match n with 0 => "" | S k => (s ++ repeat_str s k)%string end.

(* ---------------- runs ---------------- *)
Definition bslash : ascii := ascii_of_nat 92.
Definition btick : ascii := ascii_of_nat 96.

(* escapeMarkdownText: the set is read from the source on every run (Gen/MdTables.v); on the tree this model was
   written for it is  \ * _ ` [ ] < > # | ~ &  *)
Definition needs_escape (c : ascii) : bool :=
  existsb (Nat.eqb (code_of c)) md_escape_set.
Fixpoint escape_chars (cs : list ascii) : list ascii :=
  match cs with
  | [] => []
  | c :: r => if needs_escape c then bslash :: c :: escape_chars r else c :: escape_chars r
  end.

(* the longest run of backticks *)
Fixpoint longest_ticks (cs : list ascii) (cur best : nat) : nat :=
  match cs with
  | [] => best
  | c :: r => if Ascii.eqb c btick then longest_ticks r (S cur) (Nat.max best (S cur)) else longest_ticks r 0 best
  end.

Definition starts_tick (cs : list ascii) : bool := match cs with c :: _ => Ascii.eqb c btick | [] => false end.

(* the closing ~~ is not recognised by the reader when the character before it is a tilde (even an escaped one): the
   last two characters \~ of what a struck-through run wraps are written as the character reference *)
Definition tilde : ascii := ascii_of_nat 126.
Definition tilde_ref : list ascii := chars "&#126;".
Definition ref_tail (cs : list ascii) : list ascii :=
  match rev cs with
  | t :: b :: r => if Ascii.eqb t tilde && Ascii.eqb b bslash then rev r ++ tilde_ref else cs
  | _ => cs
  end.

Definition format_run (o : wopts) (r : wrun) : string :=
  let cs := chars (w_text r) in
  match cs with
  | [] => ""
  | _ =>
      if w_code r then
        let n := longest_ticks cs 0 0 in
        let fence := repeat_str "`" (S n) in
        if Nat.ltb 0 n && (starts_tick cs || starts_tick (rev cs)) then (fence ++ " " ++ w_text r ++ " " ++ fence)%string
        else (fence ++ w_text r ++ fence)%string
      else if all_space cs then w_text r
      else
        let lead := take_while is_space cs in
        let core := trim_with is_space cs in
        let trail := rev (take_while is_space (rev cs)) in
        let t0 := str (escape_chars core) in
        let t1 := if w_bold r then (if w_italic r then ("***" ++ t0 ++ "***")%string else ("**" ++ t0 ++ "**")%string)
                  else if w_italic r then (o_emph o ++ t0 ++ o_emph o)%string else t0 in
        let t2 := if w_strike r then ("~~" ++ str (ref_tail (chars t1)) ++ "~~")%string else t1 in
        (str lead ++ t2 ++ str trail)%string
  end.

Definition same_format (a b : wrun) : bool :=
  Bool.eqb (w_bold a) (w_bold b) && Bool.eqb (w_italic a) (w_italic b) && Bool.eqb (w_strike a) (w_strike b) && Bool.eqb (w_code a) (w_code b).

(* adjacent runs of the same format become one run *)
Fixpoint merge_runs (rs : list wrun) : list wrun :=
  match rs with
  | [] => []
  | r :: rest =>
      match merge_runs rest with
      | m :: ms => if same_format r m then mkWRun (w_text r ++ w_text m) (w_bold r) (w_italic r) (w_strike r) (w_code r) :: ms
                   else r :: m :: ms
      | [] => [r]
      end
  end.

Definition para_text (o : wopts) (rs : list wrun) : string := sconcat (map (format_run o) (merge_runs rs)).

(* ---------------- block starts, wrapping ---------------- *)
Definition is_digit (c : ascii) : bool := Nat.leb 48 (code_of c) && Nat.leb (code_of c) 57.

Definition escape_block_start (cs : list ascii) : list ascii :=
  match cs with
  | [] => []
  | c :: r =>
      if existsb (Nat.eqb (code_of c)) [45; 43; 62; 61] then bslash :: cs
      else
        let ds := take_while is_digit cs in
        let rest := drop_while is_digit cs in
        match ds, rest with
        | _ :: _, d :: rest' => if Nat.eqb (code_of d) 46 || Nat.eqb (code_of d) 41 then ds ++ bslash :: d :: rest' else cs
        | _, _ => cs
        end
  end.

(* wrapWords: blanks separate words, a code span is kept whole, an escaped backtick does not open one *)
(* fence: the length of the run of backticks that opened the code span we are in (0 outside); run: the length of the
   run of backticks being read.  A span ends at the next run of the same length (repair of the tree: a flag used to be
   toggled at every backtick, so a span delimited by several backticks was broken behind its opening delimiter) *)
Fixpoint wrap_words (cs : list ascii) (cur : list ascii) (fence run : nat) (escaped : bool) : list (list ascii) :=
  match cs with
  | [] => match cur with [] => [] | _ => [rev cur] end
  | c :: r =>
      if Ascii.eqb c btick && negb (escaped && Nat.eqb fence 0) then wrap_words r (c :: cur) fence (S run) false
      else
        let fence' := if Nat.eqb run 0 then fence else if Nat.eqb fence 0 then run else if Nat.eqb run fence then 0 else fence in
        let escaped' := Ascii.eqb c bslash && negb escaped && Nat.eqb fence' 0 in
        if Nat.eqb fence' 0 && (Nat.eqb (code_of c) 32 || Nat.eqb (code_of c) 9 || Nat.eqb (code_of c) 10 || Nat.eqb (code_of c) 13) then
          match cur with
          | [] => wrap_words r [] fence' 0 escaped'
          | _ => rev cur :: wrap_words r [] fence' 0 escaped'
          end
        else wrap_words r (c :: cur) fence' 0 escaped'
  end.

Definition nl : ascii := ascii_of_nat 10.

(* wrapText: line is the line being filled (in order); out the finished lines *)
Fixpoint wrap_lines (words : list (list ascii)) (line : list ascii) (max : nat) : list ascii :=
  match words with
  | [] => match line with [] => [] | _ => escape_block_start line end
  | w :: r =>
      let flush := Nat.ltb max (List.length line + List.length w + 1) in
      match line with
      | [] => wrap_lines r w max
      | _ =>
          if flush then escape_block_start line ++ nl :: wrap_lines r w max
          else wrap_lines r (line ++ ascii_of_nat 32 :: w) max
      end
  end.

Definition wrap_text (o : wopts) (cs : list ascii) : list ascii :=
  if o_wrap o && Nat.ltb (o_max o) (List.length cs) then wrap_lines (wrap_words cs [] 0 0 false) [] (o_max o) else cs.

(* ---------------- blocks ---------------- *)
Fixpoint split_lines (cs : list ascii) (cur : list ascii) : list (list ascii) :=
  match cs with
  | [] => [rev cur]
  | c :: r => if Nat.eqb (code_of c) 10 then rev cur :: split_lines r [] else split_lines r (c :: cur)
  end.

Definition raw_text (rs : list wrun) : string := sconcat (map w_text rs).

Definition cell_text (o : wopts) (paras : list (list wrun)) : string :=
  let t := chars (sconcat (map (para_text o) paras)) in
  str (trim_with is_space (map (fun c => if Nat.eqb (code_of c) 10 then ascii_of_nat 32 else c) t)).

(* a header cell: bold is implied, runs are not merged *)
Definition header_cell_text (o : wopts) (paras : list (list wrun)) : string :=
  let t := chars (sconcat (map (fun rs => sconcat (map (fun r => format_run o (mkWRun (w_text r) false (w_italic r) (w_strike r) (w_code r))) rs)) paras)) in
  str (trim_with is_space (map (fun c => if Nat.eqb (code_of c) 10 then ascii_of_nat 32 else c) t)).

Definition write_table (o : wopts) (rows : list (list (list (list wrun)))) : string :=
  match rows with
  | [] => ""
  | hdr :: body =>
      if o_gfm o then
        ("|" ++ sconcat (map (fun c => " " ++ header_cell_text o c ++ " |") hdr) ++ "
" ++ "|" ++ repeat_str "-----|" (List.length hdr) ++ "
" ++ sconcat (map (fun row => "|" ++ sconcat (map (fun c => " " ++ cell_text o c ++ " |") row) ++ "
") body) ++ "
")%string
      else
        let line (row : list (list (list wrun))) :=
          match row with
          | [] => ""
          | c :: cs => (cell_text o c ++ sconcat (map (fun x => " | " ++ cell_text o x) cs))%string
          end in
        ("**" ++ line hdr ++ "**
" ++ sconcat (map (fun row => str (escape_block_start (chars (line row))) ++ "
") body) ++ "
")%string
  end.

Definition end_list (in_list : bool) : string := if in_list then "
" else "".

(* one block: the text written and the new state *)
Definition write_block (o : wopts) (in_list : bool) (b : wblock) : string * bool :=
  match b with
  | WHeading level rs =>
      let lv := if Nat.ltb 6 level then 6 else level in
      let t := trim_with is_space (chars (para_text o rs)) in
      (end_list in_list ++
       match t with
       | [] => ""
       | _ =>
           if o_setext o && Nat.leb lv 2 then
             str t ++ "
" ++ repeat_str (if Nat.eqb lv 1 then "=" else "-") (List.length t) ++ "

"
           else repeat_str "#" lv ++ " " ++ str t ++ "

"
       end, false)%string
  | WQuote rs =>
      let t := chars (para_text o rs) in
      (end_list in_list ++
       (if all_space t then ""
        else sconcat (map (fun l => "> " ++ str (escape_block_start (trim_with is_space l)) ++ "
") (split_lines t [])) ++ "
"), false)%string
  | WCode rs =>
      let t := raw_text rs in
      (end_list in_list ++ (if all_space (chars t) then "" else "```
" ++ t ++ "
```

"), false)%string
  | WItem rs =>
      let t := chars (para_text o rs) in
      if all_space t then ("", in_list)
      else ((o_bullet o ++ " " ++ str (escape_block_start (trim_with is_space t)) ++ "
")%string, true)
  | WPara rs =>
      let t := chars (para_text o rs) in
      (end_list in_list ++
       (if all_space t then ""
        else str (wrap_text o (escape_block_start (trim_with is_space t))) ++ "

"), false)%string
  | WTable rows => ((end_list in_list ++ write_table o rows)%string, false)
  end.

Fixpoint write_from (o : wopts) (in_list : bool) (bs : list wblock) : string :=
  match bs with
  | [] => end_list in_list
  | b :: r => let '(s, st) := write_block o in_list b in (s ++ write_from o st r)%string
  end.

Definition write (o : wopts) (bs : list wblock) : string := write_from o false bs.
