(* M-WORLD: several documents in one process.  A world is a shared component (process-wide
   state) plus one state per document; an event is a call on one document.  Two step functions:
   [wstep_local] - every call reads and writes only the state of its own document (the code after
   the fix that moved the footnote / numbering managers into Document); [wstep_shared] - calls also
   go through a shared component (the pinned commit's package-level registries).  No proofs here. *)
From Coq Require Import List Bool Arith String.
From WZ Require Import Gen.Globals.
Import ListNotations.

Section World.
  Variables (st op : Type) (step : st -> op -> st).

  Definition world := nat -> st.
  Definition wstep_local (w : world) (e : nat * op) : world :=
    fun i => if Nat.eqb i (fst e) then step (w i) (snd e) else w i.
  Definition wrun_local (sigma : list (nat * op)) (w : world) : world := fold_left wstep_local sigma w.

  (* the calls of document i, in order *)
  Definition calls_of (i : nat) (sigma : list (nat * op)) : list op :=
    map snd (filter (fun e => Nat.eqb (fst e) i) sigma).
  Definition run_alone (h : list op) (s : st) : st := fold_left step h s.
End World.

(* a world with a process-wide registry: documents hand out note ids from one shared counter and
   list the notes of the shared registry in their notes part (what the pinned commit did) *)
Record sdoc := mkSdoc { own_notes : list nat }.
Definition shared_step (g : list nat * nat) (d : sdoc) : (list nat * nat) * sdoc :=
  let '(reg, next) := g in ((reg ++ [next])%list, S next, mkSdoc (reg ++ [next])%list).
Definition sworld : Type := (list nat * nat) * (nat -> sdoc).
Definition wstep_shared (w : sworld) (i : nat) : sworld :=
  let '(g', d') := shared_step (fst w) (snd w i) in
  (g', fun j => if Nat.eqb j i then d' else snd w j).

(* which package-level variables exist and who writes them: the only ones allowed are never written and hold error
   values (from the standard constructors or a constructor of the package that returns an error), compiled regular
   expressions, constants, values of a basic type computed once by a function of the package, the logger and read-only tables (literals of plain values that the sources only index, range
   over or measure: tools/go2coq/globals.go) *)
Definition allowed_global (row : string * string * string * list string) : bool :=
  let '(pkg, name, kind, writers) := row in
  match writers with
  | [] => existsb (String.eqb kind) ["call:errors.New"; "call:fmt.Errorf"; "call:regexp.MustCompile"; "returns:error"; "returns:*DocumentError"; "returns:*Logger"; "constant"; "literal:read-only table";
                                         "returns:float64"; "returns:int"; "returns:string"; "returns:bool"]%string
  | _ => false
  end.
Definition globals_ok : bool := forallb allowed_global globals.
