(* M-IO: Document.Save as a stream of writes through a buffered writer with a sticky error, in
   front of a file that fails at byte offset k (disk full, file-size limit) - and which of the
   calls' errors reach Save's return value (Gen/SaveEffects.v).  No proofs in this file. *)
From Coq Require Import List Bool Arith String Lia.
From WZ Require Import Gen.SaveEffects.
Import ListNotations.

Record io := mkIo { disk : nat; pending : nat; bad : bool }.

(* try to move m buffered bytes to the file; the file accepts bytes only below the limit *)
Definition flush (k : option nat) (m : nat) (s : io) : io :=
  if bad s then s else
  let m := Nat.min m (pending s) in
  match k with
  | None => mkIo (disk s + m) (pending s - m) false
  | Some k => if Nat.leb (disk s + m) k then mkIo (disk s + m) (pending s - m) false
              else mkIo (Nat.max (disk s) k) (pending s - (k - disk s)) true   (* short write, then the error sticks *)
  end.

(* one zip-level write of n bytes, after which the buffer happens to flush f bytes (the policy of
   bufio / archive/zip is not modelled: the theorems hold for every f) *)
Inductive wop := W (n f : nat).

Definition wstep (k : option nat) (s : io) (o : wop) : io * bool :=
  let 'W n f := o in
  if bad s then (s, true)
  else let s2 := flush k f (mkIo (disk s) (pending s + n) false) in (s2, bad s2).

Fixpoint wrun (k : option nat) (s : io) (ws : list wop) : io * bool :=
  match ws with
  | [] => (s, false)
  | o :: r => let '(s1, e1) := wstep k s o in let '(s2, e2) := wrun k s1 r in (s2, e1 || e2)
  end.

Definition total (ws : list wop) : nat := fold_right (fun o acc => let 'W n _ := o in n + acc) 0 ws.

(* which errors reach the return value *)
Record checks := mkChecks { c_write : bool; c_zclose : bool; c_fclose : bool; c_trunc : bool }.

Definition last_checked (name : string) (l : list (string * bool)) : bool :=
  fold_left (fun acc e => if String.eqb (fst e) name then snd e else acc) l false.
Definition all_checked (name : string) (l : list (string * bool)) : bool :=
  forallb (fun e => if String.eqb (fst e) name then snd e else true) l
  && existsb (fun e => String.eqb (fst e) name) l.

Definition checks_of_source : checks :=
  mkChecks (all_checked "writer.Write" save_effects && all_checked "zipWriter.Create" save_effects)
           (last_checked "zipWriter.Close" save_effects)
           (last_checked "file.Close" save_effects)
           save_open_truncates.

(* Save: entries, then zipWriter.Close (central directory of cd bytes + flush of everything),
   then file.Close (which the OS may fail: fclose_fails).  Result: ok?, bytes in the file. *)
Definition save (c : checks) (k : option nat) (fclose_fails : bool) (old_len : nat) (ws : list wop) (cd : nat) : bool * nat :=
  let '(s1, werr) := wrun k (mkIo 0 0 false) ws in
  let flen s := if c_trunc c then disk s else Nat.max old_len (disk s) in
  if c_write c && werr then (false, flen s1)
  else
    let s2 := if bad s1 then s1 else flush k (pending s1 + cd) (mkIo (disk s1) (pending s1 + cd) false) in
    if c_zclose c && bad s2 then (false, flen s2)
    else if c_fclose c && fclose_fails then (false, flen s2)
    else (true, flen s2).
