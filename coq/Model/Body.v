(* M-BODY: the document body as an ordered list of elements (kind, identity atom), the append-type
   constructors, the three removal calls, the creation of section settings by page / header-footer
   calls, and the order in which Save writes the elements.  No proofs in this file. *)
From Coq Require Import List Bool Arith NArith ZArith.
Import ListNotations.

Inductive kind := KPara | KTbl | KSect | KBmS | KBmE | KSdt | KMath.
Definition elem : Type := kind * N.

Definition kind_eqb (a b : kind) : bool :=
  match a, b with
  | KPara, KPara | KTbl, KTbl | KSect, KSect | KBmS, KBmS | KBmE, KBmE | KSdt, KSdt | KMath, KMath => true
  | _, _ => false
  end.
Definition is_sect (e : elem) : bool := kind_eqb (fst e) KSect.
Definition is_para (e : elem) : bool := kind_eqb (fst e) KPara.

Inductive bop :=
| Append (es : list elem)     (* a constructor call: the new elements, in order, with their identities *)
| EnsureSect (a : N)          (* a page-setting / header / footer call: section settings are created at the end if there are none *)
| RemoveAt (i : Z)            (* RemoveElementAt *)
| RemoveParaAt (i : Z)        (* RemoveParagraphAt *)
| RemoveHandle (a : N)        (* RemoveParagraph(p): p identified by its atom; it may be gone or foreign *)
| SaveB.                      (* Save / ToBytes: does not change the body *)

Fixpoint remove_nth {A} (n : nat) (l : list A) : list A :=
  match n, l with
  | _, [] => []
  | O, _ :: r => r
  | S m, a :: r => a :: remove_nth m r
  end.

(* index (in the element list) of the i-th paragraph *)
Fixpoint para_index (l : list elem) (i : nat) (pos : nat) : option nat :=
  match l with
  | [] => None
  | e :: r => if is_para e then (match i with O => Some pos | S j => para_index r j (S pos) end)
              else para_index r i (S pos)
  end.

Fixpoint handle_index (l : list elem) (a : N) (pos : nat) : option nat :=
  match l with
  | [] => None
  | e :: r => if is_para e && N.eqb (snd e) a then Some pos else handle_index r a (S pos)
  end.

Definition step (b : list elem) (o : bop) : list elem * bool :=
  match o with
  | Append es => (b ++ es, true)
  | EnsureSect a => if existsb is_sect b then (b, true) else (b ++ [(KSect, a)], true)
  | RemoveAt i => if (i <? 0)%Z || (Z.of_nat (length b) <=? i)%Z then (b, false) else (remove_nth (Z.to_nat i) b, true)
  | RemoveParaAt i => if (i <? 0)%Z then (b, false)
                      else match para_index b (Z.to_nat i) 0 with Some n => (remove_nth n b, true) | None => (b, false) end
  | RemoveHandle a => match handle_index b a 0 with Some n => (remove_nth n b, true) | None => (b, false) end
  | SaveB => (b, true)
  end.

Definition run (ops : list bop) (b : list elem) : list elem := fold_left (fun s o => fst (step s o)) ops b.

(* Body.MarshalXML: every other element in order, then the LAST section settings *)
Definition last_sect (b : list elem) : option elem := last (map Some (filter is_sect b)) None.
Definition first_sect (b : list elem) : option elem := hd None (map Some (filter is_sect b)).
Definition serialize (b : list elem) : list elem :=
  filter (fun e => negb (is_sect e)) b ++ match last_sect b with Some s => [s] | None => [] end.
