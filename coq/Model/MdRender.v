(* M-MD: the Markdown-to-Word renderer (pkg/markdown/renderer.go) on the syntax tree the parser delivers.

   The parser (goldmark with the extensions the converter configures) is not modelled: the harness dumps its tree for
   every input and hands it to this model.  Inline nodes: text (already unescaped: textValue), soft break flag,
   emphasis (level 1 italic, 2 bold), code span, link, auto-link, image, strike-through, raw HTML, inline formula,
   anything else (its text is extracted).  Blocks: heading, paragraph, text block (the tight content of a list item),
   list, block quote, code block (its lines), thematic break, table, formula block, anything else (walked through).

   The document is modelled as far as the property looks at it: a sequence of paragraphs (style, horizontal-rule
   flag, runs with text and the four format flags) and tables (cell texts, alignment per cell). *)
From Coq Require Import String List Bool Arith.
Import ListNotations.
Open Scope string_scope.
Open Scope list_scope.

Inductive inl :=
| IText (s : string) (soft : bool)
| IStr (s : string)
| IEmph (level : nat) (kids : list inl)
| ICode (kids : list inl)
| ILink (kids : list inl)
| IAuto (label : string)
| IImage (alt : list inl) (dest : string)
| IStrike (kids : list inl)
| IRaw
| IMath (shown : string)          (* the text the engine shows for the formula *)
| IOther (kids : list inl).

Inductive blk :=
| BHeading (level : nat) (kids : list inl)
| BPara (kids : list inl)
| BText (kids : list inl)
| BList (items : list (list blk))
| BQuote (kids : list blk)
| BCode (lines : list string)
| BHr
| BTable (header : list (list inl)) (rows : list (list (list inl) * list nat)) (aligns : list nat)
| BMath (shown : string)
| BOther (kids : list blk).

Record fmt := mkFmt { f_bold : bool; f_italic : bool; f_strike : bool; f_code : bool; f_link : bool; f_math : bool }.
Definition plain : fmt := mkFmt false false false false false false.

Inductive dblock :=
| DPara (style : string) (hr : bool) (runs : list (string * fmt))
| DTable (cells : list (list string)) (aligns : list (list nat)).

Fixpoint sconcat (l : list string) : string := match l with [] => "" | x :: r => (x ++ sconcat r)%string end.

(* extractTextContent: the text leaves below a node, soft breaks as blanks *)
Section Extract.
  Variable ex : inl -> string.
  Definition extract_list (l : list inl) : string := sconcat (map ex l).
End Extract.
Fixpoint extract (i : inl) : string :=
  match i with
  | IText s soft => if soft then (s ++ " ")%string else s
  | IStr s => s
  | IEmph _ k | ICode k | ILink k | IStrike k | IOther k => extract_list extract k
  | IAuto l => l
  | IImage alt _ => extract_list extract alt
  | IRaw => ""
  | IMath _ => ""
  end.

(* renderInlineChildren: runs with the accumulated format *)
Section Inline.
  Variable ri : fmt -> inl -> list (string * fmt).
  Definition inline_list (f : fmt) (l : list inl) : list (string * fmt) := flat_map (ri f) l.
End Inline.
Fixpoint render_inl (f : fmt) (i : inl) : list (string * fmt) :=
  match i with
  | IText s soft => (s, f) :: (if soft then [(" ", f)] else [])
  | IStr s => [(s, f)]
  | IEmph level k =>
      inline_list render_inl (if Nat.eqb level 2 then mkFmt true (f_italic f) (f_strike f) (f_code f) (f_link f) (f_math f)
                              else mkFmt (f_bold f) true (f_strike f) (f_code f) (f_link f) (f_math f)) k
  | ICode k => [(extract_list extract k, mkFmt (f_bold f) (f_italic f) (f_strike f) true (f_link f) (f_math f))]
  | ILink k => inline_list render_inl (mkFmt (f_bold f) (f_italic f) (f_strike f) (f_code f) true (f_math f)) k
  | IAuto l => [(l, mkFmt (f_bold f) (f_italic f) (f_strike f) (f_code f) true (f_math f))]
  | IImage alt dest =>
      let a := extract_list extract alt in
      [(("[图片: " ++ (if String.eqb a "" then dest else a) ++ "]")%string, plain)]
  | IStrike k => inline_list render_inl (mkFmt (f_bold f) (f_italic f) true (f_code f) (f_link f) (f_math f)) k
  | IRaw => []
  | IMath shown => [(shown, mkFmt false false false false false true)]
  | IOther k => let t := extract_list extract k in if String.eqb t "" then [] else [(t, f)]
  end.
Definition render_inlines (l : list inl) : list (string * fmt) := inline_list render_inl plain l.

Fixpoint repeat_str (s : string) (n : nat) : string := match n with 0 => "" | S k => (s ++ repeat_str s k)%string end.

Definition nat_digit (n : nat) : string :=
  match n with 1 => "1" | 2 => "2" | 3 => "3" | 4 => "4" | 5 => "5" | 6 => "6" | _ => "6" end.

(* the text below a block, as renderBlockquote extracts it (no separators) *)
Section BExtract.
  Variable bx : blk -> string.
  Definition bextract_list (l : list blk) : string := sconcat (map bx l).
End BExtract.
Fixpoint bextract (b : blk) : string :=
  match b with
  | BHeading _ k | BPara k | BText k => extract_list extract k
  | BList items => sconcat (map (bextract_list bextract) items)
  | BQuote k | BOther k => bextract_list bextract k
  | BCode _ => ""
  | BHr => ""
  | BTable h rows _ => (sconcat (map (extract_list extract) h) ++ sconcat (map (fun r => sconcat (map (extract_list extract) (fst r))) rows))%string
  | BMath _ => ""
  end.

(* blank: a line of blanks and tabs only (strings.TrimSpace(line) == "") *)
Fixpoint all_blank (s : string) : bool :=
  match s with
  | EmptyString => true
  | String c r => (Nat.eqb (Ascii.nat_of_ascii c) 32 || Nat.eqb (Ascii.nat_of_ascii c) 9) && all_blank r
  end.
Definition code_line (line : string) : dblock :=
  DPara "CodeBlock" false [((if all_blank line then " " else line), plain)].

Section Blocks.
  Variable tables_on : bool.
  Variable rb : nat -> blk -> list dblock.

  (* renderListItem at list level lv (1 = outermost): the runs of the item's own paragraph and the blocks that
     follow it; has_text: a text block has been rendered already *)
  Fixpoint render_item (lv : nat) (has_text : bool) (bs : list blk) : list (string * fmt) * list dblock :=
    match bs with
    | [] => ([], [])
    | b :: r =>
        match b with
        | BText k | BPara k =>
            let '(runs, later) := render_item lv true r in
            ((if has_text then [(" ", plain)] else []) ++ render_inlines k ++ runs, later)
        | BList _ | BCode _ | BQuote _ =>
            let '(runs, later) := render_item lv has_text r in
            (runs, rb lv b ++ later)
        | other =>
            let t := bextract other in
            let '(runs, later) := render_item lv has_text r in
            ((if String.eqb t "" then [] else [(t, plain)]) ++ runs, later)
        end
    end.
End Blocks.

(* alignment of a cell: 0 = not set, 1 left, 2 center, 3 right; a column without alignment gets left *)
Definition cell_align (aligns : list nat) (c : nat) : nat :=
  match nth_error aligns c with Some 0 => 1 | Some a => a | None => 0 end.

Definition bullet_prefix (lv : nat) : string := (repeat_str "  " (lv - 1) ++ "• ")%string.

Fixpoint render_blk (tables_on : bool) (lv : nat) (b : blk) {struct b} : list dblock :=
  match b with
  | BHeading level k => [DPara ("Heading" ++ nat_digit level)%string false [(extract_list extract k, plain)]]
  | BPara k => match k with [] => [] | _ => [DPara "" false (render_inlines k)] end
  | BText _ => []
  | BList items =>
      flat_map (fun item =>
                  let '(runs, later) := render_item (render_blk tables_on) (S lv) false item in
                  DPara "" false ((bullet_prefix (S lv), plain) :: runs) :: later) items
  | BQuote k => [DPara "Quote" false [(bextract_list bextract k, plain)]]
  | BCode lines => map code_line lines
  | BHr => [DPara "" true []]
  | BTable h rows aligns =>
      if tables_on then
        let data := map (extract_list extract) h :: map (fun r => map (extract_list extract) (fst r)) rows in
        match data with
        | [] => []
        | _ => [DTable data (map (fun row => map (cell_align aligns) (seq 0 (List.length row))) data)]
        end
      else []
  | BMath shown => [DPara "" false [(shown, mkFmt false false false false false true)]]
  | BOther k => flat_map (render_blk tables_on lv) k
  end.

Definition render (tables_on : bool) (doc : list blk) : list dblock := flat_map (render_blk tables_on 0) doc.

(* ---------------- what a reader sees ---------------- *)
Definition para_text (d : dblock) : string :=
  match d with
  | DPara _ _ runs => sconcat (map fst runs)
  | DTable cells _ => sconcat (map sconcat cells)
  end.
Definition doc_text (ds : list dblock) : string := sconcat (map para_text ds).
