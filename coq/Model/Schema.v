(* M-SCHEMA: the document round trip (Save, then Open) as a table-driven writer and a table-driven
   reader over generic trees.

   A document value is a tree [dt]: a scalar (every Go string/bool/int field, printed as text), a
   list of values (a slice; a pointer is a list with at most one element; a struct held by value a
   list with exactly one), or a struct node with its field values in the order of the struct
   declaration.  The writer schema says, per struct type and field, how encoding/xml writes the field
   (attribute / child element / character data, under which local name, of which element type); it
   comes from the struct tags (Gen/Schema.v, w_schema).  The reader is modelled as what a token
   walker with one case per local name does: it finds attributes and children by local name, and
   a field is read back exactly when the walker has a case for its name ([cov], computed from
   Gen/Schema.v r_known).  Elements of a heterogeneous list (Body.Elements) are written under the
   element name of their own type and read back by the element name ([elty]).

   What the model leaves out: namespaces and prefixes (the reader matches local names only, as the
   code does), the order in which a custom MarshalXML writes the children of different names (the
   reader is insensitive to it), escaping of text (Model/XmlText.v). *)
From Coq Require Import String List Bool Arith.
Import ListNotations.
Open Scope string_scope.

Inductive kind := KAttr | KElem | KChar | KOther.
Inductive shape := SStr | SStruct | SAny.

Record fspec := mkF { f_go : string; f_local : string; f_kind : kind; f_shape : shape; f_elem : string }.

Inductive dt :=
| DS (s : string)
| DL (l : list dt)
| DN (ty : string) (vals : list dt).

Inductive xt := XN (name : string) (attrs : list (string * string)) (text : string) (kids : list xt).

Definition x_name (x : xt) := match x with XN n _ _ _ => n end.
Definition x_text (x : xt) := match x with XN _ _ t _ => t end.

Definition d_ty (d : dt) : string := match d with DN ty _ => ty | _ => "" end.

Section RoundTrip.
  (* the writer schema, the reader's coverage and the reader's element-name dispatch *)
  Variable fields_of : string -> list fspec.
  Variable xmlname_of : string -> string.
  Variable cov : string -> fspec -> bool.
  (* owner type of the heterogeneous list, element name *)
  Variable elty : string -> string -> option string.

  Definition strv (d : dt) : string := match d with DS s => s | _ => "" end.

  (* --- writer ------------------------------------------------------------------------- *)
  Fixpoint w_attrs (specs : list fspec) (vals : list dt) : list (string * string) :=
    match specs, vals with
    | sp :: ss, v :: vs =>
        match f_kind sp with
        | KAttr => if String.eqb (strv v) "" then w_attrs ss vs else (f_local sp, strv v) :: w_attrs ss vs
        | _ => w_attrs ss vs
        end
    | _, _ => []
    end.

  Fixpoint w_text (specs : list fspec) (vals : list dt) : string :=
    match specs, vals with
    | sp :: ss, v :: vs =>
        match f_kind sp with
        | KChar => strv v
        | _ => w_text ss vs
        end
    | _, _ => ""
    end.

  Section Writer.
    Variable wr : string -> dt -> xt.
    (* the child elements one field contributes *)
    Definition w_block (sp : fspec) (v : dt) : list xt :=
      match f_kind sp, f_shape sp, v with
      | KElem, SStruct, DL l => map (wr (f_local sp)) l
      | KElem, SAny, DL l => map (fun c => wr (xmlname_of (d_ty c)) c) l
      | KElem, SStr, DS s => if String.eqb s "" then [] else [XN (f_local sp) [] s []]
      | _, _, _ => []
      end.
    Fixpoint w_kids (specs : list fspec) (vals : list dt) {struct vals} : list xt :=
      match specs, vals with
      | sp :: ss, v :: vs => w_block sp v ++ w_kids ss vs
      | _, _ => []
      end.
  End Writer.

  Fixpoint write (el : string) (d : dt) {struct d} : xt :=
    match d with
    | DN ty vals => XN el (w_attrs (fields_of ty) vals) (w_text (fields_of ty) vals) (w_kids write (fields_of ty) vals)
    | _ => XN el [] "" []
    end.

  (* --- reader ------------------------------------------------------------------------- *)
  Fixpoint attr_lookup (k : string) (l : list (string * string)) : string :=
    match l with
    | [] => ""
    | (k', v) :: r => if String.eqb k k' then v else attr_lookup k r
    end.

  Fixpoint first_text (k : string) (l : list xt) : string :=
    match l with
    | [] => ""
    | x :: r => if String.eqb (x_name x) k then x_text x else first_text k r
    end.

  Section Reader.
    Variable rd : string -> xt -> dt.
    Fixpoint sel_named (n ty : string) (ks : list xt) : list dt :=
      match ks with
      | [] => []
      | k :: r => if String.eqb (x_name k) n then rd ty k :: sel_named n ty r else sel_named n ty r
      end.
    Fixpoint sel_any (ty : string) (ks : list xt) : list dt :=
      match ks with
      | [] => []
      | k :: r => match elty ty (x_name k) with Some c => rd c k :: sel_any ty r | None => sel_any ty r end
      end.
    Definition r_field (ty : string) (attrs : list (string * string)) (text : string) (kids : list xt) (sp : fspec) : dt :=
      match f_kind sp, f_shape sp with
      | KAttr, _ => DS (if cov ty sp then attr_lookup (f_local sp) attrs else "")
      | KChar, _ => DS (if cov ty sp then text else "")
      | KElem, SStr => DS (if cov ty sp then first_text (f_local sp) kids else "")
      | KElem, SStruct => DL (if cov ty sp then sel_named (f_local sp) (f_elem sp) kids else [])
      | KElem, SAny => DL (sel_any ty kids)
      | KOther, _ => DS ""
      end.
  End Reader.

  Fixpoint read (ty : string) (x : xt) {struct x} : dt :=
    match x with
    | XN _ attrs text kids => DN ty (map (r_field read ty attrs text kids) (fields_of ty))
    end.

  (* --- what survives: the fields the reader does not cover become empty ------------------- *)
  (* an element of a heterogeneous list is read back as its own type, as another type, or not at all *)
  Definition readable (ty : string) (c : dt) : bool :=
    match elty ty (xmlname_of (d_ty c)) with Some t => String.eqb t (d_ty c) | None => false end.
  Definition not_misread (ty : string) (c : dt) : bool :=
    match elty ty (xmlname_of (d_ty c)) with Some t => String.eqb t (d_ty c) | None => true end.

  Section Eraser.
    Variable er : dt -> dt.
    Fixpoint keep_readable (ty : string) (l : list dt) : list dt :=
      match l with
      | [] => []
      | c :: r => if readable ty c then er c :: keep_readable ty r else keep_readable ty r
      end.
    Definition e_field (ty : string) (sp : fspec) (v : dt) : dt :=
      match f_kind sp, f_shape sp, v with
      | KOther, _, _ => DS ""
      | KElem, SStruct, DL l => DL (if cov ty sp then map er l else [])
      | KElem, SAny, DL l => DL (keep_readable ty l)
      | _, _, DS s => DS (if cov ty sp then s else "")
      | _, _, _ => v
      end.
    Fixpoint e_fields (ty : string) (specs : list fspec) (vals : list dt) {struct vals} : list dt :=
      match specs, vals with
      | sp :: ss, v :: vs => e_field ty sp v :: e_fields ty ss vs
      | _, _ => []
      end.
  End Eraser.

  Fixpoint erase (d : dt) {struct d} : dt :=
    match d with
    | DN ty vals => DN ty (e_fields erase ty (fields_of ty) vals)
    | _ => d
    end.

  (* --- conformance of a value to the schema --------------------------------------------- *)
  Section Conf.
    Variable cf : dt -> bool.
    Definition is_node (c : dt) : bool := match c with DN _ _ => true | _ => false end.
    Definition c_field (ty : string) (sp : fspec) (v : dt) : bool :=
      match f_kind sp, f_shape sp, v with
      | KElem, SStruct, DL l => forallb (fun c => String.eqb (d_ty c) (f_elem sp) && cf c) l
      | KElem, SAny, DL l => forallb (fun c => is_node c && not_misread ty c && cf c) l
      | KElem, SStr, DS _ => true
      | KAttr, _, DS _ => true
      | KChar, _, DS _ => true
      | KOther, _, _ => true
      | _, _, _ => false
      end.
    Fixpoint c_fields (ty : string) (specs : list fspec) (vals : list dt) {struct vals} : bool :=
      match specs, vals with
      | [], [] => true
      | sp :: ss, v :: vs => c_field ty sp v && c_fields ty ss vs
      | _, _ => false
      end.
  End Conf.

  Fixpoint conforms (d : dt) {struct d} : bool :=
    match d with
    | DN ty vals => c_fields conforms ty (fields_of ty) vals
    | _ => false
    end.

  (* --- a value that holds nothing in a place the reader does not cover ---------------------- *)
  Section Intact.
    Variable it : dt -> bool.
    Definition i_field (ty : string) (sp : fspec) (v : dt) : bool :=
      match f_kind sp, f_shape sp, v with
      | KOther, _, DS s => String.eqb s ""
      | KOther, _, _ => false
      | KElem, SStruct, DL l => if cov ty sp then forallb it l else match l with [] => true | _ => false end
      | KElem, SAny, DL l => forallb (fun c => readable ty c && it c) l
      | _, _, DS s => cov ty sp || String.eqb s ""
      | _, _, _ => true
      end.
    Fixpoint i_fields (ty : string) (specs : list fspec) (vals : list dt) {struct vals} : bool :=
      match specs, vals with
      | sp :: ss, v :: vs => i_field ty sp v && i_fields ty ss vs
      | _, _ => true
      end.
  End Intact.

  Fixpoint intact (d : dt) {struct d} : bool :=
    match d with
    | DN ty vals => i_fields intact ty (fields_of ty) vals
    | _ => true
    end.


  (* --- a value built only from struct types of a given set, holding nothing in never-written fields,
         whose heterogeneous lists hold only elements of acceptable types ------------------------- *)
  Section Uses.
    Variable tys : list string.
    Variable ok_root : string -> string -> bool.
    Section U.
      Variable us : dt -> bool.
      Definition u_field (ty : string) (sp : fspec) (v : dt) : bool :=
        match f_kind sp, f_shape sp, v with
        | KOther, _, DS s => String.eqb s ""
        | KOther, _, _ => false
        | KElem, SStruct, DL l => forallb us l
        | KElem, SAny, DL l => forallb (fun c => ok_root ty (d_ty c) && us c) l
        | _, _, _ => true
        end.
      Fixpoint u_fields (ty : string) (specs : list fspec) (vals : list dt) {struct vals} : bool :=
        match specs, vals with
        | sp :: ss, v :: vs => u_field ty sp v && u_fields ty ss vs
        | _, _ => true
        end.
    End U.
    Fixpoint uses_only (d : dt) {struct d} : bool :=
      match d with
      | DN ty vals => existsb (String.eqb ty) tys && u_fields uses_only ty (fields_of ty) vals
      | _ => true
      end.
  End Uses.

  (* --- conditions on the schema under which reading by name finds what was written ---------- *)
  Definition attr_names (specs : list fspec) : list string :=
    flat_map (fun sp => match f_kind sp with KAttr => [f_local sp] | _ => [] end) specs.
  Definition elem_names (specs : list fspec) : list string :=
    flat_map (fun sp => match f_kind sp with KElem => [f_local sp] | _ => [] end) specs.
  Definition char_count (specs : list fspec) : nat :=
    List.length (filter (fun sp => match f_kind sp with KChar => true | _ => false end) specs).
  Definition has_any (specs : list fspec) : bool :=
    existsb (fun sp => match f_kind sp, f_shape sp with KElem, SAny => true | _, _ => false end) specs.

  Fixpoint nodupb (l : list string) : bool :=
    match l with
    | [] => true
    | x :: r => negb (existsb (String.eqb x) r) && nodupb r
    end.

  Definition any_only (specs : list fspec) : bool :=
    forallb (fun sp => match f_kind sp, f_shape sp with KElem, SAny => true | KElem, _ => false | _, _ => true end) specs.

  (* one struct type: attribute names pairwise distinct, element names pairwise distinct, at most one
     character-data field, and a heterogeneous list is the only child-element field of its type *)
  Definition type_ok (specs : list fspec) : bool :=
    nodupb (attr_names specs) && nodupb (elem_names specs) && Nat.leb (char_count specs) 1
    && (if has_any specs then Nat.eqb (List.length (elem_names specs)) 1 else true)
    && (if has_any specs then any_only specs else true).

End RoundTrip.

(* ---- the instance: tables of Gen/Schema.v ------------------------------------------------ *)

Definition gen_field := (string * string * string * string * string * bool)%type.

Definition mk_fspec (g : gen_field) : fspec :=
  let '(go, loc, k, sh, el, _) := g in
  if String.eqb el "interface" then mkF go loc KElem SAny el
  else
    mkF go loc
      (if String.eqb k "attr" then KAttr else if String.eqb k "elem" then KElem
       else if String.eqb k "chardata" then KChar else KOther)
      (if String.eqb sh "str" then SStr else SStruct) el.

Fixpoint assoc {A} (k : string) (l : list (string * A)) : option A :=
  match l with
  | [] => None
  | (k', v) :: r => if String.eqb k k' then Some v else assoc k r
  end.

Definition memb (s : string) (l : list string) : bool := existsb (String.eqb s) l.

Section Instance.
  Variable w_schema : list (string * list gen_field).
  Variable w_xmlname : list (string * string).
  Variable w_roots : list string.
  Variable r_known : list (string * list string).
  Variable r_any_cases : list string.
  (* fields that the reader fills without looking at a name (the element has no content) *)
  Variable implicit : list (string * string).
  Variable any_extra : list (string * string * string).

  Definition g_fields_of (ty : string) : list fspec :=
    match assoc ty w_schema with Some l => map mk_fspec l | None => [] end.
  Definition g_xmlname_of (ty : string) : string :=
    match assoc ty w_xmlname with Some n => n | None => "" end.
  Definition g_known (ty : string) : list string :=
    match assoc ty r_known with Some l => l | None => [] end.
  Definition g_constructed (ty : string) : bool :=
    match assoc ty r_known with Some _ => true | None => false end.

  Definition g_cov (ty : string) (sp : fspec) : bool :=
    match f_kind sp, f_shape sp with
    | KAttr, _ => memb (f_local sp) (g_known ty)
    | KChar, _ => g_constructed ty
    | KElem, SStr => memb (f_local sp) (g_known ty)
    | KElem, SStruct =>
        (g_constructed (f_elem sp) && (memb (f_local sp) (g_known ty) || memb (f_local sp) (g_known (f_elem sp))))
        || existsb (fun p => String.eqb (fst p) ty && String.eqb (snd p) (f_go sp)) implicit
    | KElem, SAny => true
    | KOther, _ => true
    end.

  (* the body-level dispatch (the reader function that returns interface{}) serves every heterogeneous list;
     [any_extra] lists (owner type, element name, element type) for names that the reader of one owner type
     reacts to itself: the name must be among the literals of that owner's reader function *)
  Definition g_elty (owner name : string) : option string :=
    if memb name r_any_cases then
      match filter (fun c => String.eqb (g_xmlname_of c) name && g_constructed c) w_roots with
      | c :: _ => Some c
      | [] => None
      end
    else
      match filter (fun e => String.eqb (fst (fst e)) owner && String.eqb (snd (fst e)) name) any_extra with
      | e :: _ => if memb name (g_known owner) && g_constructed (snd e) then Some (snd e) else None
      | [] => None
      end.

  (* types reachable from the body *)
  Definition g_children (ty : string) : list string :=
    flat_map (fun sp => match f_kind sp, f_shape sp with
                        | KElem, SStruct => [f_elem sp]
                        | _, _ => [] end) (g_fields_of ty).
  Fixpoint reach (fuel : nat) (todo seen : list string) : list string :=
    match fuel with
    | 0 => seen
    | S n =>
        match todo with
        | [] => seen
        | t :: r => if memb t seen then reach n r seen else reach n (g_children t ++ r) (t :: seen)
        end
    end.
  Definition g_reachable : list string := rev (reach 5000 w_roots []).

  (* (type, Go field, local name) written by the writer and not covered by the reader *)
  Definition g_uncovered : list (string * string * string) :=
    flat_map (fun ty =>
                if g_constructed ty then
                  flat_map (fun sp => if g_cov ty sp then [] else [(ty, f_go sp, f_local sp)]) (g_fields_of ty)
                else [(ty, "*", g_xmlname_of ty)]) g_reachable.

  Definition g_types_ok : bool := forallb (fun p => type_ok (map mk_fspec (snd p))) w_schema.
  Definition g_bad_types : list string :=
    map fst (filter (fun p => negb (type_ok (map mk_fspec (snd p)))) w_schema).
End Instance.
