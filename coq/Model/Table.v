(* M-TABLE: tables as rows of PHYSICAL cells (a horizontal merge deletes the covered cells and
   sets gridSpan on the first; all later indexing is physical), the structural edits of
   pkg/document/table.go with Go's slice rules (out-of-range slice expressions panic), and the
   plain rows-by-columns matrix the property compares against.  No proofs in this file. *)
From Coq Require Import List Bool Arith NArith ZArith.
Import ListNotations.

(* vertical merge state of a cell *)
Inductive vmerge := VNone | VRestart | VContinue.

Record cell := mkCell {
  span : option nat;          (* w:gridSpan *)
  vm : vmerge;
  paras : list N              (* one atom per paragraph: the text of its first run (0 = empty / no run) *)
}.
Definition row := list cell.
Record table := mkTable { grid : option (list N); rows : list row }.   (* grid = column widths; None = no w:tblGrid *)

Inductive res := Ok (t : table) | Err | Panic.

Definition span_of (c : cell) : nat := match span c with Some n => n | None => 1 end.
Definition row_width (r : row) : nat := fold_right (fun c acc => span_of c + acc) 0 r.

Definition new_cell (text : N) : cell := mkCell None VNone [text].
Definition nth_text (data : list N) (i : nat) : N := nth i data 0%N.

(* Go: s = append(s[:p+1], s[p:]...); s[p] = x   (p <= len s), or append at the end.
   Panics when p > len s. *)
Definition insert_at {A} (p : nat) (x : A) (l : list A) : option (list A) :=
  if Nat.leb p (length l) then Some (firstn p l ++ x :: skipn p l) else None.
(* Go: append(s[:a], s[b+1:]...) : panics when b+1 > len s *)
Definition delete_range {A} (a b : nat) (l : list A) : option (list A) :=
  if Nat.leb (S b) (length l) then Some (firstn a l ++ skipn (S b) l) else None.

Fixpoint map_opt {A B} (f : A -> option B) (l : list A) : option (list B) :=
  match l with
  | [] => Some []
  | a :: r => match f a, map_opt f r with Some b, Some r' => Some (b :: r') | _, _ => None end
  end.

Fixpoint mapi_aux {A B} (f : nat -> A -> B) (i : nat) (l : list A) : list B :=
  match l with [] => [] | a :: r => f i a :: mapi_aux f (S i) r end.
Definition mapi {A B} (f : nat -> A -> B) (l : list A) : list B := mapi_aux f 0 l.

Fixpoint update_nth {A} (n : nat) (f : A -> A) (l : list A) : list A :=
  match n, l with
  | _, [] => []
  | O, a :: r => f a :: r
  | S m, a :: r => a :: update_nth m f r
  end.

Inductive top :=
| InsertRow (pos : Z) (data : list N)
| DeleteRow (i : Z)
| DeleteRows (a b : Z)
| InsertColumn (pos : Z) (data : list N) (width : N)
| DeleteColumn (i : Z)
| DeleteColumns (a b : Z)
| SetCellText (r c : Z) (text : N)
| AddCellParagraph (r c : Z) (text : N)
| ClearCellParagraphs (r c : Z)
| ClearTable
| MergeH (r a b : Z)
| MergeV (a b c : Z)
| MergeRange (r1 r2 c1 c2 : Z)
| Unmerge (r c : Z).

Definition in_range (i : Z) (n : nat) : bool := ((0 <=? i) && (i <? Z.of_nat n))%Z.

Definition get_cell (t : table) (r c : Z) : option cell :=
  if in_range r (length (rows t)) then
    match nth_error (rows t) (Z.to_nat r) with
    | Some rw => if in_range c (length rw) then nth_error rw (Z.to_nat c) else None
    | None => None
    end
  else None.

Definition set_cell (t : table) (r c : nat) (f : cell -> cell) : table :=
  mkTable (grid t) (update_nth r (update_nth c f) (rows t)).

(* SetCellText: writes the first run of the first paragraph (creating them if absent) *)
Definition set_text (text : N) (c : cell) : cell :=
  mkCell (span c) (vm c) (match paras c with [] => [text] | _ :: r => text :: r end).

Definition merge_h_row (a b : nat) (rw : row) : row :=
  (* cells a+1..b are deleted, cell a gets gridSpan = b-a+1 *)
  firstn a rw ++ match nth_error rw a with
                 | Some c => [mkCell (Some (b - a + 1)) (vm c) (paras c)]
                 | None => []
                 end ++ skipn (S b) rw.

Definition merge_h (t : table) (r a b : Z) : res :=
  if negb (in_range r (length (rows t))) then Err
  else match nth_error (rows t) (Z.to_nat r) with
       | None => Err
       | Some rw =>
           if ((a <? 0) || (Z.of_nat (length rw) <=? b) || (b <? a))%Z then Err
           else if (a =? b)%Z then Err
           else Ok (mkTable (grid t) (update_nth (Z.to_nat r) (merge_h_row (Z.to_nat a) (Z.to_nat b)) (rows t)))
       end.

Definition merge_v (t : table) (a b c : Z) : res :=
  if ((a <? 0) || (Z.of_nat (length (rows t)) <=? b) || (b <? a))%Z then Err
  else if (c <? 0)%Z then Err
  else if (a =? b)%Z then Err
  else
    let idx := seq (Z.to_nat a) (Z.to_nat b - Z.to_nat a + 1) in
    if negb (forallb (fun i => match nth_error (rows t) i with Some rw => Nat.ltb (Z.to_nat c) (length rw) | None => false end) idx) then Err
    else
      Ok (mkTable (grid t)
            (mapi (fun i rw =>
                     if Nat.eqb i (Z.to_nat a) then update_nth (Z.to_nat c) (fun x => mkCell (span x) VRestart (paras x)) rw
                     else if Nat.ltb (Z.to_nat a) i && Nat.leb i (Z.to_nat b) then update_nth (Z.to_nat c) (fun x => mkCell (span x) VContinue [0%N]) rw
                     else rw) (rows t))).

(* MergeCellsRange: horizontal merge row by row (stopping with an error - after having merged the
   earlier rows - when a row is too short), then the vertical merge of the first column *)
Fixpoint merge_range_rows (t : table) (rs : list nat) (c1 c2 : Z) : res :=
  match rs with
  | [] => Ok t
  | i :: rest =>
      match nth_error (rows t) i with
      | None => Err
      | Some rw =>
          if ((Z.of_nat (length rw) <=? c1) || (Z.of_nat (length rw) <=? c2))%Z then Err
          else if (c1 =? c2)%Z then merge_range_rows t rest c1 c2
          else match merge_h t (Z.of_nat i) c1 c2 with
               | Ok t' => merge_range_rows t' rest c1 c2
               | other => other
               end
      end
  end.

(* the state after a failed range merge is NOT the original table: that is one of the known findings;
   [partial] reports the table as left behind *)
Definition merge_range (t : table) (r1 r2 c1 c2 : Z) : res * table :=
  if ((r1 <? 0) || (Z.of_nat (length (rows t)) <=? r2) || (r2 <? r1))%Z then (Err, t)
  else
    let fix go (t : table) (rs : list nat) : res * table :=
      match rs with
      | [] => (Ok t, t)
      | i :: rest =>
          match nth_error (rows t) i with
          | None => (Err, t)
          | Some rw =>
              if ((Z.of_nat (length rw) <=? c1) || (Z.of_nat (length rw) <=? c2))%Z then (Err, t)
              else if (c1 =? c2)%Z then go t rest
              else match merge_h t (Z.of_nat i) c1 c2 with
                   | Ok t' => go t' rest
                   | other => (other, t)
                   end
          end
      end in
    match go t (seq (Z.to_nat r1) (Z.to_nat r2 - Z.to_nat r1 + 1)) with
    | (Ok t', _) => if (r1 =? r2)%Z then (Ok t', t')
                    else match merge_v t' r1 r2 c1 with Ok t'' => (Ok t'', t'') | other => (other, t') end
    | other => other
    end.

Fixpoint unmerge_v (rws : list row) (c : nat) : list row :=
  match rws with
  | [] => []
  | rw :: rest =>
      if Nat.ltb c (length rw) then
        match nth_error rw c with
        | Some x => match vm x with
                    | VContinue => update_nth c (fun y => mkCell (span y) VNone (match paras y with [] => [0%N] | p => p end)) rw :: unmerge_v rest c
                    | _ => rw :: rest
                    end
        | None => rw :: rest
        end
      else rw :: unmerge_v rest c   (* a shorter row is skipped, the scan goes on *)
  end.

Definition unmerge (t : table) (r c : Z) : res :=
  match get_cell t r c with
  | None => Err
  | Some x =>
      let rn := Z.to_nat r in let cn := Z.to_nat c in
      (* horizontal: re-insert span-1 empty cells after the cell, clear gridSpan *)
      let rws1 :=
        match span x with
        | Some n => update_nth rn (fun rw => firstn (S cn) (update_nth cn (fun y => mkCell None (vm y) (paras y)) rw)
                                              ++ repeat (mkCell None VNone [0%N]) (n - 1) ++ skipn (S cn) rw) (rows t)
        | None => rows t
        end in
      let rws2 :=
        match vm x with
        | VNone => rws1
        | _ => firstn (S rn) (update_nth rn (update_nth cn (fun y => mkCell (span y) VNone (paras y))) rws1)
               ++ unmerge_v (skipn (S rn) rws1) cn
        end in
      Ok (mkTable (grid t) rws2)
  end.

(* Table.ensureGrid: the column edits first make sure that the grid exists and has a column for every cell of the
   first row (a table read from a file may lack w:tblGrid); the width of a column added here is taken from the cell
   in the code and is not modelled (0) *)
Definition ensure_grid (g : option (list N)) (n : nat) : list N :=
  let l := match g with Some l => l | None => [] end in l ++ repeat 0%N (n - length l).

Definition step (t : table) (o : top) : res :=
  match o with
  | InsertRow pos data =>
      if ((pos <? 0) || (Z.of_nat (length (rows t)) <? pos))%Z then Err
      else match rows t with
           | [] => Err
           | r0 :: _ =>
               let n := length r0 in
               if Nat.ltb n (length data) then Err
               else let nr := map (fun i => new_cell (nth_text data i)) (seq 0 n) in
                    match insert_at (Z.to_nat pos) nr (rows t) with Some rs => Ok (mkTable (grid t) rs) | None => Panic end
           end
  | DeleteRow i =>
      if negb (in_range i (length (rows t))) then Err
      else if Nat.leb (length (rows t)) 1 then Err
      else match delete_range (Z.to_nat i) (Z.to_nat i) (rows t) with Some rs => Ok (mkTable (grid t) rs) | None => Panic end
  | DeleteRows a b =>
      if ((a <? 0) || (Z.of_nat (length (rows t)) <=? b) || (b <? a))%Z then Err
      else if (Z.of_nat (length (rows t)) - (b - a + 1) <? 1)%Z then Err
      else match delete_range (Z.to_nat a) (Z.to_nat b) (rows t) with Some rs => Ok (mkTable (grid t) rs) | None => Panic end
  | InsertColumn pos data width =>
      match rows t with
      | [] => Err
      | r0 :: _ =>
          if ((pos <? 0) || (Z.of_nat (length r0) <? pos))%Z then Err
          else if Nat.ltb (length (rows t)) (length data) then Err
          (* every row is checked before anything is changed: a row with merged cells may be shorter than the first *)
          else if existsb (fun rw => Nat.ltb (length rw) (Z.to_nat pos)) (rows t) then Err
          else match Some (ensure_grid (grid t) (length r0)) with
               | None => Panic
               | Some g =>
                   match insert_at (Z.to_nat pos) width g with
                   | None => Panic
                   | Some g' =>
                       match map_opt (fun x => x) (mapi (fun i rw => insert_at (Z.to_nat pos) (new_cell (nth_text data i)) rw) (rows t)) with
                       | Some rs => Ok (mkTable (Some g') rs)
                       | None => Panic
                       end
                   end
               end
      end
  | DeleteColumn i =>
      match rows t with
      | [] => Err
      | r0 :: _ =>
          if negb (in_range i (length r0)) then Err
          else if Nat.leb (length r0) 1 then Err
          else if existsb (fun rw => Nat.leb (length rw) (Z.to_nat i)) (rows t) then Err
          else match Some (ensure_grid (grid t) (length r0)) with
               | None => Panic
               | Some g =>
                   match delete_range (Z.to_nat i) (Z.to_nat i) g, map_opt (delete_range (Z.to_nat i) (Z.to_nat i)) (rows t) with
                   | Some g', Some rs => Ok (mkTable (Some g') rs)
                   | _, _ => Panic
                   end
               end
      end
  | DeleteColumns a b =>
      match rows t with
      | [] => Err
      | r0 :: _ =>
          if ((a <? 0) || (Z.of_nat (length r0) <=? b) || (b <? a))%Z then Err
          else if (Z.of_nat (length r0) - (b - a + 1) <? 1)%Z then Err
          else if existsb (fun rw => Nat.leb (length rw) (Z.to_nat b)) (rows t) then Err
          else match Some (ensure_grid (grid t) (length r0)) with
               | None => Panic
               | Some g =>
                   match delete_range (Z.to_nat a) (Z.to_nat b) g, map_opt (delete_range (Z.to_nat a) (Z.to_nat b)) (rows t) with
                   | Some g', Some rs => Ok (mkTable (Some g') rs)
                   | _, _ => Panic
                   end
               end
      end
  | SetCellText r c text =>
      match get_cell t r c with Some _ => Ok (set_cell t (Z.to_nat r) (Z.to_nat c) (set_text text)) | None => Err end
  | AddCellParagraph r c text =>
      match get_cell t r c with
      | Some _ => Ok (set_cell t (Z.to_nat r) (Z.to_nat c) (fun x => mkCell (span x) (vm x) (paras x ++ [text])))
      | None => Err
      end
  | ClearCellParagraphs r c =>
      match get_cell t r c with
      | Some _ => Ok (set_cell t (Z.to_nat r) (Z.to_nat c) (fun x => mkCell (span x) (vm x) [0%N]))
      | None => Err
      end
  | ClearTable => Ok (mkTable (grid t) (map (map (fun x => mkCell (span x) (vm x) [0%N])) (rows t)))
  | MergeH r a b => merge_h t r a b
  | MergeV a b c => merge_v t a b c
  | MergeRange r1 r2 c1 c2 => fst (merge_range t r1 r2 c1 c2)
  | Unmerge r c => unmerge t r c
  end.

(* the state after a call, as the implementation leaves it: a call that is refused leaves the table as it was (the
   range merge, which works in several steps, restores the rows when a step fails) *)
Definition state_after (t : table) (o : top) : option table :=
  match o, step t o with
  | _, Ok t' => Some t'
  | _, Err => Some t
  | _, Panic => None
  end.

(* CreateTable rows x cols *)
Definition create (nr nc : nat) (widths : list N) : table :=
  mkTable (Some widths) (repeat (repeat (new_cell 0%N) nc) nr).

(* ---- the well-formedness the property asks for ------------------------------------------------- *)

Definition plain_cell (c : cell) : bool := match span c, vm c with None, VNone => true | _, _ => false end.
(* a merge-free table: a grid of n columns, every row exactly n plain cells with >= 1 paragraph *)
Definition good_cell (c : cell) : bool := plain_cell c && negb (Nat.eqb (length (paras c)) 0).
Definition good_row (n : nat) (rw : row) : bool := Nat.eqb (length rw) n && forallb good_cell rw.
Definition plain (t : table) : bool :=
  match grid t with
  | None => false
  | Some g => forallb (good_row (length g)) (rows t) && negb (Nat.eqb (length g) 0) && negb (Nat.eqb (length (rows t)) 0)
  end.

(* grid column at which cell j of a row starts *)
Definition col_start (rw : row) (j : nat) : nat := row_width (firstn j rw).
Definition cell_at_col (rw : row) (col : nat) : option cell :=
  find (fun c => true) (map snd (filter (fun p => Nat.eqb (fst p) col) (mapi (fun j c => (col_start rw j, c)) rw))).

(* every row spans the grid, every cell has a paragraph, every continuation sits under a
   restart / continuation starting at the same grid column *)
Fixpoint vm_ok (prev : option row) (rws : list row) : bool :=
  match rws with
  | [] => true
  | rw :: rest =>
      forallb (fun p => let '(j, c) := p in
                        match vm c with
                        | VContinue => match prev with
                                       | Some pr => match cell_at_col pr (col_start rw j) with
                                                    | Some up => match vm up with VNone => false | _ => Nat.eqb (span_of up) (span_of c) end
                                                    | None => false
                                                    end
                                       | None => false
                                       end
                        | _ => true
                        end) (mapi (fun j c => (j, c)) rw)
      && vm_ok (Some rw) rest
  end.
Definition grid_inv (t : table) : bool :=
  match grid t with
  | None => false
  | Some g => forallb (fun rw => Nat.eqb (row_width rw) (length g) && forallb (fun c => negb (Nat.eqb (length (paras c)) 0)) rw) (rows t)
              && vm_ok None (rows t)
  end.

(* the plain rows-by-columns matrix of first-paragraph texts *)
Definition matrix (t : table) : list (list N) := map (map (fun c => hd 0%N (paras c))) (rows t).
