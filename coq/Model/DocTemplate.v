(* M-RUNS: rendering one paragraph of a document template (pkg/document/template.go, renderParagraph).

   A paragraph is a list of runs; a run has a formatting (an atom standing for its whole RunProperties), a text
   (bytes) and possibly other content (a page break, a picture, a field).  The engine flattens the runs into pieces -
   one per byte of text, tagged with the index of its run, and one anchor per run that has no text or has other
   content - edits the piece list (conditionals, then variables: every edit replaces a range of the text by bytes
   that take the run of the first byte of the range; anchors are never touched), and groups the pieces back into
   runs.  The ranges come from the engine's regular expressions; here from the scanners find_conds / find_vars.

   Not modelled: the loop expansion inside a paragraph ({{#each}} in running text), image placeholders. *)
From Coq Require Import List NArith Bool Arith.
Import ListNotations.

Record run := mkRun { r_fmt : N; r_text : list N; r_other : bool }.

Inductive piece := PB (b : N) (src : nat) | PA (src : nat).

Definition is_anchor (p : piece) : bool := match p with PA _ => true | PB _ _ => false end.

Definition run_pieces (i : nat) (r : run) : list piece :=
  map (fun b => PB b i) (r_text r) ++
  (if (match r_text r with [] => true | _ => false end) || r_other r then [PA i] else []).

Fixpoint flatten_from (i : nat) (rs : list run) : list piece :=
  match rs with
  | [] => []
  | r :: rest => run_pieces i r ++ flatten_from (S i) rest
  end.
Definition flatten (rs : list run) : list piece := flatten_from 0 rs.

Definition ptext (ps : list piece) : list N :=
  flat_map (fun p => match p with PB b _ => [b] | PA _ => [] end) ps.

(* an edit: the text range [e_start, e_end) becomes e_with *)
Record edit := mkEdit { e_start : nat; e_end : nat; e_with : list N }.

(* applyParaEdits: pos is the position in the text of the next byte piece; edits are sorted and do not overlap *)
Fixpoint apply_edits (ps : list piece) (pos : nat) (es : list edit) {struct ps} : list piece :=
  match ps with
  | [] => []
  | PA i :: r => PA i :: apply_edits r pos es
  | PB b i :: r =>
      let fix skip (es : list edit) : list edit :=
        match es with
        | e :: es' => if Nat.leb (e_end e) pos && Nat.ltb (e_start e) (e_end e) then skip es' else es
        | [] => []
        end in
      match skip es with
      | e :: es' =>
          if Nat.leb (e_start e) pos && Nat.ltb pos (e_end e) then
            (if Nat.eqb pos (e_start e) then map (fun c => PB c i) (e_with e) else []) ++ apply_edits r (S pos) (e :: es')
          else PB b i :: apply_edits r (S pos) (e :: es')
      | [] => PB b i :: apply_edits r (S pos) []
      end
  end.

(* ---------------- the ranges: variables and conditionals on bytes ---------------- *)
Definition is_word (c : N) : bool :=
  ((48 <=? c) && (c <=? 57) || (65 <=? c) && (c <=? 90) || (97 <=? c) && (c <=? 122) || (c =? 95))%N.
Definition is_space (c : N) : bool := ((c =? 32) || (c =? 9) || (c =? 10) || (c =? 12) || (c =? 13))%N.

Fixpoint take_while (p : N -> bool) (cs : list N) : list N * list N :=
  match cs with
  | c :: r => if p c then let '(a, b) := take_while p r in (c :: a, b) else ([], cs)
  | [] => ([], [])
  end.
Fixpoint prefix_of (p cs : list N) : option (list N) :=
  match p, cs with
  | [], _ => Some cs
  | a :: p', c :: r => if (a =? c)%N then prefix_of p' r else None
  | _ :: _, [] => None
  end.

Definition lbr : list N := [123; 123]%N.   (* {{ *)
Definition rbr : list N := [125; 125]%N.   (* }} *)

(* {{\w+}} at the head: the name and the length *)
Definition var_at (cs : list N) : option (list N * nat) :=
  match prefix_of lbr cs with
  | Some r =>
      let '(w, r') := take_while is_word r in
      match w, prefix_of rbr r' with
      | _ :: _, Some _ => Some (w, 4 + List.length w)
      | _, _ => None
      end
  | None => None
  end.

(* all matches, leftmost first, not overlapping: (start, end, name) *)
Fixpoint find_vars (cs : list N) (pos skip : nat) : list (nat * nat * list N) :=
  match cs with
  | [] => []
  | c :: r =>
      match skip with
      | S k => find_vars r (S pos) k
      | 0 =>
          match var_at cs with
          | Some (w, len) => (pos, pos + len, w) :: find_vars r (S pos) (len - 1)
          | None => find_vars r (S pos) 0
          end
      end
  end.

(* {{#if\s+\w+}} at the head: the condition and the length of the opening directive *)
Definition if_at (cs : list N) : option (list N * nat) :=
  match prefix_of (lbr ++ [35; 105; 102])%N cs with
  | Some r =>
      let '(sp, r1) := take_while is_space r in
      match sp with
      | [] => None
      | _ =>
          let '(w, r2) := take_while is_word r1 in
          match w, prefix_of rbr r2 with
          | _ :: _, Some _ => Some (w, 5 + List.length sp + List.length w + 2)
          | _, _ => None
          end
      end
  | None => None
  end.

Definition endif_tok : list N := [123; 123; 47; 105; 102; 125; 125]%N.          (* {{/if}} *)
Definition else_tok : list N := [123; 123; 101; 108; 115; 101; 125; 125]%N.     (* {{else}} *)

(* the offset of the first occurrence of tok in cs *)
Fixpoint find_tok (tok cs : list N) (off : nat) : option nat :=
  match cs with
  | [] => None
  | c :: r => match prefix_of tok cs with Some _ => Some off | None => find_tok tok r (S off) end
  end.

(* conditional blocks, leftmost first: (start, end of the whole block, start and end of what is kept) *)
Fixpoint find_conds (holds : list N -> bool) (cs : list N) (pos skip : nat) : list (nat * nat * nat * nat) :=
  match cs with
  | [] => []
  | c :: r =>
      match skip with
      | S k => find_conds holds r (S pos) k
      | 0 =>
          match if_at cs with
          | Some (w, olen) =>
              let body := skipn olen cs in
              match find_tok endif_tok body 0 with
              | Some blen =>
                  let inner := firstn blen body in
                  let total := olen + blen + 7 in
                  let bs := pos + olen in
                  let '(ks, ke) :=
                    match find_tok else_tok inner 0 with
                    | Some eoff => if holds w then (bs, bs + eoff) else (bs + eoff + 8, bs + blen)
                    | None => if holds w then (bs, bs + blen) else (bs, bs)
                    end in
                  (pos, pos + total, ks, ke) :: find_conds holds r (S pos) (total - 1)
              | None => find_conds holds r (S pos) 0
              end
          | None => find_conds holds r (S pos) 0
          end
      end
  end.

Definition cond_edits (cs : list (nat * nat * nat * nat)) : list edit :=
  flat_map (fun c => match c with (s, e, ks, ke) =>
                       (if Nat.ltb s ks then [mkEdit s ks []] else []) ++ (if Nat.ltb ke e then [mkEdit ke e []] else [])
                     end) cs.

Fixpoint bytes_eqb (a b : list N) : bool :=
  match a, b with
  | [], [] => true
  | x :: a', y :: b' => (x =? y)%N && bytes_eqb a' b'
  | _, _ => false
  end.
Fixpoint lookup_var (vars : list (list N * list N)) (n : list N) : option (list N) :=
  match vars with
  | [] => None
  | (k, v) :: r => if bytes_eqb k n then Some v else lookup_var r n
  end.

Definition var_edits (vars : list (list N * list N)) (ms : list (nat * nat * list N)) : list edit :=
  flat_map (fun m => match m with (s, e, n) => match lookup_var vars n with Some v => [mkEdit s e v] | None => [] end end) ms.

(* ---------------- grouping the pieces back into runs ---------------- *)
Definition nth_run (rs : list run) (i : nat) : run := nth i rs (mkRun 0 [] false).

(* the byte pieces at the head that come from run i *)
Fixpoint take_src (i : nat) (ps : list piece) : list N * list piece :=
  match ps with
  | PB b j :: r => if Nat.eqb i j then let '(bs, rest) := take_src i r in (b :: bs, rest) else ([], ps)
  | _ => ([], ps)
  end.

Fixpoint regroup (fuel : nat) (rs : list run) (ps : list piece) : list run :=
  match fuel with
  | 0 => []
  | S k =>
      match ps with
      | [] => []
      | PA i :: r => mkRun (r_fmt (nth_run rs i)) [] (r_other (nth_run rs i)) :: regroup k rs r
      | PB b i :: r =>
          let '(bs, rest) := take_src i r in
          mkRun (r_fmt (nth_run rs i)) (b :: bs) false :: regroup k rs rest
      end
  end.

(* renderParagraph without the loop step: None = nothing to change (the paragraph keeps its runs) *)
Definition render_paragraph (holds : list N -> bool) (vars : list (list N * list N)) (rs : list run) : option (list run) :=
  let p0 := flatten rs in
  match ptext p0 with
  | [] => None
  | t0 =>
      let ce := cond_edits (find_conds holds t0 0 0) in
      let p1 := apply_edits p0 0 ce in
      let ve := var_edits vars (find_vars (ptext p1) 0 0) in
      let p2 := apply_edits p1 0 ve in
      match ce, ve with
      | [], [] => None
      | _, _ => Some (regroup (S (List.length p2)) rs p2)
      end
  end.

(* what a paragraph looks like to a reader: every byte with the formatting of its run, the runs without text in
   their places *)
Inductive unit := UB (b : N) (fmt : N) | UA (fmt : N) (other : bool).
Definition units_of_pieces (rs : list run) (ps : list piece) : list unit :=
  map (fun p => match p with
                | PB b i => UB b (r_fmt (nth_run rs i))
                | PA i => UA (r_fmt (nth_run rs i)) (r_other (nth_run rs i))
                end) ps.
Definition units_of_runs (rs : list run) : list unit := units_of_pieces rs (flatten rs).

(* ---------------- the same rendering on the reader's view ---------------- *)
Definition units (rs : list run) : list unit :=
  flat_map (fun r => map (fun b => UB b (r_fmt r)) (r_text r) ++
                     (if (match r_text r with [] => true | _ => false end) || r_other r then [UA (r_fmt r) (r_other r)] else [])) rs.

Definition utext (us : list unit) : list N := flat_map (fun u => match u with UB b _ => [b] | UA _ _ => [] end) us.

Fixpoint apply_edits_u (us : list unit) (pos : nat) (es : list edit) {struct us} : list unit :=
  match us with
  | [] => []
  | UA f o :: r => UA f o :: apply_edits_u r pos es
  | UB b f :: r =>
      let fix skip (es : list edit) : list edit :=
        match es with
        | e :: es' => if Nat.leb (e_end e) pos && Nat.ltb (e_start e) (e_end e) then skip es' else es
        | [] => []
        end in
      match skip es with
      | e :: es' =>
          if Nat.leb (e_start e) pos && Nat.ltb pos (e_end e) then
            (if Nat.eqb pos (e_start e) then map (fun c => UB c f) (e_with e) else []) ++ apply_edits_u r (S pos) (e :: es')
          else UB b f :: apply_edits_u r (S pos) (e :: es')
      | [] => UB b f :: apply_edits_u r (S pos) []
      end
  end.

(* the specification: conditionals, then variables, on the sequence of formatted characters and anchors; a
   replacement takes the formatting of the first character it replaces; anchors stay *)
Definition render_units (holds : list N -> bool) (vars : list (list N * list N)) (us : list unit) : list unit :=
  let u1 := apply_edits_u us 0 (cond_edits (find_conds holds (utext us) 0 0)) in
  apply_edits_u u1 0 (var_edits vars (find_vars (utext u1) 0 0)).

(* ---------------- the same rendering on plain text ---------------- *)
(* the edits on a byte string: what a reader who ignores all formatting sees *)
Fixpoint apply_edits_t (cs : list N) (pos : nat) (es : list edit) {struct cs} : list N :=
  match cs with
  | [] => []
  | b :: r =>
      let fix skip (es : list edit) : list edit :=
        match es with
        | e :: es' => if Nat.leb (e_end e) pos && Nat.ltb (e_start e) (e_end e) then skip es' else es
        | [] => []
        end in
      match skip es with
      | e :: es' =>
          if Nat.leb (e_start e) pos && Nat.ltb pos (e_end e) then
            (if Nat.eqb pos (e_start e) then e_with e else []) ++ apply_edits_t r (S pos) (e :: es')
          else b :: apply_edits_t r (S pos) (e :: es')
      | [] => b :: apply_edits_t r (S pos) []
      end
  end.

(* the rendering of the text of a paragraph: the conditionals are resolved, then the variables are replaced *)
Definition render_text (holds : list N -> bool) (vars : list (list N * list N)) (cs : list N) : list N :=
  let t1 := apply_edits_t cs 0 (cond_edits (find_conds holds cs 0 0)) in
  apply_edits_t t1 0 (var_edits vars (find_vars t1 0 0)).
