(* M-WALK: the document reader as token walkers over the decoder's token stream.

   The decoder delivers a finite list of tokens and then fails: with io.EOF when the input ended cleanly, with a
   syntax error otherwise (a truncated or mis-nested part).  A walker is one of the reader's functions
   (Gen/Walkers.v, read from the source): a loop that takes one token per iteration, returns an error when the
   decoder fails, returns when an end element carries one of its end names, and hands a start element to the
   handler of the matching case: another walker, skipElement (a depth counter), readElementText, or nothing.

   Not modelled: what a case stores (Model/Schema.v), memory, the depth of the Go call stack. *)
From Coq Require Import String List Bool Arith.
Import ListNotations.
Open Scope string_scope.

Inductive hkind := HSub (f : string) | HText (e : string) | HSkip | HNone.
Record handler := mkH { h_kind : hkind; h_stop : bool }.
Inductive wkind := WLoop | WDepth | WDispatch.
Record walker := mkW {
  w_name : string; w_kind : wkind; w_eof_ok : bool; w_ends : list string;
  w_cases : list (string * bool * handler); w_def : handler }.

(* main_ns: the element is in the WordprocessingML main namespace *)
Inductive tok := TStart (n : string) (main_ns : bool) | TEnd (n : string) | TOther.

Inductive frame := FLoop (w : walker) (param : string) | FDepth (d : nat) | FText (e : string).

(* hits: (walker, element) for every start element that matched an explicit case *)
Inductive res := Done (rest : list tok) (hits : list (string * string)) | Fail | OutOfFuel.

Fixpoint find_walker (ws : list walker) (f : string) : option walker :=
  match ws with
  | [] => None
  | w :: r => if String.eqb (w_name w) f then Some w else find_walker r f
  end.

(* the handler of a start element, and whether it came from an explicit case *)
Fixpoint pick (cs : list (string * bool * handler)) (def : handler) (n : string) (ns : bool) : handler * bool :=
  match cs with
  | [] => (def, false)
  | (c, guard, h) :: r => if String.eqb c n && (negb guard || ns) then (h, true) else pick r def n ns
  end.

Definition is_end (w : walker) (param n : string) : bool :=
  existsb (fun e => if String.eqb e "$param" then String.eqb n param else String.eqb n e) (w_ends w).

(* what consumes the content of the element: None = the table is inconsistent, Some None = nothing *)
Definition resolve1 (ws : list walker) (h : handler) (n : string) : option (option frame) :=
  match h_kind h with
  | HNone => Some None
  | HSkip => Some (Some (FDepth 1))
  | HText e => Some (Some (FText (if String.eqb e "$cur" then n else e)))
  | HSub g =>
      match find_walker ws g with
      | None => None
      | Some w => match w_kind w with
                  | WLoop => Some (Some (FLoop w n))
                  | WDepth => Some (Some (FDepth 1))
                  | WDispatch => None
                  end
      end
  end.

Definition resolve (ws : list walker) (h : handler) (n : string) (ns : bool) : option (option frame * list (string * string)) :=
  match h_kind h with
  | HSub g =>
      match find_walker ws g with
      | None => None
      | Some w => match w_kind w with
                  | WDispatch =>
                      let '(h', explicit) := pick (w_cases w) (w_def w) n ns in
                      match resolve1 ws h' n with
                      | Some fr => Some (fr, if explicit then [(w_name w, n)] else [])
                      | None => None
                      end
                  | _ => match resolve1 ws h n with Some fr => Some (fr, []) | None => None end
                  end
      end
  | _ => match resolve1 ws h n with Some fr => Some (fr, []) | None => None end
  end.

Section Run.
  Variable ws : list walker.
  Variable eof_clean : bool.

  Fixpoint run (fuel : nat) (fr : frame) (ts : list tok) {struct fuel} : res :=
    match fuel with
    | 0 => OutOfFuel
    | S k =>
        match fr with
        | FDepth d =>
            match ts with
            | [] => Fail
            | TStart _ _ :: r => run k (FDepth (S d)) r
            | TEnd _ :: r => match d with S (S d') => run k (FDepth (S d')) r | _ => Done r [] end
            | TOther :: r => run k (FDepth d) r
            end
        | FText e =>
            match ts with
            | [] => Fail
            | TEnd n :: r => if String.eqb n e then Done r [] else run k (FText e) r
            | _ :: r => run k (FText e) r
            end
        | FLoop w p =>
            match ts with
            | [] => if eof_clean && w_eof_ok w then Done [] [] else Fail
            | TOther :: r => run k fr r
            | TEnd n :: r => if is_end w p n then Done r [] else run k fr r
            | TStart n ns :: r =>
                let '(h, explicit) := pick (w_cases w) (w_def w) n ns in
                let here := if explicit then [(w_name w, n)] else [] in
                match resolve ws h n ns with
                | None => Fail
                | Some (None, hs) =>
                    if h_stop h then Done r (here ++ hs)
                    else match run k fr r with
                         | Done r' l => Done r' (here ++ hs ++ l)
                         | other => other
                         end
                | Some (Some sub, hs) =>
                    match run k sub r with
                    | Done r' l1 =>
                        if h_stop h then Done r' (here ++ hs ++ l1)
                        else match run k fr r' with
                             | Done r'' l2 => Done r'' (here ++ hs ++ l1 ++ l2)
                             | other => other
                             end
                    | other => other
                    end
                end
            end
        end
    end.
End Run.

(* document.Open on the main part: the entry walker runs over the whole stream; the body exists exactly when the
   root case was taken *)
Inductive opened := OpenOk (hits : list (string * string)) | OpenErr | OpenStuck.

Definition open_doc (ws : list walker) (entry : string) (eof_clean : bool) (ts : list tok) : opened :=
  match find_walker ws entry with
  | None => OpenStuck
  | Some w =>
      match run ws eof_clean (S (List.length ts)) (FLoop w "") ts with
      | Done _ hits => if existsb (fun p => String.eqb (fst p) entry) hits then OpenOk hits else OpenErr
      | Fail => OpenErr
      | OutOfFuel => OpenStuck
      end
  end.

Definition count_hits (w n : string) (hits : list (string * string)) : nat :=
  List.length (filter (fun p => String.eqb (fst p) w && String.eqb (snd p) n) hits).

(* every name a handler refers to is a walker of the table; dispatchers dispatch to loops only *)
Definition handler_ok (ws : list walker) (allow_dispatch : bool) (h : handler) : bool :=
  match h_kind h with
  | HSub g => match find_walker ws g with
              | Some w => match w_kind w with WDispatch => allow_dispatch | _ => true end
              | None => false
              end
  | _ => true
  end.
Definition walker_ok (ws : list walker) (w : walker) : bool :=
  let allow := match w_kind w with WDispatch => false | _ => true end in
  forallb (fun c => handler_ok ws allow (snd c)) (w_cases w) && handler_ok ws allow (w_def w).
Definition table_ok (ws : list walker) : bool := forallb (walker_ok ws) ws.
