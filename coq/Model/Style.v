(* M-STYLE: style registry, based-on inheritance (style.go GetStyleWithInheritance after the
   cycle fix) with the exact nil rules of mergeParagraphProperties / mergeRunProperties; the list
   of merged fields comes from the generated table.  No proofs in this file. *)
From Coq Require Import List Bool Arith NArith String.
From WZ Require Import Gen.StyleFields.
Import ListNotations.

Definition props := list (string * N).          (* field name -> identity of the setting *)
Record sty := mkSty { s_based : option N; s_ppr : option props; s_rpr : option props; s_tbl : option N }.
Definition registry := list (N * sty).

Fixpoint lookup (reg : registry) (id : N) : option sty :=
  match reg with [] => None | (i, s) :: r => if N.eqb i id then Some s else lookup r id end.
Fixpoint get (f : string) (p : props) : option N :=
  match p with [] => None | (g, v) :: r => if String.eqb g f then Some v else get f r end.
Definition get_opt (f : string) (p : option props) : option N := match p with Some p => get f p | None => None end.
Definition memN (x : N) (l : list N) : bool := existsb (N.eqb x) l.

(* one stanza per merged field: the override's setting, else the base's, else nothing.
   A field that has no stanza is dropped from the result. *)
Definition stanza (base over : props) (f : string) : props :=
  match get f over with
  | Some v => [(f, v)]
  | None => match get f base with Some v => [(f, v)] | None => [] end
  end.
Definition merge (merged : list string) (base over : props) : props := flat_map (stanza base over) merged.
Definition merge_opt (merged : list string) (base over : option props) : option props :=
  match base, over with
  | None, _ => over
  | _, None => base
  | Some b, Some o => Some (merge merged b o)
  end.

Inductive res := Resolved (s : sty) | NotFound | OutOfFuel.

Fixpoint resolve (fuel : nat) (reg : registry) (visited : list N) (id : N) : res :=
  match lookup reg id with
  | None => NotFound
  | Some st =>
      match s_based st with
      | None => Resolved st
      | Some b =>
          if memN b (id :: visited) then Resolved st
          else match fuel with
               | O => OutOfFuel
               | S f =>
                   match resolve f reg (id :: visited) b with
                   | NotFound => Resolved st
                   | OutOfFuel => OutOfFuel
                   | Resolved bs =>
                       Resolved (mkSty (s_based st)
                                       (merge_opt ppr_merged (s_ppr bs) (s_ppr st))
                                       (merge_opt rpr_merged (s_rpr bs) (s_rpr st))
                                       (match s_tbl st with Some t => Some t | None => s_tbl bs end))
                   end
               end
      end
  end.

Definition resolve_top (reg : registry) (id : N) : res := resolve (List.length reg) reg [] id.

(* the specification: the setting of the style itself, else of the nearest ancestor that has one *)
Fixpoint nearest (fuel : nat) (reg : registry) (visited : list N) (id : N) (sel : sty -> option props) (f : string) : option N :=
  match lookup reg id with
  | None => None
  | Some st =>
      match get_opt f (sel st) with
      | Some v => Some v
      | None =>
          match s_based st with
          | None => None
          | Some b => if memN b (id :: visited) then None
                      else match fuel with O => None | S f' => nearest f' reg (id :: visited) b sel f end
          end
      end
  end.

(* every declared field of every struct a clone function builds is set by it *)
Definition clone_rows_complete (rows : list (string * string * list string * list string)) : bool :=
  forallb (fun row => let '(_, _, decl, copied) := row in
                      forallb (fun f => existsb (String.eqb f) copied) decl) rows.

(* every struct type a style can hold is built afresh by some clone function (a type that is not is shared between
   the clone and its source) *)
Definition clone_types_covered (rows : list (string * string * list string * list string)) (types : list string) : bool :=
  forallb (fun t => existsb (fun row => let '(_, ty, _, _) := row in String.eqb t ty) rows) types.
