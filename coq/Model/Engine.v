(* M-ENGINE: the template engine's cache and template inheritance (pkg/document/template.go: LoadTemplate,
   parseTemplate, RemoveTemplate, ClearCache, renderTemplate).

   A template is an immutable value: its text, the blocks defined in it, and the template it extends - the one that
   was cached under that name when it was loaded (the engine keeps a pointer to that object; it is never looked up
   by name again).  Rendering walks the inheritance chain to the top-most template, collects the block contents of
   the derived templates (the most derived wins), replaces the blocks of the top-most text and runs the passes of
   Model/Template.v.  Loading, removing and clearing rebind names in the cache; rendering changes nothing.

   What the model cannot exhibit: data races (the Go race detector is used for that). *)
From Coq Require Import String Ascii List Bool Arith.
Import ListNotations.
Require Import WZ.Model.Template.
Open Scope string_scope.

(* ---------------- blocks, on characters ---------------- *)
Definition is_quote (c : ascii) : bool := Nat.eqb (nat_of_ascii c) 34.

(* {{#block\s+"name"}} at the head: the name and what follows *)
Definition block_open (cs : list ascii) : option (list ascii * list ascii) :=
  match prefix_of (chars "{{#block") cs with
  | None => None
  | Some r =>
      let '(sp, r1) := take_while is_space r in
      match sp, r1 with
      | _ :: _, q :: r2 =>
          if is_quote q then
            let '(nm, r3) := take_while (fun c => negb (is_quote c)) r2 in
            match nm, r3 with
            | _ :: _, q2 :: r4 =>
                match prefix_of (chars "}}") r4 with
                | Some r5 => Some (nm, r5)
                | None => None
                end
            | _, _ => None
            end
          else None
      | _, _ => None
      end
  end.

(* the text up to the first {{/block}}, and what follows it *)
Fixpoint until_endblock (cs : list ascii) (acc : list ascii) : option (list ascii * list ascii) :=
  match cs with
  | [] => None
  | c :: r =>
      match prefix_of (chars "{{/block}}") cs with
      | Some rest => Some (rev acc, rest)
      | None => until_endblock r (c :: acc)
      end
  end.

(* scan the text: f gets the name and the content of every block (non-overlapping, leftmost first) *)
Fixpoint scan_blocks (fuel : nat) (f : string -> string -> list ascii) (cs : list ascii) : list ascii :=
  match fuel with
  | 0 => cs
  | S k =>
      match cs with
      | [] => []
      | c :: r =>
          match block_open cs with
          | Some (nm, after) =>
              match until_endblock after [] with
              | Some (content, rest) => f (str nm) (str content) ++ scan_blocks k f rest
              | None => c :: scan_blocks k f r
              end
          | None => c :: scan_blocks k f r
          end
      end
  end.

(* the blocks defined in a text (parseTemplate; a later block of the same name replaces an earlier one) *)
Fixpoint defined_blocks (fuel : nat) (cs : list ascii) : list (string * string) :=
  match fuel with
  | 0 => []
  | S k =>
      match cs with
      | [] => []
      | c :: r =>
          match block_open cs with
          | Some (nm, after) =>
              match until_endblock after [] with
              | Some (content, rest) => (str nm, str content) :: defined_blocks k rest
              | None => defined_blocks k r
              end
          | None => defined_blocks k r
          end
      end
  end.

Fixpoint last_assoc (k : string) (l : list (string * string)) (acc : option string) : option string :=
  match l with
  | [] => acc
  | (k', v) :: r => last_assoc k r (if String.eqb k k' then Some v else acc)
  end.

(* {{extends\s+"name"}} anywhere in the text: the first one *)
Definition extends_open (cs : list ascii) : option (list ascii) :=
  match prefix_of (chars "{{extends") cs with
  | None => None
  | Some r =>
      let '(sp, r1) := take_while is_space r in
      match sp, r1 with
      | _ :: _, q :: r2 =>
          if is_quote q then
            let '(nm, r3) := take_while (fun c => negb (is_quote c)) r2 in
            match nm, r3 with
            | _ :: _, q2 :: r4 => match prefix_of (chars "}}") r4 with Some _ => Some nm | None => None end
            | _, _ => None
            end
          else None
      | _, _ => None
      end
  end.
Fixpoint find_extends (cs : list ascii) : option string :=
  match cs with
  | [] => None
  | c :: r => match extends_open cs with Some nm => Some (str nm) | None => find_extends r end
  end.

(* ---------------- templates and the cache ---------------- *)
Inductive tpl := Tpl (content : string) (blocks : list (string * string)) (parent : option tpl).

Definition cache := list (string * tpl).

Fixpoint lookup (n : string) (c : cache) : option tpl :=
  match c with
  | [] => None
  | (k, t) :: r => if String.eqb n k then Some t else lookup n r
  end.
Fixpoint unbind (n : string) (c : cache) : cache :=
  match c with
  | [] => []
  | (k, t) :: r => if String.eqb n k then unbind n r else (k, t) :: unbind n r
  end.
Definition bind (n : string) (t : tpl) (c : cache) : cache := (n, t) :: unbind n c.

Definition load (c : cache) (name content : string) : cache :=
  let cs := chars content in
  let parent := match find_extends cs with Some b => lookup b c | None => None end in
  bind name (Tpl content (defined_blocks (S (List.length cs)) cs) parent) c.

(* among the overrides the first template in the chain that defines the block wins; within one template the last
   definition of a name *)
Fixpoint chain_overrides (t : tpl) : list (list (string * string)) :=
  match t with
  | Tpl _ blocks (Some p) => blocks :: chain_overrides p
  | Tpl _ _ None => []
  end.
Fixpoint root_of (t : tpl) : tpl := match t with Tpl _ _ (Some p) => root_of p | _ => t end.
Fixpoint first_override (n : string) (ovs : list (list (string * string))) : option string :=
  match ovs with
  | [] => None
  | b :: r => match last_assoc n b None with Some v => Some v | None => first_override n r end
  end.

Definition render_tpl (t : tpl) (e : env) : string :=
  match root_of t with
  | Tpl content blocks _ =>
      let ovs := chain_overrides t in
      let cs := chars content in
      let text := str (scan_blocks (S (List.length cs))
                         (fun nm body => chars (match first_override nm ovs with
                                                | Some v => v
                                                | None => match last_assoc nm blocks None with Some v => v | None => body end
                                                end)) cs) in
      render_str e text
  end.

Inductive op :=
| OLoad (name content : string)
| ORemove (name : string)
| OClear
| ORender (name : string) (e : env).

(* the cache after the call, and what a render returns (None: the template is not cached) *)
Definition step (c : cache) (o : op) : cache * option (option string) :=
  match o with
  | OLoad n content => (load c n content, None)
  | ORemove n => (unbind n c, None)
  | OClear => ([], None)
  | ORender n e => (c, Some (match lookup n c with Some t => Some (render_tpl t e) | None => None end))
  end.

Fixpoint run (c : cache) (ops : list op) : cache * list (option string) :=
  match ops with
  | [] => (c, [])
  | o :: r =>
      let '(c1, out) := step c o in
      let '(c2, outs) := run c1 r in
      (c2, match out with Some x => x :: outs | None => outs end)
  end.

(* the names a call rebinds, and the names whose binding it reads *)
Definition binds (o : op) (n : string) : bool :=
  match o with
  | OLoad m _ | ORemove m => String.eqb n m
  | OClear => true
  | ORender _ _ => false
  end.
Definition reads (o : op) (n : string) : bool :=
  match o with
  | OLoad _ content => match find_extends (chars content) with Some b => String.eqb n b | None => false end
  | ORender m _ => String.eqb n m
  | _ => false
  end.
