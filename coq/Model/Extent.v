(* M-EXTENT: the displayed size of a picture (pkg/document/image.go, calculateDisplaySize) and the caller's size
   configurations over a history of picture additions.

   Lengths: pixels for the image, micrometres for the configuration (the API takes millimetres as a float; the
   harness gives them with three decimals), EMU for the extent: 9525 EMU per pixel at 96 dpi, 36 EMU per micrometre.
   The implementation computes the derived dimension in floating point; the model in integers (floor), and the
   correspondence allows one EMU of difference.

   A configuration is an object of the caller: several additions may use the same one.  The state therefore holds
   the caller's configurations by identity, and the extents of the pictures added so far. *)
From Coq Require Import ZArith List Bool.
Import ListNotations.
Open Scope Z_scope.

Record size_cfg := mkSize { s_w : Z; s_h : Z; s_keep : bool }.   (* 0 = dimension not given *)

Definition px_emu : Z := 9525.
Definition um_emu : Z := 36.

Definition extent (pw ph : Z) (c : option size_cfg) : Z * Z :=
  let dflt := (pw * px_emu, ph * px_emu) in
  match c with
  | None => dflt
  | Some c =>
      if (0 <? s_w c) && (0 <? s_h c) then (s_w c * um_emu, s_h c * um_emu)
      else if (0 <? s_w c) && s_keep c then let cx := s_w c * um_emu in (cx, cx * ph / pw)
      else if (0 <? s_h c) && s_keep c then let cy := s_h c * um_emu in (cy * pw / ph, cy)
      else dflt
  end.

(* ---- histories: the caller's configurations and the pictures ---- *)
Record xstate := mkX { store : list (nat * size_cfg); shown : list (Z * Z) }.

Fixpoint lookup (i : nat) (l : list (nat * size_cfg)) : option size_cfg :=
  match l with
  | [] => None
  | (j, c) :: r => if Nat.eqb i j then Some c else lookup i r
  end.

Inductive xop :=
| XAdd (pw ph : Z) (cfg : option nat)      (* add a picture of pw x ph pixels with the caller's configuration cfg *)
| XSet (i : nat) (c : size_cfg).           (* the caller changes (or creates) a configuration of its own *)

Definition xstep (s : xstate) (o : xop) : xstate :=
  match o with
  | XAdd pw ph cfg =>
      mkX (store s) (shown s ++ [extent pw ph (match cfg with Some i => lookup i (store s) | None => None end)])
  | XSet i c => mkX ((i, c) :: store s) (shown s)
  end.

Definition xrun (s : xstate) (ops : list xop) : xstate := fold_left xstep ops s.

(* what the caller did to its configurations, the library's calls left out *)
Definition caller_only (ops : list xop) : list xop :=
  filter (fun o => match o with XSet _ _ => true | XAdd _ _ _ => false end) ops.
