(* M-PKG: executable model of the package state of a Document (parts, content types,
   document relationships, section references, pictures) and of the calls that change it.
   Strings are abstracted: part names, relationship ids and targets are datatypes; the harness
   maps the concrete strings of the implementation to them (and builds foreign packages from
   them).  No proofs in this file. *)
From Coq Require Import List Bool Arith NArith ZArith Lia.
Import ListNotations.

Inductive ext := EPng | EJpeg | EGif | EXml | ERels | EOther (a : N).
Inductive hfkind := HDefault | HFirst | HEven.
Inductive rkind := KImage | KHeader | KFooter | KNumbering | KFootnotes | KEndnotes | KSettings | KStyles | KOther (a : N).

(* relationship ids: "rId<n>" in canonical decimal, or any other string *)
Inductive rid := RId (n : nat) | RForeign (a : N).

Inductive pname :=
| PDoc | PStyles | PCT | PRels | PDocRels
| PMedia (id : Z) (e : ext)        (* word/media/image<id>.<ext>: a name Sscanf("image%d.") reads as id *)
| PHeader (k : hfkind) | PFooter (k : hfkind)   (* the names the library gives: header1.xml, headerfirst.xml, headereven.xml *)
| PHeaderN (n : nat) | PFooterN (n : nat)        (* header<n>.xml, footer<n>.xml for n >= 2 *)
| PNumbering | PFootnotes | PEndnotes | PSettings | PCore | PApp
| PForeign (a : N) (e : ext).      (* any other part, e.g. theme, fonts, custom xml, oddly named media *)

Inductive target := TPart (p : pname) | TExternal (a : N).

Record rel := mkRel { r_id : rid; r_kind : rkind; r_target : target }.

Definition ext_eqb (a b : ext) : bool :=
  match a, b with
  | EPng, EPng | EJpeg, EJpeg | EGif, EGif | EXml, EXml | ERels, ERels => true
  | EOther x, EOther y => N.eqb x y
  | _, _ => false
  end.
Definition hf_eqb (a b : hfkind) : bool :=
  match a, b with HDefault, HDefault | HFirst, HFirst | HEven, HEven => true | _, _ => false end.
Definition rkind_eqb (a b : rkind) : bool :=
  match a, b with
  | KImage, KImage | KHeader, KHeader | KFooter, KFooter | KNumbering, KNumbering
  | KFootnotes, KFootnotes | KEndnotes, KEndnotes | KSettings, KSettings | KStyles, KStyles => true
  | KOther x, KOther y => N.eqb x y
  | _, _ => false
  end.
Definition rid_eqb (a b : rid) : bool :=
  match a, b with
  | RId x, RId y => Nat.eqb x y
  | RForeign x, RForeign y => N.eqb x y
  | _, _ => false
  end.
Definition pname_eqb (a b : pname) : bool :=
  match a, b with
  | PDoc, PDoc | PStyles, PStyles | PCT, PCT | PRels, PRels | PDocRels, PDocRels
  | PNumbering, PNumbering | PFootnotes, PFootnotes | PEndnotes, PEndnotes
  | PSettings, PSettings | PCore, PCore | PApp, PApp => true
  | PMedia i e, PMedia j f => Z.eqb i j && ext_eqb e f
  | PHeader k, PHeader l | PFooter k, PFooter l => hf_eqb k l
  | PHeaderN n, PHeaderN m | PFooterN n, PFooterN m => Nat.eqb n m
  | PForeign x e, PForeign y f => N.eqb x y && ext_eqb e f
  | _, _ => false
  end.
Definition target_eqb (a b : target) : bool :=
  match a, b with
  | TPart p, TPart q => pname_eqb p q
  | TExternal x, TExternal y => N.eqb x y
  | _, _ => false
  end.

Definition ext_of (p : pname) : ext :=
  match p with
  | PMedia _ e | PForeign _ e => e
  | PRels | PDocRels => ERels
  | _ => EXml
  end.

(* payload of a part as far as the properties look at it: an opaque atom *)
Record pkg := mkPkg {
  drels : list rel;               (* document relationships, styles relationship filtered out *)
  sid : option rid;               (* id of the styles relationship of an opened package *)
  parts : list (pname * N);       (* parts map: name, payload atom *)
  defaults : list ext;            (* content-type defaults *)
  overrides : list pname;         (* content-type overrides *)
  nimg : Z;                       (* nextImageID *)
  hrefs : list (hfkind * rid);    (* w:headerReference in the section properties *)
  frefs : list (hfkind * rid);
  pics : list (rid * N);          (* pictures in the body: r:embed, the bytes given by the caller *)
  phs : list N                    (* image placeholders ({{#image name}} paragraphs) in the body *)
}.

Definition ids (k : pkg) : list rid := map r_id (drels k).
Definition mem_rid (x : rid) (l : list rid) : bool := existsb (rid_eqb x) l.
Definition has_part (p : pname) (k : pkg) : bool := existsb (fun q => pname_eqb p (fst q)) (parts k).

Fixpoint set_part (p : pname) (c : N) (l : list (pname * N)) : list (pname * N) :=
  match l with
  | [] => [(p, c)]
  | (q, d) :: rest => if pname_eqb p q then (p, c) :: rest else (q, d) :: set_part p c rest
  end.
Fixpoint get_part (p : pname) (l : list (pname * N)) : option N :=
  match l with
  | [] => None
  | (q, d) :: rest => if pname_eqb p q then Some d else get_part p rest
  end.

(* nextDocumentRelID: first rId<n>, n >= len+2, that is neither used nor the remembered styles id.
   [fuel] candidates are tried; Proofs.PkgProofs.fresh_total shows len+2 candidates suffice. *)
Definition is_free (k : pkg) (x : rid) : bool :=
  negb (mem_rid x (ids k)) && match sid k with Some s => negb (rid_eqb x s) | None => true end.
Fixpoint fresh_from (k : pkg) (n fuel : nat) : option rid :=
  match fuel with
  | O => None
  | S f => if is_free k (RId n) then Some (RId n) else fresh_from k (S n) f
  end.
Definition fresh (k : pkg) : option rid :=
  fresh_from k (length (drels k) + 2) (length (drels k) + 2).

(* stylesRelationshipID at save time *)
Fixpoint first_unused (used : list rid) (n fuel : nat) : rid :=
  match fuel with
  | O => RId n
  | S f => if mem_rid (RId n) used then first_unused used (S n) f else RId n
  end.
Definition styles_id (k : pkg) : rid :=
  match sid k with
  | Some s => if mem_rid s (ids k) then
                (if mem_rid (RId 1) (ids k) then first_unused (ids k) (length (drels k) + 2) (length (drels k) + 1) else RId 1)
              else s
  | None => if mem_rid (RId 1) (ids k) then first_unused (ids k) (length (drels k) + 2) (length (drels k) + 1) else RId 1
  end.

(* headerFooterFileName: a new header/footer part takes the name the library uses for its kind - unless a part of that
   name exists and a reference of ANOTHER kind uses it (an opened document may call its first-page header header1.xml,
   or use one part for two kinds): then the first header<n>.xml, n >= 2, that no part has *)
Definition hfn_ids (footer : bool) (k : pkg) : list rid :=
  flat_map (fun q => match fst q with
                     | PHeaderN n => if footer then [] else [RId n]
                     | PFooterN n => if footer then [RId n] else []
                     | _ => []
                     end) (parts k).
Definition hf_fresh_name (footer : bool) (k : pkg) : pname :=
  match first_unused (hfn_ids footer k) 2 (length (hfn_ids footer k)) with
  | RId m => if footer then PFooterN m else PHeaderN m
  | RForeign _ => if footer then PFooterN 0 else PHeaderN 0
  end.
Definition used_by_other_kind (footer : bool) (kd : hfkind) (p : pname) (k : pkg) : bool :=
  existsb (fun r => negb (hf_eqb (fst r) kd) &&
                    existsb (fun rl => rid_eqb (r_id rl) (snd r) && target_eqb (r_target rl) (TPart p)) (drels k))
          (if footer then frefs k else hrefs k).
Definition hf_part (footer : bool) (kd : hfkind) (k : pkg) : pname :=
  let p0 := if footer then PFooter kd else PHeader kd in
  if has_part p0 k && used_by_other_kind footer kd p0 k then hf_fresh_name footer k else p0.

Definition add_default (e : ext) (l : list ext) : list ext :=
  if existsb (ext_eqb e) l then l else l ++ [e].
Definition add_override (p : pname) (l : list pname) : list pname :=
  if existsb (pname_eqb p) l then l else l ++ [p].

Fixpoint set_ref (kd : hfkind) (i : rid) (l : list (hfkind * rid)) : list (hfkind * rid) :=
  match l with
  | [] => [(kd, i)]
  | (k0, j) :: rest => if hf_eqb kd k0 then (kd, i) :: rest else (k0, j) :: set_ref kd i rest
  end.

Inductive imgfmt := FPng | FJpeg | FGif.
Definition ext_of_fmt (f : imgfmt) : ext := match f with FPng => EPng | FJpeg => EJpeg | FGif => EGif end.

Inductive op :=
| AddImage (f : imgfmt) (bytes : N) (in_body : bool)   (* body image, or cell/placeholder image *)
| AddHF (footer : bool) (kd : hfkind) (payload : N)
| AddList
| AddNote (endnote : bool)
| SetNoteCfg
| SetProps
| AddPlaceholder (name : N)
| SaveReopen.

(* generated parts that Save (re)writes *)
Definition save_parts (k : pkg) : list (pname * N) :=
  let p1 := set_part PDoc 0%N (parts k) in
  let p2 := if existsb (fun q => pname_eqb PStyles (fst q)) p1 then p1 else set_part PStyles 0%N p1 in
  set_part PDocRels 0%N (set_part PRels 0%N (set_part PCT 0%N p2)).

Definition max_media (l : list (pname * N)) : Z :=
  fold_left (fun m q => match fst q with PMedia i _ => Z.max m i | _ => m end) l (-1)%Z.

Definition add_rel_part (k : pkg) (kd : rkind) (p : pname) (c : N) (ovr : bool) : option pkg :=
  match fresh k with
  | None => None
  | Some i =>
      Some (mkPkg (drels k ++ [mkRel i kd (TPart p)]) (sid k) (set_part p c (parts k)) (defaults k)
                  (if ovr then add_override p (overrides k) else overrides k)
                  (nimg k) (hrefs k) (frefs k) (pics k) (phs k))
  end.

Definition step (k : pkg) (o : op) : option pkg :=
  match o with
  | AddImage f b in_body =>
      match fresh k with
      | None => None
      | Some i =>
          let p := PMedia (nimg k) (ext_of_fmt f) in
          Some (mkPkg (drels k ++ [mkRel i KImage (TPart p)]) (sid k) (set_part p b (parts k))
                      (add_default (ext_of_fmt f) (defaults k)) (overrides k) (nimg k + 1)%Z
                      (hrefs k) (frefs k) (pics k ++ [(i, b)]) (phs k))
      end
  | AddHF footer kd payload =>
      match fresh k with
      | None => None
      | Some i =>
          let p := hf_part footer kd k in
          Some (mkPkg (drels k ++ [mkRel i (if footer then KFooter else KHeader) (TPart p)]) (sid k)
                      (set_part p payload (parts k)) (defaults k) (add_override p (overrides k)) (nimg k)
                      (if footer then hrefs k else set_ref kd i (hrefs k))
                      (if footer then set_ref kd i (frefs k) else frefs k) (pics k) (phs k))
      end
  | AddList =>
      if has_part PNumbering k then Some k   (* the part is rewritten; no new relationship *)
      else add_rel_part k KNumbering PNumbering 0%N true
  | AddNote endnote =>
      let p := if endnote then PEndnotes else PFootnotes in
      if has_part p k then Some k
      else add_rel_part k (if endnote then KEndnotes else KFootnotes) p 0%N true
  | SetNoteCfg =>
      if has_part PSettings k then Some k
      else add_rel_part k KSettings PSettings 0%N true
  | SetProps =>
      Some (mkPkg (drels k) (sid k) (set_part PApp 0%N (set_part PCore 0%N (parts k))) (defaults k)
                  (add_override PApp (add_override PCore (overrides k))) (nimg k) (hrefs k) (frefs k) (pics k) (phs k))
  | AddPlaceholder name =>
      Some (mkPkg (drels k) (sid k) (parts k) (defaults k) (overrides k) (nimg k) (hrefs k) (frefs k) (pics k) (phs k ++ [name]))
  | SaveReopen =>
      let ps := save_parts k in
      Some (mkPkg (drels k) (Some (styles_id k)) ps (defaults k) (overrides k) (max_media ps + 1)%Z
                  (hrefs k) (frefs k) (pics k) (phs k))
  end.

Fixpoint run (k : pkg) (ops : list op) : option pkg :=
  match ops with
  | [] => Some k
  | o :: rest => match step k o with Some k' => run k' rest | None => None end
  end.

(* what Save writes *)
Definition saved_rels (k : pkg) : list rel := mkRel (styles_id k) KStyles (TPart PStyles) :: drels k.
Definition saved_part_names (k : pkg) : list pname := map fst (save_parts k).

(* a new document: document.New() *)
Definition new_pkg : pkg :=
  mkPkg [] None [(PCT, 0%N); (PRels, 0%N); (PDocRels, 0%N)] [ERels; EXml] [PDoc; PStyles] 0%Z [] [] [] [].

(* rendering a document template: the clone carries the whole package state; every image
   placeholder for which data is supplied becomes a picture (AddImageFromDataWithoutElement),
   placeholders without data are replaced by a text paragraph *)
Fixpoint lookup_img (name : N) (imgs : list (N * (imgfmt * N))) : option (imgfmt * N) :=
  match imgs with
  | [] => None
  | (n, d) :: rest => if N.eqb n name then Some d else lookup_img name rest
  end.
Fixpoint render_phs (k : pkg) (names : list N) (imgs : list (N * (imgfmt * N))) : option pkg :=
  match names with
  | [] => Some k
  | n :: rest =>
      match lookup_img n imgs with
      | Some (f, b) => match step k (AddImage f b false) with Some k' => render_phs k' rest imgs | None => None end
      | None => render_phs k rest imgs
      end
  end.
Definition render (k : pkg) (imgs : list (N * (imgfmt * N))) : option pkg :=
  render_phs (mkPkg (drels k) (sid k) (parts k) (defaults k) (overrides k) (nimg k) (hrefs k) (frefs k) (pics k) [])
             (phs k) imgs.

(* ---- a decidable check of the package invariant (Proofs.PkgProofs.inv_b_sound) ---------------- *)
Definition names (k : pkg) : list pname := map fst (parts k).
Fixpoint nodup_b {A} (eqb : A -> A -> bool) (l : list A) : bool :=
  match l with [] => true | a :: r => negb (existsb (eqb a) r) && nodup_b eqb r end.

Definition in_names_b (p : pname) (l : list pname) : bool := existsb (pname_eqb p) l.
Definition covered_b (k : pkg) (p : pname) : bool :=
  existsb (ext_eqb (ext_of p)) (defaults k) || in_names_b p (overrides k).
Definition img_part_b (p : pname) : bool := match p with PMedia _ _ | PForeign _ _ => true | _ => false end.

Definition inv_b (k : pkg) : bool :=
  nodup_b rid_eqb (ids k)
  && match sid k with Some s => negb (mem_rid s (ids k)) | None => true end
  && forallb (fun r => match r_target r with TPart p => in_names_b p (saved_part_names k) | TExternal _ => true end) (drels k)
  && forallb (fun h => existsb (fun r => rid_eqb (snd h) (r_id r) && rkind_eqb (r_kind r) KHeader && match r_target r with TPart _ => true | _ => false end) (drels k)) (hrefs k)
  && forallb (fun h => existsb (fun r => rid_eqb (snd h) (r_id r) && rkind_eqb (r_kind r) KFooter && match r_target r with TPart _ => true | _ => false end) (drels k)) (frefs k)
  && nodup_b hf_eqb (map fst (hrefs k)) && nodup_b hf_eqb (map fst (frefs k))
  && forallb (fun pc => existsb (fun r => rid_eqb (fst pc) (r_id r) && rkind_eqb (r_kind r) KImage
                                          && match r_target r with
                                             | TPart p => img_part_b p && match get_part p (parts k) with Some b => N.eqb b (snd pc) | None => false end
                                             | _ => false end) (drels k)) (pics k)
  && forallb (fun p => pname_eqb p PCT || covered_b k p) (names k)
  && forallb (covered_b k) [PDoc; PStyles; PRels; PDocRels]
  && forallb (fun p => match p with PMedia i _ => (i <? nimg k)%Z | _ => true end) (names k).

