(* M-NUM: lists (numbering manager), notes (per-document note registry) and table of contents
   (heading collection), as the code does them after the fixes.  No proofs in this file. *)
From Coq Require Import List Bool Arith NArith ZArith.
Import ListNotations.

(* ---- lists ------------------------------------------------------------------------------------ *)

(* list type codes: 0 bullet, 1 number, 2 decimal, 3 lowerLetter, 4 upperLetter, 5 lowerRoman,
   6 upperRoman, anything else = a type string the library does not know *)
Record lcfg := mkCfg { l_type : N; l_sym : N; l_start : Z; l_level : Z }.

(* number format of a level: 0 bullet 1 decimal 2 lowerLetter 3 upperLetter 4 lowerRoman 5 upperRoman; None = no w:numFmt *)
Definition fmt_of (ty : N) : option N :=
  match ty with
  | 0 => Some 0 | 1 => Some 1 | 2 => Some 1 | 3 => Some 2 | 4 => Some 3 | 5 => Some 4 | 6 => Some 5
  | _ => None
  end%N.
(* level text: for bullets the symbol; for numbered types the pattern "%<ilvl+1>." ; None if unknown type *)
Inductive ltext := TSym (s : N) | TPat (n : nat).
Definition text_of (ty sym : N) (ilvl : nat) : option ltext :=
  match fmt_of ty with
  | None => None
  | Some 0%N => Some (TSym sym)
  | Some _ => Some (TPat (S ilvl))
  end.

Definition clamp_level (l : Z) : nat := if (l <? 0)%Z then 0 else if (8 <? l)%Z then 8 else Z.to_nat l.

(* the cache key of abstract definitions: every attribute that determines the level definitions *)
Definition key : Type := N * N * nat * Z.
Definition key_of (c : lcfg) : key := (l_type c, l_sym c, clamp_level (l_level c), l_start c).
Definition key_eqb (a b : key) : bool :=
  let '(t1, s1, l1, z1) := a in let '(t2, s2, l2, z2) := b in
  N.eqb t1 t2 && N.eqb s1 s2 && Nat.eqb l1 l2 && Z.eqb z1 z2.

Record nstate := mkN {
  abstracts : list (key * (nat * lcfg));   (* key -> (abstractNumId, the config it was created from) *)
  next_abs : nat;
  instances : list (nat * nat);            (* numId -> abstractNumId *)
  next_num : nat
}.
Definition n_init : nstate := mkN [] 0 [] 1.

Fixpoint find_key (k : key) (l : list (key * (nat * lcfg))) : option (nat * lcfg) :=
  match l with [] => None | (k', v) :: r => if key_eqb k k' then Some v else find_key k r end.

(* AddListItem: returns the new state and the (numId, ilvl) of the paragraph *)
Definition add_item (s : nstate) (c : lcfg) : nstate * (nat * nat) :=
  let k := key_of c in
  let '(abs, s1) :=
    match find_key k (abstracts s) with
    | Some (a, _) => (a, s)
    | None => (next_abs s, mkN (abstracts s ++ [(k, (next_abs s, c))]) (S (next_abs s)) (instances s) (next_num s))
    end in
  (mkN (abstracts s1) (next_abs s1) (instances s1 ++ [(next_num s1, abs)]) (S (next_num s1)),
   (next_num s1, clamp_level (l_level c))).

(* what numbering.xml says for a paragraph's (numId, ilvl): format, text, start *)
Fixpoint find_inst (n : nat) (l : list (nat * nat)) : option nat :=
  match l with [] => None | (m, a) :: r => if Nat.eqb m n then Some a else find_inst n r end.
Fixpoint find_abs (a : nat) (l : list (key * (nat * lcfg))) : option lcfg :=
  match l with [] => None | (_, (b, c)) :: r => if Nat.eqb a b then Some c else find_abs a r end.
(* RestartNumbering(numId): a numbering id is taken whatever the argument; when the instance exists, the new id is
   bound to the same abstract definition *)
Definition restart (s : nstate) (numid : nat) : nstate :=
  match find_inst numid (instances s) with
  | Some a => mkN (abstracts s) (next_abs s) (instances s ++ [(next_num s, a)]) (S (next_num s))
  | None => mkN (abstracts s) (next_abs s) (instances s) (S (next_num s))
  end.

(* Save and Open (or rendering as a document template), then the first list call: the numbering manager of the new
   document takes the existing part over.  The definitions stay (under their ids), the cache of the manager starts
   empty - modelled by keys no configuration has (level 9 and above) -, and the counters continue after the highest
   ids in use *)
Definition dead_key (k : key) : key := let '(t, sy, l, z) := k in (t, sy, 9 + l, z).
Definition key_live (k : key) : bool := let '(_, _, l, _) := k in Nat.leb l 8.
Definition next_after (ids : list nat) (base : nat) : nat := fold_left (fun acc i => Nat.max acc (S i)) ids base.
Definition reopen (s : nstate) : nstate :=
  mkN (map (fun e => (dead_key (fst e), snd e)) (abstracts s))
      (next_after (map (fun e => fst (snd e)) (abstracts s)) 0)
      (instances s)
      (next_after (map fst (instances s)) 1).

Definition level_def (s : nstate) (numid ilvl : nat) : option (option N * option ltext * Z) :=
  match find_inst numid (instances s) with
  | None => None
  | Some a => match find_abs a (abstracts s) with
              | None => None
              | Some c => if Nat.leb ilvl 8 then Some (fmt_of (l_type c), text_of (l_type c) (l_sym c) ilvl, l_start c) else None
              end
  end.

(* ---- notes ------------------------------------------------------------------------------------- *)

Record notes := mkNotes { live : list (nat * N); next_id : nat }.   (* id -> text atom *)
Definition notes_init : notes := mkNotes [] 1.
Definition add_note (s : notes) (text : N) : notes := mkNotes (live s ++ [(next_id s, text)]) (S (next_id s)).
Definition has_note (s : notes) (id : nat) : bool := existsb (fun q => Nat.eqb (fst q) id) (live s).
Definition remove_note (s : notes) (id : nat) : notes * bool :=
  if has_note s id then (mkNotes (filter (fun q => negb (Nat.eqb (fst q) id)) (live s)) (next_id s), true)
  else (s, false).

(* Save and Open, then the first notes call: the notes of the part are taken over as they are; new notes get the
   ids after the highest one in use *)
Definition reopen_notes (s : notes) : notes := mkNotes (live s) (next_after (map fst (live s)) 1).

(* ---- table of contents -------------------------------------------------------------------------- *)

(* body paragraphs as (heading level or 0, text atom; 0 = empty text) *)
Definition collect (maxl : nat) (body : list (nat * N)) : list (N * nat) :=
  flat_map (fun p => let '(lvl, t) := p in
                     if (Nat.ltb 0 lvl && Nat.leb lvl maxl && negb (N.eqb t 0))%bool then [(t, lvl)] else []) body.

Record tstate := mkT { t_body : list (nat * N); t_toc : option (list (N * nat)); t_level : nat }.
Definition t_init : tstate := mkT [] None 3.
Definition add_para (s : tstate) (lvl : nat) (text : N) : tstate := mkT (t_body s ++ [(lvl, text)]) (t_toc s) (t_level s).
Definition gen_toc (s : tstate) (maxl : nat) : tstate := mkT (t_body s) (Some (collect maxl (t_body s))) maxl.
Definition upd_toc (s : tstate) : tstate * bool :=
  match t_toc s with
  | None => (s, false)
  | Some _ => (mkT (t_body s) (Some (collect (t_level s) (t_body s))) (t_level s), true)
  end.

(* ---- heading level of a paragraph style id (getHeadingLevel) ------------------------------------ *)
From Coq Require Import String Ascii.
From WZ Require Import Gen.HeadingMap.

Definition lower_ascii (c : ascii) : ascii :=
  let n := nat_of_ascii c in if (Nat.leb 65 n && Nat.leb n 90)%bool then ascii_of_nat (n + 32) else c.
Fixpoint lower (s : string) : string :=
  match s with EmptyString => EmptyString | String c r => String (lower_ascii c) (lower r) end.
Fixpoint table_level (tbl : list (string * nat)) (s : string) : option nat :=
  match tbl with [] => None | (k, v) :: r => if String.eqb k s then Some v else table_level r s end.
Definition digit_level (s : string) : nat :=
  match s with
  | String c EmptyString => let n := nat_of_ascii c in if (Nat.leb 49 n && Nat.leb n 57)%bool then n - 48 else 0
  | _ => 0
  end.
Definition style_level (s : string) : nat :=
  match table_level heading_table s with
  | Some l => l
  | None => let ls := lower s in
            if String.prefix "heading" ls then digit_level (substring 7 (String.length ls - 7) ls) else 0
  end.
(* AddHeadingParagraph(text, level): levels outside 1..9 become 1 *)
Definition heading_style_level (l : Z) : nat := if ((l <? 1) || (9 <? l))%Z then 1 else Z.to_nat l.
