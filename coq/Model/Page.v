(* M-PAGE: executable model of pkg/document/page.go (page settings).
   Lengths are exact: a user-supplied length is a whole number of micrometres (Um),
   a length read back from the section properties is a whole number of twips (Tw),
   i.e. the rational t / (C/10^12) mm.  All comparisons are cross-multiplied in Z.
   No proofs in this file. *)
From Coq Require Import ZArith List String Bool.
From WZ Require Import Gen.PageConsts.
Import ListNotations.
Open Scope Z_scope.

Definition C : Z := mm_to_twips_e12.            (* twips per mm, times 10^12 *)
Definition Cd : Z := twips_to_mm_div_e12.       (* divisor used by twipsToMM, times 10^12 *)
Definition E15 : Z := 1000000000000000.
Definition E12 : Z := 1000000000000.

Inductive len := Um (z : Z) | Tw (t : Z).

(* nearest integer to n/d (d > 0), ties to even: what "%.0f" prints *)
Definition round_he (n d : Z) : Z :=
  let q := n / d in
  let r := n mod d in
  if 2 * r <? d then q
  else if d <? 2 * r then q + 1
  else if Z.even q then q else q + 1.

(* mmToTwips followed by %.0f *)
Definition to_tw (l : len) : Z :=
  match l with
  | Um z => round_he (z * C) E15
  | Tw t => round_he (t * C) Cd      (* (t / Cd) * C ; equals t when C = Cd *)
  end.

(* l < k micrometres *)
Definition len_ltb (l : len) (k : Z) : bool :=
  match l with Um z => z <? k | Tw t => t * E15 <? k * Cd end.
Definition len_gtb (l : len) (k : Z) : bool :=
  match l with Um z => k <? z | Tw t => k * Cd <? t * E15 end.
Definition len_le0 (l : len) : bool :=
  match l with Um z => z <=? 0 | Tw t => t <=? 0 end.
Definition len_lt0 (l : len) : bool :=
  match l with Um z => z <? 0 | Tw t => t <? 0 end.
(* |l - k um| < tol um *)
Definition near (l : len) (k tol : Z) : bool :=
  match l with
  | Um z => Z.abs (z - k) <? tol
  | Tw t => Z.abs (t * E15 - k * Cd) <? tol * Cd
  end.

Record settings := mkSettings {
  s_size : string;
  s_cw : len; s_ch : len;
  s_ori : string;
  s_mt : len; s_mr : len; s_mb : len; s_ml : len;
  s_hd : len; s_fd : len; s_gw : len;
  s_gtype : string; s_pitch : Z; s_cs : Z
}.

(* what the section properties hold (twips as integers, as written by %.0f) *)
Record margins := mkMargins { m_t : Z; m_r : Z; m_b : Z; m_l : Z; m_h : Z; m_f : Z; m_g : Z }.
Record sect := mkSect {
  pg : option (Z * Z * string);                 (* w, h, orient attribute *)
  mar : option margins;
  grid : option (string * Z * option Z)          (* type, linePitch, charSpace *)
}.

Definition empty_sect : sect := mkSect None None None.

Definition default_settings : settings :=
  mkSettings default_Size (Um 0) (Um 0) default_Orientation
    (Um default_MarginTop_um) (Um default_MarginRight_um) (Um default_MarginBottom_um) (Um default_MarginLeft_um)
    (Um default_HeaderDistance_um) (Um default_FooterDistance_um) (Um default_GutterWidth_um)
    default_DocGridType default_DocGridLinePitch default_DocGridCharSpace.

Definition matches (w h : len) (d : Z * Z) : bool :=
  (near w (fst d) tolerance_um && near h (snd d) tolerance_um)
  || (near w (snd d) tolerance_um && near h (fst d) tolerance_um).

(* identifyPageSize: Go ranges over a map (unspecified order); the model takes the first
   match in name order.  Proofs.PageProofs.identify_unique shows at most one entry matches. *)
Fixpoint identify_in (tbl : list (string * (Z * Z))) (w h : len) : string :=
  match tbl with
  | [] => c_PageSizeCustom
  | (n, d) :: rest => if matches w h d then n else identify_in rest w h
  end.
Definition identify := identify_in predefined_um.

Definition is_landscape (o : string) : bool := String.eqb o c_OrientationLandscape.
Definition is_portrait (o : string) : bool := String.eqb o c_OrientationPortrait.

Fixpoint lookup_size (tbl : list (string * (Z * Z))) (n : string) : option (Z * Z) :=
  match tbl with
  | [] => None
  | (m, d) :: rest => if String.eqb m n then Some d else lookup_size rest n
  end.

Definition direct (w h : len) (d : Z * Z) : bool :=
  near w (fst d) get_tolerance_um && near h (snd d) get_tolerance_um.

(* GetPageSettings.  [fixed] = the behaviour after the C12 fix: the stored (physical) width and
   height of a landscape section are swapped back into logical dimensions before the size is
   identified, and a predefined size is only reported when it matches un-rotated; so that
   getPageDimensions's own swap restores exactly what is stored.  [fixed = false] is the
   behaviour of the pinned commit (kept for the refutation theorem). *)
Definition get_pg (fixed : bool) (p : option (Z * Z * string)) : string * len * len * string :=
  let d := default_settings in
  match p with
  | None => (s_size d, s_cw d, s_ch d, s_ori d)
  | Some (w, h, o) =>
      let land := is_landscape o in
      let ori := if land then c_OrientationLandscape else c_OrientationPortrait in
      let '(lw, lh) := if fixed && land then (Tw h, Tw w) else (Tw w, Tw h) in
      let sz0 := identify lw lh in
      let sz := if fixed then
                  match lookup_size predefined_um sz0 with
                  | Some dd => if direct lw lh dd then sz0 else c_PageSizeCustom
                  | None => sz0
                  end
                else sz0 in
      if String.eqb sz c_PageSizeCustom then (sz, lw, lh, ori) else (sz, s_cw d, s_ch d, ori)
  end.

Definition get_mar (m : option margins) : len * len * len * len * len * len * len :=
  let d := default_settings in
  match m with
  | None => (s_mt d, s_mr d, s_mb d, s_ml d, s_hd d, s_fd d, s_gw d)
  | Some m => (Tw (m_t m), Tw (m_r m), Tw (m_b m), Tw (m_l m), Tw (m_h m), Tw (m_f m), Tw (m_g m))
  end.

Definition get_grid (g : option (string * Z * option Z)) : string * Z * Z :=
  let d := default_settings in
  match g with
  | None => (s_gtype d, s_pitch d, s_cs d)
  | Some (t, p, c) =>
      ((if String.eqb t "" then s_gtype d else t), p, match c with Some c => c | None => s_cs d end)
  end.

Definition get_with (fixed : bool) (st : sect) : settings :=
  let '(sz, cw, ch, ori) := get_pg fixed (pg st) in
  let '(mt, mr, mb, ml, hd, fd, gw) := get_mar (mar st) in
  let '(gt, gp, gc) := get_grid (grid st) in
  mkSettings sz cw ch ori mt mr mb ml hd fd gw gt gp gc.

Definition get := get_with true.

Definition validate (s : settings) : bool :=
  (if String.eqb (s_size s) c_PageSizeCustom then
     negb (len_le0 (s_cw s) || len_le0 (s_ch s))
     && (let lo := to_tw (Um min_custom_um) in
         let hi := to_tw (Um max_custom_um) in
         negb ((to_tw (s_cw s) <? lo) || (hi <? to_tw (s_cw s))
               || (to_tw (s_ch s) <? lo) || (hi <? to_tw (s_ch s))))
   else true)
  && (is_portrait (s_ori s) || is_landscape (s_ori s)).

Definition dims (s : settings) : len * len :=
  let '(w, h) :=
    if String.eqb (s_size s) c_PageSizeCustom then (s_cw s, s_ch s)
    else match lookup_size predefined_um (s_size s) with
         | Some (w, h) => (Um w, Um h)
         | None => match lookup_size predefined_um c_PageSizeA4 with
                   | Some (w, h) => (Um w, Um h)
                   | None => (Um 0, Um 0)
                   end
         end in
  if is_landscape (s_ori s) then (h, w) else (w, h).

Definition set_pg (s : settings) : Z * Z * string :=
  let '(w, h) := dims s in (to_tw w, to_tw h, s_ori s).
Definition set_mar (s : settings) : margins :=
  mkMargins (to_tw (s_mt s)) (to_tw (s_mr s)) (to_tw (s_mb s)) (to_tw (s_ml s))
            (to_tw (s_hd s)) (to_tw (s_fd s)) (to_tw (s_gw s)).
Definition set_grid (s : settings) (old : option (string * Z * option Z)) :=
  if String.eqb (s_gtype s) "" then old
  else Some (s_gtype s, s_pitch s, if 0 <? s_cs s then Some (s_cs s) else None).

(* SetPageSettings *)
Definition set (s : settings) (st : sect) : sect * bool :=
  if validate s then
    (mkSect (Some (set_pg s)) (Some (set_mar s)) (set_grid s (grid st)), true)
  else (st, false).

Inductive op :=
| SetAll (s : settings)
| SetSize (n : string)
| SetCustom (w h : Z)                (* micrometres *)
| SetOrient (o : string)
| SetMargins (t r b l : Z)
| SetHF (h f : Z)
| SetGutter (g : Z)
| SetGrid (t : string) (p c : Z)
| ClearGrid
| Reopen
| Other.                            (* any call that names no page setting: headers and footers, body content *)

Definition with_size (s : settings) n := mkSettings n (s_cw s) (s_ch s) (s_ori s) (s_mt s) (s_mr s) (s_mb s) (s_ml s) (s_hd s) (s_fd s) (s_gw s) (s_gtype s) (s_pitch s) (s_cs s).
Definition with_custom (s : settings) w h := mkSettings c_PageSizeCustom w h (s_ori s) (s_mt s) (s_mr s) (s_mb s) (s_ml s) (s_hd s) (s_fd s) (s_gw s) (s_gtype s) (s_pitch s) (s_cs s).
Definition with_ori (s : settings) o := mkSettings (s_size s) (s_cw s) (s_ch s) o (s_mt s) (s_mr s) (s_mb s) (s_ml s) (s_hd s) (s_fd s) (s_gw s) (s_gtype s) (s_pitch s) (s_cs s).
Definition with_margins (s : settings) t r b l := mkSettings (s_size s) (s_cw s) (s_ch s) (s_ori s) t r b l (s_hd s) (s_fd s) (s_gw s) (s_gtype s) (s_pitch s) (s_cs s).
Definition with_hf (s : settings) h f := mkSettings (s_size s) (s_cw s) (s_ch s) (s_ori s) (s_mt s) (s_mr s) (s_mb s) (s_ml s) h f (s_gw s) (s_gtype s) (s_pitch s) (s_cs s).
Definition with_gutter (s : settings) g := mkSettings (s_size s) (s_cw s) (s_ch s) (s_ori s) (s_mt s) (s_mr s) (s_mb s) (s_ml s) (s_hd s) (s_fd s) g (s_gtype s) (s_pitch s) (s_cs s).
Definition with_grid (s : settings) t p c := mkSettings (s_size s) (s_cw s) (s_ch s) (s_ori s) (s_mt s) (s_mr s) (s_mb s) (s_ml s) (s_hd s) (s_fd s) (s_gw s) t p c.

Definition step_with (fixed : bool) (st : sect) (o : op) : sect * bool :=
  let g := get_with fixed st in
  match o with
  | SetAll s => set s st
  | SetSize n => set (with_size g n) st
  | SetCustom w h => if (w <=? 0) || (h <=? 0) then (st, false) else set (with_custom g (Um w) (Um h)) st
  | SetOrient o => set (with_ori g o) st
  | SetMargins t r b l =>
      if (t <? 0) || (r <? 0) || (b <? 0) || (l <? 0) then (st, false)
      else set (with_margins g (Um t) (Um r) (Um b) (Um l)) st
  | SetHF h f => if (h <? 0) || (f <? 0) then (st, false) else set (with_hf g (Um h) (Um f)) st
  | SetGutter w => if w <? 0 then (st, false) else set (with_gutter g (Um w)) st
  | SetGrid t p c => if String.eqb t "" then (st, false) else set (with_grid g t p c) st
  | ClearGrid => (mkSect (pg st) (mar st) None, true)
  | Reopen => (st, true)
  | Other => (st, true)
  end.

Definition step := step_with true.

Definition run (ops : list op) (st : sect) : sect := fold_left (fun s o => fst (step s o)) ops st.
