(* M-XMLESC: how character data and attribute values pass through encoding/xml, on bytes.
   escape   - xml.EscapeText as the encoder applies it to character data and attribute values: the five
              metacharacters and tab, newline, carriage return become references; a control character that XML
              cannot hold becomes U+FFFD; every other byte is copied (bytes above 127 are assumed to form valid
              UTF-8 of legal characters - the correspondence check generates such strings)
   unescape - what the decoder returns for character data: references are resolved (the five named entities,
              decimal and hexadecimal references below 128), a raw CR or CR LF becomes LF *)
From Coq Require Import List NArith Bool.
Import ListNotations.
Open Scope N_scope.

Definition legal (b : N) : bool :=
  (b <? 256) && ((32 <=? b) || (b =? 9) || (b =? 10) || (b =? 13)).

Definition esc_byte (b : N) : list N :=
  if b =? 34 then [38; 35; 51; 52; 59]            (* &#34; *)
  else if b =? 39 then [38; 35; 51; 57; 59]       (* &#39; *)
  else if b =? 38 then [38; 97; 109; 112; 59]     (* &amp; *)
  else if b =? 60 then [38; 108; 116; 59]         (* &lt; *)
  else if b =? 62 then [38; 103; 116; 59]         (* &gt; *)
  else if b =? 9 then [38; 35; 120; 57; 59]       (* &#x9; *)
  else if b =? 10 then [38; 35; 120; 65; 59]      (* &#xA; *)
  else if b =? 13 then [38; 35; 120; 68; 59]      (* &#xD; *)
  else if legal b then [b]
  else [239; 191; 189].                            (* U+FFFD *)

Definition escape (s : list N) : list N := flat_map esc_byte s.

Definition dec_digit (b : N) : option N := if (48 <=? b) && (b <=? 57) then Some (b - 48) else None.
Definition hex_digit (b : N) : option N :=
  if (48 <=? b) && (b <=? 57) then Some (b - 48)
  else if (65 <=? b) && (b <=? 70) then Some (b - 55)
  else if (97 <=? b) && (b <=? 102) then Some (b - 87)
  else None.

Fixpoint parse_num (base : N) (dig : N -> option N) (l : list N) (acc : N) : option N :=
  match l with
  | [] => Some acc
  | b :: r => match dig b with Some d => parse_num base dig r (acc * base + d) | None => None end
  end.

(* the text between & and ; *)
Definition decode_ent (e : list N) : option N :=
  match e with
  | [108; 116] => Some 60
  | [103; 116] => Some 62
  | [97; 109; 112] => Some 38
  | [97; 112; 111; 115] => Some 39
  | [113; 117; 111; 116] => Some 34
  | 35 :: 120 :: (_ :: _) as r =>
      match parse_num 16 hex_digit (tl (tl e)) 0 with Some v => if v <? 128 then Some v else None | None => None end
  | 35 :: (_ :: _) as r =>
      match parse_num 10 dec_digit (tl e) 0 with Some v => if v <? 128 then Some v else None | None => None end
  | _ => None
  end.

(* ent: inside a reference, the bytes read so far (reversed); cr: the previous raw byte was a CR *)
Fixpoint unesc (s : list N) (ent : option (list N)) (cr : bool) : option (list N) :=
  match s with
  | [] => match ent with None => Some [] | Some _ => None end
  | b :: r =>
      match ent with
      | Some acc =>
          if b =? 59 then
            match decode_ent (rev acc) with
            | Some c => option_map (cons c) (unesc r None false)
            | None => None
            end
          else unesc r (Some (b :: acc)) false
      | None =>
          if b =? 38 then unesc r (Some []) false
          else if b =? 13 then option_map (cons 10) (unesc r None true)
          else if (b =? 10) && cr then unesc r None false
          else option_map (cons b) (unesc r None false)
      end
  end.

Definition unescape (s : list N) : option (list N) := unesc s None false.
