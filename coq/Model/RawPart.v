(* M-RAW: parts of an opened package that the library extends instead of regenerating (pkg/document/rawpart.go and its
   two users: word/numbering.xml in numbering.go, word/footnotes.xml / word/endnotes.xml in footnotes.go).

   The reader walks the part with the XML tokeniser and remembers, by input offsets, the raw text of the root's start
   tag and of every child element of the root.  The writer puts the start tag back (not self-closing, with the
   namespace declaration of the prefix the added elements use), then the children it kept, then the new elements,
   then an end tag built from the qualified name read off the start tag.

   A token is what the tokeniser hands out: its kind, the local name (elements), and the text it was read from.  A
   self-closing element is a start token carrying the whole text and an end token carrying none (this is what
   encoding/xml does, and what the input offsets show).  The tokeniser itself is not modelled: the harness tokenises
   the same bytes and hands the tokens to the model. *)
From Coq Require Import String Ascii List Bool Arith ZArith DecimalString.
Import ListNotations.
Open Scope string_scope.
Open Scope list_scope.

Inductive tkind := KStart | KEnd | KOther.
(* attributes by local name, in source order (the library keeps them in a map keyed by local name: the last one wins) *)
Record tok := mkTok { t_kind : tkind; t_local : string; t_attrs : list (string * string); t_raw : string }.

Fixpoint sconcat (l : list string) : string := match l with [] => "" | x :: r => (x ++ sconcat r)%string end.
Definition raw_of (ts : list tok) : string := sconcat (map t_raw ts).

Record child := mkChild { c_local : string; c_attrs : list (string * string); c_raw : string }.
(* p_declw: the root's start tag declares the prefix w (read off the attributes the tokeniser reports - the harness lists
   a namespace declaration xmlns:p both under its local name p, which is what the library's attribute map sees, and
   under "xmlns:p") *)
Record part := mkPart { p_start : string; p_declw : bool; p_children : list child }.
Definition declares_w (attrs : list (string * string)) : bool := existsb (fun a => String.eqb (fst a) "xmlns:w") attrs.

(* readRawPart: depth counter, the start tag of the (last) element at depth 1, the child being collected *)
Fixpoint scan (root_local : string) (ts : list tok) (d : nat) (rs : option (string * bool)) (cl : string) (ca : list (string * string)) (cr : string) (acc : list child)
  : option (option (string * bool) * list child) :=
  match ts with
  | [] => Some (rs, acc)
  | t :: rest =>
      match t_kind t with
      | KStart =>
          match d with
          | 0 => if String.eqb (t_local t) root_local then scan root_local rest 1 (Some (t_raw t, declares_w (t_attrs t))) cl ca cr acc else None
          | 1 => scan root_local rest 2 rs (t_local t) (t_attrs t) (t_raw t) acc
          | S (S _) => scan root_local rest (S d) rs cl ca (cr ++ t_raw t)%string acc
          end
      | KEnd =>
          match d with
          | 0 => scan root_local rest 0 rs cl ca cr acc
          | 1 => scan root_local rest 0 rs cl ca cr acc
          | 2 => scan root_local rest 1 rs cl ca cr (acc ++ [mkChild cl ca (cr ++ t_raw t)%string])
          | S (S (S _)) => scan root_local rest (pred d) rs cl ca (cr ++ t_raw t)%string acc
          end
      | KOther =>
          match d with
          | 0 | 1 => scan root_local rest d rs cl ca cr acc
          | _ => scan root_local rest d rs cl ca (cr ++ t_raw t)%string acc
          end
      end
  end.

(* None: not the expected root, or no element at all *)
Definition read_raw (ts : list tok) (root_local : string) : option part :=
  match scan root_local ts 0 None "" [] "" [] with
  | Some (Some (s, w), kids) => Some (mkPart s w kids)
  | _ => None
  end.

(* ---------------- the tags ---------------- *)
Definition chars (s : string) : list ascii := list_ascii_of_string s.
Definition str (cs : list ascii) : string := string_of_list_ascii cs.

(* strings.IndexAny(name, " \t\r\n/>") *)
Definition is_delim (c : ascii) : bool :=
  existsb (Nat.eqb (nat_of_ascii c)) [32; 9; 13; 10; 47; 62].
Fixpoint take_name (cs : list ascii) : list ascii :=
  match cs with [] => [] | c :: r => if is_delim c then [] else c :: take_name r end.
Definition lt_char : ascii := ascii_of_nat 60.
Definition gt_char : ascii := ascii_of_nat 62.
Definition slash : ascii := ascii_of_nat 47.
(* the qualified name of the root: the start tag without its "<", up to the first blank, "/" or ">" *)
Definition root_name_l (start : list ascii) : list ascii :=
  take_name (match start with c :: r => if Ascii.eqb c lt_char then r else start | [] => [] end).

(* a start tag that closes itself is opened: ".../>" becomes "...>" *)
Fixpoint strip_sc (l : list ascii) : list ascii :=
  match l with
  | a :: (b :: nil) as r => if Ascii.eqb a slash && Ascii.eqb b gt_char then [gt_char] else a :: strip_sc r
  | a :: r => a :: strip_sc r
  | [] => []
  end.

Fixpoint prefixb (p l : list ascii) : bool :=
  match p, l with
  | [], _ => true
  | a :: p', b :: l' => Ascii.eqb a b && prefixb p' l'
  | _ :: _, [] => false
  end.
Fixpoint containsb (p l : list ascii) : bool :=
  prefixb p l || match l with [] => false | _ :: r => containsb p r end.

(* the declaration of the prefix w is added before the final ">" unless the start tag has one (repair of the tree:
   the test used to be bytes.Contains(tag, "xmlns:w="), wrong for xmlns:w = "..." and for that text inside a value) *)
Definition add_ns (l : list ascii) (declw : bool) (xmlns_w : string) : list ascii :=
  if declw then l
  else removelast l ++ chars (" xmlns:w=""" ++ xmlns_w ++ """>").

Definition open_tag_l (start : list ascii) (declw : bool) (xmlns_w : string) : list ascii := add_ns (strip_sc start) declw xmlns_w.
Definition open_tag (p : part) (xmlns_w : string) : string := str (open_tag_l (chars (p_start p)) (p_declw p) xmlns_w).
Definition close_tag (p : part) : string := ("</" ++ str (root_name_l (chars (p_start p))) ++ ">")%string.

(* ---------------- ids ---------------- *)
(* the value of an attribute by local name: the last one with that name *)
Definition attr_of (k : string) (l : list (string * string)) : option string :=
  fold_left (fun acc p => if String.eqb (fst p) k then Some (snd p) else acc) l None.

(* strconv.Atoi on the texts that occur as ids: an optional sign and at least one decimal digit (no overflow here) *)
Definition digit_of (c : ascii) : option Z :=
  let n := nat_of_ascii c in if Nat.leb 48 n && Nat.leb n 57 then Some (Z.of_nat (n - 48)) else None.
Fixpoint digits_val (cs : list ascii) (acc : Z) : option Z :=
  match cs with
  | [] => Some acc
  | c :: r => match digit_of c with Some v => digits_val r (acc * 10 + v)%Z | None => None end
  end.
Definition atoi (s : string) : option Z :=
  match chars s with
  | [] => None
  | c :: r =>
      if Nat.eqb (nat_of_ascii c) 45 then match r with [] => None | _ => option_map Z.opp (digits_val r 0) end
      else if Nat.eqb (nat_of_ascii c) 43 then match r with [] => None | _ => digits_val r 0 end
      else digits_val (c :: r) 0
  end.
Definition dec (z : Z) : string := NilZero.string_of_int (Z.to_int z).

(* a note that counts: an element with the note's name whose type is absent, empty or "normal" (separators do not) *)
Definition is_real_note (note : string) (c : child) : bool :=
  String.eqb (c_local c) note &&
  match attr_of "type" (c_attrs c) with None => true | Some t => String.eqb t "" || String.eqb t "normal" end.
Definition id_of (k : string) (c : child) : option Z :=
  match attr_of k (c_attrs c) with Some s => atoi s | None => None end.
(* adoptNotes: the first id for notes added later - one more than the largest id of a note that counts, at least 1 *)
Definition next_note_id (note : string) (cs : list child) : Z :=
  fold_left (fun nx c => if is_real_note note c
                         then match id_of "id" c with Some i => if (nx <=? i)%Z then (i + 1)%Z else nx | None => nx end
                         else nx) cs 1%Z.
Definition adopts_notes (note : string) (p : part) : bool := existsb (is_real_note note) (p_children p).

(* ---------------- the writers ---------------- *)
Definition nl : string := String (ascii_of_nat 10) "".
Definition kept (cs : list child) : string := sconcat (map (fun c => (nl ++ "  " ++ c_raw c)%string) cs).
Definition added (l : list string) : string := sconcat (map (fun s => (nl ++ s)%string) l).

(* notesWithExisting: the children that were kept, then the new notes *)
Definition notes_with_existing (p : part) (xmlns_w : string) (new_notes : list string) : string :=
  (open_tag p xmlns_w ++ kept (p_children p) ++ added new_notes ++ nl ++ close_tag p)%string.

(* adoptExisting sorts the children: abstract definitions, instances, what stands before the first of either, the rest *)
Definition is_abs (c : child) : bool := String.eqb (c_local c) "abstractNum".
Definition is_num (c : child) : bool := String.eqb (c_local c) "num".
Fixpoint leading (cs : list child) : list child :=
  match cs with c :: r => if is_abs c || is_num c then [] else c :: leading r | [] => [] end.
Fixpoint after_first (cs : list child) : list child :=
  match cs with c :: r => if is_abs c || is_num c then cs else after_first r | [] => [] end.
Definition trailing (cs : list child) : list child :=
  filter (fun c => negb (is_abs c || is_num c)) (after_first cs).

(* adoptExisting: ids continue after the largest abstract definition id (from -1) and instance id (from 0) *)
Definition max_id (k : string) (from : Z) (cs : list child) : Z :=
  fold_left (fun m c => match id_of k c with Some i => if (m <? i)%Z then i else m | None => m end) cs from.
Definition next_abs_id (cs : list child) : Z := (max_id "abstractNumId" (-1) (filter is_abs cs) + 1)%Z.
Definition next_num_id (cs : list child) : Z := (max_id "numId" 0 (filter is_num cs) + 1)%Z.

(* numberingWithExisting: all abstract definitions (the kept ones first), then all instances (the kept ones first) *)
Definition numbering_with_existing (p : part) (xmlns_w : string) (new_abs new_nums : list string) : string :=
  let cs := p_children p in
  (open_tag p xmlns_w ++ kept (leading cs) ++ kept (filter is_abs cs) ++ added new_abs
   ++ kept (filter is_num cs) ++ added new_nums ++ kept (trailing cs) ++ nl ++ close_tag p)%string.

(* ---------------- well-formed input, as a tree ---------------- *)
Inductive node :=
| NElem (local : string) (attrs : list (string * string)) (open close : string) (kids : list node)
| NOther (raw : string).

Fixpoint toks (n : node) : list tok :=
  match n with
  | NElem l a o c ks => mkTok KStart l a o :: flat_map toks ks ++ [mkTok KEnd l [] c]
  | NOther r => [mkTok KOther "" [] r]
  end.

Definition child_of (n : node) : list child :=
  match n with
  | NElem l a o c ks => [mkChild l a (raw_of (toks n))]
  | NOther _ => []
  end.
