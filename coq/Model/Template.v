(* M-TPL: the text template engine (pkg/document/template.go, renderTemplate) as a pipeline of passes, and the
   documented semantics as a reference interpreter over syntax trees.

   The engine works on text with regular expressions; a pass here is the same scan on the token list of the text
   (lex), and the executable model of the engine (render_str) re-lexes the text between the steps exactly where the
   engine goes back to text, so that what a substituted value turns into for a later pass is part of the model.

   Passes, in the engine's order: variables (renderVariables), loops (renderLoopsNested: per item nested loops with
   the item's lists, then this/@index/@first/@last, then the item's scalar fields, then the conditionals on the
   item's fields), conditionals (renderConditionals).  Blocks/inheritance and image placeholders are not part of
   this model (the workload does not use them). *)
From Coq Require Import String Ascii List Bool Arith.
Import ListNotations.
Open Scope string_scope.

(* ---------------- data ---------------- *)
Inductive fval := FScalar (text : string) (truthy : bool) | FList (items : list item)
with item := IStr (text : string) (truthy : bool) | IMap (fields : list (string * fval)).

Record env := mkEnv {
  e_vars : list (string * string);
  e_conds : list (string * bool);
  e_lists : list (string * list item) }.

Fixpoint sconcat (l : list string) : string :=
  match l with [] => "" | x :: r => x ++ sconcat r end.

Fixpoint assoc {A} (k : string) (l : list (string * A)) : option A :=
  match l with
  | [] => None
  | (k', v) :: r => if String.eqb k k' then Some v else assoc k r
  end.

(* ---------------- tokens ---------------- *)
Inductive tk :=
| KLit (s : string) | KVar (n : string) | KThis | KIndex | KFirst | KLast
| KIf (c : string) | KElse | KEndIf | KEach (l : string) | KEndEach.

Definition unlex1 (t : tk) : string :=
  match t with
  | KLit s => s
  | KVar n => "{{" ++ n ++ "}}"
  | KThis => "{{this}}"
  | KIndex => "{{@index}}"
  | KFirst => "{{@first}}"
  | KLast => "{{@last}}"
  | KIf c => "{{#if " ++ c ++ "}}"
  | KElse => "{{else}}"
  | KEndIf => "{{/if}}"
  | KEach l => "{{#each " ++ l ++ "}}"
  | KEndEach => "{{/each}}"
  end.
Definition unlex (ts : list tk) : string := sconcat (map unlex1 ts).

(* ---------------- lexer: the directives the engine's regular expressions recognise ---------------- *)
Definition is_word (c : ascii) : bool :=
  let n := nat_of_ascii c in
  (Nat.leb 48 n && Nat.leb n 57) || (Nat.leb 65 n && Nat.leb n 90) || (Nat.leb 97 n && Nat.leb n 122) || Nat.eqb n 95.
Definition is_space (c : ascii) : bool :=
  let n := nat_of_ascii c in Nat.eqb n 32 || Nat.eqb n 9 || Nat.eqb n 10 || Nat.eqb n 12 || Nat.eqb n 13.

Fixpoint take_while (p : ascii -> bool) (cs : list ascii) : list ascii * list ascii :=
  match cs with
  | c :: r => if p c then let '(a, b) := take_while p r in (c :: a, b) else ([], cs)
  | [] => ([], [])
  end.

Fixpoint prefix_of (p cs : list ascii) : option (list ascii) :=
  match p, cs with
  | [], _ => Some cs
  | a :: p', c :: r => if Ascii.eqb a c then prefix_of p' r else None
  | _ :: _, [] => None
  end.

Definition chars (s : string) : list ascii := list_ascii_of_string s.
Definition str (cs : list ascii) : string := string_of_list_ascii cs.

(* after "{{": the directive and the number of characters it takes (including the braces) *)
Definition directive_body (cs : list ascii) : option (tk * nat) :=
  let word_then_close (k : string -> tk) (pre : nat) (cs : list ascii) :=
    let '(w, r) := take_while is_word cs in
    match w, prefix_of (chars "}}") r with
    | _ :: _, Some _ => Some (k (str w), pre + List.length w + 2)
    | _, _ => None
    end in
  match prefix_of (chars "#if") cs with
  | Some r =>
      let '(sp, r') := take_while is_space r in
      match sp with
      | [] => None
      | _ => word_then_close KIf (2 + 3 + List.length sp) r'
      end
  | None =>
  match prefix_of (chars "#each") cs with
  | Some r =>
      let '(sp, r') := take_while is_space r in
      match sp with
      | [] => None
      | _ => word_then_close KEach (2 + 5 + List.length sp) r'
      end
  | None =>
  match prefix_of (chars "/if}}") cs with
  | Some _ => Some (KEndIf, 7)
  | None =>
  match prefix_of (chars "/each}}") cs with
  | Some _ => Some (KEndEach, 9)
  | None =>
  match prefix_of (chars "@index}}") cs with
  | Some _ => Some (KIndex, 10)
  | None =>
  match prefix_of (chars "@first}}") cs with
  | Some _ => Some (KFirst, 10)
  | None =>
  match prefix_of (chars "@last}}") cs with
  | Some _ => Some (KLast, 9)
  | None =>
      match word_then_close KVar 2 cs with
      | Some (KVar n, len) =>
          if String.eqb n "this" then Some (KThis, len)
          else if String.eqb n "else" then Some (KElse, len)
          else Some (KVar n, len)
      | other => other
      end
  end end end end end end end.

Definition directive_at (cs : list ascii) : option (tk * nat) :=
  match prefix_of (chars "{{") cs with
  | Some r => directive_body r
  | None => None
  end.

Definition flush (acc : list ascii) : list tk :=
  match acc with [] => [] | _ => [KLit (str (rev acc))] end.

Fixpoint lex_aux (cs : list ascii) (skip : nat) (acc : list ascii) : list tk :=
  match cs with
  | [] => flush acc
  | c :: r =>
      match skip with
      | S k => lex_aux r k acc
      | 0 =>
          match directive_at cs with
          | Some (t, len) => flush acc ++ t :: lex_aux r (len - 1) []
          | None => lex_aux r 0 (c :: acc)
          end
      end
  end.
Definition lex (s : string) : list tk := lex_aux (chars s) 0 [].

(* ---------------- passes on tokens ---------------- *)
Definition lit_or (t : tk) (o : option string) : tk := match o with Some v => KLit v | None => t end.

(* renderVariables: {{\w+}} is replaced when the name is a variable; {{this}} and {{else}} are of that form too *)
Definition var_pass (vars : list (string * string)) (ts : list tk) : list tk :=
  map (fun t => match t with
                | KVar n => lit_or t (assoc n vars)
                | KThis => lit_or t (assoc "this" vars)
                | KElse => lit_or t (assoc "else" vars)
                | _ => t
                end) ts.

(* the tokens up to the {{/each}} that closes depth d, and the tokens after it *)
Fixpoint split_each (ts : list tk) (d : nat) : option (list tk * list tk) :=
  match ts with
  | [] => None
  | KEach l :: r => match split_each r (S d) with Some (b, rest) => Some (KEach l :: b, rest) | None => None end
  | KEndEach :: r =>
      match d with
      | 0 => Some ([], r)
      | S d' => match split_each r d' with Some (b, rest) => Some (KEndEach :: b, rest) | None => None end
      end
  | t :: r => match split_each r d with Some (b, rest) => Some (t :: b, rest) | None => None end
  end.

Fixpoint split_first (p : tk -> bool) (ts : list tk) : option (list tk * list tk) :=
  match ts with
  | [] => None
  | t :: r => if p t then Some ([], r)
              else match split_first p r with Some (a, b) => Some (t :: a, b) | None => None end
  end.
Definition is_endif (t : tk) : bool := match t with KEndIf => true | _ => false end.
Definition is_else (t : tk) : bool := match t with KElse => true | _ => false end.

(* one conditional pass: {{#if c}} up to the first {{/if}}, split at the first {{else}}; what is kept is not
   scanned again *)
Fixpoint cond_scan (fuel : nat) (holds : string -> bool) (ts : list tk) : list tk :=
  match fuel with
  | 0 => ts
  | S k =>
      match ts with
      | [] => []
      | KIf c :: r =>
          match split_first is_endif r with
          | None => ts
          | Some (inner, rest) =>
              (match split_first is_else inner with
               | Some (th, el) => if holds c then th else el
               | None => if holds c then inner else []
               end) ++ cond_scan k holds rest
          end
      | t :: r => t :: cond_scan k holds r
      end
  end.

Definition cond_pass (conds : list (string * bool)) (ts : list tk) : list tk :=
  cond_scan (S (List.length ts)) (fun c => match assoc c conds with Some b => b | None => false end) ts.

Definition field_truthy (fs : list (string * fval)) (c : string) : bool :=
  match assoc c fs with
  | Some (FScalar _ b) => b
  | Some (FList _) => true
  | None => false
  end.
Definition cond_item (fs : list (string * fval)) (ts : list tk) : list tk :=
  cond_scan (S (List.length ts)) (field_truthy fs) ts.

Definition item_text (it : item) : string := match it with IStr s _ => s | IMap _ => "" end.

Fixpoint dec_digits (fuel n : nat) (acc : string) : string :=
  match fuel with
  | 0 => acc
  | S k =>
      let d := String (ascii_of_nat (48 + Nat.modulo n 10)) acc in
      if Nat.ltb n 10 then d else dec_digits k (Nat.div n 10) d
  end.
Definition dec (n : nat) : string := dec_digits (S n) n "".
Definition bool_str (b : bool) : string := if b then "true" else "false".

(* the four replacements the engine makes one after the other on the text of the loop body *)
Definition sp_this (it : item) (ts : list tk) : list tk :=
  map (fun t => match t with KThis => KLit (item_text it) | _ => t end) ts.
Definition sp_index (i : nat) (ts : list tk) : list tk :=
  map (fun t => match t with KIndex => KLit (dec i) | _ => t end) ts.
Definition sp_first (i : nat) (ts : list tk) : list tk :=
  map (fun t => match t with KFirst => KLit (bool_str (Nat.eqb i 0)) | _ => t end) ts.
Definition sp_last (i n : nat) (ts : list tk) : list tk :=
  map (fun t => match t with KLast => KLit (bool_str (Nat.eqb i (n - 1))) | _ => t end) ts.

Definition subst_field (k v : string) (ts : list tk) : list tk :=
  map (fun t => match t with KVar n => if String.eqb n k then KLit v else t | _ => t end) ts.
Fixpoint subst_fields (fs : list (string * fval)) (ts : list tk) : list tk :=
  match fs with
  | [] => ts
  | (k, FScalar v _) :: r => subst_fields r (subst_field k v ts)
  | (_, FList _) :: r => subst_fields r ts
  end.

Fixpoint nested_lists (fs : list (string * fval)) : list (string * list item) :=
  match fs with
  | [] => []
  | (k, FList l) :: r => (k, l) :: nested_lists r
  | _ :: r => nested_lists r
  end.

Fixpoint concat_mapi {A} (f : nat -> A -> list tk) (i : nat) (l : list A) : list tk :=
  match l with [] => [] | x :: r => f i x ++ concat_mapi f (S i) r end.

(* what one step does to the text between two steps of the engine: identity on tokens (token-level pipeline), or
   print and lex again (the engine's text) *)
Definition item_lists (it : item) : list (string * list item) :=
  match it with IMap fs => nested_lists fs | IStr _ _ => [] end.

Section Loops.
  Variable relex : list tk -> list tk.

  (* what the engine does for one item with the loop body in which the nested loops have been rendered *)
  Definition item_post (it : item) (i n : nat) (c1 : list tk) : list tk :=
    let c2 := relex (sp_last i n (relex (sp_first i (relex (sp_index i (relex (sp_this it c1))))))) in
    match it with
    | IMap fs => cond_item fs (relex (subst_fields fs c2))
    | IStr _ _ => c2
    end.

  (* renderLoopsNested *)
  Fixpoint loops (fuel : nat) (lists : list (string * list item)) (ts : list tk) : list tk :=
    match fuel with
    | 0 => ts
    | S k =>
        match ts with
        | [] => []
        | KEach l :: r =>
            match split_each r 0 with
            | None => ts
            | Some (body, rest) =>
                (match assoc l lists with
                 | Some items =>
                     concat_mapi (fun i it => item_post it i (List.length items) (relex (loops k (item_lists it) body))) 0 items
                 | None => []
                 end) ++ loops k lists rest
            end
        | t :: r => t :: loops k lists r
        end
    end.

  Definition render_with (e : env) (ts : list tk) : list tk :=
    let t1 := relex (var_pass (e_vars e) ts) in
    let t2 := relex (loops (S (List.length t1)) (e_lists e) t1) in
    cond_pass (e_conds e) t2.
End Loops.

(* the token-level pipeline (what the theorems are about) and the engine's text-level pipeline *)
Definition render_tk (e : env) (ts : list tk) : list tk := render_with (fun x => x) e ts.
Definition render_str (e : env) (s : string) : string := unlex (render_with (fun x => lex (unlex x)) e (lex s)).

(* ---------------- syntax trees and the documented semantics ---------------- *)
Inductive node :=
| NLit (s : string) | NVar (n : string) | NThis | NIndex | NFirst | NLast
| NIf (c : string) (th : list node) (el : option (list node))
| NEach (l : string) (body : list node).

Section Flat.
  Variable fl : node -> list tk.
  Definition flat_list (ns : list node) : list tk := flat_map fl ns.
End Flat.
Fixpoint flatten1 (nd : node) : list tk :=
  match nd with
  | NLit s => [KLit s]
  | NVar n => [KVar n]
  | NThis => [KThis] | NIndex => [KIndex] | NFirst => [KFirst] | NLast => [KLast]
  | NIf c th el =>
      KIf c :: flat_list flatten1 th ++ (match el with Some e => KElse :: flat_list flatten1 e | None => [] end) ++ [KEndIf]
  | NEach l body => KEach l :: flat_list flatten1 body ++ [KEndEach]
  end.
Definition flatten (ns : list node) : list tk := flat_list flatten1 ns.

(* the scalar field of an item (the first one of that name that is not a list) *)
Fixpoint scalar_field (fs : list (string * fval)) (x : string) : option string :=
  match fs with
  | [] => None
  | (k, FScalar v _) :: r => if String.eqb k x then Some v else scalar_field r x
  | (_, FList _) :: r => scalar_field r x
  end.

(* scope: the items of the enclosing loops, innermost first *)
Fixpoint scope_var (sc : list item) (n : string) : option string :=
  match sc with
  | [] => None
  | IMap fs :: r => match scalar_field fs n with Some v => Some v | None => scope_var r n end
  | IStr _ _ :: r => scope_var r n
  end.
Fixpoint inner_map (sc : list item) : option (list (string * fval)) :=
  match sc with
  | [] => None
  | IMap fs :: _ => Some fs
  | IStr _ _ :: r => inner_map r
  end.

Section Ref.
  Variable e : env.
  Section R.
    Variable rn : list item -> nat -> nat -> node -> string.
    Definition ref_list (sc : list item) (i n : nat) (ns : list node) : string :=
      sconcat (map (rn sc i n) ns).
  End R.

  (* the body of a loop once per item, innermost scope first *)
  Fixpoint ref_items (f : list item -> nat -> nat -> string) (sc : list item) (i n : nat) (items : list item) : string :=
    match items with
    | [] => ""
    | it :: r => f (it :: sc) i n ++ ref_items f sc (S i) n r
    end.

  Fixpoint ref_node (sc : list item) (i n : nat) (nd : node) {struct nd} : string :=
    match nd with
    | NLit s => s
    | NVar x =>
        match scope_var sc x with
        | Some v => v
        | None => match assoc x (e_vars e) with Some v => v | None => "{{" ++ x ++ "}}" end
        end
    | NThis => match sc with it :: _ => item_text it | [] => "{{this}}" end
    | NIndex => dec i
    | NFirst => bool_str (Nat.eqb i 0)
    | NLast => bool_str (Nat.eqb i (n - 1))
    | NIf c th el =>
        let holds := match inner_map sc with
                     | Some fs => field_truthy fs c
                     | None => match assoc c (e_conds e) with Some b => b | None => false end
                     end in
        if holds then ref_list ref_node sc i n th
        else match el with Some x => ref_list ref_node sc i n x | None => "" end
    | NEach l body =>
        let items := match assoc l (match sc with [] => e_lists e | it :: _ => item_lists it end) with
                     | Some x => x
                     | None => []
                     end in
        ref_items (fun sc' i' n' => ref_list ref_node sc' i' n' body) sc 0 (List.length items) items
    end.

  Definition ref (ns : list node) : string := ref_list ref_node [] 0 0 ns.
End Ref.

(* ---------------- the grammar the theorems are about ---------------- *)
Definition reserved (n : string) : bool := String.eqb n "this" || String.eqb n "else".

(* a node without directives of its own: text, a variable, the loop specials *)
Definition plain_node (nd : node) : bool :=
  match nd with
  | NIf _ _ _ | NEach _ _ => false
  | NVar n => negb (reserved n)
  | _ => true
  end.
Definition no_special (nd : node) : bool :=
  match nd with NThis | NIndex | NFirst | NLast => false | _ => true end.

(* conditionals have plain branches (no conditional inside a conditional, no loop inside a conditional); loops nest
   to any depth *)
Fixpoint wf_node (nd : node) : bool :=
  match nd with
  | NIf _ th el => forallb plain_node th && match el with Some x => forallb plain_node x | None => true end
  | NEach _ body => forallb wf_node body
  | other => plain_node other
  end.
(* at the top level the loop specials have no meaning *)
Definition wf_top (ns : list node) : bool :=
  forallb (fun nd => wf_node nd && no_special nd &&
                     match nd with
                     | NIf _ th el => forallb no_special th && match el with Some x => forallb no_special x | None => true end
                     | _ => true
                     end) ns.

Definition no_if (nd : node) : bool := match nd with NIf _ _ _ => false | _ => true end.

(* typing of a template against the data: a conditional in a loop body refers to the fields of the item, so it
   appears only where the items are maps *)
Fixpoint typed_node (lists : list (string * list item)) (nd : node) : bool :=
  match nd with
  | NEach l body =>
      match assoc l lists with
      | Some items =>
          forallb (fun it => match it with
                             | IStr _ _ => forallb no_if body
                             | IMap fs => forallb (typed_node (nested_lists fs)) body
                             end) items
      | None => true
      end
  | _ => true
  end.

(* no item anywhere in the data has a field named like a global variable *)
Fixpoint item_avoids (names : list string) (it : item) : bool :=
  match it with
  | IStr _ _ => true
  | IMap fs =>
      (fix go (fs : list (string * fval)) : bool :=
         match fs with
         | [] => true
         | (k, FScalar _ _) :: r => negb (existsb (String.eqb k) names) && go r
         | (k, FList l) :: r =>
             negb (existsb (String.eqb k) names) &&
             (fix each (l : list item) : bool := match l with [] => true | x :: l' => item_avoids names x && each l' end) l && go r
         end) fs
  end.
Definition env_ok (e : env) : bool :=
  let names := map fst (e_vars e) in
  negb (existsb reserved names) && forallb (fun p => forallb (item_avoids names) (snd p)) (e_lists e).
