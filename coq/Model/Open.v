(* M-OPEN: document.Open at the level of package parts (openFromZipReader).
   The container must be a readable ZIP archive and the main part must be present and readable as far as the reader
   walks (Model/Walk.v); every other part is optional: when it is missing or cannot be parsed, Open falls back to a
   default and succeeds. *)
From Coq Require Import String List Bool Arith.
Import ListNotations.
Require Import WZ.Model.Walk.
Open Scope string_scope.

Inductive pstat := PMissing | PBad | PGood.

Record pkg := mkPkg {
  p_zip_ok : bool;                 (* archive/zip can list and read every entry *)
  p_doc : option (bool * list tok);  (* word/document.xml: (the input ends cleanly, tokens) *)
  p_ct : pstat;                    (* [Content_Types].xml *)
  p_rels : pstat;                  (* _rels/.rels *)
  p_styles : pstat;                (* word/styles.xml *)
  p_docrels : pstat                (* word/_rels/document.xml.rels *)
}.

(* what the opened document holds: the reader's hits on the main part, and for the content types and the two
   relationship parts whether the part's own content is in use (true) or the default (false).  The styles part never
   makes Open fail either; whether its styles reach the style manager is not part of this model (on the pinned
   source they never do: the style parser rejects every prefixed root element and the predefined styles are used,
   while the part itself is carried over to the saved package) *)
Record doc := mkDoc { d_hits : list (string * string); d_ct : bool; d_rels : bool; d_docrels : bool }.

Definition part_good (s : pstat) : bool := match s with PGood => true | _ => false end.

Definition open_pkg (ws : list walker) (entry : string) (p : pkg) : option doc :=
  if negb (p_zip_ok p) then None
  else match p_doc p with
       | None => None
       | Some (eof, ts) =>
           match open_doc ws entry eof ts with
           | OpenOk hits => Some (mkDoc hits (part_good (p_ct p)) (part_good (p_rels p)) (part_good (p_docrels p)))
           | _ => None
           end
       end.
