(* Correspondence checker for M-MDW: the blocks of a document, the export options and the Markdown the exporter
   returned. *)
From Coq Require Import String List Bool Arith.
From WZ Require Import Model.MdWrite.
Import ListNotations.
Open Scope string_scope.

Record case := mkCase { c_opts : wopts; c_blocks : list wblock; c_got : string }.

Fixpoint mismatches_from (cs : list case) (k : nat) : list (nat * nat) :=
  match cs with
  | [] => []
  | c :: rest =>
      if String.eqb (write (c_opts c) (c_blocks c)) (c_got c) then mismatches_from rest (S k)
      else (k, 1) :: mismatches_from rest (S k)
  end.
Definition mismatches (cs : list case) := mismatches_from cs 0.
