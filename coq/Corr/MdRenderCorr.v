(* Correspondence checker for M-MD: the syntax tree of a Markdown text (as the parser built it) and the paragraphs
   and tables of the document the converter returned. *)
From Coq Require Import String List Bool Arith.
From WZ Require Import Model.MdRender.
Import ListNotations.
Open Scope string_scope.

Record case := mkCase { c_tables : bool; c_doc : list blk; c_got : list dblock }.

Definition fmt_eqb (a b : fmt) : bool :=
  Bool.eqb (f_bold a) (f_bold b) && Bool.eqb (f_italic a) (f_italic b) && Bool.eqb (f_strike a) (f_strike b) &&
  Bool.eqb (f_code a) (f_code b) && Bool.eqb (f_link a) (f_link b) && Bool.eqb (f_math a) (f_math b).

Fixpoint runs_eqb (a b : list (string * fmt)) : bool :=
  match a, b with
  | [], [] => true
  | (s, f) :: a', (t, g) :: b' => String.eqb s t && fmt_eqb f g && runs_eqb a' b'
  | _, _ => false
  end.
Fixpoint list_eqb {A} (eq : A -> A -> bool) (a b : list A) : bool :=
  match a, b with
  | [], [] => true
  | x :: a', y :: b' => eq x y && list_eqb eq a' b'
  | _, _ => false
  end.

(* runs without text are not compared (AddParagraph leaves an empty first run) *)
Definition drop_empty (rs : list (string * fmt)) : list (string * fmt) :=
  filter (fun r => negb (String.eqb (fst r) "")) rs.

(* a heading carries the direct formatting of its level (AddHeadingParagraph): only its text is compared *)
Definition is_heading (s : string) : bool := String.eqb (substring 0 7 s) "Heading".

Definition dblock_eqb (a b : dblock) : bool :=
  match a, b with
  | DPara s h r, DPara t i q =>
      String.eqb s t && Bool.eqb h i &&
      (if is_heading s then String.eqb (sconcat (map fst r)) (sconcat (map fst q)) else runs_eqb (drop_empty r) (drop_empty q))
  | DTable c al, DTable d bl => list_eqb (list_eqb String.eqb) c d && list_eqb (list_eqb Nat.eqb) al bl
  | _, _ => false
  end.

Fixpoint first_diff (a b : list dblock) (k : nat) : nat :=
  match a, b with
  | [], [] => 0
  | x :: a', y :: b' => if dblock_eqb x y then first_diff a' b' (S k) else S k
  | _, _ => S k
  end.

(* per case: 0 = agrees, otherwise the index (from 1) of the first block that differs *)
Fixpoint mismatches_from (cs : list case) (k : nat) : list (nat * nat) :=
  match cs with
  | [] => []
  | c :: rest =>
      match first_diff (render (c_tables c) (c_doc c)) (c_got c) 0 with
      | 0 => mismatches_from rest (S k)
      | d => (k, d) :: mismatches_from rest (S k)
      end
  end.
Definition mismatches (cs : list case) := mismatches_from cs 0.
