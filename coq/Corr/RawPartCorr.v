(* Correspondence checker for M-RAW: a numbering / footnotes / endnotes part of an opened package, tokenised by the
   harness (kind, local name, the text each token was read from), the namespace the library declares for w, and the
   part the library wrote after a list item or a note had been added.

   The model does not know the text of the new definitions, so the written part is compared with what the model puts
   in front of them and behind them:  notes     = open tag, kept children | new notes | end tag
                                      numbering = open tag, leading, kept abstract definitions | new ones |
                                                  kept instances | new ones | trailing, end tag
   The first new definition begins with the id the model computes (next_abs_id, next_num_id, next_note_id).
   Code 1: the model takes the part over, the library did not (or the other way round); 2: the front differs;
   3: the back differs; 4 (numbering): the kept instances are not in the middle. *)
From Coq Require Import String Ascii List Bool Arith ZArith.
From WZ Require Import Model.RawPart.
Import ListNotations.
Open Scope string_scope.
Open Scope list_scope.

Record case := mkCase {
  c_numbering : bool;           (* numbering part (true) or notes part (false) *)
  c_root : string;              (* expected local name of the root *)
  c_note : string;              (* local name of a note (notes parts) *)
  c_toks : option (list tok);   (* None: the tokeniser reported an error *)
  c_ns : string;
  c_adopted : bool;             (* the written part still holds the text of the first child *)
  c_out : string                (* the written part without its XML declaration *)
}.

Definition suffixb (s l : list ascii) : bool := prefixb (rev s) (rev l).

(* what the library writes first for a new definition: its start tag with the id the model predicts *)
Definition new_abs_head (cs : list child) : string := (nl ++ "  <w:abstractNum w:abstractNumId=""" ++ dec (next_abs_id cs) ++ """>")%string.
Definition new_num_head (cs : list child) : string := (nl ++ "  <w:num w:numId=""" ++ dec (next_num_id cs) ++ """>")%string.
Definition new_note_head (note : string) (cs : list child) : string :=
  (nl ++ "  <w:" ++ note ++ " w:id=""" ++ dec (next_note_id note cs) ++ """>")%string.

Definition check (c : case) : nat :=
  let out := chars (c_out c) in
  match c_toks c with
  | None => if c_adopted c then 1 else 0
  | Some ts =>
      match read_raw ts (c_root c) with
      | None => if c_adopted c then 1 else 0
      | Some p =>
          if c_numbering c then
            match p_children p with
            | [] => if c_adopted c then 1 else 0
            | cs =>
                if negb (c_adopted c) then 1
                else if negb (prefixb (chars (open_tag p (c_ns c) ++ kept (leading cs) ++ kept (filter is_abs cs) ++ new_abs_head cs)) out) then 2
                else if negb (suffixb (chars (kept (trailing cs) ++ nl ++ close_tag p)) out) then 3
                else if negb (containsb (chars (kept (filter is_num cs) ++ new_num_head cs)) out) then 4
                else 0
            end
          else
            if negb (adopts_notes (c_note c) p) then (if c_adopted c then 1 else 0)
            else if negb (c_adopted c) then 1
            else if negb (prefixb (chars (open_tag p (c_ns c) ++ kept (p_children p) ++ new_note_head (c_note c) (p_children p))) out) then 2
            else if negb (suffixb (chars (nl ++ close_tag p)) out) then 3
            else 0
      end
  end.

Fixpoint mismatches_from (cs : list case) (k : nat) : list (nat * nat) :=
  match cs with
  | [] => []
  | c :: rest => match check c with
                 | O => mismatches_from rest (S k)
                 | x => (k, x) :: mismatches_from rest (S k)
                 end
  end.
Definition mismatches (cs : list case) := mismatches_from cs 0.
