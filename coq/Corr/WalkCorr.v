(* Correspondence checker for M-WALK / M-OPEN over the walker table of Gen/Walkers.v. *)
From Coq Require Import String List Bool Arith.
From WZ Require Import Model.Walk Model.Open Gen.Walkers.
Import ListNotations.
Open Scope string_scope.

Definition entry := entry_walker.

(* short constructors for the case files *)
Definition s := TStart.
Definition e := TEnd.
Definition o := TOther.

(* observed: did Open fail; per (walker, element) the number of such elements found in the opened body; whether the
   optional parts' own content is in use *)
Record case := mkCase {
  c_pkg : pkg;
  c_err : bool;
  c_counts : list (string * string * nat);
  c_parts : list bool   (* content types, package relationships, document relationships *)
}.

(* 0 = agrees; 1 = error/success differs; 2 = a count differs; 3 = an optional part differs; 4 = the model is stuck *)
Definition check (c : case) : nat :=
  match open_pkg walkers entry (c_pkg c) with
  | None => if c_err c then 0 else 1
  | Some d =>
      if c_err c then 1
      else if negb (forallb (fun x => match x with (w, n, k) => Nat.eqb (count_hits w n (d_hits d)) k end) (c_counts c)) then 2
      else match c_parts c with
           | [a; b; dd] => if Bool.eqb a (d_ct d) && Bool.eqb b (d_rels d) && Bool.eqb dd (d_docrels d) then 0 else 3
           | _ => 0
           end
  end.

Fixpoint mismatches_from (cs : list case) (k : nat) : list (nat * nat) :=
  match cs with
  | [] => []
  | c :: rest => match check c with
                 | 0 => mismatches_from rest (S k)
                 | x => (k, x) :: mismatches_from rest (S k)
                 end
  end.
Definition mismatches (cs : list case) := mismatches_from cs 0.
