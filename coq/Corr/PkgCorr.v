(* Correspondence checker for M-PKG: a case is an initial package (a new document, or the
   projection of a foreign package that is opened) and a list of calls on up to three document
   registers (so that several documents rendered from one template, and documents saved after
   later calls on other documents, are covered); every Save carries the projection of the bytes
   the implementation wrote, which must equal the model's. *)
From Coq Require Import List Bool Arith NArith ZArith.
From WZ Require Import Model.Pkg.
Import ListNotations.

Record view := mkView {
  v_rels : list (rid * rkind * target);    (* word/_rels/document.xml.rels, file order *)
  v_parts : list pname;
  v_defaults : list ext;
  v_overrides : list pname;
  v_hrefs : list (hfkind * rid);
  v_frefs : list (hfkind * rid);
  v_pics : list rid;                       (* r:embed of every a:blip in the main part *)
  v_media : list (pname * N)               (* media part -> atom of the bytes it holds *)
}.

Definition rel_eqb (a : rid * rkind * target) (b : rel) : bool :=
  let '(i, k, t) := a in rid_eqb i (r_id b) && rkind_eqb k (r_kind b) && target_eqb t (r_target b).

Fixpoint list_eqb {A B} (f : A -> B -> bool) (l : list A) (m : list B) : bool :=
  match l, m with
  | [], [] => true
  | a :: l', b :: m' => f a b && list_eqb f l' m'
  | _, _ => false
  end.

Definition subset {A B} (f : A -> B -> bool) (l : list A) (m : list B) : bool :=
  forallb (fun a => existsb (f a) m) l.
Definition same_set {A} (f : A -> A -> bool) (l m : list A) : bool :=
  subset f l m && subset f m l.

Definition ref_eqb (a b : hfkind * rid) : bool := hf_eqb (fst a) (fst b) && rid_eqb (snd a) (snd b).
Definition media_eqb (a b : pname * N) : bool := pname_eqb (fst a) (fst b) && N.eqb (snd a) (snd b).

Definition is_media (p : pname) : bool :=
  match p with PMedia _ _ => true | PForeign a _ => N.leb 1000 a && N.ltb a 2000 | _ => false end.

Definition view_ok (k : pkg) (v : view) : bool :=
  list_eqb rel_eqb (v_rels v) (saved_rels k)
  && same_set pname_eqb (v_parts v) (saved_part_names k)
  && same_set ext_eqb (v_defaults v) (defaults k)
  && same_set pname_eqb (v_overrides v) (overrides k)
  && list_eqb ref_eqb (v_hrefs v) (hrefs k)
  && list_eqb ref_eqb (v_frefs v) (frefs k)
  && same_set rid_eqb (v_pics v) (map fst (pics k))
  && Nat.eqb (length (v_pics v)) (length (pics k))
  && same_set media_eqb (v_media v) (filter (fun q => is_media (fst q)) (parts k)).

(* the state of a document opened from a package with this projection *)
Definition is_styles (r : rid * rkind * target) : bool := rkind_eqb (snd (fst r)) KStyles.
Definition open_view (v : view) : pkg :=
  let rels := map (fun r => mkRel (fst (fst r)) (snd (fst r)) (snd r)) (filter (fun r => negb (is_styles r)) (v_rels v)) in
  let sid := match filter is_styles (v_rels v) with r :: _ => Some (fst (fst r)) | [] => None end in
  let atom_of p := match find (fun q => pname_eqb p (fst q)) (v_media v) with Some q => snd q | None => 0%N end in
  let ps := map (fun p => (p, atom_of p)) (v_parts v) in
  let pic_atom i :=
    match find (fun r => rid_eqb i (r_id r)) rels with
    | Some r => match r_target r with TPart p => atom_of p | TExternal _ => 0%N end
    | None => 0%N
    end in
  mkPkg rels sid ps (v_defaults v) (v_overrides v) (max_media ps + 1)%Z (v_hrefs v) (v_frefs v)
        (map (fun i => (i, pic_atom i)) (v_pics v)) [].

Inductive hop :=
| On (r : nat) (o : op)
| Render (src dst : nat) (imgs : list (N * (imgfmt * N)))
| Save (r : nat) (v : view).

Definition regs := list (option pkg).
Fixpoint set_reg (r : nat) (k : option pkg) (l : regs) : regs :=
  match r, l with
  | O, _ :: rest => k :: rest
  | O, [] => [k]
  | S r', x :: rest => x :: set_reg r' k rest
  | S r', [] => None :: set_reg r' k []
  end.
Definition get_reg (r : nat) (l : regs) : option pkg := match nth_error l r with Some x => x | None => None end.

Record case := mkCase { c_init : option view; c_ops : list hop }.

(* index of the first step where the model cannot follow or a Save differs *)
Fixpoint first_diff (rs : regs) (ops : list hop) (i : nat) : option nat :=
  match ops with
  | [] => None
  | h :: rest =>
      match h with
      | On r o =>
          match get_reg r rs with
          | Some k => match step k o with
                      | Some k' => first_diff (set_reg r (Some k') rs) rest (S i)
                      | None => Some i
                      end
          | None => Some i
          end
      | Render src dst imgs =>
          match get_reg src rs with
          | Some k => match render k imgs with
                      | Some k' => first_diff (set_reg dst (Some k') rs) rest (S i)
                      | None => Some i
                      end
          | None => Some i
          end
      | Save r v =>
          match get_reg r rs with
          | Some k => if view_ok k v then first_diff rs rest (S i) else Some i
          | None => Some i
          end
      end
  end.

Definition init_regs (c : case) : regs :=
  [Some (match c_init c with Some v => open_view v | None => new_pkg end)].

(* an opened package must satisfy the (decidable) invariant the theorems start from; 999 marks a
   case whose starting package does not *)
Definition init_ok (c : case) : bool :=
  match c_init c with Some v => inv_b (open_view v) | None => true end.

Fixpoint mismatches_from (cs : list case) (n : nat) : list (nat * nat) :=
  match cs with
  | [] => []
  | c :: rest =>
      match (if init_ok c then first_diff (init_regs c) (c_ops c) 0 else Some 999) with
      | None => mismatches_from rest (S n)
      | Some i => (n, i) :: mismatches_from rest (S n)
      end
  end.
Definition mismatches (cs : list case) := mismatches_from cs 0.
