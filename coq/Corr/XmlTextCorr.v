(* Correspondence checker for M-XMLESC: a case is (text, what xml.EscapeText wrote, what xml.Decoder returned
   for it as character data). *)
From Coq Require Import List NArith Bool.
From WZ Require Import Model.XmlText.
Import ListNotations.
Open Scope N_scope.

Fixpoint bytes_eqb (a b : list N) : bool :=
  match a, b with
  | [], [] => true
  | x :: a', y :: b' => (x =? y) && bytes_eqb a' b'
  | _, _ => false
  end.

(* 0 = agrees; 1 = escape differs from EscapeText; 2 = unescape differs from the decoder *)
Definition check (c : list N * list N * list N) : nat :=
  let '(s, e, d) := c in
  if negb (bytes_eqb (escape s) e) then 1%nat
  else match unescape e with
       | Some d' => if bytes_eqb d' d then 0%nat else 2%nat
       | None => 2%nat
       end.

Fixpoint mismatches_from (cs : list (list N * list N * list N)) (k : nat) : list (nat * nat) :=
  match cs with
  | [] => []
  | c :: rest => match check c with
                 | O => mismatches_from rest (S k)
                 | e => (k, e) :: mismatches_from rest (S k)
                 end
  end.
Definition mismatches (cs : list (list N * list N * list N)) := mismatches_from cs 0.
