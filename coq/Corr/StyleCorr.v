(* Correspondence checker for M-STYLE: a case is a registry and a list of queries with the settings
   the implementation returned (identity of the setting object per field). *)
From Coq Require Import List Bool Arith NArith String.
From WZ Require Import Gen.StyleFields Model.Style.
Import ListNotations.

Record qobs := mkQ {
  q_id : N;
  q_found : bool;
  q_ppr : option (list (string * N));   (* None = no paragraph properties at all *)
  q_rpr : option (list (string * N));
  q_tbl : option N;
  q_unchanged : bool                    (* registry snapshot equal before/after the query *)
}.

Definition optN_eqb (a b : option N) : bool :=
  match a, b with Some x, Some y => N.eqb x y | None, None => true | _, _ => false end.
Definition props_eqb (fields : list string) (m o : option props) : bool :=
  match m, o with
  | None, None => true
  | Some m, Some o => forallb (fun f => optN_eqb (get f m) (get f o)) fields
  | _, _ => false
  end.

Definition q_ok (reg : registry) (q : qobs) : bool :=
  q_unchanged q &&
  match resolve_top reg (q_id q) with
  | NotFound => negb (q_found q)
  | OutOfFuel => false
  | Resolved s => q_found q && props_eqb ppr_fields (s_ppr s) (q_ppr q) && props_eqb rpr_fields (s_rpr s) (q_rpr q)
                  && optN_eqb (s_tbl s) (q_tbl q)
  end.

(* a case is a history on one style manager: styles are added / replaced (AddStyle), edited in
   place through the pointer GetStyle returns, removed, and queried in between *)
Inductive sop :=
| SSet (id : N) (s : sty)       (* AddStyle, or an in-place edit leaving the style with this content *)
| SRemove (id : N)
| SQuery (q : qobs).

Fixpoint reg_set (reg : registry) (id : N) (s : sty) : registry :=
  match reg with
  | [] => [(id, s)]
  | (i, x) :: r => if N.eqb i id then (i, s) :: r else (i, x) :: reg_set r id s
  end.
Fixpoint reg_remove (reg : registry) (id : N) : registry :=
  match reg with
  | [] => []
  | (i, x) :: r => if N.eqb i id then reg_remove r id else (i, x) :: reg_remove r id
  end.

Definition case := list sop.
Fixpoint first_bad (reg : registry) (ops : list sop) (i : nat) : option nat :=
  match ops with
  | [] => None
  | SSet id s :: r => first_bad (reg_set reg id s) r (S i)
  | SRemove id :: r => first_bad (reg_remove reg id) r (S i)
  | SQuery q :: r => if q_ok reg q then first_bad reg r (S i) else Some i
  end.
Fixpoint mismatches_from (cs : list case) (k : nat) : list (nat * nat) :=
  match cs with
  | [] => []
  | c :: rest => match first_bad [] c 0 with
                 | None => mismatches_from rest (S k)
                 | Some i => (k, i) :: mismatches_from rest (S k)
                 end
  end.
Definition mismatches (cs : list case) := mismatches_from cs 0.
