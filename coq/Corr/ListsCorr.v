(* Correspondence checker for M-NUM (lists, notes, table of contents). *)
From Coq Require Import List Bool Arith NArith ZArith String.
From WZ Require Import Model.Lists.
Import ListNotations.

Definition defobs : Type := option (option N * option ltext * Z).

Record check := mkCheck {
  k_items : list (nat * nat * defobs);     (* every list paragraph of the saved main part: numId, ilvl, what numbering.xml defines there *)
  k_fn : list (nat * N); k_en : list (nat * N);   (* notes in the saved notes parts (separator excluded), sorted by id *)
  k_fcount : nat; k_ecount : nat;           (* GetFootnoteCount / GetEndnoteCount *)
  k_toc : option (list (N * nat));          (* entries of the table of contents in the saved main part *)
  k_headings : list (N * nat)               (* ListHeadings() *)
}.

Inductive cop :=
| OItem (c : lcfg)
| ONote (endnote : bool) (text : N)
| ORestart (numid : option nat)            (* RestartNumbering with an id that is a number, or with any other string *)
| OReopen                                  (* save, open the bytes, go on with the opened document (no table of contents so far) *)
| ORemove (endnote : bool) (id : nat) (ok : bool)
| OHeading (level : Z) (text : N)           (* AddHeadingParagraph *)
| OStyled (style : string) (text : N)       (* AddParagraph + SetStyle *)
| OPara (text : N)
| OGen (maxl : nat)
| OUpd (ok : bool)
| OCheck (k : check).

Record mstate := mkM { m_n : nstate; m_items : list (nat * nat); m_fn : notes; m_en : notes; m_t : tstate }.
Definition m_init : mstate := mkM n_init [] notes_init notes_init t_init.

Definition optN_eqb (a b : option N) := match a, b with Some x, Some y => N.eqb x y | None, None => true | _, _ => false end.
Definition ltext_eqb (a b : option ltext) :=
  match a, b with
  | Some (TSym x), Some (TSym y) => N.eqb x y
  | Some (TPat x), Some (TPat y) => Nat.eqb x y
  | None, None => true
  | _, _ => false
  end.
Definition def_eqb (a b : defobs) :=
  match a, b with
  | Some (f1, t1, s1), Some (f2, t2, s2) => optN_eqb f1 f2 && ltext_eqb t1 t2 && Z.eqb s1 s2
  | None, None => true
  | _, _ => false
  end.
Fixpoint list_eqb {A B} (f : A -> B -> bool) (l : list A) (m : list B) : bool :=
  match l, m with [], [] => true | a :: l', b :: m' => f a b && list_eqb f l' m' | _, _ => false end.
Definition note_eqb (a b : nat * N) := Nat.eqb (fst a) (fst b) && N.eqb (snd a) (snd b).
Definition entry_eqb (a b : N * nat) := N.eqb (fst a) (fst b) && Nat.eqb (snd a) (snd b).

Definition check_ok (m : mstate) (k : check) : bool :=
  list_eqb (fun it ob => let '(n, l, d) := ob in Nat.eqb (fst it) n && Nat.eqb (snd it) l && def_eqb (level_def (m_n m) (fst it) (snd it)) d)
           (m_items m) (k_items k)
  && list_eqb note_eqb (live (m_fn m)) (k_fn k) && list_eqb note_eqb (live (m_en m)) (k_en k)
  && Nat.eqb (List.length (live (m_fn m))) (k_fcount k) && Nat.eqb (List.length (live (m_en m))) (k_ecount k)
  && match t_toc (m_t m), k_toc k with
     | Some a, Some b => list_eqb entry_eqb a b
     | None, None => true
     | _, _ => false
     end
  && list_eqb entry_eqb (collect 9 (t_body (m_t m))) (k_headings k).

Definition cstep (m : mstate) (o : cop) : option mstate :=
  match o with
  | OItem c => let '(n', it) := add_item (m_n m) c in
               Some (mkM n' (m_items m ++ [it]) (m_fn m) (m_en m) (add_para (m_t m) 0 1%N))
  | ONote e t => Some (if e then mkM (m_n m) (m_items m) (m_fn m) (add_note (m_en m) t) (add_para (m_t m) 0 1%N)
                       else mkM (m_n m) (m_items m) (add_note (m_fn m) t) (m_en m) (add_para (m_t m) 0 1%N))
  | OReopen =>
      match t_toc (m_t m) with
      | Some _ => None
      | None => Some (mkM (reopen (m_n m)) (m_items m) (reopen_notes (m_fn m)) (reopen_notes (m_en m)) (m_t m))
      end
  | ORestart id =>
      (* an argument that is not a number names no instance *)
      let n' := match id with Some i => restart (m_n m) i | None => restart (m_n m) 0 end in
      Some (mkM n' (m_items m) (m_fn m) (m_en m) (m_t m))
  | ORemove e id ok =>
      let '(s', ok') := remove_note (if e then m_en m else m_fn m) id in
      if Bool.eqb ok ok' then Some (if e then mkM (m_n m) (m_items m) (m_fn m) s' (m_t m) else mkM (m_n m) (m_items m) s' (m_en m) (m_t m))
      else None
  | OHeading l t => Some (mkM (m_n m) (m_items m) (m_fn m) (m_en m) (add_para (m_t m) (heading_style_level l) t))
  | OStyled s t => Some (mkM (m_n m) (m_items m) (m_fn m) (m_en m) (add_para (m_t m) (style_level s) t))
  | OPara t => Some (mkM (m_n m) (m_items m) (m_fn m) (m_en m) (add_para (m_t m) 0 t))
  | OGen l => Some (mkM (m_n m) (m_items m) (m_fn m) (m_en m) (gen_toc (m_t m) l))
  | OUpd ok => let '(t', ok') := upd_toc (m_t m) in
               if Bool.eqb ok ok' then Some (mkM (m_n m) (m_items m) (m_fn m) (m_en m) t') else None
  | OCheck k => if check_ok m k then Some m else None
  end.

Definition case := list cop.
Fixpoint first_bad (m : mstate) (ops : list cop) (i : nat) : option nat :=
  match ops with
  | [] => None
  | o :: r => match cstep m o with Some m' => first_bad m' r (S i) | None => Some i end
  end.
Fixpoint mismatches_from (cs : list case) (k : nat) : list (nat * nat) :=
  match cs with
  | [] => []
  | c :: rest => match first_bad m_init c 0 with None => mismatches_from rest (S k) | Some i => (k, i) :: mismatches_from rest (S k) end
  end.
Definition mismatches (cs : list case) := mismatches_from cs 0.
