(* Correspondence checker for M-EXTENT: for every picture of every saved document whose addition the harness made
   with a known pixel size and configuration, the extent found in the document against the model's. *)
From Coq Require Import ZArith List Bool.
From WZ Require Import Model.Extent.
Import ListNotations.
Open Scope Z_scope.

Record case := mkCase { c_pw : Z; c_ph : Z; c_cfg : option size_cfg; c_cx : Z; c_cy : Z }.

(* the implementation works in floating point and truncates: the given dimension may be one EMU off the exact
   product, and the derived dimension is derived from the dimension as displayed - one EMU of tolerance on each *)
Definition near (a b : Z) : bool := Z.abs (a - b) <=? 1.

Definition check (c : case) : nat :=
  let '(mx, my) := extent (c_pw c) (c_ph c) (c_cfg c) in
  if near mx (c_cx c) && near my (c_cy c) then 0%nat
  else
    match c_cfg c with
    | Some g =>
        if (0 <? s_w g) && negb (0 <? s_h g) && s_keep g && near mx (c_cx c) && near (c_cx c * c_ph c / c_pw c) (c_cy c) then 0%nat
        else if negb (0 <? s_w g) && (0 <? s_h g) && s_keep g && near my (c_cy c) && near (c_cy c * c_pw c / c_ph c) (c_cx c) then 0%nat
        else 1%nat
    | None => 1%nat
    end.

Fixpoint mismatches_from (cs : list case) (k : nat) : list (nat * nat) :=
  match cs with
  | [] => []
  | c :: rest => match check c with
                 | O => mismatches_from rest (S k)
                 | x => (k, x) :: mismatches_from rest (S k)
                 end
  end.
Definition mismatches (cs : list case) := mismatches_from cs 0.
