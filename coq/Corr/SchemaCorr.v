(* Correspondence checker for M-SCHEMA: the tables of Gen/Schema.v instantiate the model; every case is a
   document built through the API (its body as a tree, before), what document.Open returned for the
   saved bytes (after) and what a second Save/Open cycle returned (after2). *)
From Coq Require Import String List Bool Arith.
From WZ Require Import Model.Schema Gen.Schema.
Import ListNotations.
Open Scope string_scope.

(* fields the reader fills without looking at an element name: the element has no attributes and no
   content, and the reader creates it together with its parent *)
Definition implicit : list (string * string) := [("Stretch", "FillRect"); ("PrstGeom", "AvLst")].
(* element names that the reader of one list-owning type reacts to itself (owner, name, element type): the content
   of a structured document tag may hold text runs beside the body-level elements *)
Definition any_extra : list (string * string * string) := [("SDTContent", "r", "Run")].

Definition I_fields_of := g_fields_of w_schema.
Definition I_xmlname_of := g_xmlname_of w_xmlname.
Definition I_cov := g_cov r_known implicit.
(* element types that the reader chooses by looking at the content of the element, not at its name: a w:p with a
   formula inside is read back as a formula paragraph, any other w:p as a paragraph.  The dispatch by name of the model
   knows the ordinary type only; values that hold a formula paragraph do not conform (not_misread) and are compared by
   the oracle *)
Definition content_typed : list string := ["MathParagraph"].
Definition I_roots : list string := filter (fun t => negb (memb t content_typed)) w_roots.
Definition I_elty := g_elty w_xmlname I_roots r_known r_any_cases any_extra.

Definition I_write := write I_fields_of I_xmlname_of.
Definition I_read := read I_fields_of I_cov I_elty.
Definition I_erase := erase I_fields_of I_xmlname_of I_cov I_elty.
Definition I_conforms := conforms I_fields_of I_xmlname_of I_elty.
Definition I_intact := intact I_fields_of I_xmlname_of I_cov I_elty.
Definition I_uncovered := g_uncovered w_schema w_xmlname w_roots r_known implicit.
Definition I_reachable := g_reachable w_schema w_roots.

(* sparse notation of the harness: only the non-empty fields of a struct, by position *)
Inductive st := SS (s : string) | SL (l : list st) | SN (ty : string) (fs : list (nat * st)).

Definition zero_of (sp : fspec) : dt :=
  match f_kind sp, f_shape sp with
  | KElem, SStruct | KElem, SAny => DL []
  | _, _ => DS ""
  end.

Fixpoint find_pos (i : nat) (fs : list (nat * dt)) : option dt :=
  match fs with
  | [] => None
  | (j, v) :: r => if Nat.eqb i j then Some v else find_pos i r
  end.
Fixpoint fill (i : nat) (specs : list fspec) (fs : list (nat * dt)) : list dt :=
  match specs with
  | [] => []
  | sp :: ss => (match find_pos i fs with Some v => v | None => zero_of sp end) :: fill (S i) ss fs
  end.

Fixpoint expand (s : st) {struct s} : dt :=
  match s with
  | SS x => DS x
  | SL l => DL (map expand l)
  | SN ty fs => DN ty (fill 0 (I_fields_of ty) (map (fun p => match p with (j, v) => (j, expand v) end) fs))
  end.

Fixpoint dt_eqb (a b : dt) {struct a} : bool :=
  match a, b with
  | DS x, DS y => String.eqb x y
  | DL l, DL m =>
      (fix go (l m : list dt) : bool :=
         match l, m with [], [] => true | x :: l', y :: m' => dt_eqb x y && go l' m' | _, _ => false end) l m
  | DN t l, DN u m =>
      String.eqb t u &&
      (fix go (l m : list dt) : bool :=
         match l, m with [], [] => true | x :: l', y :: m' => dt_eqb x y && go l' m' | _, _ => false end) l m
  | _, _ => false
  end.

Record case := mkCase { c_before : st; c_after : st; c_after2 : st }.

(* 0 = agrees; 1 = the value does not conform to the schema of Gen/Schema.v; 2 = the model's read (write d)
   is not what Open returned; 3 = a second cycle changed the value although the model says it cannot *)
Definition check (c : case) : nat :=
  let d := expand (c_before c) in
  let a := expand (c_after c) in
  let a2 := expand (c_after2 c) in
  if negb (I_conforms d) then 1
  else if negb (dt_eqb (I_read (d_ty d) (I_write "body" d)) a) then 2
  else if negb (dt_eqb a a2) then 3
  else 0.

Fixpoint mismatches_from (cs : list case) (k : nat) : list (nat * nat) :=
  match cs with
  | [] => []
  | c :: rest => match check c with
                 | 0 => mismatches_from rest (S k)
                 | e => (k, e) :: mismatches_from rest (S k)
                 end
  end.
Definition mismatches (cs : list case) := mismatches_from cs 0.

(* how many of the cases hold nothing in an uncovered place (for the evidence) *)
Definition count_intact (cs : list case) : nat :=
  List.length (filter (fun c => I_intact (expand (c_before c))) cs).
