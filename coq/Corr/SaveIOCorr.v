(* Correspondence checker for M-IO: each case is one Save of a package of `len` bytes onto a target
   that already holds `old` bytes, with a write failure injected at byte offset k (or none). *)
From Coq Require Import List Bool Arith NArith.
From WZ Require Import Model.SaveIO.
Import ListNotations.

(* sizes are given as N (the files have 10^5 bytes) and converted *)
Record case := mkCase { c_len : N; c_k : option N; c_old : N; c_ok : bool; c_file_len : N }.

Definition case_ok (c : case) : bool :=
  let '(ok, flen) := save checks_of_source (option_map N.to_nat (c_k c)) false (N.to_nat (c_old c)) [W (N.to_nat (c_len c)) 0] 0 in
  Bool.eqb ok (c_ok c) && (negb ok || N.eqb (N.of_nat flen) (c_file_len c)).

Fixpoint mismatches_from (cs : list case) (n : nat) : list (nat * nat) :=
  match cs with
  | [] => []
  | c :: r => if case_ok c then mismatches_from r (S n) else (n, 0) :: mismatches_from r (S n)
  end.
Definition mismatches (cs : list case) := mismatches_from cs 0.
