(* Correspondence checker for M-REFS. *)
From Coq Require Import List Bool Arith NArith.
From WZ Require Import Model.Refs.
Import ListNotations.

Inductive cop :=
| Do (o : rop)
| Check (defined used : list N).   (* a save: ids defined by styles.xml, ids used by document.xml *)

Definition subset (l m : list N) : bool := forallb (fun x => memN x m) l.
Definition same_set (l m : list N) : bool := subset l m && subset m l.

Record case := mkCase { c_init : rstate; c_ops : list cop }.

Fixpoint first_bad (s : rstate) (ops : list cop) (i : nat) : option nat :=
  match ops with
  | [] => None
  | Do o :: r => first_bad (step s o) r (S i)
  | Check d u :: r =>
      if same_set d (save_part s) && same_set u (used s) then first_bad (step s Save) r (S i) else Some i
  end.
Fixpoint mismatches_from (cs : list case) (k : nat) : list (nat * nat) :=
  match cs with
  | [] => []
  | c :: rest => match first_bad (c_init c) (c_ops c) 0 with
                 | None => mismatches_from rest (S k)
                 | Some i => (k, i) :: mismatches_from rest (S k)
                 end
  end.
Definition mismatches (cs : list case) := mismatches_from cs 0.
