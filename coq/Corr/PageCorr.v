(* Correspondence checker for M-PAGE: runs the model on the op list of each case and compares,
   after every op, with what the harness observed on the implementation. *)
From Coq Require Import ZArith List String Bool.
From WZ Require Import Gen.PageConsts Model.Page.
Import ListNotations.
Open Scope Z_scope.

Record obs := mkObs {
  o_ok : bool;
  o_pg : option (Z * Z * string);
  o_mar : option margins;
  o_grid : option (string * Z * option Z);
  o_size : string;
  o_cw : Z * Z; o_ch : Z * Z;          (* exact value of the float64: numerator, denominator *)
  o_ori : string;
  o_lens : list (Z * Z);               (* top right bottom left header footer gutter *)
  o_gtype : string; o_pitch : Z; o_cs : Z
}.

Definition E9 : Z := 1000000000.

(* |model length - observed rational| <= 1e-9 mm *)
Definition len_close (l : len) (q : Z * Z) : bool :=
  let '(n, d) := q in
  (0 <? d) &&
  match l with
  | Um z => Z.abs (z * d - 1000 * n) * E9 <=? 1000 * d
  | Tw t => Z.abs (t * E12 * d - n * Cd) * E9 <=? Cd * d
  end.

Definition opt_eqb {A} (eq : A -> A -> bool) (a b : option A) : bool :=
  match a, b with Some x, Some y => eq x y | None, None => true | _, _ => false end.

Definition pg_eqb (a b : Z * Z * string) : bool :=
  let '(w1, h1, o1) := a in let '(w2, h2, o2) := b in (w1 =? w2) && (h1 =? h2) && String.eqb o1 o2.
Definition mar_eqb (a b : margins) : bool :=
  (m_t a =? m_t b) && (m_r a =? m_r b) && (m_b a =? m_b b) && (m_l a =? m_l b)
  && (m_h a =? m_h b) && (m_f a =? m_f b) && (m_g a =? m_g b).
Definition grid_eqb (a b : string * Z * option Z) : bool :=
  let '(t1, p1, c1) := a in let '(t2, p2, c2) := b in
  String.eqb t1 t2 && (p1 =? p2) && opt_eqb Z.eqb c1 c2.

Fixpoint all2 {A B} (f : A -> B -> bool) (l : list A) (m : list B) : bool :=
  match l, m with
  | [], [] => true
  | a :: l', b :: m' => f a b && all2 f l' m'
  | _, _ => false
  end.

Definition obs_ok (st : sect) (ok : bool) (o : obs) : bool :=
  let g := get st in
  Bool.eqb ok (o_ok o)
  && opt_eqb pg_eqb (pg st) (o_pg o)
  && opt_eqb mar_eqb (mar st) (o_mar o)
  && opt_eqb grid_eqb (grid st) (o_grid o)
  && String.eqb (s_size g) (o_size o)
  && len_close (s_cw g) (o_cw o) && len_close (s_ch g) (o_ch o)
  && String.eqb (s_ori g) (o_ori o)
  && all2 len_close [s_mt g; s_mr g; s_mb g; s_ml g; s_hd g; s_fd g; s_gw g] (o_lens o)
  && String.eqb (s_gtype g) (o_gtype o) && (s_pitch g =? o_pitch o) && (s_cs g =? o_cs o).

Definition case := list (op * obs).

(* index of the first step on which model and implementation differ *)
Fixpoint first_diff (st : sect) (c : case) (i : nat) : option nat :=
  match c with
  | [] => None
  | (o, ob) :: rest =>
      let '(st', ok) := step st o in
      if obs_ok st' ok ob then first_diff st' rest (S i) else Some i
  end.

Fixpoint mismatches_from (cs : list case) (k : nat) : list (nat * nat) :=
  match cs with
  | [] => []
  | c :: rest =>
      match first_diff empty_sect c 0 with
      | None => mismatches_from rest (S k)
      | Some i => (k, i) :: mismatches_from rest (S k)
      end
  end.
Definition mismatches (cs : list case) := mismatches_from cs 0.
