(* Correspondence checker for M-TABLE. *)
From Coq Require Import List Bool Arith NArith ZArith.
From WZ Require Import Model.Table.
Import ListNotations.

Definition vm_eqb (a b : vmerge) : bool :=
  match a, b with VNone, VNone | VRestart, VRestart | VContinue, VContinue => true | _, _ => false end.
Definition optnat_eqb (a b : option nat) : bool :=
  match a, b with Some x, Some y => Nat.eqb x y | None, None => true | _, _ => false end.
Fixpoint list_eqb {A} (f : A -> A -> bool) (l m : list A) : bool :=
  match l, m with [], [] => true | a :: l', b :: m' => f a b && list_eqb f l' m' | _, _ => false end.
Definition cell_eqb (a b : cell) : bool :=
  optnat_eqb (span a) (span b) && vm_eqb (vm a) (vm b) && list_eqb N.eqb (paras a) (paras b).
Definition table_eqb (a b : table) : bool :=
  match grid a, grid b with
  | Some g, Some h => list_eqb N.eqb g h
  | None, None => true
  | _, _ => false
  end && list_eqb (list_eqb cell_eqb) (rows a) (rows b).

(* result class observed: 0 = ok, 1 = error, 2 = panic *)
Record obs := mkObs { o_res : nat; o_table : table }.

Definition obs_ok (t : table) (o : top) (ob : obs) : option table :=
  match step t o with
  | Panic => if Nat.eqb (o_res ob) 2 then Some (o_table ob) else None   (* after a panic the table is whatever was left: taken from the implementation *)
  | r => match state_after t o with
         | Some t' => if Nat.eqb (o_res ob) (match r with Ok _ => 0 | _ => 1 end) && table_eqb t' (o_table ob) then Some t' else None
         | None => None
         end
  end.

(* c_grid0: the grid the table starts with when it is not the one create gives - a table as an opened document may
   hold it: no grid at all (Some None), a grid shorter or longer than the rows (Some (Some ws)) *)
Record case := mkCase { c_rows : nat; c_cols : nat; c_widths : list N; c_grid0 : option (option (list N)); c_ops : list (top * obs) }.
Definition start_table (c : case) : table :=
  let t0 := create (c_rows c) (c_cols c) (c_widths c) in
  match c_grid0 c with None => t0 | Some g => mkTable g (rows t0) end.
Fixpoint first_bad (t : table) (ops : list (top * obs)) (i : nat) : option nat :=
  match ops with
  | [] => None
  | (o, ob) :: r => match obs_ok t o ob with Some t' => first_bad t' r (S i) | None => Some i end
  end.
Fixpoint mismatches_from (cs : list case) (k : nat) : list (nat * nat) :=
  match cs with
  | [] => []
  | c :: rest => match first_bad (start_table c) (c_ops c) 0 with
                 | None => mismatches_from rest (S k)
                 | Some i => (k, i) :: mismatches_from rest (S k)
                 end
  end.
Definition mismatches (cs : list case) := mismatches_from cs 0.
