(* Correspondence for M-WORLD: the theorem (Proofs.WorldProofs.noninterference) says that in a world
   whose calls are local, every document ends, under every interleaving, in the state of its run
   alone.  A case is one pair of histories; the harness ran them in fresh processes under the plans
   alone1, alone2, seq12, seq21, interleaved (and concurrent), and reports for each plan whether
   each document's projection equalled that of its run alone.  The model predicts `true` everywhere. *)
From Coq Require Import List Bool.
Import ListNotations.

Definition case := list bool.
Fixpoint mismatches_from (cs : list case) (n : nat) : list (nat * nat) :=
  match cs with
  | [] => []
  | c :: r => if forallb (fun b => b) c then mismatches_from r (S n) else (n, 0) :: mismatches_from r (S n)
  end.
Definition mismatches (cs : list case) := mismatches_from cs 0.
