(* Correspondence checker for M-ENGINE: a history of calls on one engine and what every render returned
   (paragraph texts joined by newlines; None = the engine reported that the template is not cached). *)
From Coq Require Import String List Bool Arith.
From WZ Require Import Model.Template Model.Engine Corr.TemplateCorr.
Import ListNotations.
Open Scope string_scope.

Definition out_eqb (a b : option string) : bool :=
  match a, b with
  | Some x, Some y => String.eqb (as_paragraphs x) y
  | None, None => true
  | _, _ => false
  end.
Fixpoint outs_eqb (a b : list (option string)) : bool :=
  match a, b with
  | [], [] => true
  | x :: a', y :: b' => out_eqb x y && outs_eqb a' b'
  | _, _ => false
  end.

(* the index of the first render whose result differs (counted among the renders), plus one *)
Fixpoint first_diff (a b : list (option string)) (k : nat) : nat :=
  match a, b with
  | [], [] => 0
  | x :: a', y :: b' => if out_eqb x y then first_diff a' b' (S k) else S k
  | _, _ => S k
  end.

Fixpoint mismatches_from (cs : list (list op * list (option string))) (k : nat) : list (nat * nat) :=
  match cs with
  | [] => []
  | (ops, outs) :: rest =>
      match first_diff (snd (run [] ops)) outs 0 with
      | 0 => mismatches_from rest (S k)
      | d => (k, d) :: mismatches_from rest (S k)
      end
  end.
Definition mismatches (cs : list (list op * list (option string))) := mismatches_from cs 0.
