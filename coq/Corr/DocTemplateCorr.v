(* Correspondence checker for M-RUNS: one paragraph of a document template, its runs before rendering (formatting as
   atoms), the data, and the runs of the rendered paragraph as the reader sees them (characters with their formatting,
   anchors for runs without text). *)
From Coq Require Import List NArith Bool Arith.
From WZ Require Import Model.DocTemplate.
Import ListNotations.

Record case := mkCase {
  c_runs : list run;
  c_conds : list (list N * bool);
  c_vars : list (list N * list N);
  c_got : list unit
}.

Fixpoint lookup_cond (cs : list (list N * bool)) (n : list N) : bool :=
  match cs with
  | [] => false
  | (k, v) :: r => if bytes_eqb k n then v else lookup_cond r n
  end.

Definition unit_eqb (a b : unit) : bool :=
  match a, b with
  | UB x f, UB y g => (x =? y)%N && (f =? g)%N
  | UA f o, UA g p => (f =? g)%N && Bool.eqb o p
  | _, _ => false
  end.
Fixpoint units_eqb (a b : list unit) : bool :=
  match a, b with
  | [], [] => true
  | x :: a', y :: b' => unit_eqb x y && units_eqb a' b'
  | _, _ => false
  end.

(* 0 = agrees; 1 = the model's rendered paragraph differs from the engine's; 2 = the specification on formatted
   characters differs from the engine's result (cannot happen when 1 does not: Proofs/DocTemplateProofs.v) *)
Definition check (c : case) : nat :=
  let holds := lookup_cond (c_conds c) in
  let out := match render_paragraph holds (c_vars c) (c_runs c) with Some o => o | None => c_runs c end in
  if negb (units_eqb (units out) (c_got c)) then 1
  else if negb (units_eqb (render_units holds (c_vars c) (units (c_runs c))) (c_got c)) then 2
  else 0.

Fixpoint mismatches_from (cs : list case) (k : nat) : list (nat * nat) :=
  match cs with
  | [] => []
  | c :: rest => match check c with
                 | 0 => mismatches_from rest (S k)
                 | x => (k, x) :: mismatches_from rest (S k)
                 end
  end.
Definition mismatches (cs : list case) := mismatches_from cs 0.
