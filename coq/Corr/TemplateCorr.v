(* Correspondence checker for M-TPL. *)
From Coq Require Import String Ascii List Bool Arith.
From WZ Require Import Model.Template.
Import ListNotations.
Open Scope string_scope.

Record case := mkCase { c_tpl : string; c_ast : list node; c_env : env; c_got : string }.

Fixpoint has_brace (cs : list ascii) : bool :=
  match cs with
  | [] => false
  | c :: r => Nat.eqb (nat_of_ascii c) 123 || Nat.eqb (nat_of_ascii c) 125 || has_brace r
  end.
Definition brace_free (s : string) : bool := negb (has_brace (chars s)).

Section BF.
  Variable bf : node -> bool.
  Definition bf_list (ns : list node) : bool := forallb bf ns.
End BF.
Fixpoint node_brace_free (nd : node) : bool :=
  match nd with
  | NLit s => brace_free s
  | NIf _ th el => bf_list node_brace_free th && match el with Some x => bf_list node_brace_free x | None => true end
  | NEach _ body => bf_list node_brace_free body
  | _ => true
  end.

Fixpoint item_clean (it : item) : bool :=
  match it with
  | IStr s _ => brace_free s
  | IMap fs =>
      (fix go (fs : list (string * fval)) : bool :=
         match fs with
         | [] => true
         | (_, FScalar v _) :: r => brace_free v && go r
         | (_, FList l) :: r =>
             (fix each (l : list item) : bool := match l with [] => true | x :: l' => item_clean x && each l' end) l && go r
         end) fs
  end.
Definition env_clean (e : env) : bool :=
  forallb (fun p => brace_free (snd p)) (e_vars e) && forallb (fun p => forallb item_clean (snd p)) (e_lists e).

(* adjacent literals as one, empty literals dropped: what the lexer returns for the printed tokens *)
Fixpoint merge (ts : list tk) : list tk :=
  match ts with
  | [] => []
  | KLit a :: r =>
      match merge r with
      | KLit b :: r' => KLit (a ++ b) :: r'
      | m => if String.eqb a "" then m else KLit a :: m
      end
  | t :: r => t :: merge r
  end.

Fixpoint tk_eqb (a b : tk) : bool :=
  match a, b with
  | KLit x, KLit y | KVar x, KVar y | KIf x, KIf y | KEach x, KEach y => String.eqb x y
  | KThis, KThis | KIndex, KIndex | KFirst, KFirst | KLast, KLast | KElse, KElse | KEndIf, KEndIf | KEndEach, KEndEach => true
  | _, _ => false
  end.
Fixpoint tks_eqb (a b : list tk) : bool :=
  match a, b with
  | [], [] => true
  | x :: a', y :: b' => tk_eqb x y && tks_eqb a' b'
  | _, _ => false
  end.

(* the premises of the theorem (Props/C16.v) *)
Definition in_theorem (c : case) : bool :=
  wf_top (c_ast c) && forallb (typed_node (e_lists (c_env c))) (c_ast c) && env_ok (c_env c).

(* 0 = agrees
   1 = the model of the engine renders something else than the engine
   2 = the template text does not lex to the tokens of its syntax tree (generator / lexer disagreement)
   3 = with brace-free literals and values, the token-level pipeline differs from the text-level one
   4 = under the premises of the theorem, or with brace-free literals and values, the token-level pipeline differs
       from the reference semantics *)
(* applyRenderedContentToDocument: a text that is blank altogether gives no paragraph at all *)
Fixpoint all_blank (cs : list ascii) : bool :=
  match cs with
  | [] => true
  | c :: r => let n := nat_of_ascii c in (Nat.eqb n 32 || (Nat.leb 9 n && Nat.leb n 13)) && all_blank r
  end.
Definition as_paragraphs (s : string) : string := if all_blank (chars s) then "" else s.

Definition check (c : case) : nat :=
  if negb (String.eqb (as_paragraphs (render_str (c_env c) (c_tpl c))) (c_got c)) then 1
  else if negb (tks_eqb (lex (c_tpl c)) (merge (flatten (c_ast c)))) then 2
  else
    let t := unlex (render_tk (c_env c) (flatten (c_ast c))) in
    if bf_list node_brace_free (c_ast c) && env_clean (c_env c) && negb (String.eqb t (render_str (c_env c) (c_tpl c))) then 3
    else if (in_theorem c || (bf_list node_brace_free (c_ast c) && env_clean (c_env c))) && negb (String.eqb t (ref (c_env c) (c_ast c))) then 4
    else 0.

Fixpoint mismatches_from (cs : list case) (k : nat) : list (nat * nat) :=
  match cs with
  | [] => []
  | c :: rest => match check c with
                 | 0 => mismatches_from rest (S k)
                 | x => (k, x) :: mismatches_from rest (S k)
                 end
  end.
Definition mismatches (cs : list case) := mismatches_from cs 0.

(* how many cases meet the premises of the theorem (for the evidence) *)
Definition theorem_cases (cs : list case) : nat := List.length (filter in_theorem cs).
