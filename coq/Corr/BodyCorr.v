(* Correspondence checker for M-BODY. *)
From Coq Require Import List Bool Arith NArith ZArith.
From WZ Require Import Model.Body.
Import ListNotations.

Definition elem_eqb (a b : elem) : bool := kind_eqb (fst a) (fst b) && N.eqb (snd a) (snd b).
Fixpoint list_eqb {A} (f : A -> A -> bool) (l m : list A) : bool :=
  match l, m with
  | [], [] => true
  | a :: l', b :: m' => f a b && list_eqb f l' m'
  | _, _ => false
  end.
(* in the saved XML an element without recoverable identity carries atom 0: compare kinds there *)
Definition xml_eqb (m x : elem) : bool := kind_eqb (fst m) (fst x) && (N.eqb (snd x) 0 || N.eqb (snd m) (snd x)).
Fixpoint list_eqb2 {A B} (f : A -> B -> bool) (l : list A) (m : list B) : bool :=
  match l, m with
  | [], [] => true
  | a :: l', b :: m' => f a b && list_eqb2 f l' m'
  | _, _ => false
  end.

Record obs := mkObs {
  o_ok : bool;
  o_elems : list elem;            (* Body.Elements after the call *)
  o_xml : option (list elem);     (* children of w:body in the bytes written (Save only) *)
  o_sect : option N               (* identity of the section settings the page/header lookups return *)
}.

Definition obs_ok (b : list elem) (ok : bool) (o : obs) : bool :=
  Bool.eqb ok (o_ok o) && list_eqb elem_eqb b (o_elems o)
  && match o_xml o with Some x => list_eqb2 xml_eqb (serialize b) x | None => true end
  && match o_sect o, first_sect b with
     | Some a, Some s => N.eqb a (snd s)
     | None, _ => true
     | Some _, None => false
     end.

Definition case := list (bop * obs).
Fixpoint first_diff (b : list elem) (c : case) (i : nat) : option nat :=
  match c with
  | [] => None
  | (o, ob) :: rest => let '(b', ok) := step b o in if obs_ok b' ok ob then first_diff b' rest (S i) else Some i
  end.
Fixpoint mismatches_from (cs : list case) (k : nat) : list (nat * nat) :=
  match cs with
  | [] => []
  | c :: rest => match first_diff [] c 0 with None => mismatches_from rest (S k) | Some i => (k, i) :: mismatches_from rest (S k) end
  end.
Definition mismatches (cs : list case) := mismatches_from cs 0.
