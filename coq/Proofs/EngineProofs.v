(* Proofs about M-ENGINE: rendering is pure, a template renders the same whatever happens to other names, and threads
   that do not rebind each other's names see the results they would see alone - in every interleaving. *)
From Coq Require Import String List Bool Arith.
Import ListNotations.
From WZ Require Import Model.Template Model.Engine.
Open Scope string_scope.
Open Scope list_scope.

Arguments String.eqb : simpl never.

Lemma lookup_unbind_other n m c : n <> m -> lookup n (unbind m c) = lookup n c.
Proof.
  intros H. induction c as [|[k t] r IH]; [reflexivity|]. cbn [unbind lookup].
  destruct (String.eqb_spec m k) as [->|Hm].
  - rewrite IH. destruct (String.eqb_spec n k) as [E|_]; [contradiction | reflexivity].
  - cbn [lookup]. rewrite IH. reflexivity.
Qed.

Lemma lookup_unbind_same n c : lookup n (unbind n c) = None.
Proof.
  induction c as [|[k t] r IH]; [reflexivity|]. cbn [unbind].
  destruct (String.eqb_spec n k) as [->|Hn]; [exact IH|]. cbn [lookup].
  destruct (String.eqb_spec n k) as [E|_]; [contradiction | exact IH].
Qed.

Lemma lookup_bind_same n t c : lookup n (bind n t c) = Some t.
Proof. unfold bind. cbn [lookup]. rewrite String.eqb_refl. reflexivity. Qed.

Lemma lookup_bind_other n m t c : n <> m -> lookup n (bind m t c) = lookup n c.
Proof.
  intros H. unfold bind. cbn [lookup]. destruct (String.eqb_spec n m) as [E|_]; [contradiction|].
  apply lookup_unbind_other. exact H.
Qed.

(* a call leaves every name it does not rebind as it was *)
Lemma step_frame c o n : binds o n = false -> lookup n (fst (step c o)) = lookup n c.
Proof.
  destruct o as [m content|m| |m e]; cbn [binds step fst]; intros H; try discriminate H; try reflexivity.
  - unfold load. apply lookup_bind_other. intro E. subst. rewrite String.eqb_refl in H. discriminate H.
  - apply lookup_unbind_other. intro E. subst. rewrite String.eqb_refl in H. discriminate H.
Qed.

Theorem render_pure c n e : fst (step c (ORender n e)) = c.
Proof. reflexivity. Qed.

Lemma run_cons c o r :
  run c (o :: r) = let '(c1, out) := step c o in let '(c2, outs) := run c1 r in (c2, match out with Some x => x :: outs | None => outs end).
Proof. reflexivity. Qed.

Lemma run_fst_cons c o r : fst (run c (o :: r)) = fst (run (fst (step c o)) r).
Proof. rewrite run_cons. destruct (step c o) as [c1 out]. cbn [fst]. destruct (run c1 r) as [c2 outs]. reflexivity. Qed.

(* whatever calls are made in between - loading derived templates, siblings, other bases, removing, rendering -
   a template that is not itself rebound is bound to the same value, and so renders the same with the same data *)
Theorem unaffected ops : forall c n, forallb (fun o => negb (binds o n)) ops = true ->
  lookup n (fst (run c ops)) = lookup n c.
Proof.
  induction ops as [|o r IH]; intros c n H; [reflexivity|].
  cbn [forallb] in H. apply andb_true_iff in H. destruct H as [H1 H2]. apply negb_true_iff in H1.
  rewrite run_fst_cons, (IH _ n H2). apply step_frame. exact H1.
Qed.

Corollary render_unaffected ops c n e : forallb (fun o => negb (binds o n)) ops = true ->
  snd (step (fst (run c ops)) (ORender n e)) = snd (step c (ORender n e)).
Proof. intros H. cbn [step snd]. rewrite (unaffected ops c n H). reflexivity. Qed.

(* in particular: loading a template (a derived one, a sibling, anything) under another name *)
Corollary load_keeps_others c n m content : n <> m -> lookup n (load c m content) = lookup n c.
Proof. intros H. unfold load. apply lookup_bind_other. exact H. Qed.

(* ---------------- threads ---------------- *)
Definition agree (N : string -> bool) (c1 c2 : cache) : Prop := forall n, N n = true -> lookup n c1 = lookup n c2.

Lemma step_agree_both N c1 c2 o :
  agree N c1 c2 -> (forall n, reads o n = true -> N n = true) ->
  snd (step c1 o) = snd (step c2 o) /\ agree N (fst (step c1 o)) (fst (step c2 o)).
Proof.
  intros A R. destruct o as [m content|m| |m e]; cbn [step fst snd].
  - split; [reflexivity|]. intros n Hn. unfold load.
    assert (match find_extends (chars content) with Some b => lookup b c1 | None => None end
            = match find_extends (chars content) with Some b => lookup b c2 | None => None end) as E.
    { destruct (find_extends (chars content)) as [b|] eqn:F; [|reflexivity]. apply A. apply R. cbn [reads]. rewrite F. apply String.eqb_refl. }
    rewrite E. destruct (String.eqb_spec n m) as [->|Hnm].
    + rewrite !lookup_bind_same. reflexivity.
    + rewrite !lookup_bind_other by exact Hnm. apply A. exact Hn.
  - split; [reflexivity|]. intros n Hn. destruct (String.eqb_spec n m) as [->|Hnm].
    + rewrite !lookup_unbind_same. reflexivity.
    + rewrite !lookup_unbind_other by exact Hnm. apply A. exact Hn.
  - split; [reflexivity|]. intros n _. reflexivity.
  - split; [|exact A]. f_equal. rewrite (A m); [reflexivity|]. apply R. cbn [reads]. apply String.eqb_refl.
Qed.

Lemma step_agree_other N c1 c2 o :
  agree N c1 c2 -> (forall n, N n = true -> binds o n = false) -> agree N (fst (step c1 o)) c2.
Proof. intros A B n Hn. rewrite (step_frame c1 o n (B n Hn)). apply A. exact Hn. Qed.

(* calls tagged with the thread that makes them; the results of thread i *)
Fixpoint run_tagged (i : nat) (c : cache) (sigma : list (nat * op)) : list (option string) :=
  match sigma with
  | [] => []
  | (j, o) :: r =>
      let '(c1, out) := step c o in
      (if Nat.eqb j i then match out with Some x => [x] | None => [] end else []) ++ run_tagged i c1 r
  end.
Definition calls_of (i : nat) (sigma : list (nat * op)) : list op :=
  map snd (filter (fun p => Nat.eqb (fst p) i) sigma).

Lemma run_snd_cons c o r :
  snd (run c (o :: r)) = (match snd (step c o) with Some x => [x] | None => [] end) ++ snd (run (fst (step c o)) r).
Proof. rewrite run_cons. destruct (step c o) as [c1 out]. cbn [fst snd]. destruct (run c1 r) as [c2 outs]. destruct out; reflexivity. Qed.

(* every interleaving: if the other threads rebind none of the names thread i reads or binds (N), thread i gets the
   results of its own calls run alone *)
Theorem noninterference N i : forall sigma c1 c2,
  agree N c1 c2 ->
  (forall j o, In (j, o) sigma -> j = i -> forall n, reads o n = true -> N n = true) ->
  (forall j o, In (j, o) sigma -> j <> i -> forall n, N n = true -> binds o n = false) ->
  run_tagged i c1 sigma = snd (run c2 (calls_of i sigma)).
Proof.
  induction sigma as [|[j o] r IH]; intros c1 c2 A HR HB; [reflexivity|].
  cbn [run_tagged]. destruct (step c1 o) as [c1' out] eqn:S1.
  unfold calls_of. cbn [filter fst]. destruct (Nat.eqb_spec j i) as [->|Hji].
  - cbn [map snd]. rewrite run_snd_cons.
    destruct (step_agree_both N c1 c2 o A (HR i o (or_introl eq_refl) eq_refl)) as [E1 E2].
    rewrite S1 in E1, E2. cbn [fst snd] in E1, E2. rewrite <- E1. f_equal.
    apply IH; [exact E2 | |].
    + intros j' o' Hin. apply HR. right. exact Hin.
    + intros j' o' Hin. apply HB. right. exact Hin.
  - cbn [app]. fold (calls_of i r).
    apply IH.
    + pose proof (step_agree_other N c1 c2 o A (HB j o (or_introl eq_refl) Hji)) as A'. rewrite S1 in A'. exact A'.
    + intros j' o' Hin. apply HR. right. exact Hin.
    + intros j' o' Hin. apply HB. right. exact Hin.
Qed.

(* the repaired defect, as a computation on the model: loading a derived template leaves the rendering of its base
   and of a sibling alone *)
Definition base_text := "T:{{#block ""a""}}A0{{/block}}|{{#block ""b""}}B0{{/block}}".
Definition ex_ops : list op :=
  [OLoad "base" base_text;
   ORender "base" (mkEnv [] [] []);
   OLoad "c1" "{{extends ""base""}}{{#block ""a""}}A1{{/block}}";
   ORender "base" (mkEnv [] [] []);
   OLoad "c2" "{{extends ""base""}}{{#block ""b""}}B2{{/block}}";
   ORender "c1" (mkEnv [] [] []);
   ORender "c2" (mkEnv [] [] []);
   ORender "base" (mkEnv [] [] []);
   OLoad "g" "{{extends ""c1""}}{{#block ""b""}}B3{{/block}}";
   ORender "g" (mkEnv [] [] []);
   ORemove "base";
   ORender "c1" (mkEnv [] [] []);
   ORender "base" (mkEnv [] [] [])].
Example inheritance_example :
  snd (run [] ex_ops) = [Some "T:A0|B0"; Some "T:A0|B0"; Some "T:A1|B0"; Some "T:A0|B2"; Some "T:A0|B0"; Some "T:A1|B3"; Some "T:A1|B0"; None].
Proof. vm_compute. reflexivity. Qed.
