(* Proofs about M-EXTENT. *)
From Coq Require Import ZArith List Bool Lia.
From WZ Require Import Model.Extent.
Import ListNotations.
Open Scope Z_scope.

(* both dimensions given: exactly those, whatever the image and the flag *)
Lemma extent_explicit pw ph w h k : 0 < w -> 0 < h -> extent pw ph (Some (mkSize w h k)) = (w * um_emu, h * um_emu).
Proof.
  intros Hw Hh. unfold extent. cbn [s_w s_h s_keep].
  destruct (Z.ltb_spec 0 w); [|lia]. destruct (Z.ltb_spec 0 h); [|lia]. reflexivity.
Qed.

(* no configuration: the pixel size at 96 dpi *)
Lemma extent_default pw ph : extent pw ph None = (pw * px_emu, ph * px_emu).
Proof. reflexivity. Qed.

(* the width given, the aspect ratio kept: the width is the requested one and the height is the one the pixel aspect
   ratio gives, rounded down to a whole EMU *)
Lemma extent_width_keeps_ratio pw ph w : 0 < w -> 0 < pw -> 0 <= ph ->
  let '(cx, cy) := extent pw ph (Some (mkSize w 0 true)) in
  cx = w * um_emu /\ cy * pw <= cx * ph < (cy + 1) * pw.
Proof.
  intros Hw Hpw Hph. unfold extent. cbn [s_w s_h s_keep].
  destruct (Z.ltb_spec 0 w); [|lia]. cbn [andb Z.ltb]. change (0 <? 0) with false. cbn [andb].
  split; [reflexivity|].
  pose proof (Z.div_mod (w * um_emu * ph) pw ltac:(lia)) as E.
  pose proof (Z.mod_pos_bound (w * um_emu * ph) pw Hpw) as B. nia.
Qed.

Lemma extent_height_keeps_ratio pw ph h : 0 < h -> 0 < ph -> 0 <= pw ->
  let '(cx, cy) := extent pw ph (Some (mkSize 0 h true)) in
  cy = h * um_emu /\ cx * ph <= cy * pw < (cx + 1) * ph.
Proof.
  intros Hh Hph Hpw. unfold extent. cbn [s_w s_h s_keep]. change (0 <? 0) with false. cbn [andb].
  destruct (Z.ltb_spec 0 h); [|lia]. cbn [andb].
  split; [reflexivity|].
  pose proof (Z.div_mod (h * um_emu * pw) ph ltac:(lia)) as E.
  pose proof (Z.mod_pos_bound (h * um_emu * pw) ph Hph) as B. nia.
Qed.

(* a configuration that gives nothing usable (no dimension, or one dimension without the flag): the pixel size *)
Lemma extent_unusable pw ph w h k :
  (w <= 0 /\ h <= 0) \/ (k = false /\ (w <= 0 \/ h <= 0)) ->
  extent pw ph (Some (mkSize w h k)) = (pw * px_emu, ph * px_emu).
Proof.
  intros H. unfold extent. cbn [s_w s_h s_keep].
  destruct (Z.ltb_spec 0 w), (Z.ltb_spec 0 h), k; cbn [andb]; try reflexivity; lia.
Qed.

(* ---- histories ---- *)
Lemma xrun_app s a b : xrun s (a ++ b) = xrun (xrun s a) b.
Proof. unfold xrun. apply fold_left_app. Qed.

(* pictures added earlier keep their extent, whatever is added or reconfigured afterwards *)
Lemma xstep_prefix s o : exists t, shown (xstep s o) = shown s ++ t.
Proof. destruct o; cbn [xstep shown]; [eexists; reflexivity | exists []; rewrite app_nil_r; reflexivity]. Qed.

Theorem xrun_prefix ops : forall s, exists t, shown (xrun s ops) = shown s ++ t.
Proof.
  induction ops as [|o r IH]; intros s; [exists []; rewrite app_nil_r; reflexivity|].
  cbn [xrun fold_left]. fold (xrun (xstep s o) r). destruct (IH (xstep s o)) as [t Ht].
  destruct (xstep_prefix s o) as [u Hu]. exists (u ++ t). rewrite Ht, Hu, app_assoc. reflexivity.
Qed.

(* the library never changes a configuration of the caller: after any history the configurations are what the
   caller's own changes made them *)
Theorem store_frame ops : forall s, store (xrun s ops) = store (xrun s (caller_only ops)).
Proof.
  induction ops as [|o r IH]; intros s; [reflexivity|].
  destruct o as [pw ph cfg|i c]; cbn [caller_only filter xrun fold_left].
  - fold (xrun (xstep s (XAdd pw ph cfg)) r). fold (caller_only r). fold (xrun s (caller_only r)).
    rewrite IH. 
    assert (forall ops s1 s2, store s1 = store s2 -> (forall o, In o ops -> match o with XSet _ _ => True | _ => False end) ->
            store (xrun s1 ops) = store (xrun s2 ops)) as G.
    { clear. induction ops as [|o r IH]; intros s1 s2 E H; [exact E|]. cbn [xrun fold_left].
      fold (xrun (xstep s1 o) r). fold (xrun (xstep s2 o) r). apply IH.
      - pose proof (H o (or_introl eq_refl)) as Ho. destruct o; [destruct Ho|]. cbn [xstep store]. rewrite E. reflexivity.
      - intros o' Hin. apply H. right. exact Hin. }
    apply G; [reflexivity|]. intros o Hin. unfold caller_only in Hin. apply filter_In in Hin. destruct Hin as [_ Ho].
    destruct o; [discriminate Ho | exact I].
  - fold (xrun (xstep s (XSet i c)) r). fold (caller_only r). fold (xrun (xstep s (XSet i c)) (caller_only r)). apply IH.
Qed.

(* every addition shows the extent its own image and the caller's configuration, as it is at the call, give - in
   particular two pictures added with the same unchanged configuration are each sized by their own pixel size *)
Theorem add_shows s pw ph cfg :
  shown (xstep s (XAdd pw ph cfg)) = shown s ++ [extent pw ph (match cfg with Some i => lookup i (store s) | None => None end)].
Proof. reflexivity. Qed.

Theorem same_cfg_twice s i c pw1 ph1 pw2 ph2 : lookup i (store s) = Some c ->
  shown (xrun s [XAdd pw1 ph1 (Some i); XAdd pw2 ph2 (Some i)])
  = shown s ++ [extent pw1 ph1 (Some c); extent pw2 ph2 (Some c)].
Proof.
  intros H. cbn [xrun fold_left xstep store shown]. rewrite H, <- app_assoc. reflexivity.
Qed.

Example ex_history :
  shown (xrun (mkX [] []) [XSet 1 (mkSize 40000 0 true); XAdd 200 100 (Some 1%nat); XAdd 100 200 (Some 1%nat); XAdd 10 10 None;
                           XSet 1 (mkSize 10000 20000 false); XAdd 7 9 (Some 1%nat)])
  = [(1440000, 720000); (1440000, 2880000); (95250, 95250); (360000, 720000)].
Proof. vm_compute. reflexivity. Qed.
