From Coq Require Import List NArith Bool Lia.
From WZ Require Import Model.XmlText.
Import ListNotations.
Open Scope N_scope.

Lemma unesc_esc_byte b r :
  legal b = true -> unesc (esc_byte b ++ r) None false = option_map (cons b) (unesc r None false).
Proof.
  intros Hl. unfold esc_byte.
  destruct (N.eqb_spec b 34) as [->|N34]; [reflexivity|].
  destruct (N.eqb_spec b 39) as [->|N39]; [reflexivity|].
  destruct (N.eqb_spec b 38) as [->|N38]; [reflexivity|].
  destruct (N.eqb_spec b 60) as [->|N60]; [reflexivity|].
  destruct (N.eqb_spec b 62) as [->|N62]; [reflexivity|].
  destruct (N.eqb_spec b 9) as [->|N9]; [reflexivity|].
  destruct (N.eqb_spec b 10) as [->|N10]; [reflexivity|].
  destruct (N.eqb_spec b 13) as [->|N13]; [reflexivity|].
  rewrite Hl. cbn [app unesc].
  destruct (N.eqb_spec b 38) as [E|_]; [contradiction|].
  destruct (N.eqb_spec b 13) as [E|_]; [contradiction|].
  rewrite andb_false_r. reflexivity.
Qed.

(* every string of legal bytes comes back exactly: blanks at either end, tabs, newlines, carriage returns,
   the five metacharacters and bytes above 127 included *)
Theorem unescape_escape s : forallb legal s = true -> unescape (escape s) = Some s.
Proof.
  unfold unescape, escape. induction s as [|b s IH]; intros H; [reflexivity|].
  cbn [forallb] in H. apply andb_true_iff in H. destruct H as [Hb Hs].
  cbn [flat_map]. rewrite unesc_esc_byte by exact Hb. rewrite (IH Hs). reflexivity.
Qed.

(* the escaped form contains no raw metacharacter other than the & and ; of its references, no raw tab, newline
   or carriage return *)
Lemma esc_byte_clean b : forallb (fun c => negb ((c =? 60) || (c =? 62) || (c =? 34) || (c =? 39) || (c =? 9) || (c =? 10) || (c =? 13))) (esc_byte b) = true.
Proof.
  unfold esc_byte.
  destruct (N.eqb_spec b 34); [reflexivity|]. destruct (N.eqb_spec b 39); [reflexivity|].
  destruct (N.eqb_spec b 38); [reflexivity|]. destruct (N.eqb_spec b 60); [reflexivity|].
  destruct (N.eqb_spec b 62); [reflexivity|]. destruct (N.eqb_spec b 9); [reflexivity|].
  destruct (N.eqb_spec b 10); [reflexivity|]. destruct (N.eqb_spec b 13); [reflexivity|].
  destruct (legal b); [|reflexivity]. cbn [forallb]. rewrite andb_true_r.
  repeat match goal with H : b <> ?k |- _ => apply N.eqb_neq in H; rewrite H; clear H end. reflexivity.
Qed.

Theorem escape_clean s :
  forallb (fun c => negb ((c =? 60) || (c =? 62) || (c =? 34) || (c =? 39) || (c =? 9) || (c =? 10) || (c =? 13))) (escape s) = true.
Proof.
  unfold escape. induction s as [|b s IH]; [reflexivity|]. cbn [flat_map]. rewrite forallb_app, esc_byte_clean, IH. reflexivity.
Qed.

Example text_example :
  unescape (escape [32; 32; 9; 60; 38; 62; 34; 39; 10; 13; 228; 184; 173; 32]) = Some [32; 32; 9; 60; 38; 62; 34; 39; 10; 13; 228; 184; 173; 32].
Proof. reflexivity. Qed.
