(* Proofs about M-STYLE (property C14). *)
From Coq Require Import List Bool Arith NArith String Lia.
From WZ Require Import Gen.StyleFields Gen.CloneFields Model.Style.
Import ListNotations.

Arguments String.eqb : simpl never.

(* ---- merging ---------------------------------------------------------------------------------- *)

Lemma get_app f (p q : props) : get f (p ++ q)%list = match get f p with Some v => Some v | None => get f q end.
Proof. induction p as [|[g v] r IH]; simpl; [reflexivity|]. destruct (String.eqb g f); [reflexivity|exact IH]. Qed.

Lemma get_stanza base over g f :
  get f (stanza base over g) = if String.eqb g f then (match get g over with Some v => Some v | None => get g base end) else None.
Proof.
  unfold stanza. destruct (get g over) as [v|]; simpl.
  - destruct (String.eqb g f); reflexivity.
  - destruct (get g base) as [v|]; simpl; destruct (String.eqb g f); reflexivity.
Qed.

Lemma get_merge_notin merged base over f : ~ In f merged -> get f (merge merged base over) = None.
Proof.
  unfold merge. induction merged as [|g r IH]; simpl; intros H; [reflexivity|].
  rewrite get_app, get_stanza.
  assert (E : String.eqb g f = false) by (apply String.eqb_neq; intros E; apply H; now left).
  rewrite E. apply IH. intros I. apply H. now right.
Qed.

(* a merged field: the override's setting if it has one, otherwise the base's *)
Lemma get_merge_in merged base over f : In f merged ->
  get f (merge merged base over) = match get f over with Some v => Some v | None => get f base end.
Proof.
  unfold merge. induction merged as [|g r IH]; simpl; intros H; [contradiction|].
  rewrite get_app, get_stanza. destruct (String.eqb g f) eqn:E.
  - apply String.eqb_eq in E. subst g.
    destruct (get f over) as [v|]; [reflexivity|].
    destruct (get f base) as [v|]; [reflexivity|].
    destruct (in_dec string_dec f r) as [I|N]; [rewrite (IH I); reflexivity|].
    change (flat_map (stanza base over) r) with (merge r base over). rewrite get_merge_notin by exact N. reflexivity.
  - assert (I : In f r). { destruct H as [H|H]; [subst; rewrite String.eqb_refl in E; discriminate|exact H]. }
    now apply IH.
Qed.

Lemma get_merge_opt merged base over f : In f merged ->
  get_opt f (merge_opt merged base over) = match get_opt f over with Some v => Some v | None => get_opt f base end.
Proof.
  intros H. destruct base as [b|], over as [o|]; simpl; try reflexivity.
  - now apply get_merge_in.
  - destruct (get f o); reflexivity.
Qed.

Definition dom (reg : registry) : list N := map fst reg.
Lemma lookup_dom reg id s : lookup reg id = Some s -> In id (dom reg).
Proof.
  induction reg as [|[i x] r IH]; simpl; [discriminate|]. destruct (N.eqb i id) eqn:E.
  - apply N.eqb_eq in E. subst. now left.
  - intros H. right. now apply IH.
Qed.
Lemma memN_In x l : memN x l = true <-> In x l.
Proof.
  unfold memN. rewrite existsb_exists. split.
  - intros [y [Hy E]]. apply N.eqb_eq in E. now subst.
  - intros H. exists x. split; [exact H|apply N.eqb_refl].
Qed.


Arguments memN : simpl never.
Arguments lookup : simpl never.
Arguments get_opt : simpl never.
Arguments merge_opt : simpl never.

(* ---- resolution = nearest definition ------------------------------------------------------------ *)

Theorem resolve_nearest_ppr fuel : forall reg visited id r f, In f ppr_merged ->
  resolve fuel reg visited id = Resolved r -> get_opt f (s_ppr r) = nearest fuel reg visited id s_ppr f.
Proof.
  induction fuel as [|n IH]; intros reg visited id r f Hf H; cbn [resolve] in H; cbn [nearest].
  - destruct (lookup reg id) as [st|]; [|discriminate].
    destruct (s_based st) as [b|]; [|inversion H; subst; destruct (get_opt f (s_ppr r)); reflexivity].
    destruct (memN b (id :: visited)); [|discriminate]. inversion H; subst. destruct (get_opt f (s_ppr r)); reflexivity.
  - destruct (lookup reg id) as [st|]; [|discriminate].
    destruct (s_based st) as [b|] eqn:B; [|inversion H; subst; destruct (get_opt f (s_ppr r)); reflexivity].
    destruct (memN b (id :: visited)); [inversion H; subst; destruct (get_opt f (s_ppr r)); reflexivity|].
    destruct (resolve n reg (id :: visited) b) as [bs| |] eqn:R; try discriminate.
    + inversion H; subst r. simpl. rewrite (get_merge_opt _ _ _ _ Hf).
      destruct (get_opt f (s_ppr st)); [reflexivity|]. exact (IH _ _ _ _ _ Hf R).
    + inversion H; subst r. destruct (get_opt f (s_ppr st)); [reflexivity|].
      (* the parent does not exist: nothing to inherit *)
      clear -R. destruct n; cbn [resolve] in R; cbn [nearest]; destruct (lookup reg b) as [x|]; try reflexivity;
      destruct (s_based x); try discriminate; destruct (memN _ _); try discriminate.
      destruct (resolve n reg (b :: id :: visited) n0); discriminate.
Qed.

Theorem resolve_nearest_rpr fuel : forall reg visited id r f, In f rpr_merged ->
  resolve fuel reg visited id = Resolved r -> get_opt f (s_rpr r) = nearest fuel reg visited id s_rpr f.
Proof.
  induction fuel as [|n IH]; intros reg visited id r f Hf H; cbn [resolve] in H; cbn [nearest].
  - destruct (lookup reg id) as [st|]; [|discriminate].
    destruct (s_based st) as [b|]; [|inversion H; subst; destruct (get_opt f (s_rpr r)); reflexivity].
    destruct (memN b (id :: visited)); [|discriminate]. inversion H; subst. destruct (get_opt f (s_rpr r)); reflexivity.
  - destruct (lookup reg id) as [st|]; [|discriminate].
    destruct (s_based st) as [b|] eqn:B; [|inversion H; subst; destruct (get_opt f (s_rpr r)); reflexivity].
    destruct (memN b (id :: visited)); [inversion H; subst; destruct (get_opt f (s_rpr r)); reflexivity|].
    destruct (resolve n reg (id :: visited) b) as [bs| |] eqn:R; try discriminate.
    + inversion H; subst r. simpl. rewrite (get_merge_opt _ _ _ _ Hf).
      destruct (get_opt f (s_rpr st)); [reflexivity|]. exact (IH _ _ _ _ _ Hf R).
    + inversion H; subst r. destruct (get_opt f (s_rpr st)); [reflexivity|].
      clear -R. destruct n; cbn [resolve] in R; cbn [nearest]; destruct (lookup reg b) as [x|]; try reflexivity;
      destruct (s_based x); try discriminate; destruct (memN _ _); try discriminate.
      destruct (resolve n reg (b :: id :: visited) n0); discriminate.
Qed.

(* instance obligations on the generated tables: every declared formatting field has a merge stanza *)
Definition merge_complete : bool :=
  forallb (fun f => existsb (String.eqb f) ppr_merged) ppr_fields
  && forallb (fun f => existsb (String.eqb f) rpr_merged) rpr_fields
  && resolve_has_visited_set.
Lemma merge_complete_true : merge_complete = true.
Proof. vm_compute. reflexivity. Qed.

Lemma ppr_field_merged f : In f ppr_fields -> In f ppr_merged.
Proof.
  intros H. pose proof merge_complete_true as M. unfold merge_complete in M.
  apply andb_true_iff in M. destruct M as [M _]. apply andb_true_iff in M. destruct M as [M _].
  rewrite forallb_forall in M. specialize (M f H). apply existsb_exists in M. destruct M as [g [Hg E]].
  apply String.eqb_eq in E. now subst.
Qed.
Lemma rpr_field_merged f : In f rpr_fields -> In f rpr_merged.
Proof.
  intros H. pose proof merge_complete_true as M. unfold merge_complete in M.
  apply andb_true_iff in M. destruct M as [M _]. apply andb_true_iff in M. destruct M as [_ M].
  rewrite forallb_forall in M. specialize (M f H). apply existsb_exists in M. destruct M as [g [Hg E]].
  apply String.eqb_eq in E. now subst.
Qed.

(* ---- termination for every based-on graph ------------------------------------------------------- *)

Theorem resolve_total_gen fuel : forall reg visited id,
  NoDup visited -> incl visited (dom reg) -> ~ In id visited ->
  List.length (dom reg) - List.length visited <= fuel ->
  resolve fuel reg visited id <> OutOfFuel.
Proof.
  induction fuel as [|n IH]; intros reg visited id ND Inc Nin Hm; simpl.
  - destruct (lookup reg id) as [st|] eqn:L; [|discriminate].
    destruct (s_based st) as [b|]; [|discriminate].
    destruct (memN b (id :: visited)) eqn:M; [discriminate|].
    (* fuel exhausted: then id :: visited would be more than the whole registry *)
    exfalso. assert (N2 : NoDup (id :: visited)) by (constructor; assumption).
    assert (I2 : incl (id :: visited) (dom reg)).
    { intros x [Hx|Hx]; [subst; eapply lookup_dom; eassumption|now apply Inc]. }
    pose proof (NoDup_incl_length N2 I2) as Len. simpl in Len.
    (* the base b is a further id outside id :: visited, if it exists nothing more is needed: *)
    lia.
  - destruct (lookup reg id) as [st|] eqn:L; [|discriminate].
    destruct (s_based st) as [b|]; [|discriminate].
    destruct (memN b (id :: visited)) eqn:M; [discriminate|].
    assert (N2 : NoDup (id :: visited)) by (constructor; assumption).
    assert (I2 : incl (id :: visited) (dom reg)).
    { intros x [Hx|Hx]; [subst; eapply lookup_dom; eassumption|now apply Inc]. }
    assert (Nb : ~ In b (id :: visited)).
    { intros Hb. apply memN_In in Hb. congruence. }
    pose proof (NoDup_incl_length N2 I2) as Len. simpl in Len.
    specialize (IH reg (id :: visited) b N2 I2 Nb ltac:(simpl; lia)).
    destruct (resolve n reg (id :: visited) b); try discriminate. congruence.
Qed.

(* C14 (ii): resolution terminates, with a result, for every registry and every id *)
Theorem resolve_total reg id : resolve_top reg id <> OutOfFuel.
Proof.
  unfold resolve_top. destruct reg as [|x r].
  - simpl. discriminate.
  - apply resolve_total_gen; [constructor|intros y []|intros []|].
    unfold dom. rewrite map_length. simpl. lia.
Qed.

(* cloning: every declared field of every struct built by a clone function of pkg/style is set *)
Lemma style_clone_complete : clone_rows_complete style_clone_rows = true.
Proof. vm_compute. reflexivity. Qed.

(* and every struct type reachable from a style is built afresh by one of them *)
Lemma style_clone_deep : clone_types_covered style_clone_rows style_reachable_types = true.
Proof. vm_compute. reflexivity. Qed.

(* examples: a two-cycle and a self loop resolve; a chain inherits from the nearest ancestor *)
Definition cyc : registry :=
  [(1%N, mkSty (Some 2%N) (Some [("Spacing"%string, 10%N)]) None None);
   (2%N, mkSty (Some 1%N) (Some [("Justification"%string, 20%N); ("Spacing"%string, 21%N)]) (Some [("Bold"%string, 22%N)]) None);
   (3%N, mkSty (Some 3%N) None (Some [("Italic"%string, 30%N)]) None)].
Example cycle_resolves :
  resolve_top cyc 1%N = Resolved (mkSty (Some 2%N) (Some [("Spacing"%string, 10%N); ("Justification"%string, 20%N)]) (Some [("Bold"%string, 22%N)]) None)
  /\ resolve_top cyc 3%N = Resolved (mkSty (Some 3%N) None (Some [("Italic"%string, 30%N)]) None).
Proof. vm_compute. split; reflexivity. Qed.
