(* Proofs about M-WALK: a reader built from loops that take one token per iteration and hand elements on only after
   taking their start token finishes on every token stream - well-formed, truncated or mis-nested - within as many
   steps as there are tokens; it never needs more. *)
From Coq Require Import String List Bool Arith Lia.
Import ListNotations.
Require Import WZ.Model.Walk.
Open Scope string_scope.

Section P.
  Variable ws : list walker.
  Variable eof_clean : bool.
  Notation run := (run ws eof_clean).

  Definition good (fuel : nat) (fr : frame) (ts : list tok) : Prop :=
    run fuel fr ts <> OutOfFuel /\ forall r l, run fuel fr ts = Done r l -> List.length r <= List.length ts.

  Lemma run_good : forall fuel fr ts, List.length ts < fuel -> good fuel fr ts.
  Proof.
    induction fuel as [|k IH]; intros fr ts Hlen; [lia|].
    unfold good. destruct fr as [w p | d | e].
    - (* a walker loop *)
      destruct ts as [|t r].
      + cbn [Walk.run]. destruct (eof_clean && w_eof_ok w).
        * split; [discriminate|]. intros r l H. injection H as <- _. cbn [List.length]. lia.
        * split; [discriminate|]. intros r l H. discriminate H.
      + cbn [List.length] in Hlen. assert (List.length r < k) as Hr by lia.
        destruct t as [n ns | n | ].
        * cbn [Walk.run].
          destruct (pick (w_cases w) (w_def w) n ns) as [h explicit].
          destruct (resolve ws h n ns) as [[[sub|] hs]|]; [| |split; [discriminate | intros ? ? H; discriminate H]].
          -- destruct (IH sub r Hr) as [Hn1 Hl1].
             destruct (Walk.run ws eof_clean k sub r) as [r' l1| |] eqn:E1; [|split; [discriminate|intros ? ? H; discriminate H]|contradiction].
             specialize (Hl1 r' l1 eq_refl).
             destruct (h_stop h).
             ++ split; [discriminate|]. intros r0 l0 H. injection H as <- _. cbn [List.length]. lia.
             ++ assert (List.length r' < k) as Hr' by lia.
                destruct (IH (FLoop w p) r' Hr') as [Hn2 Hl2].
                destruct (Walk.run ws eof_clean k (FLoop w p) r') as [r'' l2| |] eqn:E2; [|split; [discriminate|intros ? ? H; discriminate H]|contradiction].
                specialize (Hl2 r'' l2 eq_refl).
                split; [discriminate|]. intros r0 l0 H. injection H as <- _. cbn [List.length]. lia.
          -- destruct (h_stop h).
             ++ split; [discriminate|]. intros r0 l0 H. injection H as <- _. cbn [List.length]. lia.
             ++ destruct (IH (FLoop w p) r Hr) as [Hn2 Hl2].
                destruct (Walk.run ws eof_clean k (FLoop w p) r) as [r'' l2| |] eqn:E2; [|split; [discriminate|intros ? ? H; discriminate H]|contradiction].
                specialize (Hl2 r'' l2 eq_refl).
                split; [discriminate|]. intros r0 l0 H. injection H as <- _. cbn [List.length]. lia.
        * cbn [Walk.run]. destruct (is_end w p n).
          -- split; [discriminate|]. intros r0 l0 H. injection H as <- _. cbn [List.length]. lia.
          -- destruct (IH (FLoop w p) r Hr) as [Hn Hl]. split; [exact Hn|].
             intros r0 l0 H. specialize (Hl r0 l0 H). cbn [List.length]. lia.
        * cbn [Walk.run]. destruct (IH (FLoop w p) r Hr) as [Hn Hl]. split; [exact Hn|].
          intros r0 l0 H. specialize (Hl r0 l0 H). cbn [List.length]. lia.
    - (* skipElement *)
      destruct ts as [|t r]; [cbn [Walk.run]; split; [discriminate | intros ? ? H; discriminate H]|].
      cbn [List.length] in Hlen. assert (List.length r < k) as Hr by lia.
      destruct t as [n ns | n | ]; cbn [Walk.run].
      + destruct (IH (FDepth (S d)) r Hr) as [Hn Hl]. split; [exact Hn|].
        intros r0 l0 H. specialize (Hl r0 l0 H). cbn [List.length]. lia.
      + destruct d as [|[|d']].
        * split; [discriminate|]. intros r0 l0 H. injection H as <- _. cbn [List.length]. lia.
        * split; [discriminate|]. intros r0 l0 H. injection H as <- _. cbn [List.length]. lia.
        * destruct (IH (FDepth (S d')) r Hr) as [Hn Hl]. split; [exact Hn|].
          intros r0 l0 H. specialize (Hl r0 l0 H). cbn [List.length]. lia.
      + destruct (IH (FDepth d) r Hr) as [Hn Hl]. split; [exact Hn|].
        intros r0 l0 H. specialize (Hl r0 l0 H). cbn [List.length]. lia.
    - (* readElementText *)
      destruct ts as [|t r]; [cbn [Walk.run]; split; [discriminate | intros ? ? H; discriminate H]|].
      cbn [List.length] in Hlen. assert (List.length r < k) as Hr by lia.
      destruct (IH (FText e) r Hr) as [Hn Hl].
      destruct t as [n ns | n | ]; cbn [Walk.run].
      + split; [exact Hn|]. intros r0 l0 H. specialize (Hl r0 l0 H). cbn [List.length]. lia.
      + destruct (String.eqb n e).
        * split; [discriminate|]. intros r0 l0 H. injection H as <- _. cbn [List.length]. lia.
        * split; [exact Hn|]. intros r0 l0 H. specialize (Hl r0 l0 H). cbn [List.length]. lia.
      + split; [exact Hn|]. intros r0 l0 H. specialize (Hl r0 l0 H). cbn [List.length]. lia.
  Qed.

  (* every walker, started anywhere in any token stream, returns: with the rest of the stream or with an error *)
  Theorem run_terminates fr ts : run (S (List.length ts)) fr ts <> OutOfFuel.
  Proof. apply (run_good (S (List.length ts)) fr ts). lia. Qed.

  Theorem run_consumes fr ts r l : run (S (List.length ts)) fr ts = Done r l -> List.length r <= List.length ts.
  Proof. apply (run_good (S (List.length ts)) fr ts). lia. Qed.

  (* more fuel changes nothing *)
  Lemma run_mono : forall fuel fr ts, run fuel fr ts <> OutOfFuel -> forall m, fuel <= m -> run m fr ts = run fuel fr ts.
  Proof.
    induction fuel as [|k IH]; intros fr ts H m Hm; [cbn [Walk.run] in H; contradiction|].
    destruct m as [|m]; [lia|]. assert (k <= m) as Hk by lia.
    destruct fr as [w p | d | e]; destruct ts as [|t r]; cbn [Walk.run] in *; try reflexivity.
    - destruct t as [n ns | n | ].
      + destruct (pick (w_cases w) (w_def w) n ns) as [h explicit].
        destruct (resolve ws h n ns) as [[[sub|] hs]|]; [| |reflexivity].
        * destruct (Walk.run ws eof_clean k sub r) as [r' l1| |] eqn:E1; [| |contradiction].
          -- rewrite (IH sub r) by (try rewrite E1; try discriminate; exact Hk). rewrite E1.
             destruct (h_stop h); [reflexivity|].
             destruct (Walk.run ws eof_clean k (FLoop w p) r') as [r'' l2| |] eqn:E2; [| |contradiction].
             ++ rewrite (IH (FLoop w p) r') by (try rewrite E2; try discriminate; exact Hk). rewrite E2. reflexivity.
             ++ rewrite (IH (FLoop w p) r') by (try rewrite E2; try discriminate; exact Hk). rewrite E2. reflexivity.
          -- rewrite (IH sub r) by (try rewrite E1; try discriminate; exact Hk). rewrite E1. reflexivity.
        * destruct (h_stop h); [reflexivity|].
          destruct (Walk.run ws eof_clean k (FLoop w p) r) as [r'' l2| |] eqn:E2; [| |contradiction].
          -- rewrite (IH (FLoop w p) r) by (try rewrite E2; try discriminate; exact Hk). rewrite E2. reflexivity.
          -- rewrite (IH (FLoop w p) r) by (try rewrite E2; try discriminate; exact Hk). rewrite E2. reflexivity.
      + destruct (is_end w p n); [reflexivity|]. apply IH; assumption.
      + apply IH; assumption.
    - destruct t as [n ns | n | ].
      + apply IH; assumption.
      + destruct d as [|[|d']]; try reflexivity. apply IH; assumption.
      + apply IH; assumption.
    - destruct t as [n ns | n | ].
      + apply IH; assumption.
      + destruct (String.eqb n e); [reflexivity|]. apply IH; assumption.
      + apply IH; assumption.
  Qed.
End P.

(* Open on the main part always answers *)
Theorem open_doc_answers ws entry eof ts :
  find_walker ws entry <> None -> open_doc ws entry eof ts <> OpenStuck.
Proof.
  intros Hf. unfold open_doc. destruct (find_walker ws entry) as [w|]; [|contradiction].
  pose proof (run_terminates ws eof (FLoop w "") ts) as H.
  destruct (run ws eof (S (List.length ts)) (FLoop w "") ts); try discriminate; try contradiction.
  destruct (existsb _ hits); discriminate.
Qed.

(* in a consistent table a handler always resolves: an error can only come from the end of the stream *)
Lemma resolve1_ok ws h n : handler_ok ws false h = true -> resolve1 ws h n <> None.
Proof.
  unfold handler_ok, resolve1. destruct (h_kind h) as [g|e| |]; try discriminate.
  destruct (find_walker ws g) as [w|]; [|discriminate]. destruct (w_kind w); discriminate.
Qed.

Lemma find_walker_in ws f w : find_walker ws f = Some w -> In w ws.
Proof.
  induction ws as [|x r IH]; cbn [find_walker]; [discriminate|].
  destruct (String.eqb (w_name x) f); intros H; [injection H as <-; left; reflexivity | right; apply IH; exact H].
Qed.

Lemma pick_ok ws allow cs def n ns :
  forallb (fun c => handler_ok ws allow (snd c)) cs = true -> handler_ok ws allow def = true ->
  handler_ok ws allow (fst (pick cs def n ns)) = true.
Proof.
  induction cs as [|[[c g] h] r IH]; cbn [pick forallb]; intros Hc Hd; [exact Hd|].
  apply andb_true_iff in Hc. destruct Hc as [Hh Hr].
  destruct (String.eqb c n && (negb g || ns)); [exact Hh | apply IH; assumption].
Qed.

Theorem resolve_ok ws h n ns : table_ok ws = true -> handler_ok ws true h = true -> resolve ws h n ns <> None.
Proof.
  intros Ht Hh. unfold resolve.
  destruct (h_kind h) as [g|e| |] eqn:K; try (unfold resolve1; rewrite K; discriminate).
  destruct (find_walker ws g) as [w|] eqn:F.
  - destruct (w_kind w) eqn:WK.
    + unfold resolve1. rewrite K, F, WK. discriminate.
    + unfold resolve1. rewrite K, F, WK. discriminate.
    + destruct (pick (w_cases w) (w_def w) n ns) as [h' ex] eqn:P.
      assert (handler_ok ws false h' = true) as Hh'.
      { unfold table_ok in Ht. rewrite forallb_forall in Ht. specialize (Ht w (find_walker_in ws g w F)).
        unfold walker_ok in Ht. rewrite WK in Ht. apply andb_true_iff in Ht. destruct Ht as [Hc Hd].
        pose proof (pick_ok ws false (w_cases w) (w_def w) n ns Hc Hd) as Hp. rewrite P in Hp. exact Hp. }
      pose proof (resolve1_ok ws h' n Hh') as Hr. destruct (resolve1 ws h' n); [discriminate | contradiction].
  - unfold handler_ok in Hh. rewrite K, F in Hh. discriminate.
Qed.
