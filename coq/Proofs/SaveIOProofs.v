(* Proofs about M-IO (property C05). *)
From Coq Require Import List Bool Arith String Lia.
From WZ Require Import Gen.SaveEffects Model.SaveIO.
Import ListNotations.

Definition fits (k : option nat) (n : nat) : Prop := match k with None => True | Some k => n <= k end.

(* invariant of the buffered stream: nothing is lost while no error occurred, and an error occurs
   exactly when the bytes emitted so far cannot all be below the limit *)
Definition good (k : option nat) (emitted : nat) (s : io) : Prop :=
  (bad s = false -> disk s + pending s = emitted /\ fits k (disk s))
  /\ (bad s = true -> ~ fits k emitted).

Lemma flush_good k m e s : good k e s -> good k e (flush k m s).
Proof.
  unfold good, flush. intros [G1 G2]. destruct (bad s) eqn:B; [simpl; split; intros H; [congruence|exact (G2 eq_refl)]|].
  destruct (G1 eq_refl) as [E F]. destruct k as [k|]; simpl in *.
  - destruct (Nat.leb (disk s + Nat.min m (pending s)) k) eqn:L; simpl.
    + apply Nat.leb_le in L. split; [intros _; split; lia|discriminate].
    + apply Nat.leb_gt in L. split; [discriminate|intros _; lia].
  - split; [intros _; split; [lia|exact I]|discriminate].
Qed.

Lemma wstep_good k e s n f : good k e s -> good k (e + n) (fst (wstep k s (W n f))).
Proof.
  intros G. unfold wstep. destruct (bad s) eqn:B; simpl.
  - destruct G as [_ G2]. split; [congruence|]. intros _. specialize (G2 B). destruct k; simpl in *; [lia|exact G2].
  - apply flush_good. destruct G as [G1 _]. destruct (G1 B) as [E F]. split; simpl; [intros _; split; [lia|exact F]|discriminate].
Qed.

Lemma wstep_err k s o : snd (wstep k s o) = bad (fst (wstep k s o)).
Proof. destruct o as [n f]. unfold wstep. destruct (bad s) eqn:B; simpl; [now rewrite B|reflexivity]. Qed.

Lemma wrun_cons k s o r :
  fst (wrun k s (o :: r)) = fst (wrun k (fst (wstep k s o)) r)
  /\ snd (wrun k s (o :: r)) = snd (wstep k s o) || snd (wrun k (fst (wstep k s o)) r).
Proof.
  cbn [wrun]. destruct (wstep k s o) as [s1 e1]. cbn [fst snd]. destruct (wrun k s1 r) as [s2 e2]. split; reflexivity.
Qed.

Lemma wrun_good k ws : forall e s, good k e s -> good k (e + total ws) (fst (wrun k s ws)).
Proof.
  induction ws as [|[n f] r IH]; intros e s G.
  - simpl. now rewrite Nat.add_0_r.
  - replace (e + total (W n f :: r)) with ((e + n) + total r) by (simpl; lia).
    rewrite (proj1 (wrun_cons k s (W n f) r)). apply IH. now apply wstep_good.
Qed.

Lemma bad_sticky_step k s o : bad s = true -> bad (fst (wstep k s o)) = true.
Proof. destruct o as [n f]. unfold wstep. intros B. now rewrite B. Qed.
Lemma bad_sticky k ws : forall s, bad s = true -> bad (fst (wrun k s ws)) = true.
Proof.
  induction ws as [|o r IH]; intros s B; [exact B|].
  rewrite (proj1 (wrun_cons k s o r)). apply IH. now apply bad_sticky_step.
Qed.

(* the errors reported by the writes are exactly "the stream went bad" *)
Lemma wrun_err k ws : forall s, bad s = false -> snd (wrun k s ws) = bad (fst (wrun k s ws)).
Proof.
  induction ws as [|o r IH]; intros s B; [simpl; now rewrite B|].
  destruct (wrun_cons k s o r) as [E1 E2]. rewrite E1, E2, wstep_err.
  destruct (bad (fst (wstep k s o))) eqn:B1; simpl.
  - symmetry. now apply bad_sticky.
  - now apply IH.
Qed.

Definition all_checked_c (c : checks) : Prop := c_write c = true /\ c_zclose c = true /\ c_fclose c = true /\ c_trunc c = true.

Lemma good_init k : good k 0 (mkIo 0 0 false).
Proof. split; simpl; [intros _; split; [reflexivity|destruct k; simpl; [lia|exact I]]|discriminate]. Qed.

(* C05: when every call is checked, Save returns nil only if every byte of the package is in the file *)
Theorem ok_implies_complete c k ff old ws cd : all_checked_c c ->
  fst (save c k ff old ws cd) = true ->
  snd (save c k ff old ws cd) = total ws + cd /\ fits k (total ws + cd) /\ ff = false.
Proof.
  intros [C1 [C2 [C3 C4]]]. unfold save.
  destruct (wrun k (mkIo 0 0 false) ws) as [s1 werr] eqn:E.
  pose proof (wrun_good k ws 0 _ (good_init k)) as G. rewrite E in G. simpl in G.
  pose proof (wrun_err k ws (mkIo 0 0 false) eq_refl) as We. rewrite E in We. simpl in We. subst werr.
  rewrite C1, C2, C3, C4. simpl.
  destruct (bad s1) eqn:B1; simpl; [discriminate|].
  set (s2 := flush k (pending s1 + cd) (mkIo (disk s1) (pending s1 + cd) false)).
  assert (G2 : good k (total ws + cd) s2).
  { apply flush_good. destruct G as [G1 _]. destruct (G1 B1) as [Eq F]. split; simpl; [intros _; split; [lia|exact F]|discriminate]. }
  destruct (bad s2) eqn:B2; simpl; [discriminate|].
  destruct ff; simpl; [discriminate|]. intros _.
  (* everything was flushed *)
  assert (P : pending s2 = 0 /\ disk s2 = total ws + cd).
  { destruct G2 as [G21 _]. destruct (G21 B2) as [Eq F]. unfold s2, flush in *. simpl in *.
    rewrite Nat.min_id in *. destruct k as [k|]; simpl in *.
    - destruct (Nat.leb (disk s1 + (pending s1 + cd)) k) eqn:L; simpl in *; [lia|discriminate].
    - lia. }
  destruct P as [P1 P2]. destruct G2 as [G21 _]. destruct (G21 B2) as [_ F]. rewrite P2 in F. auto.
Qed.

(* C05: a write failure at any byte offset of the output makes Save return an error *)
Theorem fault_implies_error c k ff old ws cd : all_checked_c c -> k < total ws + cd ->
  fst (save c (Some k) ff old ws cd) = false.
Proof.
  intros A Hk. destruct (fst (save c (Some k) ff old ws cd)) eqn:E; [|reflexivity].
  destruct (ok_implies_complete c (Some k) ff old ws cd A E) as [_ [F _]]. simpl in F. lia.
Qed.

Theorem fclose_failure_implies_error c k old ws cd : all_checked_c c -> fst (save c k true old ws cd) = false.
Proof.
  intros A. destruct (fst (save c k true old ws cd)) eqn:E; [|reflexivity].
  destruct (ok_implies_complete c k true old ws cd A E) as [_ [_ F]]. discriminate.
Qed.

(* without a fault Save succeeds and the file holds exactly the package, whatever was there before *)
Theorem no_fault_ok c old ws cd : all_checked_c c -> save c None false old ws cd = (true, total ws + cd).
Proof.
  intros A. destruct (save c None false old ws cd) as [ok len] eqn:E.
  assert (ok = true).
  { destruct A as [C1 [C2 [C3 C4]]]. unfold save in E.
    destruct (wrun None (mkIo 0 0 false) ws) as [s1 werr] eqn:Ew.
    pose proof (wrun_good None ws 0 _ (good_init None)) as G. rewrite Ew in G. simpl in G.
    pose proof (wrun_err None ws (mkIo 0 0 false) eq_refl) as We. rewrite Ew in We. simpl in We. subst werr.
    assert (B1 : bad s1 = false). { destruct (bad s1) eqn:B; [|reflexivity]. destruct G as [_ G2]. exfalso. apply (G2 B). exact I. }
    rewrite B1, C1, C2, C3 in E. simpl in E. unfold flush in E. simpl in E. inversion E. reflexivity. }
  subst ok. pose proof (ok_implies_complete c None false old ws cd A) as O. rewrite E in O. simpl in O.
  destruct (O eq_refl) as [L _]. now subst.
Qed.

(* instance obligation: in the current source every call's error reaches the return value and the
   target is truncated *)
Lemma source_all_checked : all_checked_c checks_of_source.
Proof. vm_compute. repeat split; reflexivity. Qed.

(* the two ways the pinned / a careless version gets this wrong, as witnesses on the model *)
Example refuted_close_dropped :
  save (mkChecks true false false true) (Some 0) false 0 [W 300 0; W 1200 0] 100 = (true, 0).
Proof. vm_compute. reflexivity. Qed.
Example refuted_no_truncate :
  save (mkChecks true true true false) None false 5000 [W 300 0; W 1200 0] 100 = (true, 5000).
Proof. vm_compute. reflexivity. Qed.
