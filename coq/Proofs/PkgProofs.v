(* Proofs about M-PKG (properties C01 C02 C04 C10 C11): invariants of every reachable package. *)
From Coq Require Import List Bool Arith NArith ZArith Lia FinFun.
From WZ Require Import Model.Pkg.
Import ListNotations.

(* ---- decidable equalities -------------------------------------------------------------------- *)

Lemma ext_eqb_eq a b : ext_eqb a b = true <-> a = b.
Proof.
  destruct a, b; simpl; split; intros H; try discriminate; try reflexivity;
  try (apply N.eqb_eq in H; now subst); try (inversion H; subst; apply N.eqb_refl).
Qed.
Lemma hf_eqb_eq a b : hf_eqb a b = true <-> a = b.
Proof. destruct a, b; simpl; split; intros H; try discriminate; reflexivity. Qed.
Lemma rkind_eqb_eq a b : rkind_eqb a b = true <-> a = b.
Proof.
  destruct a, b; simpl; split; intros H; try discriminate; try reflexivity;
  try (apply N.eqb_eq in H; now subst); try (inversion H; subst; apply N.eqb_refl).
Qed.
Lemma rid_eqb_eq a b : rid_eqb a b = true <-> a = b.
Proof.
  destruct a, b; simpl; split; intros H; try discriminate.
  - apply Nat.eqb_eq in H. now subst.
  - inversion H. apply Nat.eqb_refl.
  - apply N.eqb_eq in H. now subst.
  - inversion H. apply N.eqb_refl.
Qed.
Lemma pname_eqb_eq a b : pname_eqb a b = true <-> a = b.
Proof.
  destruct a, b; simpl; split; intros H; try discriminate; try reflexivity;
  try (apply andb_true_iff in H; destruct H as [H1 H2]);
  try (apply Z.eqb_eq in H1); try (apply N.eqb_eq in H1); try (apply ext_eqb_eq in H2);
  try (apply hf_eqb_eq in H); try (apply Nat.eqb_eq in H); subst; try reflexivity;
  try (inversion H; subst; apply andb_true_iff; split;
       [first [apply Z.eqb_refl | apply N.eqb_refl] | now apply ext_eqb_eq]);
  try (inversion H; subst; now apply hf_eqb_eq);
  try (inversion H; subst; apply Nat.eqb_refl).
Qed.
Lemma pname_eqb_refl a : pname_eqb a a = true. Proof. now apply pname_eqb_eq. Qed.
Lemma rid_eqb_refl a : rid_eqb a a = true. Proof. now apply rid_eqb_eq. Qed.
Lemma pname_eqb_neq a b : pname_eqb a b = false <-> a <> b.
Proof.
  split; intros H.
  - intros E. apply pname_eqb_eq in E. congruence.
  - destruct (pname_eqb a b) eqn:E; [apply pname_eqb_eq in E; contradiction|reflexivity].
Qed.

Lemma mem_rid_In x l : mem_rid x l = true <-> In x l.
Proof.
  unfold mem_rid. rewrite existsb_exists. split.
  - intros [y [Hy E]]. apply rid_eqb_eq in E. now subst.
  - intros H. exists x. split; [exact H|apply rid_eqb_refl].
Qed.
Lemma mem_rid_notIn x l : mem_rid x l = false <-> ~ In x l.
Proof.
  split; intros H.
  - intros I. apply mem_rid_In in I. congruence.
  - destruct (mem_rid x l) eqn:E; [apply mem_rid_In in E; contradiction|reflexivity].
Qed.

(* ---- parts map -------------------------------------------------------------------------------- *)

Lemma get_set_same p c l : get_part p (set_part p c l) = Some c.
Proof.
  induction l as [|[q d] rest IH]; simpl.
  - now rewrite pname_eqb_refl.
  - destruct (pname_eqb p q) eqn:E; simpl; [now rewrite pname_eqb_refl|now rewrite E].
Qed.
Lemma get_set_other p q c l : p <> q -> get_part q (set_part p c l) = get_part q l.
Proof.
  intros N. induction l as [|[r d] rest IH]; simpl.
  - destruct (pname_eqb q p) eqn:E; [apply pname_eqb_eq in E; congruence|reflexivity].
  - destruct (pname_eqb p r) eqn:E; simpl.
    + apply pname_eqb_eq in E. subst r.
      destruct (pname_eqb q p) eqn:E2; [apply pname_eqb_eq in E2; congruence|reflexivity].
    + destruct (pname_eqb q r); [reflexivity|exact IH].
Qed.
Lemma names_set_part p c l x : In x (map fst (set_part p c l)) <-> x = p \/ In x (map fst l).
Proof.
  induction l as [|[q d] rest IH]; simpl.
  - intuition.
  - destruct (pname_eqb p q) eqn:E; simpl.
    + apply pname_eqb_eq in E. subst q. intuition.
    + rewrite IH. intuition.
Qed.
Lemma get_part_In p l c : get_part p l = Some c -> In p (map fst l).
Proof.
  induction l as [|[q d] rest IH]; simpl; [discriminate|].
  destruct (pname_eqb p q) eqn:E; [apply pname_eqb_eq in E; subst; now left|right; now apply IH].
Qed.
Lemma has_part_In p k : has_part p k = true <-> In p (map fst (parts k)).
Proof.
  unfold has_part. rewrite existsb_exists. split.
  - intros [q [Hq E]]. apply pname_eqb_eq in E. subst. now apply in_map.
  - intros H. apply in_map_iff in H. destruct H as [q [E Hq]]. exists q. split; [exact Hq|subst; apply pname_eqb_refl].
Qed.

(* ---- fresh ids --------------------------------------------------------------------------------- *)

Lemma fresh_from_spec k n fuel i : fresh_from k n fuel = Some i ->
  is_free k i = true /\ exists m, i = RId m /\ n <= m.
Proof.
  revert n. induction fuel as [|f IH]; intros n; simpl; [discriminate|].
  destruct (is_free k (RId n)) eqn:E.
  - intros H. inversion H; subst. split; [exact E|exists n; split; [reflexivity|lia]].
  - intros H. destruct (IH _ H) as [F [m [Em Hm]]]. split; [exact F|exists m; split; [exact Em|lia]].
Qed.

Lemma fresh_from_none k n fuel : fresh_from k n fuel = None ->
  forall j, j < fuel -> is_free k (RId (n + j)) = false.
Proof.
  revert n. induction fuel as [|f IH]; intros n H j Hj; [lia|].
  simpl in H. destruct (is_free k (RId n)) eqn:E; [discriminate|].
  destruct j as [|j]; [now rewrite Nat.add_0_r|].
  replace (n + S j) with (S n + j) by lia. apply IH; [exact H|lia].
Qed.

Lemma RId_seq_NoDup n m : NoDup (map RId (seq n m)).
Proof.
  apply Injective_map_NoDup; [intros a b E; now inversion E|apply seq_NoDup].
Qed.

(* len+2 candidates always contain a free one: at most len ids and one styles id are taken *)
Theorem fresh_total k : exists i, fresh k = Some i.
Proof.
  unfold fresh. destruct (fresh_from k (length (drels k) + 2) (length (drels k) + 2)) as [i|] eqn:E; [now exists i|].
  exfalso. pose proof (fresh_from_none _ _ _ E) as F.
  set (n := length (drels k) + 2) in *.
  set (taken := match sid k with Some s => s :: ids k | None => ids k end).
  assert (Incl : incl (map RId (seq n n)) taken).
  { intros x Hx. apply in_map_iff in Hx. destruct Hx as [m [Em Hm]]. apply in_seq in Hm.
    specialize (F (m - n) ltac:(lia)). replace (n + (m - n)) with m in F by lia. subst x.
    unfold is_free in F. apply andb_false_iff in F. unfold taken. destruct F as [F|F].
    - apply negb_false_iff in F. apply mem_rid_In in F. destruct (sid k); [now right|exact F].
    - destruct (sid k) as [s|]; [|discriminate]. apply negb_false_iff in F. apply rid_eqb_eq in F. now left. }
  pose proof (NoDup_incl_length (RId_seq_NoDup n n) Incl) as L.
  rewrite map_length, seq_length in L.
  assert (length taken <= S (length (drels k))).
  { unfold taken, ids. destruct (sid k); simpl; rewrite map_length; lia. }
  lia.
Qed.

Lemma fresh_spec k i : fresh k = Some i -> ~ In i (ids k) /\ sid k <> Some i.
Proof.
  unfold fresh. intros H. destruct (fresh_from_spec _ _ _ _ H) as [F _].
  unfold is_free in F. apply andb_true_iff in F. destruct F as [F1 F2].
  apply negb_true_iff in F1. apply mem_rid_notIn in F1. split; [exact F1|].
  intros E. rewrite E in F2. rewrite rid_eqb_refl in F2. discriminate.
Qed.

Lemma first_unused_all used n fuel :
  mem_rid (first_unused used n fuel) used = true -> forall j, j <= fuel -> mem_rid (RId (n + j)) used = true.
Proof.
  revert n. induction fuel as [|f IH]; intros n H j Hj; simpl in H.
  - assert (j = 0) by lia. subst. now rewrite Nat.add_0_r.
  - destruct (mem_rid (RId n) used) eqn:E.
    + destruct j as [|j]; [now rewrite Nat.add_0_r|].
      replace (n + S j) with (S n + j) by lia. apply IH; [exact H|lia].
    + rewrite E in H. discriminate.
Qed.

Lemma first_unused_free used n : ~ In (first_unused used n (length used)) used.
Proof.
  intros H. apply mem_rid_In in H. pose proof (first_unused_all _ _ _ H) as A.
  assert (Incl : incl (map RId (seq n (S (length used)))) used).
  { intros x Hx. apply in_map_iff in Hx. destruct Hx as [m [Em Hm]]. apply in_seq in Hm. subst x.
    apply mem_rid_In. specialize (A (m - n) ltac:(lia)). now replace (n + (m - n)) with m in A by lia. }
  pose proof (NoDup_incl_length (RId_seq_NoDup n (S (length used))) Incl) as L.
  rewrite map_length, seq_length in L. lia.
Qed.

(* the id under which the styles relationship is written never collides *)
Theorem styles_id_free k : ~ In (styles_id k) (ids k).
Proof.
  unfold styles_id.
  assert (F : ~ In (first_unused (ids k) (length (drels k) + 2) (length (drels k) + 1)) (ids k)).
  { assert (E : length (drels k) + 1 = S (length (ids k))) by (unfold ids; rewrite map_length; lia).
    intros H. apply mem_rid_In in H. pose proof (first_unused_all _ _ _ H) as A.
    set (n := length (drels k) + 2) in *.
    assert (Incl : incl (map RId (seq n (S (length (ids k))))) (ids k)).
    { intros x Hx. apply in_map_iff in Hx. destruct Hx as [m [Em Hm]]. apply in_seq in Hm. subst x.
      apply mem_rid_In. specialize (A (m - n) ltac:(lia)). now replace (n + (m - n)) with m in A by lia. }
    pose proof (NoDup_incl_length (RId_seq_NoDup n (S (length (ids k)))) Incl) as L.
    rewrite map_length, seq_length in L. lia. }
  destruct (sid k) as [s|].
  - destruct (mem_rid s (ids k)) eqn:E1.
    + destruct (mem_rid (RId 1) (ids k)) eqn:E2; [exact F|now apply mem_rid_notIn].
    + now apply mem_rid_notIn.
  - destruct (mem_rid (RId 1) (ids k)) eqn:E2; [exact F|now apply mem_rid_notIn].
Qed.

(* ---- the invariant of every reachable package ------------------------------------------------ *)

Definition covered (k : pkg) (p : pname) : Prop := In (ext_of p) (defaults k) \/ In p (overrides k).
Definition img_part (p : pname) : Prop := match p with PMedia _ _ | PForeign _ _ => True | _ => False end.

Record Inv (k : pkg) : Prop := mkInv {
  inv_nodup : NoDup (ids k);
  inv_sid : forall s, sid k = Some s -> ~ In s (ids k);
  inv_targets : forall r p, In r (drels k) -> r_target r = TPart p -> In p (saved_part_names k);
  inv_hrefs : forall kd i, In (kd, i) (hrefs k) -> exists p, In (mkRel i KHeader (TPart p)) (drels k);
  inv_frefs : forall kd i, In (kd, i) (frefs k) -> exists p, In (mkRel i KFooter (TPart p)) (drels k);
  inv_hkinds : NoDup (map fst (hrefs k));
  inv_fkinds : NoDup (map fst (frefs k));
  inv_pics : forall i b, In (i, b) (pics k) ->
             exists p, img_part p /\ In (mkRel i KImage (TPart p)) (drels k) /\ get_part p (parts k) = Some b;
  inv_ct : forall p, In p (names k) -> p <> PCT -> covered k p;
  inv_gen : forall p, In p [PDoc; PStyles; PRels; PDocRels] -> covered k p;
  inv_media : forall i e, In (PMedia i e) (names k) -> (i < nimg k)%Z
}.

Lemma saved_names k x : In x (saved_part_names k) <-> In x (names k) \/ In x [PDoc; PStyles; PCT; PRels; PDocRels].
Proof.
  unfold saved_part_names, save_parts, names.
  rewrite !names_set_part.
  destruct (existsb (fun q => pname_eqb PStyles (fst q)) (set_part PDoc 0%N (parts k))) eqn:E.
  - rewrite names_set_part. apply existsb_exists in E. destruct E as [q [Hq Eq]]. apply pname_eqb_eq in Eq.
    assert (In PStyles (map fst (set_part PDoc 0%N (parts k)))) by (rewrite Eq; now apply in_map).
    rewrite names_set_part in H. simpl. intuition; subst; try discriminate; intuition.
  - rewrite !names_set_part. simpl. intuition.
Qed.

Lemma add_default_In e l x : In x (add_default e l) <-> x = e \/ In x l.
Proof.
  unfold add_default. destruct (existsb (ext_eqb e) l) eqn:E.
  - apply existsb_exists in E. destruct E as [y [Hy Ey]]. apply ext_eqb_eq in Ey. subst y. intuition; subst; auto.
  - rewrite in_app_iff. simpl. intuition.
Qed.
Lemma add_override_In p l x : In x (add_override p l) <-> x = p \/ In x l.
Proof.
  unfold add_override. destruct (existsb (pname_eqb p) l) eqn:E.
  - apply existsb_exists in E. destruct E as [y [Hy Ey]]. apply pname_eqb_eq in Ey. subst y. intuition; subst; auto.
  - rewrite in_app_iff. simpl. intuition.
Qed.

Lemma set_ref_In kd i l x : NoDup (map fst l) -> In x (set_ref kd i l) -> x = (kd, i) \/ (In x l /\ fst x <> kd).
Proof.
  induction l as [|[k0 j] rest IH]; simpl; intros ND.
  - intros [H|[]]. now left.
  - inversion ND as [|? ? Hn ND']; subst. destruct (hf_eqb kd k0) eqn:E; simpl.
    + apply hf_eqb_eq in E. subst k0. intros [H|H]; [now left|].
      right. split; [now right|]. intros F. apply Hn. rewrite <- F. now apply in_map.
    + intros [H|H].
      * right. subst x. split; [now left|]. simpl. intros F. subst k0. rewrite (proj2 (hf_eqb_eq kd kd) eq_refl) in E. discriminate.
      * destruct (IH ND' H) as [A|[A B]]; [now left|right; split; [now right|exact B]].
Qed.

Lemma set_ref_kinds kd i l : NoDup (map fst l) -> NoDup (map fst (set_ref kd i l)).
Proof.
  induction l as [|[k0 j] rest IH]; simpl; intros ND.
  - constructor; [intros []|constructor].
  - inversion ND as [|? ? Hn ND']; subst. destruct (hf_eqb kd k0) eqn:E; simpl.
    + apply hf_eqb_eq in E. subst k0. constructor; assumption.
    + constructor; [|now apply IH].
      intros H. apply in_map_iff in H. destruct H as [x [Ex Hx]].
      destruct (set_ref_In _ _ _ _ ND' Hx) as [A|[A B]].
      * subst x. simpl in Ex. subst k0. rewrite (proj2 (hf_eqb_eq kd kd) eq_refl) in E. discriminate.
      * apply Hn. rewrite <- Ex. now apply in_map.
Qed.

Lemma set_ref_has kd i l : In (kd, i) (set_ref kd i l).
Proof.
  induction l as [|[k0 j] rest IH]; simpl; [now left|].
  destruct (hf_eqb kd k0); simpl; [now left|now right].
Qed.

Definition mm_step (m : Z) (q : pname * N) : Z := match fst q with PMedia i _ => Z.max m i | _ => m end.
Lemma max_media_ge (l : list (pname * N)) : forall m i e, In (PMedia i e) (map fst l) ->
  (i <= fold_left mm_step l m)%Z.
Proof.
  induction l as [|[q d] rest IH]; simpl; intros m i e H; [contradiction|].
  destruct H as [H|H].
  - subst q. simpl.
    assert (G : forall (l0 : list (pname * N)) m0, (m0 <= fold_left mm_step l0 m0)%Z).
    { induction l0 as [|[q0 d0] r0 IH0]; simpl; intros m0; [lia|].
      unfold mm_step at 2. simpl. destruct q0; try apply IH0. specialize (IH0 (Z.max m0 id)). lia. }
    unfold mm_step at 2. simpl. specialize (G rest (Z.max m i)). lia.
  - now apply (IH _ i e).
Qed.

(* ---- preservation ------------------------------------------------------------------------------ *)

Lemma target_eqb_refl t : target_eqb t t = true.
Proof. destruct t; simpl; [apply pname_eqb_refl | apply N.eqb_refl]. Qed.

(* the name a new header/footer part gets: the library's name for the kind, or a numbered one *)
Lemma hf_part_cases footer kd k :
  hf_part footer kd k = (if footer then PFooter kd else PHeader kd) \/
  exists m, hf_part footer kd k = (if footer then PFooterN m else PHeaderN m).
Proof.
  unfold hf_part. destruct (has_part _ k && used_by_other_kind footer kd _ k); [|now left].
  right. unfold hf_fresh_name. destruct (first_unused _ 2 _) as [m|a]; [exists m | exists 0]; reflexivity.
Qed.

Lemma inv_new : Inv new_pkg.
Proof.
  constructor; unfold covered, names, ids; cbn; intros;
  repeat match goal with H : _ \/ _ |- _ => destruct H as [H|H] end;
  subst; try discriminate; try contradiction; try congruence; cbn; auto 8; try constructor.
Qed.

Lemma NoDup_app_intro_single {A} (l : list A) (x : A) : NoDup l -> ~ In x l -> NoDup (l ++ [x]).
Proof.
  induction l as [|a l IH]; simpl; intros ND Hn.
  - constructor; [intros []|constructor].
  - inversion ND as [|? ? Ha ND']; subst. constructor.
    + rewrite in_app_iff. simpl. intros [H|[H|[]]]; [contradiction|subst; apply Hn; now left].
    + apply IH; [exact ND'|intros H; apply Hn; now right].
Qed.

(* adding one relationship to a part p under a fresh id *)
Lemma inv_add_rel k i kd p c defs ovs hr fr pc nimg' ph :
  Inv k -> fresh k = Some i ->
  (forall x, In x (defaults k) -> In x defs) -> (forall x, In x (overrides k) -> In x ovs) ->
  (In (ext_of p) defs \/ In p ovs) ->
  (forall kd0 j, In (kd0, j) hr -> In (kd0, j) (hrefs k) \/ (j = i /\ kd = KHeader)) ->
  (forall kd0 j, In (kd0, j) fr -> In (kd0, j) (frefs k) \/ (j = i /\ kd = KFooter)) ->
  NoDup (map fst hr) -> NoDup (map fst fr) ->
  (forall j b, In (j, b) pc -> In (j, b) (pics k) \/ (j = i /\ kd = KImage /\ b = c /\ img_part p)) ->
  (forall q, img_part q -> In q (names k) -> q = p -> False) ->
  (forall j e, In (PMedia j e) (p :: names k) -> (j < nimg')%Z) ->
  Inv (mkPkg (drels k ++ [mkRel i kd (TPart p)]) (sid k) (set_part p c (parts k)) defs ovs nimg' hr fr pc ph).
Proof.
  intros I F Hd Ho Hc Hh Hf NDh NDf Hp Hfreshpart Hm.
  destruct (fresh_spec _ _ F) as [Fi Fs].
  assert (Nm : forall x, In x (names k) -> In x (map fst (set_part p c (parts k)))).
  { intros x Hx. apply names_set_part. now right. }
  constructor; unfold ids, names, covered in *; cbn [drels sid parts defaults overrides nimg hrefs frefs pics].
  - rewrite map_app. simpl. apply NoDup_app_intro_single; [apply (inv_nodup _ I)|exact Fi].
  - intros s Hs. rewrite map_app, in_app_iff. simpl. intros [H|[H|[]]].
    + exact (inv_sid _ I s Hs H).
    + subst s. congruence.
  - intros r q Hr Ht. apply saved_names. cbn [parts names]. unfold names. cbn [parts].
    apply in_app_iff in Hr. destruct Hr as [Hr|[Hr|[]]].
    + pose proof (inv_targets _ I r q Hr Ht) as T. apply saved_names in T. destruct T as [T|T]; [left; now apply Nm|now right].
    + subst r. simpl in Ht. inversion Ht; subst. left. apply names_set_part. now left.
  - intros kd0 j H. destruct (Hh _ _ H) as [A|[A B]].
    + destruct (inv_hrefs _ I _ _ A) as [q Hq]. exists q. apply in_app_iff. now left.
    + subst. exists p. apply in_app_iff. right. now left.
  - intros kd0 j H. destruct (Hf _ _ H) as [A|[A B]].
    + destruct (inv_frefs _ I _ _ A) as [q Hq]. exists q. apply in_app_iff. now left.
    + subst. exists p. apply in_app_iff. right. now left.
  - exact NDh.
  - exact NDf.
  - intros j b H. destruct (Hp _ _ H) as [A|[A [B [C D]]]].
    + destruct (inv_pics _ I _ _ A) as [q [Hq1 [Hq2 Hq3]]]. exists q. split; [exact Hq1|]. split; [apply in_app_iff; now left|].
      rewrite get_set_other; [exact Hq3|]. intros E. subst q.
      exact (Hfreshpart p Hq1 (get_part_In _ _ _ Hq3) eq_refl).
    + subst. exists p. split; [exact D|]. split; [apply in_app_iff; right; now left|apply get_set_same].
  - intros q Hq Hn. apply names_set_part in Hq. destruct Hq as [Hq|Hq].
    + subst q. exact Hc.
    + destruct (inv_ct _ I q Hq Hn) as [A|A]; [left; now apply Hd|right; now apply Ho].
  - intros q Hq. destruct (inv_gen _ I q Hq) as [A|A]; [left; now apply Hd|right; now apply Ho].
  - intros j e H. apply names_set_part in H. apply (Hm j e). destruct H as [H|H]; [left; now symmetry|now right].
Qed.

Lemma media_not_in k e : Inv k -> ~ In (PMedia (nimg k) e) (names k).
Proof. intros I H. pose proof (inv_media _ I _ _ H). lia. Qed.

Lemma add_rel_part_inv k kd p c k' :
  Inv k -> (kd <> KImage /\ kd <> KHeader /\ kd <> KFooter) -> ~ img_part p ->
  (forall i e, p <> PMedia i e) ->
  add_rel_part k kd p c true = Some k' -> Inv k'.
Proof.
  intros I [K1 [K2 K3]] Np Nm H. unfold add_rel_part in H.
  destruct (fresh k) as [i|] eqn:F; [|discriminate]. inversion H; subst k'. clear H.
  apply inv_add_rel; try assumption.
  - auto.
  - intros x Hx. apply add_override_In. now right.
  - right. apply add_override_In. now left.
  - intros; now left.
  - intros; now left.
  - apply (inv_hkinds _ I).
  - apply (inv_fkinds _ I).
  - intros; now left.
  - intros q Hq _ E. subst q. contradiction.
  - intros j e [H|H]; [exfalso; exact (Nm j e H)|exact (inv_media _ I _ _ H)].
Qed.

Theorem step_inv k o k' : Inv k -> step k o = Some k' -> Inv k'.
Proof.
  intros I H. destruct o; simpl in H.
  - (* AddImage *)
    destruct (fresh k) as [i|] eqn:F; [|discriminate]. inversion H; subst k'. clear H.
    apply inv_add_rel; try assumption.
    + intros x Hx. apply add_default_In. now right.
    + auto.
    + left. simpl. apply add_default_In. now left.
    + intros; now left.
    + intros; now left.
    + apply (inv_hkinds _ I).
    + apply (inv_fkinds _ I).
    + intros j b0 Hj. apply in_app_iff in Hj. destruct Hj as [Hj|[Hj|[]]]; [now left|].
      inversion Hj; subst. right. repeat split; exact I.
    + intros q _ Hq E. subst q. exact (media_not_in _ _ I Hq).
    + intros j e [Hj|Hj].
      * inversion Hj; subst. lia.
      * pose proof (inv_media _ I _ _ Hj). lia.
  - (* AddHF *)
    destruct (fresh k) as [i|] eqn:F; [|discriminate]. inversion H; subst k'. clear H.
    apply inv_add_rel; try assumption.
    + auto.
    + intros x Hx. apply add_override_In. now right.
    + right. apply add_override_In. now left.
    + intros kd0 j Hj. destruct footer; [now left|].
      destruct (set_ref_In _ _ _ _ (inv_hkinds _ I) Hj) as [A|[A _]]; [inversion A; subst; now right|now left].
    + intros kd0 j Hj. destruct footer; [|now left].
      destruct (set_ref_In _ _ _ _ (inv_fkinds _ I) Hj) as [A|[A _]]; [inversion A; subst; now right|now left].
    + destruct footer; [apply (inv_hkinds _ I)|apply set_ref_kinds, (inv_hkinds _ I)].
    + destruct footer; [apply set_ref_kinds, (inv_fkinds _ I)|apply (inv_fkinds _ I)].
    + intros; now left.
    + intros q Hq _ E. subst q. destruct (hf_part_cases footer kd k) as [E|[m E]]; rewrite E in Hq; destruct footer; exact Hq.
    + intros j e [Hj|Hj]; [destruct (hf_part_cases footer kd k) as [E|[m E]]; rewrite E in Hj; destruct footer; discriminate|exact (inv_media _ I _ _ Hj)].
  - (* AddList *)
    destruct (has_part PNumbering k); [inversion H; now subst|].
    eapply add_rel_part_inv; try exact H; try exact I; [repeat split; discriminate|exact (fun x => x)|discriminate].
  - (* AddNote *)
    destruct (has_part (if endnote then PEndnotes else PFootnotes) k); [inversion H; now subst|].
    eapply add_rel_part_inv; try exact H; try exact I.
    + destruct endnote; repeat split; discriminate.
    + destruct endnote; exact (fun x => x).
    + destruct endnote; discriminate.
  - (* SetNoteCfg *)
    destruct (has_part PSettings k); [inversion H; now subst|].
    eapply add_rel_part_inv; try exact H; try exact I; [repeat split; discriminate|exact (fun x => x)|discriminate].
  - (* SetProps *)
    inversion H; subst k'. clear H.
    assert (Nm : forall x, In x (names k) -> In x (map fst (set_part PApp 0%N (set_part PCore 0%N (parts k))))).
    { intros x Hx. apply names_set_part. right. apply names_set_part. now right. }
    constructor; unfold ids, names, covered in *; cbn [drels sid parts defaults overrides nimg hrefs frefs pics].
    + apply (inv_nodup _ I).
    + apply (inv_sid _ I).
    + intros r q Hr Ht. pose proof (inv_targets _ I r q Hr Ht) as T. apply saved_names in T. apply saved_names.
      unfold names. cbn [parts]. destruct T as [T|T]; [left; now apply Nm|now right].
    + apply (inv_hrefs _ I).
    + apply (inv_frefs _ I).
    + apply (inv_hkinds _ I).
    + apply (inv_fkinds _ I).
    + intros j b Hj. destruct (inv_pics _ I _ _ Hj) as [q [Q1 [Q2 Q3]]]. exists q. repeat split; try assumption.
      rewrite !get_set_other; [exact Q3| |]; intros E; subst q; exact Q1.
    + intros q Hq Hn. apply names_set_part in Hq. destruct Hq as [Hq|Hq].
      * subst q. right. apply add_override_In. now left.
      * apply names_set_part in Hq. destruct Hq as [Hq|Hq].
        -- subst q. right. apply add_override_In. right. apply add_override_In. now left.
        -- destruct (inv_ct _ I q Hq Hn) as [A|A]; [now left|right; apply add_override_In; right; apply add_override_In; now right].
    + intros q Hq. destruct (inv_gen _ I q Hq) as [A|A]; [now left|right; apply add_override_In; right; apply add_override_In; now right].
    + intros j e Hj. apply names_set_part in Hj. destruct Hj as [Hj|Hj]; [discriminate|].
      apply names_set_part in Hj. destruct Hj as [Hj|Hj]; [discriminate|exact (inv_media _ I _ _ Hj)].
  - (* AddPlaceholder *)
    inversion H; subst k'. clear H. destruct I. constructor; assumption.
  - (* SaveReopen *)
    inversion H; subst k'. clear H.
    constructor; unfold ids, names, covered in *; cbn [drels sid parts defaults overrides nimg hrefs frefs pics].
    + apply (inv_nodup _ I).
    + intros s Hs. inversion Hs; subst s. apply styles_id_free.
    + intros r q Hr Ht. pose proof (inv_targets _ I r q Hr Ht) as T. apply saved_names.
      left. unfold names. cbn [parts]. exact T.
    + apply (inv_hrefs _ I).
    + apply (inv_frefs _ I).
    + apply (inv_hkinds _ I).
    + apply (inv_fkinds _ I).
    + intros j b Hj. destruct (inv_pics _ I _ _ Hj) as [q [Q1 [Q2 Q3]]]. exists q. repeat split; try assumption.
      unfold save_parts.
      destruct (existsb (fun q0 => pname_eqb PStyles (fst q0)) (set_part PDoc 0%N (parts k)));
      rewrite !get_set_other; try exact Q3; intros E; subst q; exact Q1.
    + intros q Hq Hn. change (In q (saved_part_names k)) in Hq. apply saved_names in Hq. destruct Hq as [Hq|Hq].
      * exact (inv_ct _ I q Hq Hn).
      * apply (inv_gen _ I). simpl in *. intuition.
    + apply (inv_gen _ I).
    + intros j e Hj. pose proof (max_media_ge (save_parts k) (-1)%Z j e Hj) as G.
      unfold max_media. fold mm_step. unfold mm_step in *. lia.
Qed.

Theorem step_total k o : exists k', step k o = Some k'.
Proof.
  destruct (fresh_total k) as [i F].
  destruct o; simpl; unfold add_rel_part; rewrite ?F;
  repeat match goal with |- context [if ?c then _ else _] => destruct c end; eexists; reflexivity.
Qed.

Theorem run_inv ops : forall k k', Inv k -> run k ops = Some k' -> Inv k'.
Proof.
  induction ops as [|o ops IH]; simpl; intros k k' I H; [inversion H; now subst|].
  destruct (step k o) as [k1|] eqn:E; [|discriminate]. eapply IH; [eapply step_inv; eassumption|exact H].
Qed.

Theorem run_total ops : forall k, exists k', run k ops = Some k'.
Proof.
  induction ops as [|o ops IH]; simpl; intros k; [now exists k|].
  destruct (step_total k o) as [k1 E]. rewrite E. apply IH.
Qed.

Lemma render_phs_inv nms imgs : forall k k', Inv k -> render_phs k nms imgs = Some k' -> Inv k'.
Proof.
  induction nms as [|n rest IH]; cbn [render_phs]; intros k k' I H; [inversion H; now subst|].
  destruct (lookup_img n imgs) as [[f b]|].
  - destruct (step k (AddImage f b false)) as [k1|] eqn:E; [|discriminate].
    eapply IH; [eapply step_inv; eassumption|exact H].
  - eapply IH; eassumption.
Qed.

(* a document rendered from a template satisfies the invariant if the template does *)
Theorem render_inv k imgs k' : Inv k -> render k imgs = Some k' -> Inv k'.
Proof.
  intros I H. unfold render in H. eapply render_phs_inv; [|exact H].
  destruct I. constructor; assumption.
Qed.

(* ---- what the invariant says about the saved package (the properties' clauses) ---------------- *)

(* C02: relationship ids are unique in the document relationship part *)
Theorem saved_ids_unique k : Inv k -> NoDup (map r_id (saved_rels k)).
Proof.
  intros I. unfold saved_rels. simpl. constructor; [apply styles_id_free|apply (inv_nodup _ I)].
Qed.

(* C02: every internal relationship points at a part of the saved package *)
Theorem saved_targets_exist k r p : Inv k -> In r (saved_rels k) -> r_target r = TPart p -> In p (saved_part_names k).
Proof.
  intros I [H|H] Ht.
  - subst r. simpl in Ht. inversion Ht; subst. apply saved_names. right. simpl. auto.
  - exact (inv_targets _ I r p H Ht).
Qed.

(* C02 / C11: section references resolve to a relationship of the matching kind *)
Theorem header_refs_resolve k kd i : Inv k -> In (kd, i) (hrefs k) ->
  exists p, In (mkRel i KHeader (TPart p)) (saved_rels k) /\ In p (saved_part_names k).
Proof.
  intros I H. destruct (inv_hrefs _ I _ _ H) as [p Hp]. exists p. split; [now right|].
  exact (inv_targets _ I _ p Hp eq_refl).
Qed.
Theorem footer_refs_resolve k kd i : Inv k -> In (kd, i) (frefs k) ->
  exists p, In (mkRel i KFooter (TPart p)) (saved_rels k) /\ In p (saved_part_names k).
Proof.
  intros I H. destruct (inv_frefs _ I _ _ H) as [p Hp]. exists p. split; [now right|].
  exact (inv_targets _ I _ p Hp eq_refl).
Qed.

Lemma nodup_id_unique (l : list rel) r1 r2 :
  NoDup (map r_id l) -> In r1 l -> In r2 l -> r_id r1 = r_id r2 -> r1 = r2.
Proof.
  induction l as [|a l IH]; simpl; intros ND H1 H2 E; [contradiction|].
  inversion ND as [|? ? Hn ND']; subst.
  destruct H1 as [H1|H1]; destruct H2 as [H2|H2].
  - congruence.
  - subst a. exfalso. apply Hn. rewrite E. now apply in_map.
  - subst a. exfalso. apply Hn. rewrite <- E. now apply in_map.
  - now apply IH.
Qed.

(* C10: every picture resolves, through exactly one relationship, to the bytes it was given *)
Theorem pictures_resolve k i b : Inv k -> In (i, b) (pics k) ->
  exists p, In (mkRel i KImage (TPart p)) (saved_rels k)
            /\ get_part p (save_parts k) = Some b
            /\ (forall r, In r (saved_rels k) -> r_id r = i -> r = mkRel i KImage (TPart p)).
Proof.
  intros I H. destruct (inv_pics _ I _ _ H) as [p [P1 [P2 P3]]]. exists p. split; [now right|]. split.
  - unfold save_parts.
    destruct (existsb (fun q0 => pname_eqb PStyles (fst q0)) (set_part PDoc 0%N (parts k)));
    rewrite !get_set_other; try exact P3; intros E; subst p; exact P1.
  - intros r Hr Hi. pose proof (saved_ids_unique k I) as ND.
    assert (Hin : In (mkRel i KImage (TPart p)) (saved_rels k)) by now right.
    apply (nodup_id_unique _ _ _ ND Hr Hin). exact Hi.
Qed.

(* C01: every part of the saved package other than the content-types part has a content type *)
Theorem saved_parts_covered k p : Inv k -> In p (saved_part_names k) -> p <> PCT -> covered k p.
Proof.
  intros I H Hn. apply saved_names in H. destruct H as [H|H].
  - exact (inv_ct _ I p H Hn).
  - apply (inv_gen _ I). simpl in *. intuition.
Qed.

(* C11: at most one reference per kind *)
Theorem one_ref_per_kind k : Inv k -> NoDup (map fst (hrefs k)) /\ NoDup (map fst (frefs k)).
Proof. intros I. split; [apply (inv_hkinds _ I)|apply (inv_fkinds _ I)]. Qed.

(* C11: after a header call the reference of that kind resolves to a part with the new payload *)
Theorem header_latest k kd payload k' : Inv k -> step k (AddHF false kd payload) = Some k' ->
  exists i p, In (kd, i) (hrefs k') /\ In (mkRel i KHeader (TPart p)) (drels k')
            /\ get_part p (parts k') = Some payload.
Proof.
  intros I H. simpl in H. destruct (fresh k) as [i|]; [|discriminate]. inversion H; subst k'. clear H.
  exists i, (hf_part false kd k). cbn [hrefs drels parts]. split; [apply set_ref_has|]. split; [apply in_app_iff; right; now left|apply get_set_same].
Qed.
Theorem footer_latest k kd payload k' : Inv k -> step k (AddHF true kd payload) = Some k' ->
  exists i p, In (kd, i) (frefs k') /\ In (mkRel i KFooter (TPart p)) (drels k')
            /\ get_part p (parts k') = Some payload.
Proof.
  intros I H. simpl in H. destruct (fresh k) as [i|]; [|discriminate]. inversion H; subst k'. clear H.
  exists i, (hf_part true kd k). cbn [frefs drels parts]. split; [apply set_ref_has|]. split; [apply in_app_iff; right; now left|apply get_set_same].
Qed.

(* the numbered name chosen when the library's own name is taken by another kind is the name of no part *)
Lemma first_unused_RId used n fuel : exists m, first_unused used n fuel = RId m.
Proof.
  revert n. induction fuel as [|f IH]; intros n; simpl; [now exists n|].
  destruct (mem_rid (RId n) used); [apply IH | now exists n].
Qed.

Lemma hf_fresh_not_in footer k : ~ In (hf_fresh_name footer k) (names k).
Proof.
  unfold hf_fresh_name. pose proof (first_unused_free (hfn_ids footer k) 2) as Hfree.
  destruct (first_unused_RId (hfn_ids footer k) 2 (length (hfn_ids footer k))) as [m Em]. rewrite Em in *.
  intros Hin. apply Hfree. unfold hfn_ids. apply in_flat_map. unfold names in Hin. apply in_map_iff in Hin.
  destruct Hin as [q [Eq Hq]]. exists q. split; [exact Hq|]. rewrite Eq. destruct footer; now left.
Qed.

(* C11, the other kinds: a header call for one kind leaves the part that a reference of ANOTHER kind resolves to as
   it was - also when the opened document calls that part by the name the library uses for the kind being set, or
   uses one part for both kinds *)
Theorem header_other_kinds_kept k kd payload k' kd' j q :
  Inv k -> step k (AddHF false kd payload) = Some k' ->
  kd' <> kd -> In (kd', j) (hrefs k) -> In (mkRel j KHeader (TPart q)) (drels k) ->
  get_part q (parts k') = get_part q (parts k).
Proof.
  intros I H Hne Hr Hrel. simpl in H. destruct (fresh k) as [i|]; [|discriminate]. inversion H; subst k'. clear H.
  cbn [parts]. apply get_set_other. intros E.
  assert (Hq : In q (names k)).
  { pose proof (inv_targets _ I _ q Hrel eq_refl) as T. apply saved_names in T. destruct T as [T|T]; [exact T|].
    exfalso. destruct (hf_part_cases false kd k) as [E'|[m E']]; rewrite E' in E; subst q;
    repeat (destruct T as [T|T]; [discriminate|]); exact T. }
  unfold hf_part in E. destruct (has_part (PHeader kd) k && used_by_other_kind false kd (PHeader kd) k) eqn:C.
  - (* a numbered name: not the name of any part, q is one *)
    subst q. exact (hf_fresh_not_in false k Hq).
  - (* the library's name for kd, and q is that part: then the name is taken by another kind - the other branch *)
    subst q. apply andb_false_iff in C. destruct C as [C|C].
    + apply has_part_In in Hq. unfold names in *. rewrite Hq in C. discriminate.
    + unfold used_by_other_kind in C. cbn in C.
      assert (existsb (fun r => negb (hf_eqb (fst r) kd) &&
                existsb (fun rl => rid_eqb (r_id rl) (snd r) && target_eqb (r_target rl) (TPart (PHeader kd))) (drels k)) (hrefs k) = true) as T.
      { apply existsb_exists. exists (kd', j). split; [exact Hr|]. cbn [fst snd]. apply andb_true_iff. split.
        - apply negb_true_iff. destruct (hf_eqb kd' kd) eqn:Eh; [apply hf_eqb_eq in Eh; contradiction | reflexivity].
        - apply existsb_exists. eexists. split; [exact Hrel|]. cbn [r_id r_target]. rewrite rid_eqb_refl. cbn [andb]. apply target_eqb_refl. }
      rewrite T in C. discriminate.
Qed.

(* ---- C04: what an edit does not touch ---------------------------------------------------------- *)

(* parts a call is entitled to write *)
Definition targets_of (k : pkg) (o : op) : list pname :=
  match o with
  | AddImage f _ _ => [PMedia (nimg k) (ext_of_fmt f)]
  | AddHF footer kd _ => [hf_part footer kd k]
  | AddList => [PNumbering]
  | AddNote e => [if e then PEndnotes else PFootnotes]
  | SetNoteCfg => [PSettings]
  | SetProps => [PCore; PApp]
  | AddPlaceholder _ => []
  | SaveReopen => [PDoc; PStyles; PCT; PRels; PDocRels]
  end.

Theorem untargeted_parts_kept k o k' p : step k o = Some k' -> ~ In p (targets_of k o) ->
  get_part p (parts k') = get_part p (parts k).
Proof.
  intros H Hn. destruct o; simpl in H, Hn; unfold add_rel_part in H;
  repeat match type of H with context [match fresh k with _ => _ end] => destruct (fresh k) end;
  repeat match type of H with context [if ?c then _ else _] => destruct c end;
  try discriminate; inversion H; subst k'; cbn [parts]; try reflexivity;
  unfold save_parts;
  repeat match goal with |- context [if ?c then _ else _] => destruct c end;
  rewrite ?get_set_other; try reflexivity; intros E; apply Hn; subst; simpl; auto 6.
Qed.

(* a library-written part that already exists is the only thing Save rewrites: an existing styles
   part is kept *)
Theorem existing_styles_kept k c : get_part PStyles (parts k) = Some c -> get_part PStyles (save_parts k) = Some c.
Proof.
  intros H. unfold save_parts.
  assert (E : existsb (fun q => pname_eqb PStyles (fst q)) (set_part PDoc 0%N (parts k)) = true).
  { apply existsb_exists. pose proof (get_part_In _ _ _ H) as Hin.
    assert (Hin2 : In PStyles (map fst (set_part PDoc 0%N (parts k)))) by (apply names_set_part; now right).
    apply in_map_iff in Hin2. destruct Hin2 as [q [Eq Hq]]. exists q. split; [exact Hq|rewrite Eq; apply pname_eqb_refl]. }
  rewrite E. rewrite !get_set_other; try discriminate. exact H.
Qed.

(* every relationship of the package keeps its id, kind, target and mode: calls only append *)
Theorem rels_only_appended k o k' : step k o = Some k' -> exists l, drels k' = drels k ++ l.
Proof.
  intros H. destruct o; simpl in H; unfold add_rel_part in H;
  repeat match type of H with context [match fresh k with _ => _ end] => destruct (fresh k) end;
  repeat match type of H with context [if ?c then _ else _] => destruct c end;
  try discriminate; inversion H; subst k'; cbn [drels];
  try (eexists; reflexivity); exists []; now rewrite app_nil_r.
Qed.

(* the styles relationship of an opened package is written back under its own id *)
Theorem styles_id_kept k s : Inv k -> sid k = Some s -> styles_id k = s.
Proof.
  intros I H. unfold styles_id. rewrite H.
  pose proof (inv_sid _ I s H) as N. apply mem_rid_notIn in N. now rewrite N.
Qed.

(* a newly added image never takes the name of an existing media part *)
Theorem new_media_fresh k f : Inv k -> ~ In (PMedia (nimg k) (ext_of_fmt f)) (names k).
Proof. intros I. apply media_not_in. exact I. Qed.

(* the state of an opened well-formed package satisfies the invariant: stated as a checkable
   predicate over the abstract package, see Corr.PkgCorr.open_view and Props *)

(* ---- a decidable check of the invariant (used for opened packages) ----------------------------- *)

Lemma nodup_b_sound {A} (eqb : A -> A -> bool) (l : list A) :
  (forall a b, eqb a b = true <-> a = b) -> nodup_b eqb l = true -> NoDup l.
Proof.
  intros E. induction l as [|a r IH]; simpl; intros H; [constructor|].
  apply andb_true_iff in H. destruct H as [H1 H2]. constructor; [|now apply IH].
  intros Hin. apply negb_true_iff in H1.
  assert (existsb (eqb a) r = true) by (apply existsb_exists; exists a; split; [exact Hin|now apply E]).
  congruence.
Qed.

Definition rel_eqb (a b : rel) : bool :=
  rid_eqb (r_id a) (r_id b) && rkind_eqb (r_kind a) (r_kind b) && target_eqb (r_target a) (r_target b).
Lemma target_eqb_eq a b : target_eqb a b = true <-> a = b.
Proof.
  destruct a, b; simpl; split; intros H; try discriminate.
  - apply pname_eqb_eq in H. now subst.
  - inversion H. apply pname_eqb_refl.
  - apply N.eqb_eq in H. now subst.
  - inversion H. apply N.eqb_refl.
Qed.
Lemma rel_eqb_eq a b : rel_eqb a b = true <-> a = b.
Proof.
  unfold rel_eqb. destruct a as [i1 k1 t1], b as [i2 k2 t2]. simpl. split.
  - intros H. apply andb_true_iff in H. destruct H as [H H3]. apply andb_true_iff in H. destruct H as [H1 H2].
    apply rid_eqb_eq in H1. apply rkind_eqb_eq in H2. apply target_eqb_eq in H3. now subst.
  - intros H. inversion H; subst. rewrite rid_eqb_refl, (proj2 (rkind_eqb_eq k2 k2) eq_refl), (proj2 (target_eqb_eq t2 t2) eq_refl). reflexivity.
Qed.

Lemma in_names_b_In p l : in_names_b p l = true <-> In p l.
Proof.
  unfold in_names_b. rewrite existsb_exists. split.
  - intros [q [Hq E]]. apply pname_eqb_eq in E. now subst.
  - intros H. exists p. split; [exact H|apply pname_eqb_refl].
Qed.
Lemma covered_b_sound k p : covered_b k p = true -> covered k p.
Proof.
  unfold covered_b, covered. intros H. apply orb_true_iff in H. destruct H as [H|H].
  - left. apply existsb_exists in H. destruct H as [e [He E]]. apply ext_eqb_eq in E. now rewrite E.
  - right. now apply in_names_b_In.
Qed.
Theorem inv_b_sound k : inv_b k = true -> Inv k.
Proof.
  unfold inv_b. intros H.
  apply andb_true_iff in H. destruct H as [H B11].
  apply andb_true_iff in H. destruct H as [H B10].
  apply andb_true_iff in H. destruct H as [H B9].
  apply andb_true_iff in H. destruct H as [H B8].
  apply andb_true_iff in H. destruct H as [H B7].
  apply andb_true_iff in H. destruct H as [H B6].
  apply andb_true_iff in H. destruct H as [H B5].
  apply andb_true_iff in H. destruct H as [H B4].
  apply andb_true_iff in H. destruct H as [H B3].
  apply andb_true_iff in H. destruct H as [B1 B2].
  constructor.
  - apply (nodup_b_sound rid_eqb); [apply rid_eqb_eq|exact B1].
  - intros s Hs. rewrite Hs in B2. apply negb_true_iff in B2. now apply mem_rid_notIn.
  - intros r p Hr Ht. rewrite forallb_forall in B3. specialize (B3 r Hr). rewrite Ht in B3. now apply in_names_b_In.
  - intros kd i Hin. rewrite forallb_forall in B4. specialize (B4 _ Hin).
    apply existsb_exists in B4. destruct B4 as [r [Hr E]].
    apply andb_true_iff in E. destruct E as [E E3]. apply andb_true_iff in E. destruct E as [E1 E2].
    simpl in E1. apply rid_eqb_eq in E1. apply rkind_eqb_eq in E2.
    destruct r as [ri rk rt]. simpl in *. destruct rt as [p|]; [|discriminate]. exists p. subst. exact Hr.
  - intros kd i Hin. rewrite forallb_forall in B5. specialize (B5 _ Hin).
    apply existsb_exists in B5. destruct B5 as [r [Hr E]].
    apply andb_true_iff in E. destruct E as [E E3]. apply andb_true_iff in E. destruct E as [E1 E2].
    simpl in E1. apply rid_eqb_eq in E1. apply rkind_eqb_eq in E2.
    destruct r as [ri rk rt]. simpl in *. destruct rt as [p|]; [|discriminate]. exists p. subst. exact Hr.
  - apply (nodup_b_sound hf_eqb); [apply hf_eqb_eq|exact B6].
  - apply (nodup_b_sound hf_eqb); [apply hf_eqb_eq|exact B7].
  - intros i b Hin. rewrite forallb_forall in B8. specialize (B8 _ Hin).
    apply existsb_exists in B8. destruct B8 as [r [Hr E]].
    apply andb_true_iff in E. destruct E as [E E3]. apply andb_true_iff in E. destruct E as [E1 E2].
    simpl in E1. apply rid_eqb_eq in E1. apply rkind_eqb_eq in E2.
    destruct r as [ri rk rt]. simpl in *. destruct rt as [p|]; [|discriminate].
    apply andb_true_iff in E3. destruct E3 as [X1 X2].
    exists p. split; [destruct p; try discriminate; exact Logic.I|]. subst.
    split; [exact Hr|]. destruct (get_part p (parts k)) as [b0|]; [|discriminate]. apply N.eqb_eq in X2. now subst.
  - intros p Hp Hn. rewrite forallb_forall in B9. specialize (B9 p Hp).
    apply orb_true_iff in B9. destruct B9 as [X|X]; [apply pname_eqb_eq in X; contradiction|now apply covered_b_sound].
  - intros p Hp. rewrite forallb_forall in B10. apply covered_b_sound. now apply B10.
  - intros i e Hin. rewrite forallb_forall in B11. specialize (B11 _ Hin). simpl in B11. now apply Z.ltb_lt.
Qed.

(* ---- lifted to every history (any number of calls, from a new or an opened package) ------------- *)

Theorem reach_ids_unique k ops k' : Inv k -> run k ops = Some k' -> NoDup (map r_id (saved_rels k')).
Proof. intros I H. apply saved_ids_unique. eapply run_inv; eassumption. Qed.

Theorem reach_targets_exist k ops k' r p : Inv k -> run k ops = Some k' ->
  In r (saved_rels k') -> r_target r = TPart p -> In p (saved_part_names k').
Proof. intros I H. apply saved_targets_exist. eapply run_inv; eassumption. Qed.

Theorem reach_refs_resolve k ops k' : Inv k -> run k ops = Some k' ->
  (forall kd i, In (kd, i) (hrefs k') -> exists p, In (mkRel i KHeader (TPart p)) (saved_rels k') /\ In p (saved_part_names k'))
  /\ (forall kd i, In (kd, i) (frefs k') -> exists p, In (mkRel i KFooter (TPart p)) (saved_rels k') /\ In p (saved_part_names k'))
  /\ (forall i b, In (i, b) (pics k') -> exists p, In (mkRel i KImage (TPart p)) (saved_rels k') /\ get_part p (save_parts k') = Some b).
Proof.
  intros I H. pose proof (run_inv _ _ _ I H) as I'. repeat split.
  - intros kd i Hin. exact (header_refs_resolve _ _ _ I' Hin).
  - intros kd i Hin. exact (footer_refs_resolve _ _ _ I' Hin).
  - intros i b Hin. destruct (pictures_resolve _ _ _ I' Hin) as [p [A [B _]]]. exists p. now split.
Qed.

Theorem reach_covered k ops k' p : Inv k -> run k ops = Some k' -> In p (saved_part_names k') -> p <> PCT -> covered k' p.
Proof. intros I H. apply saved_parts_covered. eapply run_inv; eassumption. Qed.

Theorem reach_pictures k ops k' i b : Inv k -> run k ops = Some k' -> In (i, b) (pics k') ->
  exists p, In (mkRel i KImage (TPart p)) (saved_rels k')
            /\ get_part p (save_parts k') = Some b
            /\ (forall r, In r (saved_rels k') -> r_id r = i -> r = mkRel i KImage (TPart p)).
Proof. intros I H. apply pictures_resolve. eapply run_inv; eassumption. Qed.

(* pictures are only ever added: every earlier picture is still there with the same bytes *)
Lemma step_pics_kept k o k' x : step k o = Some k' -> In x (pics k) -> In x (pics k').
Proof.
  intros H Hin. destruct o; simpl in H; unfold add_rel_part in H;
  repeat match type of H with context [match fresh k with _ => _ end] => destruct (fresh k) end;
  repeat match type of H with context [if ?c then _ else _] => destruct c end;
  try discriminate; inversion H; subst k'; cbn [pics]; try exact Hin. apply in_app_iff. now left.
Qed.
Theorem run_pics_kept ops : forall k k' x, run k ops = Some k' -> In x (pics k) -> In x (pics k').
Proof.
  induction ops as [|o ops IH]; simpl; intros k k' x H Hin; [inversion H; now subst|].
  destruct (step k o) as [k1|] eqn:E; [|discriminate]. eapply IH; [exact H|]. eapply step_pics_kept; eassumption.
Qed.

Theorem reach_one_ref_per_kind k ops k' : Inv k -> run k ops = Some k' ->
  NoDup (map fst (hrefs k')) /\ NoDup (map fst (frefs k')).
Proof. intros I H. apply one_ref_per_kind. eapply run_inv; eassumption. Qed.

Lemma hf_part_spec footer kd k :
  hf_part footer kd k = (if footer then PFooter kd else PHeader kd) \/ hf_part footer kd k = hf_fresh_name footer k.
Proof. unfold hf_part. destruct (has_part _ k && used_by_other_kind footer kd _ k); [now right | now left]. Qed.

(* the payload of a header kind is that of the latest call for that kind: later calls that are not a header call for
   that kind leave the part the call wrote alone (whatever name it got) *)
Theorem header_payload_persists k kd payload k1 ops : forall k2,
  step k (AddHF false kd payload) = Some k1 ->
  (forall o, In o ops -> forall p, o <> AddHF false kd p) ->
  run k1 ops = Some k2 -> get_part (hf_part false kd k) (parts k2) = Some payload.
Proof.
  intros k2 H1. set (hp := hf_part false kd k) in *.
  assert (G : get_part hp (parts k1) = Some payload).
  { simpl in H1. destruct (fresh k); [|discriminate]. inversion H1; subst. apply get_set_same. }
  assert (Hs : match hp with PHeader _ | PHeaderN _ => True | _ => False end).
  { destruct (hf_part_cases false kd k) as [E|[m E]]; unfold hp; rewrite E; exact Logic.I. }
  clear H1. revert k1 G. induction ops as [|o ops IH]; simpl; intros k1 G Hno H; [inversion H; now subst|].
  destruct (step k1 o) as [k1'|] eqn:E; [|discriminate].
  apply (IH k1'); [|intros o' Ho'; apply Hno; now right|exact H].
  rewrite (untargeted_parts_kept _ _ _ _ E); [exact G|].
  intros Hin. destruct o as [f b ib | footer kd0 payload0 | | endnote | | | nm | ]; simpl in Hin; try (destruct endnote);
  repeat (destruct Hin as [Hin|Hin]; [try (rewrite <- Hin in Hs; exact Hs)|]); try contradiction.
  (* what is left: another header/footer call *)
  destruct (hf_part_spec footer kd0 k1) as [T|T]; rewrite T in Hin.
  - destruct footer; [rewrite <- Hin in Hs; exact Hs|].
    assert (kd0 = kd) as ->.
    { destruct (hf_part_cases false kd k) as [E'|[m E']]; unfold hp in Hin; rewrite E' in Hin; [now inversion Hin | discriminate]. }
    exact (Hno _ (or_introl eq_refl) payload0 eq_refl).
  - apply (hf_fresh_not_in footer k1). rewrite Hin. unfold names. exact (get_part_In _ _ _ G).
Qed.

(* C04: over a whole history, a part no call targets keeps its payload, and the relationships of
   the opened package are still there, unchanged *)
Theorem run_untargeted_kept ops : forall k k' p,
  run k ops = Some k' ->
  (forall pre o post, ops = pre ++ o :: post -> forall km, run k pre = Some km -> ~ In p (targets_of km o)) ->
  get_part p (parts k') = get_part p (parts k).
Proof.
  induction ops as [|o ops IH]; simpl; intros k k' p H Hno; [inversion H; now subst|].
  destruct (step k o) as [k1|] eqn:E; [|discriminate].
  rewrite (IH k1 k' p H).
  - apply (untargeted_parts_kept _ _ _ _ E). apply (Hno [] o ops eq_refl k eq_refl).
  - intros pre o' post Eq km Hkm. apply (Hno (o :: pre) o' post); [simpl; now rewrite Eq|simpl; now rewrite E].
Qed.

Theorem run_rels_kept ops : forall k k', run k ops = Some k' -> exists l, drels k' = drels k ++ l.
Proof.
  induction ops as [|o ops IH]; simpl; intros k k' H; [inversion H; subst; exists []; now rewrite app_nil_r|].
  destruct (step k o) as [k1|] eqn:E; [|discriminate].
  destruct (rels_only_appended _ _ _ E) as [l1 E1]. destruct (IH _ _ H) as [l2 E2].
  exists (l1 ++ l2). now rewrite E2, E1, app_assoc.
Qed.
