(* Proofs about M-SCHEMA: reading back what the writer wrote yields the value with exactly the
   uncovered fields emptied (for every value that conforms to the schema, of any size and depth);
   hence with full coverage the round trip is the identity, and further cycles change nothing. *)
From Coq Require Import String List Bool Arith Lia.
Import ListNotations.
Require Import WZ.Model.Schema.
Open Scope string_scope.

Arguments String.eqb : simpl never.

Section DtInd.
  Variable P : dt -> Prop.
  Hypothesis HS : forall s, P (DS s).
  Hypothesis HL : forall l, Forall P l -> P (DL l).
  Hypothesis HN : forall ty vals, Forall P vals -> P (DN ty vals).
  Fixpoint dt_ind' (d : dt) : P d :=
    match d with
    | DS s => HS s
    | DL l => HL l ((fix go (l : list dt) : Forall P l :=
                       match l with
                       | [] => Forall_nil _
                       | x :: r => Forall_cons _ (dt_ind' x) (go r)
                       end) l)
    | DN ty vals => HN ty vals ((fix go (l : list dt) : Forall P l :=
                                   match l with
                                   | [] => Forall_nil _
                                   | x :: r => Forall_cons _ (dt_ind' x) (go r)
                                   end) vals)
    end.
End DtInd.

Lemma existsb_eqb_false x l : existsb (String.eqb x) l = false -> ~ In x l.
Proof.
  intros H Hin. assert (existsb (String.eqb x) l = true) as E.
  { apply existsb_exists. exists x. split; [exact Hin | apply String.eqb_refl]. }
  congruence.
Qed.

Lemma nodupb_cons x l : nodupb (x :: l) = true -> ~ In x l /\ nodupb l = true.
Proof.
  cbn [nodupb]. intros H. apply andb_true_iff in H. destruct H as [H1 H2].
  split; [apply existsb_eqb_false; apply negb_true_iff; exact H1 | exact H2].
Qed.

Section P.
  Variable fields_of : string -> list fspec.
  Variable xmlname_of : string -> string.
  Variable cov : string -> fspec -> bool.
  Variable elty : string -> string -> option string.

  Notation write := (write fields_of xmlname_of).
  Notation read := (read fields_of cov elty).
  Notation erase := (erase fields_of xmlname_of cov elty).
  Notation conforms := (conforms fields_of xmlname_of elty).
  Notation w_kids := (w_kids xmlname_of write).
  Notation w_block := (w_block xmlname_of write).

  Lemma x_name_write el d : x_name (write el d) = el.
  Proof. destruct d; reflexivity. Qed.

  (* ---------------- attributes ---------------- *)
  Lemma attr_lookup_absent n specs : forall vals,
      ~ In n (attr_names specs) -> attr_lookup n (w_attrs specs vals) = "".
  Proof.
    induction specs as [|sp ss IH]; intros vals Hn; [reflexivity|].
    destruct vals as [|v vs]; [reflexivity|].
    cbn [w_attrs]. unfold attr_names in Hn. cbn [flat_map] in Hn. fold (attr_names ss) in Hn.
    destruct (f_kind sp) eqn:K; try (apply IH; exact Hn).
    cbn [app] in Hn.
    assert (~ In n (attr_names ss)) as Hn' by (intro; apply Hn; right; assumption).
    destruct (String.eqb (strv v) ""); [apply IH; exact Hn'|].
    cbn [attr_lookup]. destruct (String.eqb_spec n (f_local sp)) as [E|E].
    - exfalso. apply Hn. left. symmetry. exact E.
    - apply IH; exact Hn'.
  Qed.

  Lemma attr_lookup_found specs : forall vals sp v,
      nodupb (attr_names specs) = true -> In (sp, v) (combine specs vals) -> f_kind sp = KAttr ->
      attr_lookup (f_local sp) (w_attrs specs vals) = strv v.
  Proof.
    induction specs as [|sp0 ss IH]; intros vals sp v Hnd Hin K; [destruct Hin|].
    destruct vals as [|v0 vs]; [destruct Hin|].
    cbn [combine] in Hin. cbn [w_attrs].
    unfold attr_names in Hnd. cbn [flat_map] in Hnd. fold (attr_names ss) in Hnd.
    destruct Hin as [Heq | Hin].
    - injection Heq as -> ->. rewrite K in *. cbn [app] in Hnd.
      apply nodupb_cons in Hnd. destruct Hnd as [Hni _].
      destruct (String.eqb_spec (strv v) "") as [E|E].
      + rewrite E. apply attr_lookup_absent. exact Hni.
      + cbn [attr_lookup]. rewrite String.eqb_refl. reflexivity.
    - destruct (f_kind sp0) eqn:K0; try (apply IH; assumption).
      cbn [app] in Hnd. apply nodupb_cons in Hnd. destruct Hnd as [Hni Hnd].
      assert (In (f_local sp) (attr_names ss)) as Hl.
      { clear - Hin K. revert vs Hin. induction ss as [|s ss IH]; intros vs Hin; [destruct Hin|].
        destruct vs as [|w ws]; [destruct Hin|]. cbn [combine] in Hin.
        unfold attr_names. cbn [flat_map]. fold (attr_names ss). destruct Hin as [E|Hin].
        - injection E as -> ->. rewrite K. left. reflexivity.
        - apply in_or_app. right. apply (IH ws). exact Hin. }
      assert (f_local sp <> f_local sp0) as Hne by (intro E; apply Hni; rewrite <- E; exact Hl).
      destruct (String.eqb (strv v0) ""); [apply IH; assumption|].
      cbn [attr_lookup]. destruct (String.eqb_spec (f_local sp) (f_local sp0)) as [E|_]; [contradiction|].
      apply IH; assumption.
  Qed.

  (* ---------------- character data ---------------- *)
  Lemma char_count_in ss : forall (vs : list dt) sp v,
      In (sp, v) (combine ss vs) -> f_kind sp = KChar -> 1 <= char_count ss.
  Proof.
    induction ss as [|s ss IH]; intros vs sp v Hin K; [destruct Hin|].
    destruct vs as [|w ws]; [destruct Hin|]. cbn [combine] in Hin.
    unfold char_count. cbn [filter]. destruct Hin as [E|Hin].
    - injection E as -> ->. rewrite K. cbn [List.length]. lia.
    - specialize (IH ws sp v Hin K). unfold char_count in IH.
      destruct (f_kind s); cbn [List.length]; lia.
  Qed.

  Lemma w_text_found specs : forall vals sp v,
      char_count specs <= 1 -> In (sp, v) (combine specs vals) -> f_kind sp = KChar ->
      w_text specs vals = strv v.
  Proof.
    induction specs as [|sp0 ss IH]; intros vals sp v Hc Hin K; [destruct Hin|].
    destruct vals as [|v0 vs]; [destruct Hin|].
    cbn [combine] in Hin. cbn [w_text]. unfold char_count in Hc. cbn [filter] in Hc.
    destruct Hin as [Heq|Hin].
    - injection Heq as -> ->. rewrite K. reflexivity.
    - pose proof (char_count_in ss vs sp v Hin K) as H1. unfold char_count in H1.
      destruct (f_kind sp0) eqn:K0; cbn [List.length] in Hc; try (apply (IH vs sp v); [unfold char_count; lia | assumption | assumption]).
      lia.
  Qed.

  (* ---------------- child elements ---------------- *)
  Lemma sel_named_app rd n ty a b :
    sel_named rd n ty (a ++ b) = (sel_named rd n ty a ++ sel_named rd n ty b)%list.
  Proof.
    induction a as [|k a IH]; [reflexivity|]. cbn [app sel_named].
    destruct (String.eqb (x_name k) n); [cbn [app]; f_equal; exact IH | exact IH].
  Qed.

  Lemma sel_named_other rd n ty ks :
    (forall k, In k ks -> x_name k <> n) -> sel_named rd n ty ks = [].
  Proof.
    induction ks as [|k ks IH]; intros H; [reflexivity|]. cbn [sel_named].
    destruct (String.eqb_spec (x_name k) n) as [E|_].
    - exfalso. apply (H k); [left; reflexivity | exact E].
    - apply IH. intros k' Hk'. apply H. right. exact Hk'.
  Qed.

  Lemma first_text_other n a b :
    (forall k, In k a -> x_name k <> n) -> first_text n (a ++ b) = first_text n b.
  Proof.
    induction a as [|k a IH]; intros H; [reflexivity|]. cbn [app first_text].
    destruct (String.eqb_spec (x_name k) n) as [E|_].
    - exfalso. apply (H k); [left; reflexivity | exact E].
    - apply IH. intros k' Hk'. apply H. right. exact Hk'.
  Qed.

  Lemma first_text_nil_other n a :
    (forall k, In k a -> x_name k <> n) -> first_text n a = "".
  Proof.
    intros H. rewrite <- (app_nil_r a). rewrite first_text_other by exact H. reflexivity.
  Qed.

  Lemma sel_any_app rd ty a b : sel_any elty rd ty (a ++ b) = (sel_any elty rd ty a ++ sel_any elty rd ty b)%list.
  Proof.
    induction a as [|k a IH]; [reflexivity|]. cbn [app sel_any].
    destruct (elty ty (x_name k)); [cbn [app]; f_equal; exact IH | exact IH].
  Qed.

  Definition not_any (sp : fspec) : bool :=
    match f_kind sp, f_shape sp with KElem, SAny => false | _, _ => true end.

  Lemma block_names sp v : not_any sp = true -> forall k, In k (w_block sp v) -> x_name k = f_local sp.
  Proof.
    unfold not_any, Schema.w_block. intros Hna k Hk.
    destruct (f_kind sp); try (destruct Hk; fail).
    destruct (f_shape sp); try discriminate.
    - destruct v as [s| |]; try (destruct Hk; fail).
      destruct (String.eqb s ""); [destruct Hk|]. destruct Hk as [<-|[]]. reflexivity.
    - destruct v as [|l|]; try (destruct Hk; fail).
      apply in_map_iff in Hk. destruct Hk as [c [<- _]]. apply x_name_write.
  Qed.

  Lemma block_not_elem sp v : f_kind sp <> KElem -> w_block sp v = [].
  Proof. unfold Schema.w_block. destruct (f_kind sp); try reflexivity. congruence. Qed.

  Lemma has_any_cons sp ss : has_any (sp :: ss) = false -> not_any sp = true /\ has_any ss = false.
  Proof.
    unfold has_any, not_any. cbn [existsb]. intros H. apply orb_false_iff in H. destruct H as [H1 H2].
    split; [|exact H2]. destruct (f_kind sp); try reflexivity. destruct (f_shape sp); try reflexivity. discriminate.
  Qed.

  Lemma elem_names_cons sp ss :
    elem_names (sp :: ss) = ((match f_kind sp with KElem => [f_local sp] | _ => [] end) ++ elem_names ss)%list.
  Proof. reflexivity. Qed.

  Lemma kids_names_absent n specs : forall vals,
      has_any specs = false -> ~ In n (elem_names specs) ->
      forall k, In k (w_kids specs vals) -> x_name k <> n.
  Proof.
    induction specs as [|sp ss IH]; intros vals Ha Hn k Hk; [destruct vals; destruct Hk|].
    destruct vals as [|v vs]; [destruct Hk|].
    cbn [Schema.w_kids] in Hk. apply has_any_cons in Ha. destruct Ha as [Hna Ha].
    rewrite elem_names_cons in Hn.
    apply in_app_or in Hk. destruct Hk as [Hk|Hk].
    - destruct (f_kind sp) eqn:K; try (rewrite block_not_elem in Hk by congruence; destruct Hk; fail).
      rewrite (block_names sp v Hna k Hk). intro E. apply Hn. left. exact E.
    - apply (IH vs Ha); [|exact Hk]. intro Hin. apply Hn. apply in_or_app. right. exact Hin.
  Qed.

  Lemma in_combine_elem_name ss : forall (vs : list dt) sp v,
      In (sp, v) (combine ss vs) -> f_kind sp = KElem -> In (f_local sp) (elem_names ss).
  Proof.
    induction ss as [|s ss IH]; intros vs sp v Hin K; [destruct Hin|].
    destruct vs as [|w ws]; [destruct Hin|]. cbn [combine] in Hin. rewrite elem_names_cons.
    destruct Hin as [E|Hin].
    - injection E as -> ->. rewrite K. left. reflexivity.
    - apply in_or_app. right. apply (IH ws sp v); assumption.
  Qed.

  (* in a type without a heterogeneous list, the children named like a field are exactly that field's block *)
  Lemma kids_split specs : forall vals sp v,
      has_any specs = false -> nodupb (elem_names specs) = true ->
      In (sp, v) (combine specs vals) -> f_kind sp = KElem ->
      exists a b, w_kids specs vals = (a ++ w_block sp v ++ b)%list
                  /\ (forall k, In k a -> x_name k <> f_local sp)
                  /\ (forall k, In k b -> x_name k <> f_local sp).
  Proof.
    induction specs as [|sp0 ss IH]; intros vals sp v Ha Hnd Hin K; [destruct Hin|].
    destruct vals as [|v0 vs]; [destruct Hin|].
    cbn [combine] in Hin. cbn [Schema.w_kids].
    pose proof (has_any_cons _ _ Ha) as [Hna Ha'].
    rewrite elem_names_cons in Hnd.
    destruct Hin as [Heq|Hin].
    - injection Heq as -> ->. rewrite K in Hnd. cbn [app] in Hnd. apply nodupb_cons in Hnd.
      destruct Hnd as [Hni _].
      exists [], (w_kids ss vs). split; [reflexivity|]. split; [intros k []|].
      apply kids_names_absent; assumption.
    - assert (nodupb (elem_names ss) = true /\ (f_kind sp0 = KElem -> f_local sp0 <> f_local sp)) as [Hnd' Hne].
      { destruct (f_kind sp0) eqn:K0; cbn [app] in Hnd; try (split; [exact Hnd | congruence]).
        apply nodupb_cons in Hnd. destruct Hnd as [Hni Hnd]. split; [exact Hnd|]. intros _ E. apply Hni.
        rewrite E. apply (in_combine_elem_name ss vs sp v); assumption. }
      destruct (IH vs sp v Ha' Hnd' Hin K) as [a [b [E [Hap Hbp]]]].
      exists (w_block sp0 v0 ++ a)%list, b. split; [rewrite E; rewrite app_assoc; reflexivity|].
      split; [|exact Hbp]. intros k Hk. apply in_app_or in Hk. destruct Hk as [Hk|Hk]; [|apply Hap; exact Hk].
      destruct (f_kind sp0) eqn:K0; try (rewrite block_not_elem in Hk by congruence; destruct Hk; fail).
      rewrite (block_names sp0 v0 Hna k Hk). apply Hne. reflexivity.
  Qed.

  (* in a type whose only child-element field is the heterogeneous list, the children are that field's block *)
  Lemma no_elem_kids ss : forall vs, elem_names ss = [] -> w_kids ss vs = [].
  Proof.
    induction ss as [|s ss IH]; intros vs H; [destruct vs; reflexivity|].
    destruct vs as [|w ws]; [reflexivity|]. cbn [Schema.w_kids]. rewrite elem_names_cons in H.
    apply app_eq_nil in H. destruct H as [H1 H2]. rewrite (IH ws H2).
    rewrite block_not_elem; [reflexivity|]. intro K. rewrite K in H1. discriminate.
  Qed.

  Lemma kids_single specs : forall vals sp v,
      List.length (elem_names specs) = 1 -> In (sp, v) (combine specs vals) -> f_kind sp = KElem ->
      w_kids specs vals = w_block sp v.
  Proof.
    induction specs as [|sp0 ss IH]; intros vals sp v Hl Hin K; [destruct Hin|].
    destruct vals as [|v0 vs]; [destruct Hin|].
    cbn [combine] in Hin. cbn [Schema.w_kids]. rewrite elem_names_cons in Hl.
    destruct Hin as [Heq|Hin].
    - injection Heq as -> ->. rewrite K in Hl. cbn [app List.length] in Hl.
      rewrite (no_elem_kids ss vs); [apply app_nil_r|]. destruct (elem_names ss); [reflexivity|discriminate].
    - pose proof (in_combine_elem_name ss vs sp v Hin K) as Hi.
      destruct (f_kind sp0) eqn:K0; cbn [app] in Hl; try (rewrite block_not_elem by congruence; cbn [app]; apply (IH vs sp v); assumption).
      cbn [List.length] in Hl. destruct (elem_names ss); [destruct Hi | discriminate].
  Qed.

  (* ---------------- the round trip ---------------- *)
  Definition Q (d : dt) : Prop := forall el, conforms d = true -> read (d_ty d) (write el d) = erase d.
  Definition PP (d : dt) : Prop :=
    match d with DS _ => True | DL l => Forall Q l | DN _ _ => Q d end.

  Lemma PP_Q d : PP d -> Q d.
  Proof. destruct d; cbn [PP]; intros H; try exact H; intros el Hc; discriminate Hc. Qed.

  Lemma sel_own_block sp l :
    Forall Q l ->
    forallb (fun c => String.eqb (d_ty c) (f_elem sp) && conforms c) l = true ->
    sel_named read (f_local sp) (f_elem sp) (map (write (f_local sp)) l) = map erase l.
  Proof.
    induction l as [|c l IH]; intros HQ Hc; [reflexivity|].
    cbn [map sel_named]. rewrite x_name_write, String.eqb_refl.
    cbn [forallb] in Hc. apply andb_true_iff in Hc. destruct Hc as [Hc1 Hc2].
    apply andb_true_iff in Hc1. destruct Hc1 as [Ht Hcc]. apply String.eqb_eq in Ht.
    inversion HQ as [|? ? Hq Hql]; subst.
    f_equal; [rewrite <- Ht; apply Hq; exact Hcc | apply IH; assumption].
  Qed.

  Lemma sel_any_block ty l :
    Forall Q l ->
    forallb (fun c => is_node c && not_misread xmlname_of elty ty c && conforms c) l = true ->
    sel_any elty read ty (map (fun c => write (xmlname_of (d_ty c)) c) l)
    = keep_readable xmlname_of elty erase ty l.
  Proof.
    induction l as [|c l IH]; intros HQ Hc; [reflexivity|].
    cbn [map sel_any keep_readable]. rewrite x_name_write.
    cbn [forallb] in Hc. apply andb_true_iff in Hc. destruct Hc as [Hc1 Hc2].
    apply andb_true_iff in Hc1. destruct Hc1 as [Hc1 Hcc]. apply andb_true_iff in Hc1. destruct Hc1 as [_ Hnm].
    inversion HQ as [|? ? Hq Hql]; subst.
    unfold readable. unfold not_misread in Hnm.
    destruct (elty ty (xmlname_of (d_ty c))) as [t|] eqn:E.
    - rewrite Hnm. apply String.eqb_eq in Hnm. subst t. f_equal; [apply Hq; exact Hcc | apply IH; assumption].
    - apply IH; assumption.
  Qed.

  Hypothesis types_ok : forall ty, type_ok (fields_of ty) = true.

  Lemma field_round ty vals sp v :
    let specs := fields_of ty in
    Forall PP vals ->
    In (sp, v) (combine specs vals) ->
    c_field xmlname_of elty conforms ty sp v = true ->
    r_field cov elty read ty (w_attrs specs vals) (w_text specs vals) (w_kids specs vals) sp
    = e_field xmlname_of cov elty erase ty sp v.
  Proof.
    intros specs HP Hin Hc.
    pose proof (types_ok ty) as Hok. fold specs in Hok. unfold type_ok in Hok.
    apply andb_true_iff in Hok. destruct Hok as [Hok Hany].
    apply andb_true_iff in Hok. destruct Hok as [Hok Hany1].
    apply andb_true_iff in Hok. destruct Hok as [Hok Hch].
    apply andb_true_iff in Hok. destruct Hok as [Hna Hne].
    apply Nat.leb_le in Hch.
    assert (PP v) as HPv.
    { apply in_combine_r in Hin. rewrite Forall_forall in HP. apply HP. exact Hin. }
    unfold r_field, e_field, c_field in *.
    destruct (f_kind sp) eqn:K.
    - (* attribute *)
      destruct v as [s| |]; try (destruct (f_shape sp); discriminate).
      rewrite (attr_lookup_found specs vals sp (DS s) Hna Hin K). reflexivity.
    - (* element *)
      destruct (f_shape sp) eqn:Sh.
      + (* simple element with text *)
        destruct v as [s| |]; try discriminate.
        destruct (has_any specs) eqn:Ha.
        { exfalso. unfold any_only in Hany. rewrite forallb_forall in Hany.
          apply in_combine_l in Hin. specialize (Hany sp Hin). rewrite K, Sh in Hany. discriminate. }
        destruct (kids_split specs vals sp (DS s) Ha Hne Hin K) as [a [b [E [Hap Hbp]]]].
        rewrite E. rewrite first_text_other by exact Hap.
        unfold Schema.w_block. rewrite K, Sh.
        destruct (String.eqb_spec s "") as [Es|Es].
        * subst s. cbn [app]. rewrite first_text_nil_other by exact Hbp. destruct (cov ty sp); reflexivity.
        * cbn [app first_text x_name x_text]. rewrite String.eqb_refl. reflexivity.
      + (* struct children *)
        destruct v as [|l|]; try discriminate. cbn [PP] in HPv.
        destruct (cov ty sp); [|reflexivity].
        destruct (has_any specs) eqn:Ha.
        { exfalso. unfold any_only in Hany. rewrite forallb_forall in Hany.
          apply in_combine_l in Hin. specialize (Hany sp Hin). rewrite K, Sh in Hany. discriminate. }
        destruct (kids_split specs vals sp (DL l) Ha Hne Hin K) as [a [b [E [Hap Hbp]]]].
        rewrite E. rewrite !sel_named_app.
        rewrite (sel_named_other read _ _ a Hap), (sel_named_other read _ _ b Hbp).
        cbn [app]. rewrite app_nil_r. unfold Schema.w_block. rewrite K, Sh.
        f_equal. apply sel_own_block; assumption.
      + (* heterogeneous list *)
        destruct v as [|l|]; try discriminate. cbn [PP] in HPv.
        assert (has_any specs = true) as Ha.
        { unfold has_any. apply existsb_exists. exists sp. split; [apply in_combine_l in Hin; exact Hin|].
          rewrite K, Sh. reflexivity. }
        rewrite Ha in Hany1. apply Nat.eqb_eq in Hany1.
        rewrite (kids_single specs vals sp (DL l) Hany1 Hin K).
        unfold Schema.w_block. rewrite K, Sh. f_equal. apply sel_any_block; assumption.
    - (* character data *)
      destruct v as [s| |]; try (destruct (f_shape sp); discriminate).
      rewrite (w_text_found specs vals sp (DS s) Hch Hin K). reflexivity.
    - (* never written *)
      destruct (f_shape sp); reflexivity.
  Qed.

  Lemma fields_round ty vals :
    let specs := fields_of ty in
    Forall PP vals ->
    forall ss vs,
      (forall p, In p (combine ss vs) -> In p (combine specs vals)) ->
      c_fields xmlname_of elty conforms ty ss vs = true ->
      map (r_field cov elty read ty (w_attrs specs vals) (w_text specs vals) (w_kids specs vals)) ss
      = e_fields xmlname_of cov elty erase ty ss vs.
  Proof.
    intros specs HP. induction ss as [|sp ss IH]; intros vs Hsub Hc.
    - destruct vs; [reflexivity | discriminate Hc].
    - destruct vs as [|v vs]; [discriminate Hc|].
      cbn [c_fields] in Hc. apply andb_true_iff in Hc. destruct Hc as [Hc1 Hc2].
      cbn [map e_fields]. f_equal.
      + apply field_round; [exact HP | apply Hsub; left; reflexivity | exact Hc1].
      + apply IH; [|exact Hc2]. intros p Hp. apply Hsub. right. exact Hp.
  Qed.

  Theorem read_write_erase_all : forall d, PP d.
  Proof.
    apply dt_ind'.
    - intros s. exact I.
    - intros l Hl. cbn [PP]. rewrite Forall_forall in *. intros c Hc. apply PP_Q. apply Hl. exact Hc.
    - intros ty vals Hv. cbn [PP]. intros el Hc. cbn [d_ty Schema.write Schema.read Schema.erase].
      f_equal. cbn [Schema.conforms] in Hc.
      apply (fields_round ty vals Hv (fields_of ty) vals); [intros p Hp; exact Hp | exact Hc].
  Qed.

  (* reading back what was written gives the value with the uncovered fields emptied *)
  Theorem read_write_erase d el :
    conforms d = true -> read (d_ty d) (write el d) = erase d.
  Proof. intros Hc. apply (PP_Q d (read_write_erase_all d)). exact Hc. Qed.

End P.

(* ---------------- induction over the struct nodes of a value ---------------- *)
Definition elems_sat (Qx : dt -> Prop) (v : dt) : Prop :=
  match v with DL l => Forall Qx l | _ => True end.

Lemma node_ind (Qx : dt -> Prop) :
  (forall s, Qx (DS s)) -> (forall l, Qx (DL l)) ->
  (forall ty vals, Forall (elems_sat Qx) vals -> Qx (DN ty vals)) ->
  forall d, Qx d.
Proof.
  intros HS HL HN.
  assert (forall d, Qx d /\ elems_sat Qx d) as H.
  { apply dt_ind'.
    - intros s. split; [apply HS | exact I].
    - intros l Hl. split; [apply HL|]. cbn [elems_sat]. rewrite Forall_forall in *. intros c Hc. apply (Hl c Hc).
    - intros ty vals Hv. split; [|exact I]. apply HN. rewrite Forall_forall in *. intros v Hin. apply (Hv v Hin). }
  intros d. apply H.
Qed.

Section P2.
  Variable fields_of : string -> list fspec.
  Variable xmlname_of : string -> string.
  Variable cov : string -> fspec -> bool.
  Variable elty : string -> string -> option string.

  Notation erase := (erase fields_of xmlname_of cov elty).
  Notation conforms := (conforms fields_of xmlname_of elty).
  Notation readable := (readable xmlname_of elty).
  Notation not_misread := (not_misread xmlname_of elty).
  Notation e_field := (e_field xmlname_of cov elty erase).
  Notation e_fields := (e_fields xmlname_of cov elty erase).
  Notation keep_readable := (keep_readable xmlname_of elty erase).

  Lemma d_ty_erase d : d_ty (erase d) = d_ty d.
  Proof. destruct d; reflexivity. Qed.

  Lemma readable_erase ty d : readable ty (erase d) = readable ty d.
  Proof. unfold Schema.readable. rewrite d_ty_erase. reflexivity. Qed.

  Lemma not_misread_erase ty d : not_misread ty (erase d) = not_misread ty d.
  Proof. unfold Schema.not_misread. rewrite d_ty_erase. reflexivity. Qed.

  Lemma is_node_erase d : is_node (erase d) = is_node d.
  Proof. destruct d; reflexivity. Qed.

  (* ---- erase is idempotent ---- *)
  Lemma keep_readable_idem ty l :
    Forall (fun c => erase (erase c) = erase c) l -> keep_readable ty (keep_readable ty l) = keep_readable ty l.
  Proof.
    induction l as [|c l IH]; intros H; [reflexivity|]. inversion H as [|? ? Hc Hl]; subst.
    cbn [Schema.keep_readable]. destruct (readable ty c) eqn:R; [|apply IH; exact Hl].
    cbn [Schema.keep_readable]. rewrite readable_erase, R, Hc. f_equal. apply IH; exact Hl.
  Qed.

  Lemma map_erase_idem l :
    Forall (fun c => erase (erase c) = erase c) l -> map erase (map erase l) = map erase l.
  Proof.
    induction l as [|c l IH]; intros H; [reflexivity|]. inversion H as [|? ? Hc Hl]; subst.
    cbn [map]. rewrite Hc. f_equal. apply IH; exact Hl.
  Qed.

  Lemma e_field_idem ty sp v :
    elems_sat (fun c => erase (erase c) = erase c) v -> e_field ty sp (e_field ty sp v) = e_field ty sp v.
  Proof.
    intros H. unfold Schema.e_field.
    destruct (f_kind sp) eqn:K; destruct (f_shape sp) eqn:Sh; destruct v as [s|l|t vs]; cbn [elems_sat] in H;
      try reflexivity;
      try (destruct (cov ty sp); reflexivity).
    - destruct (cov ty sp); [|reflexivity]. rewrite map_erase_idem by exact H. reflexivity.
    - rewrite keep_readable_idem by exact H. reflexivity.
  Qed.

  Lemma e_fields_idem ty : forall ss vs,
      Forall (elems_sat (fun c => erase (erase c) = erase c)) vs ->
      e_fields ty ss (e_fields ty ss vs) = e_fields ty ss vs.
  Proof.
    induction ss as [|sp ss IH]; intros vs H; [destruct vs; reflexivity|].
    destruct vs as [|v vs]; [reflexivity|]. inversion H as [|? ? Hv Hvs]; subst.
    cbn [Schema.e_fields]. rewrite e_field_idem by exact Hv. f_equal. apply IH; exact Hvs.
  Qed.

  Theorem erase_idem d : erase (erase d) = erase d.
  Proof.
    revert d. apply node_ind; [reflexivity | reflexivity |].
    intros ty vals H. cbn [Schema.erase]. f_equal. apply e_fields_idem. exact H.
  Qed.

  (* ---- the erased value still conforms ---- *)
  Notation c_field := (c_field xmlname_of elty conforms).
  Notation c_fields := (c_fields xmlname_of elty conforms).

  Definition CE (c : dt) : Prop := conforms c = true -> conforms (erase c) = true.

  Lemma c_struct_erase t l :
    Forall CE l ->
    forallb (fun c => String.eqb (d_ty c) t && conforms c) l = true ->
    forallb (fun c => String.eqb (d_ty c) t && conforms c) (map erase l) = true.
  Proof.
    induction l as [|c l IH]; intros H Hc; [reflexivity|]. inversion H as [|? ? Hq Hl]; subst.
    cbn [forallb] in Hc. apply andb_true_iff in Hc. destruct Hc as [Hc1 Hc2].
    apply andb_true_iff in Hc1. destruct Hc1 as [Ht Hcc].
    cbn [map forallb]. rewrite d_ty_erase, Ht, (Hq Hcc), (IH Hl Hc2). reflexivity.
  Qed.

  Lemma c_any_erase ty l :
    Forall CE l ->
    forallb (fun c => is_node c && not_misread ty c && conforms c) l = true ->
    forallb (fun c => is_node c && not_misread ty c && conforms c) (keep_readable ty l) = true.
  Proof.
    induction l as [|c l IH]; intros H Hc; [reflexivity|]. inversion H as [|? ? Hq Hl]; subst.
    cbn [forallb] in Hc. apply andb_true_iff in Hc. destruct Hc as [Hc1 Hc2].
    apply andb_true_iff in Hc1. destruct Hc1 as [Hc1 Hcc]. apply andb_true_iff in Hc1. destruct Hc1 as [Hn Hm].
    cbn [Schema.keep_readable]. destruct (readable ty c); [|apply IH; assumption].
    cbn [forallb]. rewrite is_node_erase, not_misread_erase, Hn, Hm, (Hq Hcc), (IH Hl Hc2). reflexivity.
  Qed.

  Lemma c_field_erase ty sp v :
    elems_sat CE v -> c_field ty sp v = true -> c_field ty sp (e_field ty sp v) = true.
  Proof.
    intros H Hc. unfold Schema.e_field, Schema.c_field in *.
    destruct (f_kind sp) eqn:K; destruct (f_shape sp) eqn:Sh; destruct v as [s|l|t vs]; cbn [elems_sat] in H;
      try discriminate; try reflexivity.
    - destruct (cov ty sp); [|reflexivity]. apply c_struct_erase; assumption.
    - apply c_any_erase; assumption.
  Qed.

  Lemma c_fields_erase ty : forall ss vs,
      Forall (elems_sat CE) vs -> c_fields ty ss vs = true -> c_fields ty ss (e_fields ty ss vs) = true.
  Proof.
    induction ss as [|sp ss IH]; intros vs H Hc.
    - destruct vs; [reflexivity | discriminate Hc].
    - destruct vs as [|v vs]; [discriminate Hc|]. inversion H as [|? ? Hv Hvs]; subst.
      cbn [Schema.c_fields] in Hc. apply andb_true_iff in Hc. destruct Hc as [Hc1 Hc2].
      cbn [Schema.e_fields Schema.c_fields]. rewrite (c_field_erase ty sp v Hv Hc1), (IH vs Hvs Hc2). reflexivity.
  Qed.

  Theorem conforms_erase d : conforms d = true -> conforms (erase d) = true.
  Proof.
    revert d. apply (node_ind CE); [intros s H; discriminate H | intros l H; discriminate H |].
    intros ty vals H Hc. cbn [Schema.erase Schema.conforms] in *. apply c_fields_erase; assumption.
  Qed.

  (* ---- values that hold nothing in an uncovered place are unchanged ---- *)
  Notation intact := (intact fields_of xmlname_of cov elty).
  Notation i_field := (i_field xmlname_of cov elty).
  Notation i_fields := (i_fields xmlname_of cov elty).

  Definition IE (c : dt) : Prop := conforms c = true -> intact c = true -> erase c = c.

  Lemma i_struct l t :
    Forall IE l -> forallb (fun c => String.eqb (d_ty c) t && conforms c) l = true ->
    forallb intact l = true -> map erase l = l.
  Proof.
    induction l as [|c l IH]; intros H Hc Hi; [reflexivity|]. inversion H as [|? ? Hq Hl]; subst.
    cbn [forallb] in Hc, Hi. apply andb_true_iff in Hc. destruct Hc as [Hc1 Hc2].
    apply andb_true_iff in Hc1. destruct Hc1 as [_ Hcc].
    apply andb_true_iff in Hi. destruct Hi as [Hi1 Hi2].
    cbn [map]. rewrite (Hq Hcc Hi1), (IH Hl Hc2 Hi2). reflexivity.
  Qed.

  Lemma i_any ty l :
    Forall IE l -> forallb (fun c => is_node c && not_misread ty c && conforms c) l = true ->
    forallb (fun c => readable ty c && intact c) l = true -> keep_readable ty l = l.
  Proof.
    induction l as [|c l IH]; intros H Hc Hi; [reflexivity|]. inversion H as [|? ? Hq Hl]; subst.
    cbn [forallb] in Hc, Hi. apply andb_true_iff in Hc. destruct Hc as [Hc1 Hc2].
    apply andb_true_iff in Hc1. destruct Hc1 as [_ Hcc].
    apply andb_true_iff in Hi. destruct Hi as [Hi1 Hi2]. apply andb_true_iff in Hi1. destruct Hi1 as [Hr Hi1].
    cbn [Schema.keep_readable]. rewrite Hr, (Hq Hcc Hi1), (IH Hl Hc2 Hi2). reflexivity.
  Qed.

  Lemma i_field_id ty sp v :
    elems_sat IE v -> c_field ty sp v = true -> i_field intact ty sp v = true -> e_field ty sp v = v.
  Proof.
    intros H Hc Hi. unfold Schema.e_field, Schema.c_field, Schema.i_field in *.
    destruct (f_kind sp) eqn:K; destruct (f_shape sp) eqn:Sh; destruct v as [s|l|t vs]; cbn [elems_sat] in H;
      try discriminate; try reflexivity;
      try (destruct (cov ty sp); [reflexivity | cbn [orb] in Hi; apply String.eqb_eq in Hi; subst s; reflexivity]);
      try (apply String.eqb_eq in Hi; subst s; reflexivity).
    - destruct (cov ty sp).
      + rewrite (i_struct l (f_elem sp)) by assumption. reflexivity.
      + destruct l; [reflexivity | discriminate].
    - rewrite i_any by assumption. reflexivity.
  Qed.

  Lemma i_fields_id ty : forall ss vs,
      Forall (elems_sat IE) vs -> c_fields ty ss vs = true -> i_fields intact ty ss vs = true ->
      e_fields ty ss vs = vs.
  Proof.
    induction ss as [|sp ss IH]; intros vs H Hc Hi.
    - destruct vs; [reflexivity | discriminate Hc].
    - destruct vs as [|v vs]; [discriminate Hc|]. inversion H as [|? ? Hv Hvs]; subst.
      cbn [Schema.c_fields] in Hc. apply andb_true_iff in Hc. destruct Hc as [Hc1 Hc2].
      cbn [Schema.i_fields] in Hi. apply andb_true_iff in Hi. destruct Hi as [Hi1 Hi2].
      cbn [Schema.e_fields]. rewrite (i_field_id ty sp v Hv Hc1 Hi1), (IH vs Hvs Hc2 Hi2). reflexivity.
  Qed.

  Theorem erase_intact d : conforms d = true -> intact d = true -> erase d = d.
  Proof.
    revert d. apply (node_ind IE); [intros s H; discriminate H | intros l H; discriminate H |].
    intros ty vals H Hc Hi. cbn [Schema.erase Schema.conforms Schema.intact] in *. f_equal. apply i_fields_id; assumption.
  Qed.
End P2.

(* ---------------- any number of save/open cycles ---------------- *)
Section Cycles.
  Variable fields_of : string -> list fspec.
  Variable xmlname_of : string -> string.
  Variable cov : string -> fspec -> bool.
  Variable elty : string -> string -> option string.
  Hypothesis types_ok : forall ty, type_ok (fields_of ty) = true.

  Notation write := (write fields_of xmlname_of).
  Notation read := (read fields_of cov elty).
  Notation erase := (erase fields_of xmlname_of cov elty).
  Notation conforms := (conforms fields_of xmlname_of elty).
  Notation intact := (intact fields_of xmlname_of cov elty).

  (* one cycle: Save under the element name el, then Open *)
  Definition cycle (el : string) (d : dt) : dt := read (d_ty d) (write el d).
  Fixpoint cycles (el : string) (n : nat) (d : dt) : dt :=
    match n with 0 => d | S k => cycle el (cycles el k d) end.

  Theorem cycles_stable el n d : conforms d = true -> cycles el (S n) d = erase d.
  Proof.
    intros Hc. induction n as [|n IH].
    - cbn [cycles]. unfold cycle. apply read_write_erase; assumption.
    - change (cycles el (S (S n)) d) with (cycle el (cycles el (S n) d)). rewrite IH. unfold cycle.
      rewrite read_write_erase by (try assumption; apply conforms_erase; exact Hc).
      apply erase_idem.
  Qed.

  Theorem cycles_lossless el n d : conforms d = true -> intact d = true -> cycles el n d = d.
  Proof.
    intros Hc Hi. destruct n as [|n]; [reflexivity|].
    rewrite cycles_stable by exact Hc. apply erase_intact; assumption.
  Qed.

  (* the reopened document is written as the original was *)
  Theorem resave_same el d : conforms d = true -> intact d = true -> write el (cycle el d) = write el d.
  Proof.
    intros Hc Hi. unfold cycle. rewrite read_write_erase by assumption. rewrite erase_intact by assumption. reflexivity.
  Qed.
End Cycles.

(* ---------------- the instance: schema tables ---------------- *)
Lemma assoc_in {A} k (l : list (string * A)) v : assoc k l = Some v -> In (k, v) l.
Proof.
  induction l as [|[k' v'] l IH]; cbn [assoc]; [discriminate|].
  destruct (String.eqb_spec k k') as [->|_]; intros H.
  - injection H as ->. left. reflexivity.
  - right. apply IH. exact H.
Qed.

Lemma g_types_ok_all w_schema :
  g_types_ok w_schema = true -> forall ty, type_ok (g_fields_of w_schema ty) = true.
Proof.
  intros H ty. unfold g_fields_of. destruct (assoc ty w_schema) as [l|] eqn:E; [|reflexivity].
  unfold g_types_ok in H. rewrite forallb_forall in H. apply (H (ty, l)). apply assoc_in. exact E.
Qed.

(* ---------------- values over fully covered types are intact ---------------- *)
Section Covered.
  Variable fields_of : string -> list fspec.
  Variable xmlname_of : string -> string.
  Variable cov : string -> fspec -> bool.
  Variable elty : string -> string -> option string.
  Variable tys : list string.
  Variable ok_root : string -> string -> bool.
  Hypothesis tys_covered : forall ty sp, In ty tys -> In sp (fields_of ty) -> cov ty sp = true.
  Hypothesis roots_readable : forall ty t, ok_root ty t = true -> elty ty (xmlname_of t) = Some t.

  Notation conforms := (conforms fields_of xmlname_of elty).
  Notation intact := (intact fields_of xmlname_of cov elty).
  Notation uses_only := (uses_only fields_of tys ok_root).

  Definition UI (c : dt) : Prop := uses_only c = true -> intact c = true.

  Lemma u_struct l : Forall UI l -> forallb uses_only l = true -> forallb intact l = true.
  Proof.
    induction l as [|c l IH]; intros H Hu; [reflexivity|]. inversion H as [|? ? Hq Hl]; subst.
    cbn [forallb] in *. apply andb_true_iff in Hu. destruct Hu as [Hu1 Hu2].
    rewrite (Hq Hu1), (IH Hl Hu2). reflexivity.
  Qed.

  Lemma u_any ty l :
    Forall UI l -> forallb (fun c => ok_root ty (d_ty c) && uses_only c) l = true ->
    forallb (fun c => readable xmlname_of elty ty c && intact c) l = true.
  Proof.
    induction l as [|c l IH]; intros H Hu; [reflexivity|]. inversion H as [|? ? Hq Hl]; subst.
    cbn [forallb] in *. apply andb_true_iff in Hu. destruct Hu as [Hu1 Hu2].
    apply andb_true_iff in Hu1. destruct Hu1 as [Hr Hu1].
    unfold readable at 1. rewrite (roots_readable _ _ Hr), String.eqb_refl, (Hq Hu1), (IH Hl Hu2). reflexivity.
  Qed.

  Lemma u_field_intact ty sp v :
    elems_sat UI v -> cov ty sp = true -> u_field ok_root uses_only ty sp v = true ->
    i_field xmlname_of cov elty intact ty sp v = true.
  Proof.
    intros H Hcov Hu. unfold u_field, i_field in *.
    destruct (f_kind sp) eqn:K; destruct (f_shape sp) eqn:Sh; destruct v as [s|l|t vs]; cbn [elems_sat] in H;
      rewrite ?Hcov; try reflexivity; try exact Hu; try discriminate.
    - apply u_struct; assumption.
    - apply u_any; assumption.
  Qed.

  Lemma u_fields_intact ty : forall ss vs,
      Forall (elems_sat UI) vs -> (forall sp, In sp ss -> cov ty sp = true) ->
      u_fields ok_root uses_only ty ss vs = true -> i_fields xmlname_of cov elty intact ty ss vs = true.
  Proof.
    induction ss as [|sp ss IH]; intros vs H Hcov Hu; [destruct vs; reflexivity|].
    destruct vs as [|v vs]; [reflexivity|]. inversion H as [|? ? Hv Hvs]; subst.
    cbn [u_fields] in Hu. apply andb_true_iff in Hu. destruct Hu as [Hu1 Hu2].
    cbn [i_fields]. rewrite (u_field_intact ty sp v Hv (Hcov sp (or_introl eq_refl)) Hu1).
    rewrite (IH vs Hvs); [reflexivity | intros sp' Hin; apply Hcov; right; exact Hin | exact Hu2].
  Qed.

  Theorem uses_only_intact d : uses_only d = true -> intact d = true.
  Proof.
    revert d. apply (node_ind UI); [intros s _; reflexivity | intros l _; reflexivity |].
    intros ty vals H Hu. cbn [Schema.uses_only Schema.intact] in *.
    apply andb_true_iff in Hu. destruct Hu as [Hty Hu].
    apply existsb_exists in Hty. destruct Hty as [t [Hin Ht]]. apply String.eqb_eq in Ht. subst t.
    apply u_fields_intact; [exact H | intros sp Hsp; apply tys_covered; assumption | exact Hu].
  Qed.
End Covered.
