(* Proofs about M-REFS (property C13). *)
From Coq Require Import List Bool Arith NArith Lia.
From WZ Require Import Model.Refs.
Import ListNotations.

Lemma memN_In x l : memN x l = true <-> In x l.
Proof.
  unfold memN. rewrite existsb_exists. split.
  - intros [y [Hy E]]. apply N.eqb_eq in E. now subst.
  - intros H. exists x. split; [exact H|apply N.eqb_refl].
Qed.

(* a history is admissible when a style is removed only while no content uses it *)
Fixpoint admissible (ops : list rop) (s : rstate) : Prop :=
  match ops with
  | [] => True
  | o :: r => match o with RemoveStyle i => ~ In i (used s) | _ => True end /\ admissible r (step s o)
  end.

(* every used id is registered, or defined by the styles part; and when the part is (or will be)
   generated from the manager, every used id is registered *)
Definition Inv (s : rstate) : Prop :=
  (forall i, In i (used s) -> In i (reg s) \/ match part s with Some ids => In i ids | None => False end)
  /\ ((part s = None \/ generated s = true) -> forall i, In i (used s) -> In i (reg s)).

Lemma inv_new pre : Inv (new_doc pre).
Proof. split; simpl; intros; contradiction. Qed.

Lemma save_part_defines s i : Inv s -> In i (used s) -> In i (save_part s).
Proof.
  intros [I1 I2] H. unfold save_part. destruct (part s) as [ids|] eqn:P.
  - destruct (generated s) eqn:G.
    + apply I2; [now right|exact H].
    + apply in_app_iff. destruct (I1 i H) as [A|A]; [|now left].
      destruct (memN i ids) eqn:M; [left; now apply memN_In|].
      right. apply filter_In. split; [exact A|]. rewrite M.
      assert (memN i (used s) = true) by now apply memN_In. rewrite H0. reflexivity.
  - apply I2; [now left|exact H].
Qed.

Lemma save_part_keeps s ids i : part s = Some ids -> generated s = false -> In i ids -> In i (save_part s).
Proof. intros P G H. unfold save_part. rewrite P, G. apply in_app_iff. now left. Qed.

Theorem step_inv s o : Inv s -> (match o with RemoveStyle i => ~ In i (used s) | _ => True end) -> Inv (step s o).
Proof.
  intros I Hok. pose proof I as [I1 I2]. destruct o; simpl.
  - (* AddCustom *) split; simpl.
    + intros j Hj. destruct (I1 j Hj) as [A|A]; [left|now right].
      destruct (memN i (reg s)); [exact A|apply in_app_iff; now left].
    + intros C j Hj. specialize (I2 C j Hj). destruct (memN i (reg s)); [exact I2|apply in_app_iff; now left].
  - (* RemoveStyle *) split; simpl.
    + intros j Hj. destruct (I1 j Hj) as [A|A]; [left|now right]. apply filter_In. split; [exact A|].
      apply negb_true_iff. apply N.eqb_neq. intros E. subst. contradiction.
    + intros C j Hj. specialize (I2 C j Hj). apply filter_In. split; [exact I2|].
      apply negb_true_iff. apply N.eqb_neq. intros E. subst. contradiction.
  - (* UseStyle *) destruct (memN i (reg s)) eqn:M; [|exact I]. apply memN_In in M. split; simpl.
    + intros j Hj. destruct (memN i (used s)); [now apply I1|]. apply in_app_iff in Hj. destruct Hj as [Hj|[Hj|[]]]; [now apply I1|subst; now left].
    + intros C j Hj. destruct (memN i (used s)); [now apply I2|]. apply in_app_iff in Hj. destruct Hj as [Hj|[Hj|[]]]; [now apply I2|subst; exact M].
  - (* Save *) split; simpl.
    + intros j Hj. right. now apply save_part_defines.
    + intros [C|C]; [discriminate|]. intros j Hj. destruct (part s) eqn:P; apply I2; auto.
  - (* Reopen *) split; simpl.
    + intros j Hj. apply filter_In in Hj. right. now apply save_part_defines.
    + intros [C|C]; discriminate.
  - (* Render *) split; simpl.
    + exact I1.
    + intros [C|C]; [|discriminate]. intros j Hj. apply I2; [now left|exact Hj].
Qed.

Theorem run_inv ops : forall s, Inv s -> admissible ops s -> Inv (run ops s).
Proof.
  unfold run. induction ops as [|o r IH]; simpl; intros s I A; [exact I|].
  destruct A as [A1 A2]. apply IH; [apply step_inv; assumption|exact A2].
Qed.

(* C13: in every saved package, every style id used by the body is defined in the styles part -
   whatever was saved, reopened or rendered before *)
Theorem saved_defines_used ops pre : admissible ops (new_doc pre) ->
  forall i, In i (used (run ops (new_doc pre))) -> In i (save_part (run ops (new_doc pre))).
Proof. intros A i H. apply save_part_defines; [apply run_inv; [apply inv_new|exact A]|exact H]. Qed.

(* styles created through the style API are present in the next save, no matter how many saves
   or reopens came before *)
Theorem custom_in_next_save s i : In i (reg s) -> In i (custom s) -> In i (save_part s).
Proof.
  intros R C. unfold save_part. destruct (part s) as [ids|]; [|exact R].
  destruct (generated s); [exact R|]. apply in_app_iff.
  destruct (memN i ids) eqn:M; [left; now apply memN_In|].
  right. apply filter_In. split; [exact R|]. rewrite M.
  assert (memN i (custom s) = true) by now apply memN_In. rewrite H. now rewrite orb_true_r.
Qed.
Theorem add_custom_then_save s i : In i (save_part (step s (AddCustom i))).
Proof.
  apply custom_in_next_save; simpl.
  - destruct (memN i (reg s)) eqn:M; [now apply memN_In|apply in_app_iff; right; now left].
  - destruct (memN i (custom s)) eqn:M; [now apply memN_In|apply in_app_iff; right; now left].
Qed.

(* what an opened package already defines stays defined (its styles part is kept) *)
Theorem foreign_definitions_kept s ids i : part s = Some ids -> generated s = false -> In i ids -> In i (save_part s).
Proof. exact (save_part_keeps s ids i). Qed.

(* the pinned commit generated the styles part only once: witness on the same model with the old rule *)
Definition save_part_old (s : rstate) : list N := match part s with None => reg s | Some ids => ids end.
Example refuted_styles_once :
  let s1 := mkR [1; 2]%N [] (Some (save_part_old (new_doc [1; 2]%N))) true [] in
  let s2 := step (step s1 (AddCustom 7%N)) (UseStyle 7%N) in
  used s2 = [7%N] /\ save_part_old s2 = [1; 2]%N /\ save_part s2 = [1; 2; 7]%N.
Proof. vm_compute. repeat split; reflexivity. Qed.
