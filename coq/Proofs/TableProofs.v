(* Proofs about M-TABLE (property C09). *)
From Coq Require Import List Bool Arith NArith ZArith Lia.
From WZ Require Import Model.Table.
Import ListNotations.

(* ---- list helpers ------------------------------------------------------------------------------ *)

Lemma ensure_grid_full (g : list N) (n : nat) : n = length g -> ensure_grid (Some g) n = g.
Proof. intros ->. unfold ensure_grid. rewrite Nat.sub_diag. cbn [repeat]. apply app_nil_r. Qed.

Lemma forallb_app' {A} (f : A -> bool) l m : forallb f (l ++ m) = forallb f l && forallb f m.
Proof. induction l; simpl; [reflexivity|]. now rewrite IHl, andb_assoc. Qed.
Lemma forallb_firstn {A} (f : A -> bool) n l : forallb f l = true -> forallb f (firstn n l) = true.
Proof. revert l. induction n; intros [|a l]; simpl; auto. intros H. apply andb_true_iff in H. destruct H. rewrite H. simpl. auto. Qed.
Lemma forallb_skipn {A} (f : A -> bool) n l : forallb f l = true -> forallb f (skipn n l) = true.
Proof. revert l. induction n; intros [|a l]; simpl; auto. intros H. apply andb_true_iff in H. destruct H. auto. Qed.
Lemma forallb_update_nth {A} (f : A -> bool) n g l :
  forallb f l = true -> (forall a, f a = true -> f (g a) = true) -> forallb f (update_nth n g l) = true.
Proof.
  revert l. induction n; intros [|a l] H Hg; simpl in *; auto;
  apply andb_true_iff in H; destruct H as [H1 H2]; apply andb_true_iff; split; auto.
Qed.
Lemma length_update_nth {A} n (g : A -> A) l : length (update_nth n g l) = length l.
Proof. revert l. induction n; intros [|a l]; simpl; auto. Qed.
Lemma map_opt_all {A B} (f : A -> option B) (g : A -> B) l :
  (forall a, In a l -> f a = Some (g a)) -> map_opt f l = Some (map g l).
Proof.
  induction l as [|a r IH]; simpl; intros H; [reflexivity|].
  rewrite (H a (or_introl eq_refl)), IH; [reflexivity|]. intros x Hx. apply H. now right.
Qed.
Lemma mapi_aux_length {A B} (f : nat -> A -> B) i l : length (mapi_aux f i l) = length l.
Proof. revert i. induction l; intros i; simpl; auto. Qed.
Lemma forallb_mapi_aux {A B} (p : B -> bool) (f : nat -> A -> B) i l :
  (forall j a, In a l -> p (f j a) = true) -> forallb p (mapi_aux f i l) = true.
Proof.
  revert i. induction l as [|a r IH]; intros i H; simpl; [reflexivity|].
  rewrite (H i a (or_introl eq_refl)). simpl. apply IH. intros j x Hx. apply H. now right.
Qed.

(* ---- plain tables -------------------------------------------------------------------------------- *)

Lemma plain_unfold t : plain t = true <->
  exists g, grid t = Some g /\ forallb (good_row (length g)) (rows t) = true /\ length g <> 0 /\ length (rows t) <> 0.
Proof.
  unfold plain. destruct (grid t) as [g|]; split.
  - intros H. apply andb_true_iff in H. destruct H as [H H3]. apply andb_true_iff in H. destruct H as [H1 H2].
    exists g. split; [reflexivity|]. split; [exact H1|]. split.
    + apply negb_true_iff in H2. now apply Nat.eqb_neq.
    + apply negb_true_iff in H3. now apply Nat.eqb_neq.
  - intros [g' [E [H1 [H2 H3]]]]. inversion E; subst g'. rewrite H1. simpl.
    apply Nat.eqb_neq in H2. apply Nat.eqb_neq in H3. now rewrite H2, H3.
  - discriminate.
  - intros [g' [E _]]. discriminate.
Qed.

Lemma good_new_cell x : good_cell (new_cell x) = true. Proof. reflexivity. Qed.

Lemma good_row_new n data : good_row n (map (fun i => new_cell (nth_text data i)) (seq 0 n)) = true.
Proof.
  unfold good_row. rewrite map_length, seq_length, Nat.eqb_refl. simpl.
  apply forallb_forall. intros c H. apply in_map_iff in H. destruct H as [i [E _]]. subst. reflexivity.
Qed.

Lemma good_row_len n rw : good_row n rw = true -> length rw = n.
Proof. unfold good_row. intros H. apply andb_true_iff in H. destruct H as [H _]. now apply Nat.eqb_eq. Qed.

Lemma rows_all_len (g : list N) rws rw : forallb (good_row (length g)) rws = true -> In rw rws -> length rw = length g.
Proof. intros H Hin. rewrite forallb_forall in H. apply good_row_len. now apply H. Qed.

Lemma ok_inj a b : Ok a = Ok b -> a = b.
Proof. intros H. now inversion H. Qed.

(* a successful call that is not a merge keeps a merge-free table merge-free, and no call panics *)
Definition is_merge (o : top) : bool :=
  match o with MergeH _ _ _ | MergeV _ _ _ | MergeRange _ _ _ _ | Unmerge _ _ => true | _ => false end.

Lemma good_row_insert n p x rw : good_row n rw = true -> good_cell x = true -> p <= n ->
  insert_at p x rw = Some (firstn p rw ++ x :: skipn p rw) /\ good_row (S n) (firstn p rw ++ x :: skipn p rw) = true.
Proof.
  intros G Gx Hp. pose proof (good_row_len _ _ G) as L. unfold insert_at.
  assert (E : Nat.leb p (length rw) = true) by (apply Nat.leb_le; lia). rewrite E. split; [reflexivity|].
  unfold good_row in *. apply andb_true_iff in G. destruct G as [_ G].
  rewrite app_length. simpl. rewrite firstn_length, skipn_length.
  replace (Nat.min p (length rw) + S (length rw - p)) with (S n) by lia. rewrite Nat.eqb_refl. cbn [andb].
  rewrite forallb_app'. cbn [forallb]. rewrite Gx, (forallb_firstn _ p _ G), (forallb_skipn _ p _ G). reflexivity.
Qed.

Lemma good_row_delete n a b rw : good_row n rw = true -> a <= b -> b < n ->
  delete_range a b rw = Some (firstn a rw ++ skipn (S b) rw) /\ good_row (n - (b - a + 1)) (firstn a rw ++ skipn (S b) rw) = true.
Proof.
  intros G Hab Hb. pose proof (good_row_len _ _ G) as L. unfold delete_range.
  assert (E : Nat.leb (S b) (length rw) = true) by (apply Nat.leb_le; lia). rewrite E. split; [reflexivity|].
  unfold good_row in *. apply andb_true_iff in G. destruct G as [_ G].
  rewrite app_length, firstn_length, skipn_length.
  replace (Nat.min a (length rw) + (length rw - S b)) with (n - (b - a + 1)) by lia. rewrite Nat.eqb_refl. cbn [andb].
  rewrite forallb_app', (forallb_firstn _ a _ G), (forallb_skipn _ (S b) _ G). reflexivity.
Qed.

Lemma set_cell_plain t r c f : plain t = true -> (forall x, good_cell x = true -> good_cell (f x) = true) -> plain (set_cell t r c f) = true.
Proof.
  intros P Hf. apply plain_unfold in P. destruct P as [g [E [H1 [H2 H3]]]]. apply plain_unfold.
  exists g. unfold set_cell. simpl. split; [exact E|]. split; [|split; [exact H2|now rewrite length_update_nth]].
  apply forallb_update_nth; [exact H1|]. intros rw G. unfold good_row in *.
  apply andb_true_iff in G. destruct G as [G1 G2]. rewrite length_update_nth, G1. simpl.
  apply forallb_update_nth; [exact G2|exact Hf].
Qed.

Lemma existsb_none {A} (f : A -> bool) l : (forall x, In x l -> f x = false) -> existsb f l = false.
Proof.
  induction l as [|x r IH]; intros H; [reflexivity|]. cbn [existsb]. rewrite (H x (or_introl eq_refl)). apply IH.
  intros y Hy. apply H. right. exact Hy.
Qed.

Theorem plain_step t o : plain t = true -> is_merge o = false ->
  step t o <> Panic /\ (forall t', step t o = Ok t' -> plain t' = true).
Proof.
  intros P M. pose proof P as P0. apply plain_unfold in P. destruct P as [g [E [H1 [H2 H3]]]].
  destruct t as [gr rws]. cbn [grid rows] in *. subst gr.
  destruct o; try discriminate; unfold step; cbn [grid rows].
  - (* InsertRow *)
    destruct ((pos <? 0)%Z || (Z.of_nat (length rws) <? pos)%Z) eqn:B; [split; [discriminate|discriminate]|].
    destruct rws as [|r0 rest]; [split; discriminate|].
    destruct (Nat.ltb (length r0) (length data)); [split; discriminate|].
    apply orb_false_iff in B. destruct B as [B1 B2]. apply Z.ltb_ge in B1. apply Z.ltb_ge in B2.
    unfold insert_at. match goal with |- context [Nat.leb ?xa ?xb] => let Ep := fresh "Ep" in assert (Ep : Nat.leb xa xb = true) by (apply Nat.leb_le; unfold row in *; lia); rewrite Ep end.
    split; [discriminate|]. intros t' H. apply ok_inj in H. subst t'.
    apply plain_unfold. exists g. cbn [grid rows]. split; [reflexivity|]. split; [|split; [exact H2|]].
    + rewrite forallb_app'. cbn [forallb].
      assert (L0 : length r0 = length g) by (apply (rows_all_len g (r0 :: rest)); [exact H1|now left]).
      apply andb_true_iff. split; [apply forallb_firstn; exact H1|].
      apply andb_true_iff. split; [rewrite L0; apply good_row_new|apply forallb_skipn; exact H1].
    + rewrite app_length. cbn [length]. rewrite firstn_length, skipn_length. unfold row in *. lia.
  - (* DeleteRow *)
    destruct (negb (in_range i (length rws))) eqn:B; [split; discriminate|].
    destruct (Nat.leb (length rws) 1) eqn:B1; [split; discriminate|].
    apply negb_false_iff in B. unfold in_range in B. apply andb_true_iff in B. destruct B as [Ba Bb].
    apply Z.leb_le in Ba. apply Z.ltb_lt in Bb. apply Nat.leb_gt in B1.
    unfold delete_range. match goal with |- context [Nat.leb ?xa ?xb] => let Ep := fresh "Ep" in assert (Ep : Nat.leb xa xb = true) by (apply Nat.leb_le; unfold row in *; lia); rewrite Ep end.
    split; [discriminate|]. intros t' H. apply ok_inj in H. subst t'.
    apply plain_unfold. exists g. cbn [grid rows]. split; [reflexivity|]. split; [|split; [exact H2|]].
    + rewrite forallb_app'. apply andb_true_iff. split; [apply forallb_firstn; exact H1|].
      apply (forallb_skipn _ (S (Z.to_nat i)) _ H1).
    + rewrite app_length, firstn_length, skipn_length. unfold row in *. lia.
  - (* DeleteRows *)
    destruct ((a <? 0)%Z || (Z.of_nat (length rws) <=? b)%Z || (b <? a)%Z) eqn:B; [split; discriminate|].
    destruct (Z.of_nat (length rws) - (b - a + 1) <? 1)%Z eqn:B1; [split; discriminate|].
    apply orb_false_iff in B. destruct B as [B Bc]. apply orb_false_iff in B. destruct B as [Ba Bb].
    apply Z.ltb_ge in Ba. apply Z.leb_gt in Bb. apply Z.ltb_ge in Bc. apply Z.ltb_ge in B1.
    unfold delete_range. match goal with |- context [Nat.leb ?xa ?xb] => let Ep := fresh "Ep" in assert (Ep : Nat.leb xa xb = true) by (apply Nat.leb_le; unfold row in *; lia); rewrite Ep end.
    split; [discriminate|]. intros t' H. apply ok_inj in H. subst t'.
    apply plain_unfold. exists g. cbn [grid rows]. split; [reflexivity|]. split; [|split; [exact H2|]].
    + rewrite forallb_app'. apply andb_true_iff. split; [apply forallb_firstn; exact H1|].
      apply (forallb_skipn _ (S (Z.to_nat b)) _ H1).
    + rewrite app_length, firstn_length, skipn_length. unfold row in *. lia.
  - (* InsertColumn *)
    destruct rws as [|r0 rest]; [split; discriminate|].
    destruct ((pos <? 0)%Z || (Z.of_nat (length r0) <? pos)%Z) eqn:B; [split; discriminate|].
    destruct (Nat.ltb (length (r0 :: rest)) (length data)); [split; discriminate|].
        assert (L0 : length r0 = length g) by (apply (rows_all_len g (r0 :: rest)); [exact H1|now left]).
    rewrite (ensure_grid_full g (length r0) L0).
    apply orb_false_iff in B. destruct B as [B1 B2]. apply Z.ltb_ge in B1. apply Z.ltb_ge in B2.
    assert (Hp : Z.to_nat pos <= length g) by lia.
    rewrite (existsb_none (fun rw => Nat.ltb (length rw) (Z.to_nat pos)) (r0 :: rest)).
    2:{ intros rw Hin. apply Nat.ltb_ge. rewrite (rows_all_len g (r0 :: rest) rw H1 Hin). exact Hp. }
    set (p := Z.to_nat pos) in *.
    assert (IG : insert_at p width g = Some (firstn p g ++ width :: skipn p g)).
    { unfold insert_at. assert (Ep : Nat.leb p (length g) = true) by now apply Nat.leb_le. now rewrite Ep. }
    rewrite IG.
    assert (MO : map_opt (fun x => x) (mapi (fun i rw => insert_at p (new_cell (nth_text data i)) rw) (r0 :: rest))
                 = Some (mapi (fun i rw => firstn p rw ++ new_cell (nth_text data i) :: skipn p rw) (r0 :: rest))).
    { unfold mapi. generalize 0 as k. revert H1. generalize (r0 :: rest) as rws. induction rws as [|rw rws IH]; intros Hall k; simpl; [reflexivity|].
      simpl in Hall. apply andb_true_iff in Hall. destruct Hall as [Ha Hb].
      destruct (good_row_insert _ p (new_cell (nth_text data k)) rw Ha (good_new_cell _) Hp) as [Ei _].
      rewrite Ei, (IH Hb (S k)). reflexivity. }
    rewrite MO. split; [discriminate|]. intros t' H. apply ok_inj in H. subst t'.
    apply plain_unfold. exists (firstn p g ++ width :: skipn p g). cbn [grid rows]. split; [reflexivity|].
    assert (LG : length (firstn p g ++ width :: skipn p g) = S (length g)).
    { rewrite app_length. simpl. rewrite firstn_length, skipn_length. lia. }
    rewrite LG. split; [|split; [lia|unfold mapi; simpl; discriminate]].
    unfold mapi. apply forallb_mapi_aux. intros j rw Hin.
    assert (Ga : good_row (length g) rw = true) by (rewrite forallb_forall in H1; now apply H1).
    now destruct (good_row_insert _ p (new_cell (nth_text data j)) rw Ga (good_new_cell _) Hp).
  - (* DeleteColumn *)
    destruct rws as [|r0 rest]; [split; discriminate|].
    destruct (negb (in_range i (length r0))) eqn:B; [split; discriminate|].
    destruct (Nat.leb (length r0) 1) eqn:B1; [split; discriminate|].     assert (L0 : length r0 = length g) by (apply (rows_all_len g (r0 :: rest)); [exact H1|now left]).
    rewrite (ensure_grid_full g (length r0) L0).
    apply negb_false_iff in B. unfold in_range in B. apply andb_true_iff in B. destruct B as [Ba Bb].
    apply Z.leb_le in Ba. apply Z.ltb_lt in Bb. apply Nat.leb_gt in B1.
    rewrite (existsb_none (fun rw => Nat.leb (length rw) (Z.to_nat i)) (r0 :: rest)).
    2:{ intros rw Hin. apply Nat.leb_gt. rewrite (rows_all_len g (r0 :: rest) rw H1 Hin). lia. }
    set (p := Z.to_nat i) in *. assert (Hp : p < length g) by lia.
    assert (DG : delete_range p p g = Some (firstn p g ++ skipn (S p) g)).
    { unfold delete_range. assert (Ep : Nat.leb (S p) (length g) = true) by (apply Nat.leb_le; lia). now rewrite Ep. }
    rewrite DG.
    rewrite (map_opt_all _ (fun rw => firstn p rw ++ skipn (S p) rw)).
    2:{ intros rw Hin. assert (Ga : good_row (length g) rw = true) by (rewrite forallb_forall in H1; now apply H1).
        now destruct (good_row_delete _ p p rw Ga (le_n p) Hp). }
    split; [discriminate|]. intros t' H. apply ok_inj in H. subst t'.
    apply plain_unfold. exists (firstn p g ++ skipn (S p) g). cbn [grid rows]. split; [reflexivity|].
    assert (LG : length (firstn p g ++ skipn (S p) g) = length g - 1) by (rewrite app_length, firstn_length, skipn_length; lia).
    rewrite LG. split; [|split; [lia|simpl; discriminate]].
    change (forallb (good_row (length g - 1)) (map (fun rw => firstn p rw ++ skipn (S p) rw) (r0 :: rest)) = true).
    apply forallb_forall. intros x Hx. apply in_map_iff in Hx. destruct Hx as [rw [Ex Hin]]. subst x.
    assert (Ga : good_row (length g) rw = true) by (rewrite forallb_forall in H1; now apply H1).
    destruct (good_row_delete _ p p rw Ga (le_n p) Hp) as [_ G]. replace (length g - (p - p + 1)) with (length g - 1) in G by lia. exact G.
  - (* DeleteColumns *)
    destruct rws as [|r0 rest]; [split; discriminate|].
    destruct ((a <? 0)%Z || (Z.of_nat (length r0) <=? b)%Z || (b <? a)%Z) eqn:B; [split; discriminate|].
    destruct (Z.of_nat (length r0) - (b - a + 1) <? 1)%Z eqn:B1; [split; discriminate|].     assert (L0 : length r0 = length g) by (apply (rows_all_len g (r0 :: rest)); [exact H1|now left]).
    rewrite (ensure_grid_full g (length r0) L0).
    apply orb_false_iff in B. destruct B as [B Bc]. apply orb_false_iff in B. destruct B as [Ba Bb].
    apply Z.ltb_ge in Ba. apply Z.leb_gt in Bb. apply Z.ltb_ge in Bc. apply Z.ltb_ge in B1.
    rewrite (existsb_none (fun rw => Nat.leb (length rw) (Z.to_nat b)) (r0 :: rest)).
    2:{ intros rw Hin. apply Nat.leb_gt. rewrite (rows_all_len g (r0 :: rest) rw H1 Hin). lia. }
    set (p := Z.to_nat a) in *. set (q := Z.to_nat b) in *.
    assert (Hpq : p <= q) by lia. assert (Hq : q < length g) by lia.
    assert (DG : delete_range p q g = Some (firstn p g ++ skipn (S q) g)).
    { unfold delete_range. assert (Ep : Nat.leb (S q) (length g) = true) by (apply Nat.leb_le; lia). now rewrite Ep. }
    rewrite DG.
    rewrite (map_opt_all _ (fun rw => firstn p rw ++ skipn (S q) rw)).
    2:{ intros rw Hin. assert (Ga : good_row (length g) rw = true) by (rewrite forallb_forall in H1; now apply H1).
        now destruct (good_row_delete _ p q rw Ga Hpq Hq). }
    split; [discriminate|]. intros t' H. apply ok_inj in H. subst t'.
    apply plain_unfold. exists (firstn p g ++ skipn (S q) g). cbn [grid rows]. split; [reflexivity|].
    assert (LG : length (firstn p g ++ skipn (S q) g) = length g - (q - p + 1)) by (rewrite app_length, firstn_length, skipn_length; lia).
    rewrite LG. split; [|split; [lia|simpl; discriminate]].
    change (forallb (good_row (length g - (q - p + 1))) (map (fun rw => firstn p rw ++ skipn (S q) rw) (r0 :: rest)) = true).
    apply forallb_forall. intros x Hx. apply in_map_iff in Hx. destruct Hx as [rw [Ex Hin]]. subst x.
    assert (Ga : good_row (length g) rw = true) by (rewrite forallb_forall in H1; now apply H1).
    now destruct (good_row_delete _ p q rw Ga Hpq Hq).
  - (* SetCellText *)
    match goal with |- context [get_cell ?tt r c] => destruct (get_cell tt r c) end; split; try discriminate. intros t' H. apply ok_inj in H. subst t'.
    apply set_cell_plain; [exact P0|]. intros x G. unfold good_cell, set_text, plain_cell in *. simpl.
    apply andb_true_iff in G. destruct G as [G1 G2]. rewrite G1. destruct (paras x); reflexivity.
  - (* AddCellParagraph *)
    match goal with |- context [get_cell ?tt r c] => destruct (get_cell tt r c) end; split; try discriminate. intros t' H. apply ok_inj in H. subst t'.
    apply set_cell_plain; [exact P0|]. intros x G. unfold good_cell, plain_cell in *. simpl.
    apply andb_true_iff in G. destruct G as [G1 G2]. rewrite G1, app_length. simpl.
    destruct (length (paras x) + 1) eqn:L; [lia|reflexivity].
  - (* ClearCellParagraphs *)
    match goal with |- context [get_cell ?tt r c] => destruct (get_cell tt r c) end; split; try discriminate. intros t' H. apply ok_inj in H. subst t'.
    apply set_cell_plain; [exact P0|]. intros x G. unfold good_cell, plain_cell in *. simpl.
    apply andb_true_iff in G. destruct G as [G1 G2]. now rewrite G1.
  - (* ClearTable *)
    split; [discriminate|]. intros t' H. apply ok_inj in H. subst t'.
    apply plain_unfold. exists g. cbn [grid rows]. split; [reflexivity|]. split; [|split; [exact H2|now rewrite map_length]].
    apply forallb_forall. intros x Hx. apply in_map_iff in Hx. destruct Hx as [rw [Ex Hin]]. subst x.
    assert (Ga : good_row (length g) rw = true) by (rewrite forallb_forall in H1; now apply H1).
    unfold good_row in *. apply andb_true_iff in Ga. destruct Ga as [G1 G2]. rewrite map_length, G1. simpl.
    apply forallb_forall. intros y Hy. apply in_map_iff in Hy. destruct Hy as [c [Ec Hc]]. subst y.
    rewrite forallb_forall in G2. specialize (G2 c Hc). unfold good_cell, plain_cell in *. simpl.
    apply andb_true_iff in G2. destruct G2 as [G21 _]. now rewrite G21.
Qed.

(* ---- a merge-free table satisfies the well-formedness the property asks for --------------------- *)

Lemma good_row_width n rw : good_row n rw = true -> row_width rw = n.
Proof.
  unfold good_row. intros H. apply andb_true_iff in H. destruct H as [L G]. apply Nat.eqb_eq in L. subst n.
  induction rw as [|c r IH]; simpl in *; [reflexivity|].
  apply andb_true_iff in G. destruct G as [Gc Gr]. rewrite (IH Gr).
  unfold good_cell, plain_cell in Gc. apply andb_true_iff in Gc. destruct Gc as [Gp _].
  unfold span_of. destruct (span c); [discriminate|reflexivity].
Qed.

Lemma vm_ok_plain rws : forall prev n, forallb (good_row n) rws = true -> vm_ok prev rws = true.
Proof.
  induction rws as [|rw rest IH]; intros prev n H; simpl; [reflexivity|].
  simpl in H. apply andb_true_iff in H. destruct H as [Hr Hrest]. rewrite (IH _ _ Hrest), andb_true_r.
  unfold good_row in Hr. apply andb_true_iff in Hr. destruct Hr as [_ G].
  unfold mapi. apply forallb_mapi_aux. intros j c Hc.
  rewrite forallb_forall in G. specialize (G c Hc).
  unfold good_cell, plain_cell in G. apply andb_true_iff in G. destruct G as [Gp _].
  destruct (span c); [discriminate|]. destruct (vm c); try discriminate. reflexivity.
Qed.

Theorem plain_grid_inv t : plain t = true -> grid_inv t = true.
Proof.
  intros P. apply plain_unfold in P. destruct P as [g [E [H1 [H2 H3]]]]. unfold grid_inv. rewrite E.
  apply andb_true_iff. split; [|eapply vm_ok_plain; exact H1].
  apply forallb_forall. intros rw Hin. rewrite forallb_forall in H1. specialize (H1 rw Hin).
  rewrite (good_row_width _ _ H1), Nat.eqb_refl. simpl.
  unfold good_row in H1. apply andb_true_iff in H1. destruct H1 as [_ G].
  apply forallb_forall. intros c Hc. rewrite forallb_forall in G. specialize (G c Hc).
  unfold good_cell in G. apply andb_true_iff in G. tauto.
Qed.

(* C09 on merge-free tables: every reachable table is well-formed, and no call panics *)
Theorem plain_run_grid_inv ops : forall t, plain t = true -> forallb (fun o => negb (is_merge o)) ops = true ->
  exists t', fold_left (fun s o => match step s o with Ok s' => s' | _ => s end) ops t = t' /\ plain t' = true /\ grid_inv t' = true.
Proof.
  induction ops as [|o r IH]; intros t P H; simpl.
  - exists t. repeat split; [exact P|now apply plain_grid_inv].
  - simpl in H. apply andb_true_iff in H. destruct H as [Ho Hr]. apply negb_true_iff in Ho.
    destruct (plain_step t o P Ho) as [_ K]. destruct (step t o) as [t1| |] eqn:E; apply IH; auto.
Qed.

(* ---- the plain rows-by-columns matrix ------------------------------------------------------------ *)

Definition cell_text (c : cell) : N := hd 0%N (paras c).
Lemma matrix_rows t : matrix t = map (map cell_text) (rows t).
Proof. reflexivity. Qed.

Ltac dead := let HH := fresh in intros HH; cbv beta iota in HH; discriminate HH.

(* inserting a row at p: the matrix gets the new row at p, every other row is where it was *)
Theorem insert_row_matrix t pos data t' : step t (InsertRow pos data) = Ok t' ->
  exists n, matrix t' = firstn (Z.to_nat pos) (matrix t) ++ map (fun i => nth_text data i) (seq 0 n) :: skipn (Z.to_nat pos) (matrix t).
Proof.
  unfold step. destruct ((pos <? 0)%Z || (Z.of_nat (length (rows t)) <? pos)%Z); [intros HH; cbv beta iota in HH; discriminate HH|].
  destruct (rows t) as [|r0 rest] eqn:R; [intros HH; cbv beta iota in HH; discriminate HH|].
  destruct (Nat.ltb (length r0) (length data)); [intros HH; cbv beta iota in HH; discriminate HH|].
  unfold insert_at. match goal with |- context [Nat.leb ?xa ?xb] => destruct (Nat.leb xa xb) end; [|intros HH; cbv beta iota in HH; discriminate HH].
  intros H. apply ok_inj in H. subst t'. exists (length r0). rewrite <- R. rewrite !matrix_rows. cbn [rows].
  rewrite map_app, firstn_map. cbn [map]. rewrite skipn_map, map_map. reflexivity.
Qed.

(* deleting rows a..b removes exactly those rows of the matrix *)
Theorem delete_rows_matrix t a b t' : step t (DeleteRows a b) = Ok t' ->
  matrix t' = firstn (Z.to_nat a) (matrix t) ++ skipn (S (Z.to_nat b)) (matrix t).
Proof.
  unfold step. destruct ((a <? 0)%Z || (Z.of_nat (length (rows t)) <=? b)%Z || (b <? a)%Z); [intros HH; cbv beta iota in HH; discriminate HH|].
  destruct (Z.of_nat (length (rows t)) - (b - a + 1) <? 1)%Z; [intros HH; cbv beta iota in HH; discriminate HH|].
  unfold delete_range. match goal with |- context [Nat.leb ?xa ?xb] => destruct (Nat.leb xa xb) end; [|intros HH; cbv beta iota in HH; discriminate HH].
  intros H. apply ok_inj in H. subst t'. rewrite !matrix_rows. cbn [rows].
  now rewrite map_app, firstn_map, skipn_map.
Qed.
Theorem delete_row_matrix t i t' : step t (DeleteRow i) = Ok t' ->
  matrix t' = firstn (Z.to_nat i) (matrix t) ++ skipn (S (Z.to_nat i)) (matrix t).
Proof.
  unfold step. destruct (negb (in_range i (length (rows t)))); [intros HH; cbv beta iota in HH; discriminate HH|].
  destruct (Nat.leb (length (rows t)) 1); [intros HH; cbv beta iota in HH; discriminate HH|].
  unfold delete_range. match goal with |- context [Nat.leb ?xa ?xb] => destruct (Nat.leb xa xb) end; [|intros HH; cbv beta iota in HH; discriminate HH].
  intros H. apply ok_inj in H. subst t'. rewrite !matrix_rows. cbn [rows].
  now rewrite map_app, firstn_map, skipn_map.
Qed.

(* writing a cell changes that entry of the matrix and nothing else *)
Lemma map_update_nth {A B} (f : A -> B) n g g' l : (forall a, f (g a) = g' (f a)) -> map f (update_nth n g l) = update_nth n g' (map f l).
Proof. intros H. revert l. induction n; intros [|a l]; simpl; auto; now rewrite ?H, ?IHn. Qed.

Theorem set_cell_text_matrix t r c x t' : step t (SetCellText r c x) = Ok t' ->
  matrix t' = update_nth (Z.to_nat r) (update_nth (Z.to_nat c) (fun _ => x)) (matrix t).
Proof.
  unfold step. destruct (get_cell t r c); [|intros HH; cbv beta iota in HH; discriminate HH]. intros H. apply ok_inj in H. subst t'.
  rewrite !matrix_rows. unfold set_cell. cbn [rows].
  apply map_update_nth. intros rw. apply map_update_nth. intros cl. unfold cell_text, set_text. simpl.
  destruct (paras cl); reflexivity.
Qed.

(* column insertion / deletion act on every row of the matrix at the same position *)
Lemma mapi_aux_map {A B C} (f : nat -> A -> B) (h : B -> C) k l : map h (mapi_aux f k l) = mapi_aux (fun i a => h (f i a)) k l.
Proof. revert k. induction l; intros k; simpl; [reflexivity|]. now rewrite IHl. Qed.
Lemma map_opt_id_some {A} (l : list (option A)) r : map_opt (fun x => x) l = Some r -> l = map Some r.
Proof.
  revert r. induction l as [|a l IH]; simpl; intros r H; [inversion H; reflexivity|].
  destruct a as [a|]; [|discriminate]. destruct (map_opt (fun x => x) l) as [r'|] eqn:E; [|discriminate].
  inversion H; subst. simpl. now rewrite (IH r' eq_refl).
Qed.

Theorem delete_column_matrix t i t' : step t (DeleteColumn i) = Ok t' ->
  matrix t' = map (fun rw => firstn (Z.to_nat i) rw ++ skipn (S (Z.to_nat i)) rw) (matrix t).
Proof.
  unfold step. destruct (rows t) as [|r0 rest] eqn:R; [intros HH; cbv beta iota in HH; discriminate HH|].
  destruct (negb (in_range i (length r0))); [intros HH; cbv beta iota in HH; discriminate HH|]. destruct (Nat.leb (length r0) 1); [intros HH; cbv beta iota in HH; discriminate HH|].
  destruct (existsb (fun rw => Nat.leb (length rw) (Z.to_nat i)) (r0 :: rest)); [intros HH; cbv beta iota in HH; discriminate HH|].
  destruct (delete_range (Z.to_nat i) (Z.to_nat i) (ensure_grid (grid t) (length r0))); [|intros HH; cbv beta iota in HH; discriminate HH].
  destruct (map_opt (delete_range (Z.to_nat i) (Z.to_nat i)) (r0 :: rest)) as [rs|] eqn:M; [|intros HH; cbv beta iota in HH; discriminate HH].
  intros H. apply ok_inj in H. subst t'. rewrite !matrix_rows. cbn [rows]. rewrite R.
  clear R. revert rs M. generalize (r0 :: rest) as rws. induction rws as [|rw rws IH]; intros rs M; simpl in M.
  - inversion M. reflexivity.
  - unfold delete_range in M at 1. destruct (Nat.leb (S (Z.to_nat i)) (length rw)); [|discriminate].
    destruct (map_opt (delete_range (Z.to_nat i) (Z.to_nat i)) rws) as [rs'|] eqn:M'; [|discriminate].
    inversion M; subst rs. cbn [map]. rewrite (IH rs' eq_refl). f_equal. now rewrite map_app, firstn_map, skipn_map.
Qed.

(* ---- merges on merge-free tables keep the rows spanning the grid ---------------------------------- *)

Lemma row_width_app r1 r2 : row_width (r1 ++ r2) = row_width r1 + row_width r2.
Proof. unfold row_width. induction r1; simpl; [reflexivity|]. rewrite IHr1. lia. Qed.

Lemma row_width_plain rw : forallb good_cell rw = true -> row_width rw = length rw.
Proof. intros G. apply (good_row_width (length rw)). unfold good_row. now rewrite Nat.eqb_refl. Qed.

(* horizontal merge of unit-span cells a..b of a row: the row still spans the same number of grid columns *)
Theorem merge_h_row_width rw a b : forallb good_cell rw = true -> a < b -> b < length rw ->
  row_width (merge_h_row a b rw) = row_width rw.
Proof.
  intros G Hab Hb. unfold merge_h_row.
  destruct (nth_error rw a) as [c|] eqn:E; [|apply nth_error_None in E; lia].
  rewrite !row_width_app. rewrite (row_width_plain (firstn a rw)) by now apply forallb_firstn.
  rewrite (row_width_plain (skipn (S b) rw)) by now apply forallb_skipn.
  rewrite (row_width_plain rw G), firstn_length, skipn_length. simpl. unfold span_of. simpl. lia.
Qed.

(* a call that is refused leaves the table exactly as it was - every call, every table *)
Theorem error_unchanged t o : step t o = Err -> state_after t o = Some t.
Proof. intros H. unfold state_after. rewrite H. destruct o; reflexivity. Qed.

(* ---- what goes wrong once a table contains merges: one witness per known finding ------------------- *)

Definition t33 : table := create 3 3 [1000; 1000; 1000]%N.
Definition after (ops : list top) (t : table) : option table :=
  fold_left (fun s o => match s with Some x => state_after x o | None => None end) ops (Some t).

(* the column edits address physical cells: after a horizontal merge the new column is not one column of the grid
   (in row 1 it stands behind the merged cell, two grid columns further right than in row 0) *)
Example refuted_insert_column_after_hmerge :
  match after [MergeH 1 0 1; InsertColumn 1 [5; 5; 5]%N 1000%N] t33 with
  | Some t => map (fun rw => row_width (firstn 1 rw)) (rows t) = [1; 2; 1] | None => False end.
Proof. vm_compute. reflexivity. Qed.
(* deleting physical cell 0 of every row removes one grid column in rows 0 and 2 and two in row 1 *)
Example refuted_delete_column_after_hmerge :
  match after [MergeH 1 0 1; DeleteColumn 0] t33 with Some t => grid_inv t = false | None => False end.
Proof. vm_compute. reflexivity. Qed.
(* on a row that is shorter because of a merge the column edits are refused, with the table unchanged *)
Example column_edit_refused_on_short_row :
  match after [MergeH 1 0 2] t33 with
  | Some t => step t (InsertColumn 3 [] 1000%N) = Err /\ step t (DeleteColumn 2) = Err /\ step t (DeleteColumns 1 2) = Err
  | None => False end.
Proof. vm_compute. repeat split; reflexivity. Qed.
Example refuted_insert_row_after_hmerge :
  match after [MergeH 0 0 1; InsertRow 1 []] t33 with Some t => grid_inv t = false | None => False end.
Proof. vm_compute. reflexivity. Qed.
Example refuted_delete_row_splits_vmerge :
  match after [MergeV 0 2 1; DeleteRow 0] t33 with Some t => grid_inv t = false | None => False end.
Proof. vm_compute. reflexivity. Qed.
Example refuted_merge_again :
  match after [MergeH 0 0 1; MergeV 0 1 1] t33 with Some t => grid_inv t = false | None => False end.
Proof. vm_compute. reflexivity. Qed.
Example refuted_unmerge_after_hmerge :
  match after [MergeV 0 2 2; MergeH 0 0 1] t33, after [MergeV 0 2 2; MergeH 0 0 1; Unmerge 0 1] t33 with
  | Some a, Some b => grid_inv a = true /\ grid_inv b = false | _, _ => False end.
Proof. vm_compute. split; reflexivity. Qed.
(* and the merges the partial theorems cover do keep the table well-formed *)
Example merges_on_plain_ok :
  match after [MergeH 0 0 1; SetCellText 0 0 7%N; Unmerge 0 0] t33, after [MergeV 0 2 1; Unmerge 0 1] t33, after [MergeRange 0 1 1 2] t33 with
  | Some a, Some b, Some c => plain a = true /\ plain b = true /\ grid_inv c = true
  | _, _, _ => False
  end.
Proof. vm_compute. repeat split; reflexivity. Qed.

(* ---- column edits on a table read without (or with too short) a grid definition ------------------------------ *)

Lemma ensure_grid_length g n : n <= length (ensure_grid g n).
Proof. unfold ensure_grid. destruct g as [l|]; rewrite app_length, repeat_length; cbn [length]; lia. Qed.

Definition is_column_edit (o : top) : bool :=
  match o with InsertColumn _ _ _ | DeleteColumn _ | DeleteColumns _ _ => true | _ => false end.

(* the guard of the column edits, read back *)
Lemma existsb_false_all {A} (f : A -> bool) l : existsb f l = false -> forall x, In x l -> f x = false.
Proof.
  induction l as [|a r IH]; intros H x Hx; [destruct Hx|]. cbn [existsb] in H. apply orb_false_iff in H. destruct H as [Ha Hr].
  destruct Hx as [<-|Hx]; [exact Ha | apply IH; assumption].
Qed.

Lemma map_opt_mapi_insert p (f : nat -> cell) : forall rws k,
  (forall rw, In rw rws -> p <= length rw) ->
  map_opt (fun x => x) (mapi_aux (fun i rw => insert_at p (f i) rw) k rws) <> None.
Proof.
  induction rws as [|rw rws IH]; intros k H; cbn [mapi_aux map_opt]; [discriminate|].
  unfold insert_at at 1. assert (Ep : Nat.leb p (length rw) = true) by (apply Nat.leb_le; apply H; left; reflexivity).
  rewrite Ep. specialize (IH (S k) (fun x Hx => H x (or_intror Hx))).
  destruct (map_opt (fun x => x) (mapi_aux (fun i rw0 => insert_at p (f i) rw0) (S k) rws)); [discriminate | contradiction].
Qed.

Lemma map_opt_delete a b : forall (rws : list row),
  (forall rw, In rw rws -> S b <= length rw) -> map_opt (delete_range a b) rws <> None.
Proof.
  induction rws as [|rw rws IH]; intros H; cbn [map_opt]; [discriminate|].
  unfold delete_range at 1. assert (Ep : Nat.leb (S b) (length rw) = true) by (apply Nat.leb_le; apply H; left; reflexivity).
  rewrite Ep. specialize (IH (fun x Hx => H x (or_intror Hx))).
  destruct (map_opt (delete_range a b) rws); [discriminate | contradiction].
Qed.

(* whatever the table - any grid definition (none, too short, too long), rows of different lengths, merges anywhere -
   no column edit panics: it succeeds or it is refused *)
Theorem column_edit_never_panics t o : is_column_edit o = true -> step t o <> Panic.
Proof.
  intros Ho. destruct t as [g0 rws]. destruct o; try discriminate Ho; unfold step; cbn [rows grid].
  - (* InsertColumn *)
    destruct rws as [|r0 rest]; [discriminate|].
    destruct ((pos <? 0)%Z || (Z.of_nat (length r0) <? pos)%Z) eqn:B; [discriminate|].
    destruct (Nat.ltb (length (r0 :: rest)) (length data)); [discriminate|].
    destruct (existsb (fun rw => Nat.ltb (length rw) (Z.to_nat pos)) (r0 :: rest)) eqn:EX; [discriminate|].
    apply orb_false_iff in B. destruct B as [B1 B2]. apply Z.ltb_ge in B1. apply Z.ltb_ge in B2.
    pose proof (ensure_grid_length g0 (length r0)) as LG.
    set (g := ensure_grid g0 (length r0)) in *. set (p := Z.to_nat pos) in *.
    assert (IG : insert_at p width g = Some (firstn p g ++ width :: skipn p g)).
    { unfold insert_at. assert (Ep : Nat.leb p (length g) = true) by (apply Nat.leb_le; lia). now rewrite Ep. }
    rewrite IG.
    pose proof (map_opt_mapi_insert p (fun i => new_cell (nth_text data i)) (r0 :: rest) 0) as MO.
    unfold mapi.
    destruct (map_opt (fun x => x) (mapi_aux (fun i rw => insert_at p (new_cell (nth_text data i)) rw) 0 (r0 :: rest))); [discriminate|].
    exfalso. apply MO; [|reflexivity]. intros rw Hin.
    pose proof (existsb_false_all _ _ EX rw Hin) as Hl. apply Nat.ltb_ge in Hl. exact Hl.
  - (* DeleteColumn *)
    destruct rws as [|r0 rest]; [discriminate|].
    destruct (negb (in_range i (length r0))) eqn:B; [discriminate|].
    destruct (Nat.leb (length r0) 1) eqn:B1; [discriminate|].
    destruct (existsb (fun rw => Nat.leb (length rw) (Z.to_nat i)) (r0 :: rest)) eqn:EX; [discriminate|].
    apply negb_false_iff in B. unfold in_range in B. apply andb_true_iff in B. destruct B as [Ba Bb].
    apply Z.leb_le in Ba. apply Z.ltb_lt in Bb.
    pose proof (ensure_grid_length g0 (length r0)) as LG.
    set (g := ensure_grid g0 (length r0)) in *. set (p := Z.to_nat i) in *.
    assert (DG : delete_range p p g = Some (firstn p g ++ skipn (S p) g)).
    { unfold delete_range. assert (Ep : Nat.leb (S p) (length g) = true) by (apply Nat.leb_le; lia). now rewrite Ep. }
    rewrite DG.
    pose proof (map_opt_delete p p (r0 :: rest)) as MO.
    destruct (map_opt (delete_range p p) (r0 :: rest)); [discriminate|].
    exfalso. apply MO; [|reflexivity]. intros rw Hin.
    pose proof (existsb_false_all _ _ EX rw Hin) as Hl. apply Nat.leb_gt in Hl. lia.
  - (* DeleteColumns *)
    destruct rws as [|r0 rest]; [discriminate|].
    destruct ((a <? 0)%Z || (Z.of_nat (length r0) <=? b)%Z || (b <? a)%Z) eqn:B; [discriminate|].
    destruct (Z.of_nat (length r0) - (b - a + 1) <? 1)%Z eqn:B1; [discriminate|].
    destruct (existsb (fun rw => Nat.leb (length rw) (Z.to_nat b)) (r0 :: rest)) eqn:EX; [discriminate|].
    apply orb_false_iff in B. destruct B as [B Bc]. apply orb_false_iff in B. destruct B as [Ba Bb].
    apply Z.ltb_ge in Ba. apply Z.leb_gt in Bb. apply Z.ltb_ge in Bc.
    pose proof (ensure_grid_length g0 (length r0)) as LG.
    set (g := ensure_grid g0 (length r0)) in *. set (p := Z.to_nat a) in *. set (q := Z.to_nat b) in *.
    assert (DG : delete_range p q g = Some (firstn p g ++ skipn (S q) g)).
    { unfold delete_range. assert (Ep : Nat.leb (S q) (length g) = true) by (apply Nat.leb_le; lia). now rewrite Ep. }
    rewrite DG.
    pose proof (map_opt_delete p q (r0 :: rest)) as MO.
    destruct (map_opt (delete_range p q) (r0 :: rest)); [discriminate|].
    exfalso. apply MO; [|reflexivity]. intros rw Hin.
    pose proof (existsb_false_all _ _ EX rw Hin) as Hl. apply Nat.leb_gt in Hl. lia.
Qed.

(* the earlier statement (any grid definition, rows of equal length without merges) is a special case *)
Theorem column_edit_no_panic_any_grid g0 rws n o :
  forallb (good_row n) rws = true -> is_column_edit o = true -> step (mkTable g0 rws) o <> Panic.
Proof. intros _ Ho. apply column_edit_never_panics. exact Ho. Qed.

(* the repaired defect, as a computation: a 2x2 table read without a grid definition takes a new column *)
Example insert_column_without_grid :
  step (mkTable None [[new_cell 1%N; new_cell 2%N]; [new_cell 3%N; new_cell 4%N]]) (InsertColumn 1 [9%N] 700%N)
  = Ok (mkTable (Some [0; 700; 0]%N) [[new_cell 1%N; new_cell 9%N; new_cell 2%N]; [new_cell 3%N; new_cell 0%N; new_cell 4%N]]).
Proof. vm_compute. reflexivity. Qed.
