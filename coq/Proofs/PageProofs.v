(* Proofs about M-PAGE (property C12). *)
From Coq Require Import ZArith List String Bool Lia.
From WZ Require Import Gen.PageConsts Model.Page.
Import ListNotations.
Open Scope Z_scope.

(* ---- instance obligations on the generated constants -------------------------------- *)

(* The two conversion functions use the same constant; the tolerance within which a
   near-standard size is reported is the documented 1 mm in both places where it occurs. *)
Definition consts_ok : bool :=
  (C =? Cd) && (0 <? C) && (tolerance_um =? 1000) && (get_tolerance_um =? 1000)
  && (min_custom_um =? 12700) && (max_custom_um =? 558800)
  && String.eqb c_PageSizeCustom "Custom" && String.eqb c_OrientationPortrait "portrait"
  && String.eqb c_OrientationLandscape "landscape"
  && negb (String.eqb default_DocGridType "").

Lemma consts_ok_true : consts_ok = true.
Proof. vm_compute. reflexivity. Qed.

Lemma C_eq_Cd : C = Cd.
Proof. vm_compute. reflexivity. Qed.
Lemma C_pos : 0 < C.
Proof. vm_compute. reflexivity. Qed.

(* ---- rounding ------------------------------------------------------------------------- *)

Lemma round_he_mul (t d : Z) : 0 < d -> round_he (t * d) d = t.
Proof.
  intros Hd. unfold round_he.
  rewrite Z.div_mul by lia. rewrite Z.mod_mul by lia.
  destruct (2 * 0 <? d) eqn:E; [reflexivity|]. apply Z.ltb_ge in E. lia.
Qed.

(* unit rounding: the printed integer is within half a unit of n/d *)
Lemma round_he_close (n d : Z) : 0 < d -> 2 * Z.abs (round_he n d * d - n) <= d.
Proof.
  intros Hd. unfold round_he.
  pose proof (Z.div_mod n d ltac:(lia)) as Hdm.
  pose proof (Z.mod_pos_bound n d Hd) as Hb.
  destruct (2 * (n mod d) <? d) eqn:E1.
  - apply Z.ltb_lt in E1. nia.
  - apply Z.ltb_ge in E1. destruct (d <? 2 * (n mod d)) eqn:E2.
    + apply Z.ltb_lt in E2. nia.
    + apply Z.ltb_ge in E2. destruct (Z.even (n / d)); nia.
Qed.

Lemma to_tw_Tw (t : Z) : to_tw (Tw t) = t.
Proof. unfold to_tw. rewrite C_eq_Cd. apply round_he_mul. rewrite <- C_eq_Cd. apply C_pos. Qed.

(* a user length of z micrometres is stored within half a twip of z*C/10^15 twips *)
Lemma to_tw_Um_close (z : Z) : 2 * Z.abs (to_tw (Um z) * E15 - z * C) <= E15.
Proof. unfold to_tw. apply round_he_close. reflexivity. Qed.

(* ---- identification is unambiguous ---------------------------------------------------- *)

Definition size_names : list string := map fst predefined_um.

Lemma near_Um_spec z k tol : near (Um z) k tol = true <-> Z.abs (z - k) < tol.
Proof. unfold near. apply Z.ltb_lt. Qed.
Lemma near_Tw_spec t k tol : near (Tw t) k tol = true <-> Z.abs (t * E15 - k * Cd) < tol * Cd.
Proof. unfold near. apply Z.ltb_lt. Qed.

(* no (w,h) matches two different predefined sizes, in any orientation: so the unspecified
   iteration order of Go's map in identifyPageSize cannot change the answer *)
Lemma identify_unique (w h : len) (n1 n2 : string) (d1 d2 : Z * Z) :
  In (n1, d1) predefined_um -> In (n2, d2) predefined_um ->
  matches w h d1 = true -> matches w h d2 = true -> n1 = n2.
Proof.
  intros H1 H2 M1 M2. unfold matches in M1, M2.
  unfold predefined_um in H1, H2. simpl in H1, H2.
  repeat match goal with H : _ \/ _ |- _ => destruct H as [H|H] end;
    try contradiction;
    inversion H1; inversion H2; subst; try reflexivity; exfalso;
    apply orb_true_iff in M1; apply orb_true_iff in M2;
    destruct M1 as [M1|M1]; destruct M2 as [M2|M2];
    apply andb_true_iff in M1; apply andb_true_iff in M2;
    destruct M1 as [A1 B1]; destruct M2 as [A2 B2];
    destruct w as [zw|tw]; destruct h as [zh|th];
    unfold near, tolerance_um, fst, snd, Cd, twips_to_mm_div_e12, E15 in A1, B1, A2, B2;
    apply Z.ltb_lt in A1; apply Z.ltb_lt in B1; apply Z.ltb_lt in A2; apply Z.ltb_lt in B2; lia.
Qed.

Arguments String.eqb : simpl never.
Arguments identify : simpl never.
Arguments to_tw : simpl never.
Arguments near : simpl never.
Arguments direct : simpl never.
Arguments is_landscape : simpl never.

(* ---- component lemmas ------------------------------------------------------------------ *)

Lemma lookup_size_In tbl n d : lookup_size tbl n = Some d -> In (n, d) tbl.
Proof.
  induction tbl as [|[m dd] rest IH]; simpl; [discriminate|].
  destruct (String.eqb m n) eqn:E.
  - intros H; inversion H; subst. apply String.eqb_eq in E. subst. now left.
  - intros H. right. now apply IH.
Qed.

Lemma land_land : is_landscape c_OrientationLandscape = true. Proof. reflexivity. Qed.
Lemma land_port : is_landscape c_OrientationPortrait = false. Proof. reflexivity. Qed.

Definition valid_ori (o : string) : Prop := o = c_OrientationPortrait \/ o = c_OrientationLandscape.

Lemma validate_ori s : validate s = true -> valid_ori (s_ori s).
Proof.
  unfold validate. intros H. apply andb_true_iff in H. destruct H as [_ H].
  apply orb_true_iff in H. destruct H as [H|H]; apply String.eqb_eq in H; [left|right]; exact H.
Qed.

Lemma canon_ori o : valid_ori o ->
  (if is_landscape o then c_OrientationLandscape else c_OrientationPortrait) = o.
Proof. intros [H|H]; subst; reflexivity. Qed.

(* the page part of a settings record *)
Definition page_of (s : settings) := (s_size s, s_cw s, s_ch s, s_ori s).

Lemma get_page st : page_of (get st) = get_pg true (pg st).
Proof.
  unfold get, get_with, page_of.
  destruct (get_pg true (pg st)) as [[[sz cw] ch] ori].
  destruct (get_mar (mar st)) as [[[[[[mt mr] mb] ml] hd] fd] gw].
  destruct (get_grid (grid st)) as [[gt gp] gc]. reflexivity.
Qed.

Definition mar_of (s : settings) := (s_mt s, s_mr s, s_mb s, s_ml s, s_hd s, s_fd s, s_gw s).
Lemma get_margins st : mar_of (get st) = get_mar (mar st).
Proof.
  unfold get, get_with, mar_of.
  destruct (get_pg true (pg st)) as [[[sz cw] ch] ori].
  destruct (get_mar (mar st)) as [[[[[[mt mr] mb] ml] hd] fd] gw].
  destruct (get_grid (grid st)) as [[gt gp] gc]. reflexivity.
Qed.

Definition grid_of (s : settings) := (s_gtype s, s_pitch s, s_cs s).
Lemma get_gridof st : grid_of (get st) = get_grid (grid st).
Proof.
  unfold get, get_with, grid_of.
  destruct (get_pg true (pg st)) as [[[sz cw] ch] ori].
  destruct (get_mar (mar st)) as [[[[[[mt mr] mb] ml] hd] fd] gw].
  destruct (get_grid (grid st)) as [[gt gp] gc]. reflexivity.
Qed.

Lemma set_ok s st : validate s = true ->
  set s st = (mkSect (Some (set_pg s)) (Some (set_mar s)) (set_grid s (grid st)), true).
Proof. intros H. unfold set. rewrite H. reflexivity. Qed.

Lemma set_rejected s st : validate s = false -> set s st = (st, false).
Proof. intros H. unfold set. rewrite H. reflexivity. Qed.

(* ---- read back what was set -------------------------------------------------------------- *)

(* lengths: every length reads back as the stored whole number of twips, which is within half
   a twip (1/40 pt) of the requested value (to_tw_Um_close) *)
Lemma set_get_margins s st : validate s = true ->
  mar_of (get (fst (set s st))) =
  (Tw (to_tw (s_mt s)), Tw (to_tw (s_mr s)), Tw (to_tw (s_mb s)), Tw (to_tw (s_ml s)),
   Tw (to_tw (s_hd s)), Tw (to_tw (s_fd s)), Tw (to_tw (s_gw s))).
Proof. intros H. rewrite get_margins, set_ok by exact H. reflexivity. Qed.

Definition sz_of (lw lh : len) : string :=
  match lookup_size predefined_um (identify lw lh) with
  | Some dd => if direct lw lh dd then identify lw lh else c_PageSizeCustom
  | None => identify lw lh
  end.

Lemma get_pg_some w h o :
  get_pg true (Some (w, h, o)) =
  (let land := is_landscape o in
   let ori := if land then c_OrientationLandscape else c_OrientationPortrait in
   let lw := if land then Tw h else Tw w in
   let lh := if land then Tw w else Tw h in
   if String.eqb (sz_of lw lh) c_PageSizeCustom then (sz_of lw lh, lw, lh, ori)
   else (sz_of lw lh, Um 0, Um 0, ori)).
Proof. unfold get_pg, sz_of. destruct (is_landscape o); reflexivity. Qed.

Lemma get_pg_none : get_pg true None = (default_Size, Um 0, Um 0, default_Orientation).
Proof. reflexivity. Qed.

Lemma set_get_ori s st : validate s = true -> s_ori (get (fst (set s st))) = s_ori s.
Proof.
  intros H. rewrite (set_ok _ _ H). cbn [fst].
  pose proof (validate_ori s H) as V.
  unfold set_pg. destruct (dims s) as [w h].
  match goal with |- s_ori (get ?x) = _ => pose proof (get_page x) as G end.
  cbn [fst pg] in G. unfold page_of in G.
  rewrite get_pg_some in G. cbv zeta in G.
  rewrite (canon_ori _ V) in G.
  match type of G with context [if String.eqb ?a ?b then _ else _] => destruct (String.eqb a b) end;
  injection G as _ _ _ G4; exact G4.
Qed.

(* grid *)
Lemma set_get_grid s st : validate s = true -> s_gtype s <> ""%string ->
  grid_of (get (fst (set s st))) = (s_gtype s, s_pitch s, if 0 <? s_cs s then s_cs s else default_DocGridCharSpace).
Proof.
  intros H Hg. rewrite get_gridof, set_ok by exact H. simpl. unfold set_grid.
  apply String.eqb_neq in Hg. rewrite Hg. simpl. rewrite Hg.
  destruct (0 <? s_cs s); reflexivity.
Qed.
Lemma set_keeps_grid s st : validate s = true -> s_gtype s = ""%string ->
  grid (fst (set s st)) = grid st.
Proof. intros H Hg. rewrite set_ok by exact H. simpl. unfold set_grid. rewrite Hg. reflexivity. Qed.

(* predefined sizes: finite check over the generated table and both orientations *)
Definition pg_of (n o : string) : Z * Z * string :=
  set_pg (mkSettings n (Um 0) (Um 0) o (Um 0) (Um 0) (Um 0) (Um 0) (Um 0) (Um 0) (Um 0) ""%string 0 0).

Lemma set_pg_predef s : String.eqb (s_size s) c_PageSizeCustom = false ->
  set_pg s = pg_of (s_size s) (s_ori s).
Proof. intros H. unfold pg_of, set_pg, dims. cbn [s_size s_cw s_ch s_ori]. rewrite H. reflexivity. Qed.

Definition oris := [c_OrientationPortrait; c_OrientationLandscape].
Definition predef_roundtrip_check : bool :=
  forallb (fun n => forallb (fun o =>
     match get_pg true (Some (pg_of n o)) with
     | (sz, cw, ch, o') => String.eqb sz n && String.eqb o' o
                           && negb (String.eqb n c_PageSizeCustom)
     end) oris) size_names.
Lemma predef_roundtrip_ok : predef_roundtrip_check = true.
Proof. vm_compute. reflexivity. Qed.

Lemma set_get_predefined s st :
  validate s = true -> In (s_size s) size_names ->
  s_size (get (fst (set s st))) = s_size s.
Proof.
  intros H Hin. rewrite (set_ok _ _ H). cbn [fst].
  match goal with |- s_size (get ?x) = _ => pose proof (get_page x) as G end.
  cbn [pg] in G. unfold page_of in G.
  pose proof predef_roundtrip_ok as R. unfold predef_roundtrip_check in R.
  rewrite forallb_forall in R. specialize (R _ Hin). rewrite forallb_forall in R.
  assert (Ho : In (s_ori s) oris).
  { destruct (validate_ori s H) as [E|E]; rewrite E; simpl; auto. }
  specialize (R _ Ho).
  assert (Hc : String.eqb (s_size s) c_PageSizeCustom = false).
  { destruct (get_pg true (Some (pg_of (s_size s) (s_ori s)))) as [[[a b] c] d].
    apply andb_true_iff in R. destruct R as [_ R]. now apply negb_true_iff in R. }
  rewrite (set_pg_predef s Hc) in G |- *.
  destruct (get_pg true (Some (pg_of (s_size s) (s_ori s)))) as [[[a b] c] d].
  apply andb_true_iff in R. destruct R as [R _]. apply andb_true_iff in R. destruct R as [R _].
  apply String.eqb_eq in R. injection G as G1 _ _ _. rewrite G1. exact R.
Qed.

(* custom sizes: read back as the stored twips, unless within the 1 mm tolerance of a
   predefined size (un-rotated), in which case that size's name is reported *)
Lemma identify_in_none tbl lw lh :
  (forall n d, In (n, d) tbl -> lookup_size predefined_um n <> None) ->
  lookup_size predefined_um (identify_in tbl lw lh) = None ->
  identify_in tbl lw lh = c_PageSizeCustom.
Proof.
  induction tbl as [|[n d] rest IH]; intros Hall Hl; simpl in *; [reflexivity|].
  destruct (matches lw lh d).
  - exfalso. apply (Hall n d); [now left|exact Hl].
  - apply IH; [|exact Hl]. intros n' d' Hin. apply (Hall n' d'). now right.
Qed.

Lemma predefined_lookup n d : In (n, d) predefined_um -> lookup_size predefined_um n <> None.
Proof.
  unfold predefined_um. simpl.
  intros H. repeat match goal with H : _ \/ _ |- _ => destruct H as [H|H] end; try contradiction;
  inversion H; subst; vm_compute; discriminate.
Qed.

Lemma sz_of_cases lw lh :
  sz_of lw lh = c_PageSizeCustom
  \/ exists d, In (sz_of lw lh, d) predefined_um /\ direct lw lh d = true.
Proof.
  unfold sz_of. destruct (lookup_size predefined_um (identify lw lh)) as [dd|] eqn:ELk.
  - destruct (direct lw lh dd) eqn:ED; [|now left].
    right. exists dd. split; [apply lookup_size_In; exact ELk|exact ED].
  - left. unfold identify in *. apply identify_in_none; [apply predefined_lookup|exact ELk].
Qed.

Lemma set_get_custom s st :
  validate s = true -> s_size s = c_PageSizeCustom ->
  let g := get (fst (set s st)) in
  (s_size g = c_PageSizeCustom /\ s_cw g = Tw (to_tw (s_cw s)) /\ s_ch g = Tw (to_tw (s_ch s)))
  \/ (exists d, In (s_size g, d) predefined_um
                /\ near (Tw (to_tw (s_cw s))) (fst d) 1000 = true
                /\ near (Tw (to_tw (s_ch s))) (snd d) 1000 = true).
Proof.
  intros H Hc g. subst g. rewrite (set_ok _ _ H). cbn [fst].
  match goal with |- context [s_size (get ?x)] => pose proof (get_page x) as G; set (g := get x) in * end.
  cbn [pg] in G. unfold page_of in G.
  unfold set_pg, dims in G. rewrite Hc in G. rewrite String.eqb_refl in G.
  pose proof (validate_ori s H) as V.
  assert (E : get_pg true (Some (let '(w, h) := if is_landscape (s_ori s) then (s_ch s, s_cw s) else (s_cw s, s_ch s) in
                                  (to_tw w, to_tw h, s_ori s)))
              = let lw := Tw (to_tw (s_cw s)) in let lh := Tw (to_tw (s_ch s)) in
                if String.eqb (sz_of lw lh) c_PageSizeCustom then (sz_of lw lh, lw, lh, s_ori s)
                else (sz_of lw lh, Um 0, Um 0, s_ori s)).
  { destruct (is_landscape (s_ori s)) eqn:EL; rewrite get_pg_some; cbv zeta; rewrite EL;
    destruct V as [V|V]; rewrite V in EL; try discriminate EL; rewrite V; reflexivity. }
  rewrite E in G. clear E. cbv zeta in G.
  destruct (sz_of_cases (Tw (to_tw (s_cw s))) (Tw (to_tw (s_ch s)))) as [HC|[d [HI HD]]].
  - rewrite HC in G. rewrite String.eqb_refl in G. inversion G. left. auto.
  - destruct (String.eqb (sz_of (Tw (to_tw (s_cw s))) (Tw (to_tw (s_ch s)))) c_PageSizeCustom) eqn:EC.
    + apply String.eqb_eq in EC. rewrite EC in G. inversion G. left. auto.
    + inversion G as [[G1 G2 G3 G4]]. right. exists d. rewrite G1. split; [exact HI|].
      unfold direct in HD. apply andb_true_iff in HD. exact HD.
Qed.

(* ---- Get -> Set is stable: the heart of "a setter changes only what it names" ------------ *)

Definition len_eqb (a b : len) : bool :=
  match a, b with Um x, Um y => x =? y | Tw x, Tw y => x =? y | _, _ => false end.
Lemma len_eqb_eq a b : len_eqb a b = true -> a = b.
Proof. destruct a, b; simpl; try discriminate; intros H; apply Z.eqb_eq in H; now subst. Qed.

Definition predef_fix_check : bool :=
  forallb (fun n => forallb (fun o =>
     match get_pg true (Some (pg_of n o)) with
     | (sz, cw, ch, o') => String.eqb sz n && String.eqb o' o && len_eqb cw (Um 0) && len_eqb ch (Um 0)
     end) oris) size_names
  && match get_pg true None with
     | (sz, cw, ch, o) => existsb (String.eqb sz) size_names && existsb (String.eqb o) oris
                          && len_eqb cw (Um 0) && len_eqb ch (Um 0)
                          && negb (String.eqb sz c_PageSizeCustom)
     end.
Lemma predef_fix_ok : predef_fix_check = true.
Proof. vm_compute. reflexivity. Qed.

Lemma predef_fix n o : In n size_names -> In o oris ->
  get_pg true (Some (pg_of n o)) = (n, Um 0, Um 0, o).
Proof.
  intros Hn Ho. pose proof predef_fix_ok as R. unfold predef_fix_check in R.
  apply andb_true_iff in R. destruct R as [R _].
  rewrite forallb_forall in R. specialize (R _ Hn). rewrite forallb_forall in R. specialize (R _ Ho).
  destruct (get_pg true (Some (pg_of n o))) as [[[a b] c] d].
  repeat (apply andb_true_iff in R; destruct R as [R ?]).
  apply String.eqb_eq in R.
  repeat match goal with H : String.eqb _ _ = true |- _ => apply String.eqb_eq in H
                       | H : len_eqb _ _ = true |- _ => apply len_eqb_eq in H end.
  subst. reflexivity.
Qed.

Lemma size_names_not_custom n : In n size_names -> String.eqb n c_PageSizeCustom = false.
Proof.
  intros Hn. pose proof predef_roundtrip_ok as R. unfold predef_roundtrip_check in R.
  rewrite forallb_forall in R. specialize (R _ Hn). rewrite forallb_forall in R.
  specialize (R c_OrientationPortrait ltac:(simpl; auto)).
  destruct (get_pg true (Some (pg_of n c_OrientationPortrait))) as [[[a b] c] d].
  apply andb_true_iff in R. destruct R as [_ R]. now apply negb_true_iff in R.
Qed.

Lemma valid_ori_In o : valid_ori o -> In o oris.
Proof. intros [H|H]; subst; simpl; auto. Qed.

Lemma is_landscape_canon (b : bool) :
  is_landscape (if b then c_OrientationLandscape else c_OrientationPortrait) = b.
Proof. destruct b; reflexivity. Qed.

(* what Set stores for settings that were just read *)
Lemma set_pg_of_get p s : page_of s = get_pg true p ->
  match p with
  | Some (w, h, o) =>
      let canon := if is_landscape o then c_OrientationLandscape else c_OrientationPortrait in
      if String.eqb (s_size s) c_PageSizeCustom then set_pg s = (w, h, canon)
      else set_pg s = pg_of (s_size s) canon /\ In (s_size s) size_names
  | None => set_pg s = pg_of default_Size default_Orientation
  end.
Proof.
  intros E. destruct p as [[[w h] o]|].
  - rewrite get_pg_some in E. cbv zeta in E. cbv zeta.
    set (land := is_landscape o) in *.
    set (lw := if land then Tw h else Tw w) in *. set (lh := if land then Tw w else Tw h) in *.
    destruct (String.eqb (sz_of lw lh) c_PageSizeCustom) eqn:EC; unfold page_of in E;
      injection E as E1 E2 E3 E4.
    + rewrite E1, EC. unfold set_pg, dims. rewrite E1, EC, E2, E3, E4.
      rewrite is_landscape_canon. subst lw lh. destruct land; rewrite !to_tw_Tw; reflexivity.
    + rewrite E1, EC. split.
      * rewrite set_pg_predef by (rewrite E1; exact EC). rewrite E1, E4. reflexivity.
      * destruct (sz_of_cases lw lh) as [HC|[d [HI _]]].
        -- rewrite HC in EC. rewrite String.eqb_refl in EC. discriminate.
        -- unfold size_names. apply (in_map fst) in HI. exact HI.
  - rewrite get_pg_none in E. unfold page_of in E. injection E as E1 E2 E3 E4.
    rewrite set_pg_predef by (rewrite E1; reflexivity). rewrite E1, E4. reflexivity.
Qed.

Lemma get_set_get_pg p s : page_of s = get_pg true p ->
  get_pg true (Some (set_pg s)) = get_pg true p.
Proof.
  intros E. pose proof (set_pg_of_get p s E) as S. destruct p as [[[w h] o]|].
  - cbv zeta in S. rewrite get_pg_some in E. cbv zeta in E.
    destruct (String.eqb (s_size s) c_PageSizeCustom) eqn:EC.
    + rewrite S. rewrite !get_pg_some. cbv zeta. rewrite is_landscape_canon. reflexivity.
    + destruct S as [S Hin]. rewrite S.
      rewrite predef_fix; [|exact Hin|destruct (is_landscape o); simpl; auto].
      rewrite get_pg_some. cbv zeta.
      unfold page_of in E.
      destruct (String.eqb (sz_of (if is_landscape o then Tw h else Tw w) (if is_landscape o then Tw w else Tw h)) c_PageSizeCustom) eqn:EC2;
        injection E as E1 E2 E3 E4.
      * rewrite E1, EC2 in EC. discriminate.
      * rewrite E1. reflexivity.
  - rewrite S. rewrite get_pg_none.
    apply predef_fix; vm_compute; auto.
Qed.

Lemma set_preserves_page s st : page_of s = page_of (get st) ->
  page_of (get (fst (set s st))) = page_of (get st).
Proof.
  intros E. destruct (validate s) eqn:V.
  - rewrite (set_ok _ _ V). cbn [fst]. rewrite !get_page in *. cbn [pg]. apply get_set_get_pg. exact E.
  - rewrite (set_rejected _ _ V). reflexivity.
Qed.

Definition page_preserving (o : op) : bool :=
  match o with
  | SetMargins _ _ _ _ | SetHF _ _ | SetGutter _ | SetGrid _ _ _ | ClearGrid | Reopen | Other => true
  | _ => false
  end.

(* C12 (ii), reading level, for EVERY stored section (also foreign ones): size, custom
   dimensions and orientation read the same after any call that does not name them *)
Theorem setter_frame_page st o : page_preserving o = true ->
  page_of (get (fst (step st o))) = page_of (get st).
Proof.
  destruct o; try discriminate; intros _; unfold step, step_with;
  repeat match goal with |- context [if ?c then _ else _] => destruct c end;
  try reflexivity; try (apply set_preserves_page; reflexivity).
  cbn [fst]. rewrite !get_page. reflexivity.
Qed.

(* physical level: a custom page keeps its stored width and height *)
Theorem setter_frame_physical st o w h a :
  page_preserving o = true -> pg st = Some (w, h, a) ->
  s_size (get st) = c_PageSizeCustom -> snd (step st o) = true ->
  pg (fst (step st o)) = Some (w, h, if is_landscape a then c_OrientationLandscape else c_OrientationPortrait)
  \/ pg (fst (step st o)) = pg st.
Proof.
  intros Hp Hpg Hc Hok.
  assert (K : forall s, page_of s = page_of (get st) -> snd (set s st) = true ->
              pg (fst (set s st)) = Some (w, h, if is_landscape a then c_OrientationLandscape else c_OrientationPortrait)).
  { intros s E Hs. destruct (validate s) eqn:V; [|rewrite (set_rejected _ _ V) in Hs; discriminate].
    rewrite (set_ok _ _ V). cbn [fst pg]. rewrite get_page, Hpg in E.
    pose proof (set_pg_of_get _ _ E) as S. cbv zeta in S.
    assert (EC : String.eqb (s_size s) c_PageSizeCustom = true).
    { unfold page_of in E. pose proof (get_page st) as G. unfold page_of in G. rewrite Hpg in G.
      rewrite <- E in G. injection G as G1 _ _ _. rewrite <- G1, Hc. apply String.eqb_refl. }
    rewrite EC in S. rewrite S. reflexivity. }
  destruct o; try discriminate; unfold step, step_with in *;
  repeat match goal with |- context [if ?c then _ else _] => destruct c end;
  try (right; reflexivity); try (left; apply K; [reflexivity|exact Hok]).
Qed.

(* ---- lengths not named keep their stored twips ------------------------------------------ *)

Definition tw7 (x : len * len * len * len * len * len * len) : list Z :=
  let '(a, b, c, d, e, f, g) := x in [to_tw a; to_tw b; to_tw c; to_tw d; to_tw e; to_tw f; to_tw g].

Lemma set_get_tw7 s st : validate s = true ->
  tw7 (mar_of (get (fst (set s st)))) = tw7 (mar_of s).
Proof. intros H. rewrite set_get_margins by exact H. unfold tw7, mar_of. rewrite !to_tw_Tw. reflexivity. Qed.

Definition names_no_length (o : op) : bool :=
  match o with SetSize _ | SetCustom _ _ | SetOrient _ | SetGrid _ _ _ | ClearGrid | Reopen | Other => true | _ => false end.

Theorem setter_frame_lengths st o : names_no_length o = true ->
  tw7 (mar_of (get (fst (step st o)))) = tw7 (mar_of (get st)).
Proof.
  destruct o; try discriminate; intros _; unfold step, step_with;
  repeat match goal with |- context [if ?c then _ else _] => destruct c end; try reflexivity;
  try (match goal with |- context [set ?s st] => destruct (validate s) eqn:V;
         [rewrite (set_get_tw7 _ _ V); reflexivity | rewrite (set_rejected _ _ V); reflexivity] end).
  cbn [fst]. rewrite !get_margins. reflexivity.
Qed.

(* each of the three margin-like setters keeps the lengths it does not name *)
Theorem set_margins_keeps_hf_gutter st t r b l :
  let g := get st in let g' := get (fst (step st (SetMargins t r b l))) in
  to_tw (s_hd g') = to_tw (s_hd g) /\ to_tw (s_fd g') = to_tw (s_fd g) /\ to_tw (s_gw g') = to_tw (s_gw g).
Proof.
  cbv zeta. unfold step, step_with.
  destruct ((t <? 0) || (r <? 0) || (b <? 0) || (l <? 0)); [auto|].
  match goal with |- context [set ?s st] => destruct (validate s) eqn:V;
    [pose proof (set_get_tw7 s st V) as E | rewrite (set_rejected _ _ V); auto] end.
  unfold tw7, mar_of in E. cbn [s_mt s_mr s_mb s_ml s_hd s_fd s_gw with_margins] in E.
  injection E as _ _ _ _ E5 E6 E7. auto.
Qed.

Theorem set_hf_keeps_margins_gutter st h f :
  let g := get st in let g' := get (fst (step st (SetHF h f))) in
  to_tw (s_mt g') = to_tw (s_mt g) /\ to_tw (s_mr g') = to_tw (s_mr g) /\ to_tw (s_mb g') = to_tw (s_mb g)
  /\ to_tw (s_ml g') = to_tw (s_ml g) /\ to_tw (s_gw g') = to_tw (s_gw g).
Proof.
  cbv zeta. unfold step, step_with.
  destruct ((h <? 0) || (f <? 0)); [repeat split|].
  match goal with |- context [set ?s st] => destruct (validate s) eqn:V;
    [pose proof (set_get_tw7 s st V) as E | rewrite (set_rejected _ _ V); repeat split] end.
  unfold tw7, mar_of in E. cbn [s_mt s_mr s_mb s_ml s_hd s_fd s_gw with_hf] in E.
  injection E as E1 E2 E3 E4 _ _ E7. auto.
Qed.

Theorem set_gutter_keeps_others st w :
  let g := get st in let g' := get (fst (step st (SetGutter w))) in
  to_tw (s_mt g') = to_tw (s_mt g) /\ to_tw (s_mr g') = to_tw (s_mr g) /\ to_tw (s_mb g') = to_tw (s_mb g)
  /\ to_tw (s_ml g') = to_tw (s_ml g) /\ to_tw (s_hd g') = to_tw (s_hd g) /\ to_tw (s_fd g') = to_tw (s_fd g).
Proof.
  cbv zeta. unfold step, step_with.
  destruct (w <? 0); [repeat split|].
  match goal with |- context [set ?s st] => destruct (validate s) eqn:V;
    [pose proof (set_get_tw7 s st V) as E | rewrite (set_rejected _ _ V); repeat split] end.
  unfold tw7, mar_of in E. cbn [s_mt s_mr s_mb s_ml s_hd s_fd s_gw with_gutter] in E.
  injection E as E1 E2 E3 E4 E5 E6 _. repeat split; assumption.
Qed.

(* the named lengths read back as requested, up to unit rounding (to_tw_Um_close) *)
Theorem set_margins_reads_back st t r b l : snd (step st (SetMargins t r b l)) = true ->
  let g' := get (fst (step st (SetMargins t r b l))) in
  s_mt g' = Tw (to_tw (Um t)) /\ s_mr g' = Tw (to_tw (Um r)) /\ s_mb g' = Tw (to_tw (Um b)) /\ s_ml g' = Tw (to_tw (Um l)).
Proof.
  cbv zeta. unfold step, step_with.
  destruct ((t <? 0) || (r <? 0) || (b <? 0) || (l <? 0)); [discriminate|].
  match goal with |- context [set ?s st] => destruct (validate s) eqn:V;
    [pose proof (set_get_margins s st V) as E | rewrite (set_rejected _ _ V); discriminate] end.
  intros _. unfold mar_of in E. cbn [s_mt s_mr s_mb s_ml s_hd s_fd s_gw with_margins] in E.
  injection E as E1 E2 E3 E4 _ _ _. auto.
Qed.

(* ---- grid ------------------------------------------------------------------------------- *)

Definition grid_wf (g : option (string * Z * option Z)) : Prop :=
  match g with
  | Some (t, _, c) => t <> ""%string /\ match c with Some c => 0 < c | None => True end
  | None => True
  end.

Lemma get_grid_type_nonempty g : grid_wf g -> let '(t, _, _) := get_grid g in t <> ""%string.
Proof.
  destruct g as [[[t p] c]|]; simpl.
  - intros [Ht _]. apply String.eqb_neq in Ht. rewrite Ht. now apply String.eqb_neq.
  - intros _. vm_compute. discriminate.
Qed.

Lemma set_grid_wf s old : grid_wf old -> grid_wf (set_grid s old).
Proof.
  intros H. unfold set_grid. destruct (String.eqb (s_gtype s) "") eqn:E; [exact H|].
  simpl. split; [now apply String.eqb_neq|]. destruct (0 <? s_cs s) eqn:E2; [now apply Z.ltb_lt|exact I].
Qed.

Lemma step_grid_wf st o : grid_wf (grid st) -> grid_wf (grid (fst (step st o))).
Proof.
  intros H. destruct o; unfold step, step_with;
  repeat match goal with |- context [if ?c then _ else _] => destruct c end; try exact H;
  try (match goal with |- context [set ?s st] => destruct (validate s) eqn:V;
         [rewrite (set_ok _ _ V); cbn [fst grid]; apply set_grid_wf; exact H | rewrite (set_rejected _ _ V); exact H] end).
  exact I.
Qed.

Theorem reachable_grid_wf ops : grid_wf (grid (run ops empty_sect)).
Proof.
  unfold run. assert (G : grid_wf (grid empty_sect)) by exact I.
  revert G. generalize empty_sect. induction ops as [|o ops IH]; intros st G; simpl; [exact G|].
  apply IH. apply step_grid_wf. exact G.
Qed.

Lemma set_grid_get_fix s old : grid_wf old -> grid_of s = get_grid old ->
  get_grid (set_grid s old) = get_grid old.
Proof.
  intros W E. pose proof (get_grid_type_nonempty old W) as N.
  destruct (get_grid old) as [[t p] c] eqn:EG. unfold grid_of in E. injection E as E1 E2 E3.
  unfold set_grid. rewrite E1, E2, E3. apply String.eqb_neq in N. rewrite N.
  destruct old as [[[t0 p0] c0]|].
  - simpl in EG, W. destruct W as [W1 W2]. apply String.eqb_neq in W1. rewrite W1 in EG.
    injection EG as G1 G2 G3. subst t0 p0. simpl. rewrite N.
    destruct c0 as [c0|].
    + subst c. apply Z.ltb_lt in W2. rewrite W2. reflexivity.
    + subst c. vm_compute. reflexivity.
  - simpl in EG. injection EG as G1 G2 G3. subst. vm_compute. reflexivity.
Qed.

Definition names_no_grid (o : op) : bool :=
  match o with SetSize _ | SetCustom _ _ | SetOrient _ | SetMargins _ _ _ _ | SetHF _ _ | SetGutter _ | Reopen | Other => true | _ => false end.

Theorem setter_frame_grid st o : grid_wf (grid st) -> names_no_grid o = true ->
  grid_of (get (fst (step st o))) = grid_of (get st).
Proof.
  intros W. destruct o; try discriminate; intros _; unfold step, step_with;
  repeat match goal with |- context [if ?c then _ else _] => destruct c end; try reflexivity;
  try (match goal with |- context [set ?s st] => destruct (validate s) eqn:V;
         [rewrite (set_ok _ _ V); cbn [fst]; rewrite !get_gridof; cbn [grid];
          apply set_grid_get_fix; [exact W|rewrite <- get_gridof; reflexivity]
         | rewrite (set_rejected _ _ V); reflexivity] end).
Qed.

(* ---- orientation -------------------------------------------------------------------------- *)

(* on a custom page, SetPageOrientation stores the same two numbers, exchanged exactly when
   the orientation actually changes *)
Theorem orient_custom st w h a o' :
  pg st = Some (w, h, a) -> s_size (get st) = c_PageSizeCustom ->
  snd (step st (SetOrient o')) = true ->
  pg (fst (step st (SetOrient o'))) =
    Some (if Bool.eqb (is_landscape o') (is_landscape a) then (w, h, o') else (h, w, o')).
Proof.
  intros Hpg Hc. unfold step, step_with. change (get_with true st) with (get st).
  match goal with |- context [set ?s st] => destruct (validate s) eqn:V;
    [rewrite (set_ok _ _ V) | rewrite (set_rejected _ _ V); discriminate] end.
  intros _. cbn [fst pg]. f_equal.
  pose proof (get_page st) as G. rewrite Hpg, get_pg_some in G. cbv zeta in G.
  unfold page_of in G. rewrite Hc in G. 
  destruct (String.eqb (sz_of (if is_landscape a then Tw h else Tw w) (if is_landscape a then Tw w else Tw h)) c_PageSizeCustom) eqn:EC;
    injection G as G1 G2 G3 G4.
  2:{ rewrite <- G1 in EC. rewrite String.eqb_refl in EC. discriminate. }
  unfold set_pg, dims. cbn [s_size s_cw s_ch s_ori with_ori]. rewrite Hc, String.eqb_refl, G2, G3.
  destruct (is_landscape o'), (is_landscape a); cbn [Bool.eqb]; rewrite !to_tw_Tw; reflexivity.
Qed.

(* on a predefined size the stored page is that size's table entry, rotated for landscape *)
Definition swap_pg (p : Z * Z * string) (o : string) : Z * Z * string := let '(w, h, _) := p in (h, w, o).
Lemma predef_rotation : forallb (fun n =>
    let '(w, h, _) := pg_of n c_OrientationPortrait in
    let '(w', h', _) := pg_of n c_OrientationLandscape in (w =? h') && (h =? w')) size_names = true.
Proof. vm_compute. reflexivity. Qed.

Theorem orient_predefined st o' :
  In (s_size (get st)) size_names -> snd (step st (SetOrient o')) = true ->
  pg (fst (step st (SetOrient o'))) = Some (pg_of (s_size (get st)) o').
Proof.
  intros Hin. unfold step, step_with. change (get_with true st) with (get st).
  match goal with |- context [set ?s st] => destruct (validate s) eqn:V;
    [rewrite (set_ok _ _ V) | rewrite (set_rejected _ _ V); discriminate] end.
  intros _. cbn [fst pg]. f_equal. rewrite set_pg_predef.
  - reflexivity.
  - cbn [s_size with_ori]. apply size_names_not_custom. exact Hin.
Qed.

(* every rejected call leaves the section untouched (all ops, all states) *)
Theorem rejected_unchanged st o : snd (step st o) = false -> fst (step st o) = st.
Proof.
  destruct o; unfold step, step_with;
  repeat match goal with |- context [if ?c then _ else _] => destruct c end; try reflexivity;
  try (match goal with |- context [set ?s st] => destruct (validate s) eqn:V;
         [rewrite (set_ok _ _ V); discriminate | rewrite (set_rejected _ _ V); reflexivity] end);
  discriminate.
Qed.

(* idempotence: repeating the same orientation call changes nothing that is read *)
Theorem orient_idempotent st o' :
  let st1 := fst (step st (SetOrient o')) in
  page_of (get (fst (step st1 (SetOrient o')))) = page_of (get st1).
Proof.
  cbv zeta. destruct (snd (step st (SetOrient o'))) eqn:Ok.
  - set (st1 := fst (step st (SetOrient o'))).
    assert (E : s_ori (get st1) = o').
    { subst st1. revert Ok. unfold step, step_with.
      match goal with |- context [set ?s st] => destruct (validate s) eqn:V2;
        [intros _; rewrite set_get_ori by exact V2; reflexivity | rewrite (set_rejected _ _ V2); discriminate] end. }
    unfold step at 1, step_with. change (get_with true st1) with (get st1).
    apply set_preserves_page. unfold page_of. cbn [s_size s_cw s_ch s_ori with_ori]. rewrite E. reflexivity.
  - pose proof (rejected_unchanged _ _ Ok) as E. rewrite E.
    rewrite E. reflexivity.
Qed.

(* ---- invalid requests are rejected without changing anything ------------------------------- *)

Theorem invalid_settings_rejected s st : validate s = false -> step st (SetAll s) = (st, false).
Proof. intros H. unfold step, step_with. apply set_rejected. exact H. Qed.

Theorem invalid_orientation_rejected st o :
  o <> c_OrientationPortrait -> o <> c_OrientationLandscape -> step st (SetOrient o) = (st, false).
Proof.
  intros H1 H2. unfold step, step_with. apply set_rejected. unfold validate.
  cbn [s_ori with_ori]. apply String.eqb_neq in H1. apply String.eqb_neq in H2.
  unfold is_portrait, is_landscape. rewrite H1, H2. apply andb_false_r.
Qed.

Theorem nonpositive_custom_rejected st w h : w <= 0 \/ h <= 0 -> step st (SetCustom w h) = (st, false).
Proof.
  intros H. unfold step, step_with.
  assert (E : (w <=? 0) || (h <=? 0) = true).
  { apply orb_true_iff. destruct H; [left|right]; now apply Z.leb_le. }
  rewrite E. reflexivity.
Qed.

Theorem out_of_range_custom_rejected st w h :
  to_tw (Um w) < to_tw (Um min_custom_um) \/ to_tw (Um max_custom_um) < to_tw (Um w)
  \/ to_tw (Um h) < to_tw (Um min_custom_um) \/ to_tw (Um max_custom_um) < to_tw (Um h) ->
  step st (SetCustom w h) = (st, false).
Proof.
  intros H. unfold step, step_with. destruct ((w <=? 0) || (h <=? 0)); [reflexivity|].
  apply set_rejected. unfold validate. cbn [s_size s_cw s_ch with_custom]. rewrite String.eqb_refl.
  cbv zeta.
  assert (E : (to_tw (Um w) <? to_tw (Um min_custom_um)) || (to_tw (Um max_custom_um) <? to_tw (Um w))
              || (to_tw (Um h) <? to_tw (Um min_custom_um)) || (to_tw (Um max_custom_um) <? to_tw (Um h)) = true).
  { repeat rewrite orb_true_iff. rewrite !Z.ltb_lt. tauto. }
  rewrite E. cbn [negb]. rewrite andb_false_r. reflexivity.
Qed.

Theorem negative_margins_rejected st t r b l : t < 0 \/ r < 0 \/ b < 0 \/ l < 0 ->
  step st (SetMargins t r b l) = (st, false).
Proof.
  intros H. unfold step, step_with.
  assert (E : (t <? 0) || (r <? 0) || (b <? 0) || (l <? 0) = true).
  { repeat rewrite orb_true_iff. rewrite !Z.ltb_lt. tauto. }
  rewrite E. reflexivity.
Qed.

Theorem negative_hf_rejected st h f : h < 0 \/ f < 0 -> step st (SetHF h f) = (st, false).
Proof.
  intros H. unfold step, step_with.
  assert (E : (h <? 0) || (f <? 0) = true) by (rewrite orb_true_iff, !Z.ltb_lt; tauto).
  rewrite E. reflexivity.
Qed.

Theorem negative_gutter_rejected st w : w < 0 -> step st (SetGutter w) = (st, false).
Proof. intros H. unfold step, step_with. apply Z.ltb_lt in H. rewrite H. reflexivity. Qed.

Theorem empty_grid_type_rejected st p c : step st (SetGrid "" p c) = (st, false).
Proof. reflexivity. Qed.

(* ---- the pinned commit's GetPageSettings (fixed = false) violates the property ------------ *)

Definition landscape_custom : settings :=
  mkSettings c_PageSizeCustom (Um 100000) (Um 200000) c_OrientationLandscape
    (Um 25400) (Um 25400) (Um 25400) (Um 25400) (Um 12700) (Um 12700) (Um 0) "lines"%string 312 0.

Theorem refuted_custom_landscape_prefix :
  let st1 := fst (step_with false empty_sect (SetAll landscape_custom)) in
  let st2 := fst (step_with false st1 (SetMargins 10000 10000 10000 10000)) in
  pg st1 = Some (11339, 5669, "landscape"%string) /\ pg st2 = Some (5669, 11339, "landscape"%string).
Proof. vm_compute. split; reflexivity. Qed.

(* the same history on the repaired code keeps the page *)
Example fixed_custom_landscape :
  let st1 := fst (step empty_sect (SetAll landscape_custom)) in
  let st2 := fst (step st1 (SetMargins 10000 10000 10000 10000)) in
  pg st1 = Some (11339, 5669, "landscape"%string) /\ pg st2 = pg st1 /\ validate landscape_custom = true.
Proof. vm_compute. repeat split; reflexivity. Qed.

(* calls that name no page setting (headers and footers, body content: op Other) leave every stored section as it is,
   and so does saving and opening *)
Lemma other_calls_change_nothing st : step st Other = (st, true) /\ step st Reopen = (st, true).
Proof. split; reflexivity. Qed.
Lemma other_calls_in_a_history ops1 ops2 st :
  run (ops1 ++ Other :: ops2) st = run (ops1 ++ ops2) st.
Proof. unfold run. rewrite !fold_left_app. reflexivity. Qed.
