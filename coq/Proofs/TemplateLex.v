(* The link between the engine's text and the tokens the theorems of TemplateProofs.v are about.

   Part A: printing a list of well-formed tokens and lexing the text again gives the same tokens with adjacent
   literals joined and empty literals dropped ([norm]) - for literals without an opening brace, names that are words.
   Part B: every pass of the engine commutes with [norm] (up to [norm]); so the text-level pipeline, which prints and
   lexes between its steps, produces the text of the token-level pipeline. *)
From Coq Require Import String Ascii List Bool Arith Lia.
Import ListNotations.
Require Import WZ.Model.Template WZ.Proofs.TemplateProofs WZ.Proofs.TemplateInst.
Open Scope string_scope.
Open Scope list_scope.

Arguments String.eqb : simpl never.

(* ---------------- clean strings and tokens ---------------- *)
Definition lbrace : ascii := "{"%char.
Definition not_lbrace (c : ascii) : bool := negb (Ascii.eqb c lbrace).
Definition no_brace (s : string) : bool := forallb not_lbrace (chars s).
Definition word (n : string) : bool := match chars n with [] => false | cs => forallb is_word cs end.

Definition tok_ok (t : tk) : bool :=
  match t with
  | KLit s => no_brace s
  | KVar n => word n && negb (reserved n)
  | KIf c => word c
  | KEach l => word l
  | _ => true
  end.

Definition is_lit (t : tk) : bool := match t with KLit _ => true | _ => false end.

(* ---------------- joining literals ---------------- *)
Definition merge (s : string) (l : list tk) : list tk :=
  match l with
  | KLit s' :: l' => KLit (s ++ s') :: l'
  | _ => match s with EmptyString => l | _ => KLit s :: l end
  end.

Fixpoint norm (ts : list tk) : list tk :=
  match ts with
  | [] => []
  | KLit s :: r => merge s (norm r)
  | d :: r => d :: norm r
  end.

Lemma merge_merge s s' x : merge s (merge s' x) = merge (s ++ s') x.
Proof.
  destruct x as [|t x'].
  - cbn [merge]. destruct s' as [|c s'].
    + rewrite sapp_nil_r. reflexivity.
    + cbn [merge]. destruct s; reflexivity.
  - destruct t; try (cbn [merge]; destruct s' as [|ch s'']; [rewrite sapp_nil_r; reflexivity | cbn [merge]; destruct s; reflexivity]).
    cbn [merge]. rewrite sapp_assoc. reflexivity.
Qed.

Lemma merge_nil_l x : merge "" x = x.
Proof. destruct x as [|t x']; [reflexivity|]. destruct t; reflexivity. Qed.

(* ---------------- characters ---------------- *)
Lemma chars_app a b : chars (a ++ b) = chars a ++ chars b.
Proof. unfold chars. induction a as [|c a IH]; [reflexivity|]. cbn. rewrite IH. reflexivity. Qed.

Lemma str_chars s : str (chars s) = s.
Proof. unfold str, chars. apply string_of_list_ascii_of_string. Qed.

Lemma str_app a b : str (a ++ b) = (str a ++ str b)%string.
Proof. unfold str. induction a as [|c a IH]; [reflexivity|]. cbn. rewrite IH. reflexivity. Qed.

Lemma word_class c : is_word c = true ->
  is_space c = false /\ not_lbrace c = true /\
  Ascii.eqb "#" c = false /\ Ascii.eqb "/" c = false /\ Ascii.eqb "@" c = false /\ Ascii.eqb "}" c = false.
Proof.
  destruct c as [[] [] [] [] [] [] [] []]; vm_compute; intros H; try discriminate H; repeat split.
Qed.

Lemma take_while_app p a b :
  forallb p a = true -> match b with c :: _ => p c = false | [] => True end ->
  take_while p (a ++ b) = (a, b).
Proof.
  induction a as [|c a IH]; intros Ha Hb.
  - cbn [app]. destruct b as [|c b']; [reflexivity|]. cbn [take_while]. rewrite Hb. reflexivity.
  - cbn [forallb] in Ha. apply andb_true_iff in Ha. destruct Ha as [Hc Ha].
    cbn [app take_while]. rewrite Hc, (IH Ha Hb). reflexivity.
Qed.

(* ---------------- Part A: the lexer on printed tokens ---------------- *)
Lemma lex_skip a : forall rest acc, lex_aux (a ++ rest) (List.length a) acc = lex_aux rest 0 acc.
Proof.
  induction a as [|c a IH]; intros rest acc; [reflexivity|]. cbn [app List.length lex_aux]. apply IH.
Qed.

Lemma directive_at_other c r : not_lbrace c = true -> directive_at (c :: r) = None.
Proof.
  unfold not_lbrace, directive_at. intros H. cbn [chars list_ascii_of_string prefix_of].
  destruct (Ascii.eqb_spec "{" c) as [E|E]; [subst c; discriminate H | reflexivity].
Qed.

Lemma lex_lit cs : forall rest acc, forallb not_lbrace cs = true ->
  lex_aux (cs ++ rest) 0 acc = lex_aux rest 0 (rev cs ++ acc).
Proof.
  induction cs as [|c cs IH]; intros rest acc H; [reflexivity|].
  cbn [forallb] in H. apply andb_true_iff in H. destruct H as [Hc H].
  cbn [app lex_aux]. rewrite (directive_at_other c _ Hc). rewrite (IH rest (c :: acc) H).
  cbn [rev]. rewrite <- app_assoc. reflexivity.
Qed.

(* after a directive has been recognised at the head of the text, lexing continues behind it *)
Lemma lex_at_directive d body rest acc :
  directive_at ("{"%char :: body ++ rest) = Some (d, S (List.length body)) ->
  lex_aux ("{"%char :: body ++ rest) 0 acc = flush acc ++ d :: lex_aux rest 0 [].
Proof.
  intros H. cbn [lex_aux]. rewrite H. cbn [Nat.sub]. rewrite Nat.sub_0_r. rewrite lex_skip. reflexivity.
Qed.

Lemma prefix_word_none d p c cs : Ascii.eqb d c = false -> prefix_of (d :: p) (c :: cs) = None.
Proof. intros H. cbn [prefix_of]. rewrite H. reflexivity. Qed.

(* a word followed by the closing braces *)
Lemma word_close n rest : word n = true ->
  exists c cs, chars n = c :: cs /\ is_word c = true /\
  take_while is_word (chars n ++ "}"%char :: "}"%char :: rest) = (chars n, "}"%char :: "}"%char :: rest).
Proof.
  unfold word. intros H. destruct (chars n) as [|c cs] eqn:E; [discriminate H|].
  exists c, cs. split; [reflexivity|]. split.
  - cbn [forallb] in H. apply andb_true_iff in H. apply H.
  - apply take_while_app; [exact H | reflexivity].
Qed.


Lemma directive_body_word c cs rest : is_word c = true -> forallb is_word cs = true ->
  directive_body (c :: cs ++ "}"%char :: "}"%char :: rest) =
  let n := str (c :: cs) in
  let len := 2 + List.length (c :: cs) + 2 in
  if String.eqb n "this" then Some (KThis, len) else if String.eqb n "else" then Some (KElse, len) else Some (KVar n, len).
Proof.
  intros Hc Hcs. destruct (word_class c Hc) as [_ [_ [H1 [H2 [H3 _]]]]].
  unfold directive_body. cbn [chars list_ascii_of_string].
  rewrite !(prefix_word_none _ _ c _) by assumption.
  change (c :: cs ++ "}"%char :: "}"%char :: rest) with ((c :: cs) ++ "}"%char :: "}"%char :: rest).
  rewrite take_while_app; [| cbn [forallb]; rewrite Hc, Hcs; reflexivity | reflexivity].
  cbn [prefix_of Ascii.eqb Bool.eqb]. reflexivity.
Qed.

Lemma directive_var n rest : word n = true -> reserved n = false ->
  directive_at (chars (unlex1 (KVar n)) ++ rest) = Some (KVar n, List.length (chars (unlex1 (KVar n)))).
Proof.
  unfold word. intros Hw Hr. destruct (chars n) as [|c cs] eqn:E; [discriminate Hw|].
  cbn [forallb] in Hw. apply andb_true_iff in Hw. destruct Hw as [Hc Hcs].
  cbn [unlex1]. rewrite !chars_app, E. cbn [chars list_ascii_of_string app]. rewrite <- app_assoc. cbn [app].
  unfold directive_at. cbn [chars list_ascii_of_string prefix_of Ascii.eqb Bool.eqb].
  rewrite (directive_body_word c cs rest Hc Hcs). cbv zeta. rewrite <- E, str_chars.
  unfold reserved in Hr. apply orb_false_iff in Hr. destruct Hr as [Hr1 Hr2]. rewrite Hr1, Hr2.
  rewrite E. cbn [List.length]. rewrite app_length. cbn [List.length]. repeat f_equal; try lia.
Qed.


Lemma space_then_word c cs rest : is_word c = true ->
  take_while is_space (" "%char :: c :: cs ++ rest) = ([" "%char], c :: cs ++ rest).
Proof.
  intros Hc. destruct (word_class c Hc) as [Hs _]. cbn [take_while]. 
  change (is_space " "%char) with true. cbv iota. rewrite Hs. reflexivity.
Qed.

Lemma directive_if n rest : word n = true ->
  directive_at (chars (unlex1 (KIf n)) ++ rest) = Some (KIf n, List.length (chars (unlex1 (KIf n)))).
Proof.
  unfold word. intros Hw. destruct (chars n) as [|c cs] eqn:E; [discriminate Hw|].
  cbn [forallb] in Hw. apply andb_true_iff in Hw. destruct Hw as [Hc Hcs].
  cbn [unlex1]. 
  change ("{{#if " ++ n ++ "}}")%string with ("{{#if " ++ (n ++ "}}"))%string.
  rewrite !chars_app, E. cbn [chars list_ascii_of_string app]. rewrite <- app_assoc. cbn [app].
  unfold directive_at. cbn [chars list_ascii_of_string prefix_of Ascii.eqb Bool.eqb].
  unfold directive_body. cbn [chars list_ascii_of_string prefix_of Ascii.eqb Bool.eqb].
  change (" "%char :: c :: cs ++ "}"%char :: "}"%char :: rest) with (" "%char :: c :: cs ++ ("}"%char :: "}"%char :: rest)).
  rewrite (space_then_word c cs _ Hc).
  change (c :: cs ++ "}"%char :: "}"%char :: rest) with ((c :: cs) ++ "}"%char :: "}"%char :: rest).
  rewrite take_while_app; [| cbn [forallb]; rewrite Hc, Hcs; reflexivity | reflexivity].
  cbn [prefix_of Ascii.eqb Bool.eqb]. rewrite <- E, str_chars.
  rewrite E. cbn [List.length]. rewrite app_length. cbn [List.length]. repeat f_equal; try lia.
Qed.

Lemma directive_each n rest : word n = true ->
  directive_at (chars (unlex1 (KEach n)) ++ rest) = Some (KEach n, List.length (chars (unlex1 (KEach n)))).
Proof.
  unfold word. intros Hw. destruct (chars n) as [|c cs] eqn:E; [discriminate Hw|].
  cbn [forallb] in Hw. apply andb_true_iff in Hw. destruct Hw as [Hc Hcs].
  cbn [unlex1].
  change ("{{#each " ++ n ++ "}}")%string with ("{{#each " ++ (n ++ "}}"))%string.
  rewrite !chars_app, E. cbn [chars list_ascii_of_string app]. rewrite <- app_assoc. cbn [app].
  unfold directive_at. cbn [chars list_ascii_of_string prefix_of Ascii.eqb Bool.eqb].
  unfold directive_body. cbn [chars list_ascii_of_string prefix_of Ascii.eqb Bool.eqb].
  change (" "%char :: c :: cs ++ "}"%char :: "}"%char :: rest) with (" "%char :: c :: cs ++ ("}"%char :: "}"%char :: rest)).
  rewrite (space_then_word c cs _ Hc).
  change (c :: cs ++ "}"%char :: "}"%char :: rest) with ((c :: cs) ++ "}"%char :: "}"%char :: rest).
  rewrite take_while_app; [| cbn [forallb]; rewrite Hc, Hcs; reflexivity | reflexivity].
  cbn [prefix_of Ascii.eqb Bool.eqb]. rewrite <- E, str_chars.
  rewrite E. cbn [List.length]. rewrite app_length. cbn [List.length]. repeat f_equal; try lia.
Qed.

Lemma directive_fixed d rest :
  match d with KThis | KIndex | KFirst | KLast | KElse | KEndIf | KEndEach => True | _ => False end ->
  directive_at (chars (unlex1 d) ++ rest) = Some (d, List.length (chars (unlex1 d))).
Proof.
  destruct d; intros H; try destruct H; reflexivity.
Qed.

(* every directive token is found where it was printed *)
Lemma directive_printed d rest : tok_ok d = true -> is_lit d = false ->
  directive_at (chars (unlex1 d) ++ rest) = Some (d, List.length (chars (unlex1 d))).
Proof.
  intros Hok Hl. destruct d; try discriminate Hl; try (apply directive_fixed; exact I).
  - cbn [tok_ok] in Hok. apply andb_true_iff in Hok. destruct Hok as [Hw Hr]. apply negb_true_iff in Hr.
    apply directive_var; assumption.
  - apply directive_if. exact Hok.
  - apply directive_each. exact Hok.
Qed.

Lemma printed_starts_brace d : is_lit d = false -> exists body, chars (unlex1 d) = "{"%char :: body.
Proof.
  destruct d; intros H; try discriminate H; cbn [unlex1 chars list_ascii_of_string append]; eexists; reflexivity.
Qed.

Lemma lex_directive d rest acc : tok_ok d = true -> is_lit d = false ->
  lex_aux (chars (unlex1 d) ++ rest) 0 acc = flush acc ++ d :: lex_aux rest 0 [].
Proof.
  intros Hok Hl. pose proof (directive_printed d rest Hok Hl) as H.
  destruct (printed_starts_brace d Hl) as [body E]. rewrite E in *. cbn [app List.length] in *.
  apply lex_at_directive. exact H.
Qed.

Lemma str_nonempty c cs : exists a s, str (cs ++ [c]) = String a s.
Proof.
  destruct cs as [|x cs]; cbn [app str string_of_list_ascii]; eexists; eexists; reflexivity.
Qed.

Lemma flush_dir acc d l : is_lit d = false -> flush acc ++ d :: l = merge (str (rev acc)) (d :: l).
Proof.
  intros Hd. destruct acc as [|c acc].
  - cbn [flush rev str string_of_list_ascii app]. destruct d; try discriminate Hd; reflexivity.
  - cbn [flush rev]. destruct (str_nonempty c (rev acc)) as [a [s E]]. 
    cbn [app]. rewrite E. destruct d; try discriminate Hd; reflexivity.
Qed.

Lemma flush_nil acc : flush acc = merge (str (rev acc)) [].
Proof.
  destruct acc as [|c acc]; [reflexivity|]. cbn [flush rev]. destruct (str_nonempty c (rev acc)) as [a [s E]].
  rewrite E. reflexivity.
Qed.

Theorem lex_aux_printed ts : forall acc, forallb tok_ok ts = true ->
  lex_aux (chars (unlex ts)) 0 acc = merge (str (rev acc)) (norm ts).
Proof.
  induction ts as [|t r IH]; intros acc H.
  - cbn [unlex map sconcat chars list_ascii_of_string lex_aux norm]. apply flush_nil.
  - cbn [forallb] in H. apply andb_true_iff in H. destruct H as [Ht Hr].
    unfold unlex. cbn [map sconcat]. fold (unlex r). rewrite chars_app.
    destruct (is_lit t) eqn:L.
    + destruct t; try discriminate L. cbn [unlex1 norm]. cbn [tok_ok] in Ht.
      rewrite (lex_lit (chars s) _ acc Ht). rewrite (IH _ Hr).
      rewrite rev_app_distr, rev_involutive, str_app, str_chars. rewrite merge_merge. reflexivity.
    + rewrite (lex_directive t _ acc Ht L). rewrite (IH [] Hr).
      cbn [rev str string_of_list_ascii]. rewrite merge_nil_l.
      rewrite (flush_dir acc t _ L). destruct t; try discriminate L; reflexivity.
Qed.

Theorem lex_unlex ts : forallb tok_ok ts = true -> lex (unlex ts) = norm ts.
Proof.
  intros H. unfold lex. rewrite (lex_aux_printed ts [] H). cbn [rev str string_of_list_ascii]. apply merge_nil_l.
Qed.

(* ---------------- Part B: the passes and [norm] ---------------- *)
Lemma norm_merge s x : norm (merge s x) = merge s (norm x).
Proof.
  destruct x as [|t x'].
  - destruct s; reflexivity.
  - destruct t; try (destruct s; [cbn [merge]; rewrite merge_nil_l; reflexivity | reflexivity]).
    cbn [merge norm]. rewrite merge_merge. reflexivity.
Qed.

Lemma norm_idem a : norm (norm a) = norm a.
Proof.
  induction a as [|t r IH]; [reflexivity|].
  destruct t; cbn [norm]; try (rewrite IH; reflexivity). rewrite norm_merge, IH. reflexivity.
Qed.

Lemma merge_app_dir s x d y : is_lit d = false -> merge s (x ++ d :: y) = merge s x ++ d :: y.
Proof.
  intros Hd. destruct x as [|t x'].
  - cbn [app merge]. destruct d; try discriminate Hd; destruct s; reflexivity.
  - destruct t; cbn [app merge]; try (destruct s; reflexivity); reflexivity.
Qed.

Lemma norm_barrier a d b : is_lit d = false -> norm (a ++ d :: b) = norm a ++ d :: norm b.
Proof.
  intros Hd. induction a as [|t r IH].
  - cbn [app norm]. destruct d; try discriminate Hd; reflexivity.
  - destruct t; cbn [app norm]; try (rewrite IH; reflexivity).
    rewrite IH. apply merge_app_dir. exact Hd.
Qed.

Lemma norm_app_r a b : norm (a ++ norm b) = norm (a ++ b).
Proof.
  induction a as [|t r IH]; [apply norm_idem|].
  destruct t; cbn [app norm]; rewrite IH; reflexivity.
Qed.

Lemma norm_merge_app s x b : norm (merge s x ++ b) = merge s (norm (x ++ b)).
Proof.
  destruct x as [|t x'].
  - cbn [merge app]. destruct s; [rewrite merge_nil_l; reflexivity | reflexivity].
  - destruct t; try (destruct s; [cbn [merge]; rewrite merge_nil_l; reflexivity | reflexivity]).
    cbn [merge app norm]. rewrite merge_merge. reflexivity.
Qed.

Lemma norm_app_l a b : norm (norm a ++ b) = norm (a ++ b).
Proof.
  induction a as [|t r IH]; [reflexivity|].
  destruct t; cbn [app norm]; try (rewrite IH; reflexivity).
  rewrite norm_merge_app, IH. reflexivity.
Qed.

Lemma norm_app_cong a a' b b' : norm a = norm a' -> norm b = norm b' -> norm (a ++ b) = norm (a' ++ b').
Proof.
  intros Ha Hb. rewrite <- (norm_app_l a b), <- (norm_app_r (norm a) b), Ha, Hb, norm_app_r, norm_app_l. reflexivity.
Qed.

Lemma unlex_cons t r : unlex (t :: r) = (unlex1 t ++ unlex r)%string.
Proof. reflexivity. Qed.

Lemma unlex_merge s x : unlex (merge s x) = (s ++ unlex x)%string.
Proof.
  destruct x as [|t x'].
  - destruct s; [reflexivity|]. cbn [merge]. rewrite unlex_cons. reflexivity.
  - destruct t; try (destruct s; [reflexivity | cbn [merge]; rewrite unlex_cons; reflexivity]).
    cbn [merge]. rewrite !unlex_cons. cbn [unlex1]. apply sapp_assoc.
Qed.

Lemma unlex_norm a : unlex (norm a) = unlex a.
Proof.
  induction a as [|t r IH]; [reflexivity|].
  destruct t; cbn [norm]; rewrite ?unlex_merge, !unlex_cons, IH; reflexivity.
Qed.

(* a substitution that leaves literals alone *)
Definition keeps_lit (g : tk -> tk) : Prop := forall s, g (KLit s) = KLit s.

Lemma map_merge g s x : keeps_lit g -> norm (map g (merge s x)) = merge s (norm (map g x)).
Proof.
  intros Hg. destruct x as [|t x'].
  - destruct s; [reflexivity|]. cbn [merge map]. rewrite Hg. reflexivity.
  - destruct t; try (destruct s; [cbn [merge]; rewrite merge_nil_l; reflexivity | cbn [merge map]; rewrite Hg; reflexivity]).
    cbn [merge map]. rewrite !Hg. cbn [norm]. rewrite merge_merge. reflexivity.
Qed.

Lemma map_norm g a : keeps_lit g -> norm (map g (norm a)) = norm (map g a).
Proof.
  intros Hg. induction a as [|t r IH]; [reflexivity|].
  destruct (is_lit t) eqn:L.
  - destruct t; try discriminate L. cbn [norm map]. rewrite Hg. cbn [norm]. rewrite map_merge by exact Hg. rewrite IH. reflexivity.
  - assert (norm (t :: r) = t :: norm r) as E by (destruct t; try discriminate L; reflexivity).
    rewrite E. cbn [map]. destruct (g t) eqn:G; cbn [norm]; rewrite IH; reflexivity.
Qed.

(* ---------------- splitting commutes with [norm] ---------------- *)
Definition rejects_lit (p : tk -> bool) : Prop := forall s, p (KLit s) = false.

Lemma split_first_merge p s x : rejects_lit p ->
  split_first p (merge s x) = match split_first p x with Some (a, b) => Some (merge s a, b) | None => None end.
Proof.
  intros Hp. destruct x as [|t x'].
  - destruct s; [reflexivity|]. cbn [merge split_first]. rewrite Hp. reflexivity.
  - destruct (is_lit t) eqn:L.
    + destruct t; try discriminate L. cbn [merge split_first]. rewrite !Hp.
      destruct (split_first p x') as [[a b]|]; reflexivity.
    + assert (merge s (t :: x') = match s with EmptyString => t :: x' | _ => KLit s :: t :: x' end) as E
        by (destruct t; try discriminate L; reflexivity).
      rewrite E. destruct s as [|ch s0].
      * destruct (split_first p (t :: x')) as [[a b]|]; [rewrite merge_nil_l|]; reflexivity.
      * cbn [split_first]. rewrite Hp. destruct (p t).
        { reflexivity. }
        destruct (split_first p x') as [[a b]|]; [|reflexivity].
        destruct t; try discriminate L; reflexivity.
Qed.

Lemma split_first_norm p r : rejects_lit p ->
  split_first p (norm r) = match split_first p r with Some (a, b) => Some (norm a, norm b) | None => None end.
Proof.
  intros Hp. induction r as [|t r' IH]; [reflexivity|].
  destruct (is_lit t) eqn:L.
  - destruct t; try discriminate L. cbn [norm split_first]. rewrite Hp, (split_first_merge p s _ Hp), IH.
    destruct (split_first p r') as [[a b]|]; reflexivity.
  - assert (norm (t :: r') = t :: norm r') as E by (destruct t; try discriminate L; reflexivity).
    rewrite E. cbn [split_first]. destruct (p t); [reflexivity|]. rewrite IH.
    destruct (split_first p r') as [[a b]|]; [|reflexivity].
    assert (norm (t :: a) = t :: norm a) as E2 by (destruct t; try discriminate L; reflexivity).
    rewrite E2. reflexivity.
Qed.

Lemma split_each_merge s x : forall d,
  split_each (merge s x) d = match split_each x d with Some (a, b) => Some (merge s a, b) | None => None end.
Proof.
  intros d. destruct x as [|t x'].
  - destruct s; reflexivity.
  - destruct (is_lit t) eqn:L.
    + destruct t; try discriminate L. cbn [merge split_each].
      destruct (split_each x' d) as [[a b]|]; reflexivity.
    + assert (merge s (t :: x') = match s with EmptyString => t :: x' | _ => KLit s :: t :: x' end) as E
        by (destruct t; try discriminate L; reflexivity).
      rewrite E. destruct s as [|ch s0].
      * destruct (split_each (t :: x') d) as [[a b]|]; [rewrite merge_nil_l|]; reflexivity.
      * change (split_each (KLit (String ch s0) :: t :: x') d)
          with (match split_each (t :: x') d with Some (b, rest) => Some (KLit (String ch s0) :: b, rest) | None => None end).
        destruct t; try discriminate L; cbn [split_each];
          try (destruct (split_each x' d) as [[a b]|]; reflexivity).
        -- destruct (split_each x' (S d)) as [[a b]|]; reflexivity.
        -- destruct d as [|d']; [reflexivity|]. destruct (split_each x' d') as [[a b]|]; reflexivity.
Qed.

Lemma split_each_norm r : forall d,
  split_each (norm r) d = match split_each r d with Some (a, b) => Some (norm a, norm b) | None => None end.
Proof.
  induction r as [|t r' IH]; intros d; [reflexivity|].
  destruct (is_lit t) eqn:L.
  - destruct t; try discriminate L. cbn [norm]. rewrite split_each_merge, IH. cbn [split_each].
    destruct (split_each r' d) as [[a b]|]; reflexivity.
  - destruct t; try discriminate L; cbn [norm split_each]; try (rewrite IH; destruct (split_each r' d) as [[a b]|]; reflexivity).
    + rewrite IH. destruct (split_each r' (S d)) as [[a b]|]; reflexivity.
    + destruct d as [|d']; [reflexivity|]. rewrite IH. destruct (split_each r' d') as [[a b]|]; reflexivity.
Qed.

(* ---------------- the conditional pass ---------------- *)
Lemma condN_if_none h c r : split_first is_endif r = None -> condN h (KIf c :: r) = KIf c :: r.
Proof. intros E. unfold condN. rewrite cond_scan_S, E. reflexivity. Qed.

Lemma norm_dir d x : is_lit d = false -> norm (d :: x) = d :: norm x.
Proof. intros L. destruct d; try discriminate L; reflexivity. Qed.

Lemma condN_merge h s x : norm (condN h (merge s x)) = merge s (norm (condN h x)).
Proof.
  destruct x as [|t x'].
  - destruct s; [reflexivity|]. cbn [merge]. rewrite condN_cons by reflexivity. reflexivity.
  - destruct (is_lit t) eqn:L.
    + destruct t; try discriminate L. cbn [merge]. rewrite !condN_cons by reflexivity. cbn [norm].
      rewrite merge_merge. reflexivity.
    + assert (merge s (t :: x') = match s with EmptyString => t :: x' | _ => KLit s :: t :: x' end) as E
        by (destruct t; try discriminate L; reflexivity).
      rewrite E. destruct s as [|ch s0]; [rewrite merge_nil_l; reflexivity|].
      rewrite condN_cons by reflexivity. reflexivity.
Qed.

Definition branch (h : string -> bool) (c : string) (inner : list tk) : list tk :=
  match split_first is_else inner with
  | Some (th, el) => if h c then th else el
  | None => if h c then inner else []
  end.

Lemma branch_norm h c inner : branch h c (norm inner) = norm (branch h c inner).
Proof.
  unfold branch. rewrite split_first_norm by (intros s; reflexivity).
  destruct (split_first is_else inner) as [[th el]|]; destruct (h c); reflexivity.
Qed.

Lemma condN_norm h : forall n a, List.length a < n -> norm (condN h (norm a)) = norm (condN h a).
Proof.
  induction n as [|n IH]; intros a Hn; [lia|].
  destruct a as [|t r]; [reflexivity|]. cbn [List.length] in Hn.
  destruct (is_lit t) eqn:L.
  - destruct t; try discriminate L. cbn [norm]. rewrite condN_merge, (IH r) by lia.
    rewrite condN_cons by reflexivity. reflexivity.
  - rewrite (norm_dir t r L).
    destruct (not_if t) eqn:NI.
    + rewrite !condN_cons by exact NI. rewrite !(norm_dir t _ L), (IH r) by lia. reflexivity.
    + destruct t; try discriminate NI.
      pose proof (split_first_norm is_endif r (fun s => eq_refl)) as SN.
      destruct (split_first is_endif r) as [[inner rest]|] eqn:E.
      * rewrite (condN_if h c (norm r) (norm inner) (norm rest) SN), (condN_if h c r inner rest E).
        fold (branch h c (norm inner)). fold (branch h c inner). rewrite branch_norm.
        pose proof (split_first_len _ r inner rest E) as HL.
        apply norm_app_cong; [apply norm_idem | apply IH; lia].
      * rewrite (condN_if_none h c (norm r) SN), (condN_if_none h c r E).
        rewrite !(norm_dir (KIf c) _ eq_refl), norm_idem. reflexivity.
Qed.

(* ---------------- the loop pass with any step between its stages ---------------- *)
Section AnyRelex.
  Variable R : list tk -> list tk.

  Lemma loops_fuel_R : forall f1 f2 lists ts,
    List.length ts < f1 -> List.length ts < f2 -> loops R f1 lists ts = loops R f2 lists ts.
  Proof.
    induction f1 as [|k1 IH]; intros f2 lists ts H1 H2; [lia|].
    destruct f2 as [|k2]; [lia|]. destruct ts as [|t r]; [reflexivity|].
    cbn [List.length] in H1, H2.
    destruct t; cbn [loops]; try (f_equal; apply IH; lia).
    destruct (split_each r 0) as [[body rest]|] eqn:E; [|reflexivity].
    pose proof (split_each_len r 0 body rest E) as HL.
    f_equal.
    - destruct (assoc l lists) as [items|]; [|reflexivity].
      apply concat_mapi_ext. intros j it _. f_equal. f_equal. apply IH; lia.
    - apply IH; lia.
  Qed.

  Lemma loops_S_R k lists ts :
    loops R (S k) lists ts =
    match ts with
    | [] => []
    | KEach l :: r =>
        match split_each r 0 with
        | None => ts
        | Some (body, rest) =>
            (match assoc l lists with
             | Some items => concat_mapi (fun i it => item_post R it i (List.length items) (R (loops R k (item_lists it) body))) 0 items
             | None => []
             end) ++ loops R k lists rest
        end
    | t :: r => t :: loops R k lists r
    end.
  Proof. reflexivity. Qed.

  Definition loopsA (lists : list (string * list item)) (ts : list tk) : list tk := loops R (S (List.length ts)) lists ts.

  Lemma loopsA_cons lists t r : not_each t = true -> loopsA lists (t :: r) = t :: loopsA lists r.
  Proof.
    intros H. unfold loopsA at 1. rewrite loops_S_R.
    destruct t; try discriminate H; f_equal; unfold loopsA; apply loops_fuel_R; cbn [List.length]; lia.
  Qed.

  Lemma loopsA_each lists l r body rest :
    split_each r 0 = Some (body, rest) ->
    loopsA lists (KEach l :: r) =
    (match assoc l lists with
     | Some items => concat_mapi (fun i it => item_post R it i (List.length items) (R (loopsA (item_lists it) body))) 0 items
     | None => []
     end) ++ loopsA lists rest.
  Proof.
    intros E. unfold loopsA at 1. rewrite loops_S_R. rewrite E.
    pose proof (split_each_len r 0 body rest E) as HL. f_equal.
    - destruct (assoc l lists) as [items|]; [|reflexivity].
      apply concat_mapi_ext. intros j it _. f_equal. f_equal. unfold loopsA. apply loops_fuel_R; cbn [List.length]; lia.
    - unfold loopsA. apply loops_fuel_R; cbn [List.length]; lia.
  Qed.

  Lemma loopsA_each_none lists l r : split_each r 0 = None -> loopsA lists (KEach l :: r) = KEach l :: r.
  Proof. intros E. unfold loopsA. rewrite loops_S_R, E. reflexivity. Qed.
End AnyRelex.

Notation loopsRN := (loopsA norm).

Lemma loopsA_id lists ts : loopsA (fun x => x) lists ts = loopsN lists ts.
Proof. reflexivity. Qed.

Lemma loopsRN_merge lists s x : norm (loopsRN lists (merge s x)) = merge s (norm (loopsRN lists x)).
Proof.
  destruct x as [|t x'].
  - destruct s; [reflexivity|]. cbn [merge]. rewrite loopsA_cons by reflexivity. reflexivity.
  - destruct (is_lit t) eqn:L.
    + destruct t; try discriminate L. cbn [merge]. rewrite !loopsA_cons by reflexivity. cbn [norm].
      rewrite merge_merge. reflexivity.
    + assert (merge s (t :: x') = match s with EmptyString => t :: x' | _ => KLit s :: t :: x' end) as E
        by (destruct t; try discriminate L; reflexivity).
      rewrite E. destruct s as [|ch s0]; [rewrite merge_nil_l; reflexivity|].
      rewrite loopsA_cons by reflexivity. reflexivity.
Qed.

Lemma map_cong g a b : keeps_lit g -> norm a = norm b -> norm (map g a) = norm (map g b).
Proof. intros Hg H. rewrite <- (map_norm g a Hg), <- (map_norm g b Hg), H. reflexivity. Qed.

Lemma condN_cong h a b : norm a = norm b -> norm (condN h a) = norm (condN h b).
Proof.
  intros H. rewrite <- (condN_norm h (S (List.length a)) a), <- (condN_norm h (S (List.length b)) b) by lia.
  rewrite H. reflexivity.
Qed.

Lemma cond_item_cong fs a b : norm a = norm b -> norm (cond_item fs a) = norm (cond_item fs b).
Proof. exact (condN_cong (field_truthy fs) a b). Qed.

Lemma cond_pass_cong conds a b : norm a = norm b -> norm (cond_pass conds a) = norm (cond_pass conds b).
Proof. exact (condN_cong _ a b). Qed.

Lemma subst_field_keeps k v : keeps_lit (fun t => match t with KVar n => if String.eqb n k then KLit v else t | _ => t end).
Proof. intros s. reflexivity. Qed.

Lemma subst_fields_cong fs : forall a b, norm a = norm b -> norm (subst_fields fs a) = norm (subst_fields fs b).
Proof.
  induction fs as [|[k [v t|l]] r IH]; intros a b H; [exact H| |].
  - cbn [subst_fields]. apply IH. unfold subst_field. apply map_cong; [apply subst_field_keeps | exact H].
  - cbn [subst_fields]. apply IH. exact H.
Qed.

Lemma item_post_cong it i n B' B : norm B' = norm B ->
  norm (item_post norm it i n B') = norm (item_post (fun x => x) it i n B).
Proof.
  intros H. unfold item_post.
  assert (norm (norm (sp_last i n (norm (sp_first i (norm (sp_index i (norm (sp_this it B'))))))))
          = norm (sp_last i n (sp_first i (sp_index i (sp_this it B))))) as C2.
  { rewrite norm_idem. unfold sp_last. apply map_cong; [intros s; reflexivity|]. rewrite norm_idem.
    unfold sp_first. apply map_cong; [intros s; reflexivity|]. rewrite norm_idem.
    unfold sp_index. apply map_cong; [intros s; reflexivity|]. rewrite norm_idem.
    unfold sp_this. apply map_cong; [intros s; reflexivity|]. exact H. }
  destruct it as [s b|fs]; [exact C2|].
  apply cond_item_cong. rewrite norm_idem. apply subst_fields_cong. exact C2.
Qed.

Lemma concat_mapi_cong {A} (f g : nat -> A -> list tk) items :
  (forall i it, In it items -> norm (f i it) = norm (g i it)) ->
  forall i0, norm (concat_mapi f i0 items) = norm (concat_mapi g i0 items).
Proof.
  induction items as [|x r IH]; intros H i0; [reflexivity|]. cbn [concat_mapi].
  apply norm_app_cong; [apply H; left; reflexivity | apply IH; intros i it Hin; apply H; right; exact Hin].
Qed.

Lemma loops_norm : forall n a lists, List.length a < n -> norm (loopsRN lists (norm a)) = norm (loopsN lists a).
Proof.
  induction n as [|n IH]; intros a lists Hn; [lia|].
  destruct a as [|t r]; [reflexivity|]. cbn [List.length] in Hn.
  destruct (is_lit t) eqn:L.
  - destruct t; try discriminate L. cbn [norm]. rewrite loopsRN_merge, (IH r) by lia.
    rewrite loopsN_cons by reflexivity. reflexivity.
  - rewrite (norm_dir t r L).
    destruct (not_each t) eqn:NE.
    + rewrite loopsA_cons, loopsN_cons by exact NE. rewrite !(norm_dir t _ L), (IH r) by lia. reflexivity.
    + destruct t; try discriminate NE.
      pose proof (split_each_norm r 0) as SN.
      destruct (split_each r 0) as [[body rest]|] eqn:E.
      * rewrite (loopsA_each norm lists l (norm r) (norm body) (norm rest) SN), (loopsN_each lists l r body rest E).
        pose proof (split_each_len r 0 body rest E) as HL.
        apply norm_app_cong; [|apply IH; lia].
        destruct (assoc l lists) as [items|]; [|reflexivity].
        apply concat_mapi_cong. intros i it _. apply item_post_cong. rewrite norm_idem. apply IH. lia.
      * rewrite (loopsA_each_none norm lists l (norm r) SN).
        unfold loopsN. rewrite loops_S, E. rewrite !(norm_dir (KEach l) _ eq_refl), norm_idem. reflexivity.
Qed.

(* the pipeline that joins literals between its steps produces the text of the token-level pipeline *)
Theorem render_norm e ts : unlex (render_with norm e (norm ts)) = unlex (render_tk e ts).
Proof.
  rewrite <- (unlex_norm (render_with norm e (norm ts))), <- (unlex_norm (render_tk e ts)). f_equal.
  unfold render_tk, render_with.
  assert (norm (var_pass (e_vars e) (norm ts)) = norm (var_pass (e_vars e) ts)) as E1.
  { unfold var_pass. apply map_norm. intros s. reflexivity. }
  rewrite E1.
  set (t1 := var_pass (e_vars e) ts).
  fold (loopsRN (e_lists e) (norm t1)). fold (loopsN (e_lists e) t1).
  apply cond_pass_cong. rewrite norm_idem. apply (loops_norm (S (List.length t1))). lia.
Qed.

(* ---------------- well-formed tokens stay well-formed; values without an opening brace ---------------- *)
Notation oks := (forallb tok_ok).

Fixpoint item_clean (it : item) : bool :=
  match it with
  | IStr s _ => no_brace s
  | IMap fs =>
      (fix go (fs : list (string * fval)) : bool :=
         match fs with
         | [] => true
         | (_, FScalar v _) :: r => no_brace v && go r
         | (_, FList l) :: r =>
             (fix each (l : list item) : bool := match l with [] => true | x :: l' => item_clean x && each l' end) l && go r
         end) fs
  end.
Definition lists_clean (lists : list (string * list item)) : bool := forallb (fun p => forallb item_clean (snd p)) lists.
Definition env_clean (e : env) : bool := forallb (fun p => no_brace (snd p)) (e_vars e) && lists_clean (e_lists e).

Lemma clean_cons_scalar k v t r : item_clean (IMap ((k, FScalar v t) :: r)) = no_brace v && item_clean (IMap r).
Proof. reflexivity. Qed.
Lemma clean_cons_list k l r : item_clean (IMap ((k, FList l) :: r)) = forallb item_clean l && item_clean (IMap r).
Proof.
  assert ((fix each (l : list item) : bool := match l with [] => true | x :: l' => item_clean x && each l' end) l
          = forallb item_clean l) as E.
  { induction l as [|x l' IH]; [reflexivity|]. cbn [forallb]. rewrite <- IH. reflexivity. }
  cbn [item_clean]. rewrite E. reflexivity.
Qed.

Lemma nested_clean fs : item_clean (IMap fs) = true -> lists_clean (nested_lists fs) = true.
Proof.
  induction fs as [|[k [v t|l]] r IH]; intros H; [reflexivity| |].
  - rewrite clean_cons_scalar in H. apply andb_true_iff in H. cbn [nested_lists]. apply IH. apply H.
  - rewrite clean_cons_list in H. apply andb_true_iff in H. destruct H as [H1 H2].
    cbn [nested_lists]. unfold lists_clean. cbn [forallb snd]. rewrite H1. apply IH. exact H2.
Qed.

Lemma item_lists_clean it : item_clean it = true -> lists_clean (item_lists it) = true.
Proof. destruct it as [s b|fs]; intros H; [reflexivity | apply nested_clean; exact H]. Qed.

Lemma assoc_clean l lists items : lists_clean lists = true -> assoc l lists = Some items -> forallb item_clean items = true.
Proof.
  induction lists as [|[k v] r IH]; intros H E; [discriminate E|].
  unfold lists_clean in H. cbn [forallb snd] in H. apply andb_true_iff in H. destruct H as [H1 H2].
  cbn [assoc] in E. destruct (String.eqb l k); [injection E as <-; exact H1 | apply IH; assumption].
Qed.

Lemma no_brace_app a b : no_brace (a ++ b) = no_brace a && no_brace b.
Proof. unfold no_brace. rewrite chars_app. apply forallb_app. Qed.

Lemma ok_merge s x : no_brace s = true -> oks x = true -> oks (merge s x) = true.
Proof.
  intros Hs Hx. destruct x as [|t x'].
  - destruct s; [reflexivity|]. cbn [merge forallb tok_ok]. rewrite Hs. reflexivity.
  - cbn [forallb] in Hx. apply andb_true_iff in Hx. destruct Hx as [Ht Hx].
    destruct t; try (destruct s; cbn [merge forallb tok_ok] in *; rewrite ?Hs, ?Ht, ?Hx; reflexivity).
    cbn [merge forallb tok_ok] in *. rewrite no_brace_app, Hs, Ht, Hx. reflexivity.
Qed.

Lemma ok_norm a : oks a = true -> oks (norm a) = true.
Proof.
  induction a as [|t r IH]; intros H; [reflexivity|].
  cbn [forallb] in H. apply andb_true_iff in H. destruct H as [Ht Hr].
  destruct t; cbn [norm forallb]; try (rewrite Ht, (IH Hr); reflexivity).
  apply ok_merge; [exact Ht | apply IH; exact Hr].
Qed.

Lemma ok_map g a : (forall t, tok_ok t = true -> tok_ok (g t) = true) -> oks a = true -> oks (map g a) = true.
Proof.
  intros Hg. induction a as [|t r IH]; intros H; [reflexivity|].
  cbn [forallb] in H. apply andb_true_iff in H. destruct H as [Ht Hr].
  cbn [map forallb]. rewrite (Hg t Ht), (IH Hr). reflexivity.
Qed.

Lemma ok_split_first p ts : forall a b, split_first p ts = Some (a, b) -> oks ts = true -> oks a = true /\ oks b = true.
Proof.
  induction ts as [|t r IH]; intros a b E H; [discriminate E|].
  cbn [forallb] in H. apply andb_true_iff in H. destruct H as [Ht Hr].
  cbn [split_first] in E. destruct (p t).
  - injection E as <- <-. split; [reflexivity | exact Hr].
  - destruct (split_first p r) as [[a' b']|]; [|discriminate E]. injection E as <- <-.
    destruct (IH a' b' eq_refl Hr) as [Ha Hb]. split; [cbn [forallb]; rewrite Ht, Ha; reflexivity | exact Hb].
Qed.

Lemma ok_split_each ts : forall d a b, split_each ts d = Some (a, b) -> oks ts = true -> oks a = true /\ oks b = true.
Proof.
  induction ts as [|t r IH]; intros d a b E H; [discriminate E|].
  cbn [forallb] in H. apply andb_true_iff in H. destruct H as [Ht Hr].
  destruct t; cbn [split_each] in E;
    try (destruct (split_each r d) as [[a' b']|] eqn:E'; [|discriminate E]; injection E as <- <-;
         destruct (IH d a' b' E' Hr) as [Ha Hb]; split; [cbn [forallb]; rewrite Ht, Ha; reflexivity | exact Hb]).
  - destruct (split_each r (S d)) as [[a' b']|] eqn:E'; [|discriminate E]. injection E as <- <-.
    destruct (IH (S d) a' b' E' Hr) as [Ha Hb]. split; [cbn [forallb]; rewrite Ht, Ha; reflexivity | exact Hb].
  - destruct d as [|d'].
    + injection E as <- <-. split; [reflexivity | exact Hr].
    + destruct (split_each r d') as [[a' b']|] eqn:E'; [|discriminate E]. injection E as <- <-.
      destruct (IH d' a' b' E' Hr) as [Ha Hb]. split; [cbn [forallb]; rewrite Ha; reflexivity | exact Hb].
Qed.

Lemma ok_app a b : oks a = true -> oks b = true -> oks (a ++ b) = true.
Proof. intros Ha Hb. rewrite forallb_app, Ha, Hb. reflexivity. Qed.

Lemma ok_cond_scan h : forall f ts, oks ts = true -> oks (cond_scan f h ts) = true.
Proof.
  induction f as [|k IH]; intros ts H; [exact H|].
  rewrite cond_scan_S. destruct ts as [|t r]; [reflexivity|].
  cbn [forallb] in H. apply andb_true_iff in H. destruct H as [Ht Hr].
  destruct t; try (cbn [forallb]; rewrite Ht, (IH r Hr); reflexivity).
  destruct (split_first is_endif r) as [[inner rest]|] eqn:E; [|cbn [forallb]; rewrite Ht, Hr; reflexivity].
  destruct (ok_split_first _ r inner rest E Hr) as [Hi Hrest].
  apply ok_app; [|apply IH; exact Hrest].
  destruct (split_first is_else inner) as [[th el]|] eqn:E2.
  - destruct (ok_split_first _ inner th el E2 Hi) as [Hth Hel]. destruct (h c); assumption.
  - destruct (h c); [exact Hi | reflexivity].
Qed.

Lemma digit_clean k : k < 10 -> not_lbrace (ascii_of_nat (48 + k)) = true.
Proof. intros H. do 10 (destruct k as [|k]; [reflexivity|]). lia. Qed.

Lemma dec_digits_clean : forall f n acc, no_brace acc = true -> no_brace (dec_digits f n acc) = true.
Proof.
  induction f as [|k IH]; intros n acc H; [exact H|]. cbn [dec_digits].
  assert (no_brace (String (ascii_of_nat (48 + Nat.modulo n 10)) acc) = true) as H'.
  { unfold no_brace. cbn [chars list_ascii_of_string forallb]. fold (chars acc).
    rewrite (digit_clean (Nat.modulo n 10)) by (apply Nat.mod_upper_bound; lia). exact H. }
  destruct (Nat.ltb n 10); [exact H' | apply IH; exact H'].
Qed.

Lemma dec_clean n : no_brace (dec n) = true.
Proof. apply dec_digits_clean. reflexivity. Qed.

Lemma bool_str_clean b : no_brace (bool_str b) = true.
Proof. destruct b; reflexivity. Qed.

Lemma item_text_clean it : item_clean it = true -> no_brace (item_text it) = true.
Proof. destruct it as [s b|fs]; intros H; [exact H | reflexivity]. Qed.

Lemma ok_subst_fields fs : forall ts, item_clean (IMap fs) = true -> oks ts = true -> oks (subst_fields fs ts) = true.
Proof.
  induction fs as [|[k [v t|l]] r IH]; intros ts Hc H; [exact H| |].
  - rewrite clean_cons_scalar in Hc. apply andb_true_iff in Hc. destruct Hc as [Hv Hr].
    cbn [subst_fields]. apply IH; [exact Hr|]. unfold subst_field. apply ok_map; [|exact H].
    intros t0 Ht0. destruct t0; try exact Ht0. destruct (String.eqb n k); [exact Hv | exact Ht0].
  - rewrite clean_cons_list in Hc. apply andb_true_iff in Hc. cbn [subst_fields]. apply IH; [apply Hc | exact H].
Qed.

Section OkRelex.
  Variable R : list tk -> list tk.
  Hypothesis R_ok : forall x, oks x = true -> oks (R x) = true.

  Lemma ok_item_post it i n c1 : item_clean it = true -> oks c1 = true -> oks (item_post R it i n c1) = true.
  Proof.
    intros Hc H. unfold item_post.
    assert (oks (R (sp_last i n (R (sp_first i (R (sp_index i (R (sp_this it c1)))))))) = true) as C2.
    { apply R_ok. unfold sp_last. apply ok_map; [intros t Ht; destruct t; try exact Ht; apply bool_str_clean|].
      apply R_ok. unfold sp_first. apply ok_map; [intros t Ht; destruct t; try exact Ht; apply bool_str_clean|].
      apply R_ok. unfold sp_index. apply ok_map; [intros t Ht; destruct t; try exact Ht; apply dec_clean|].
      apply R_ok. unfold sp_this. apply ok_map; [intros t Ht; destruct t; try exact Ht; apply item_text_clean; exact Hc|].
      exact H. }
    destruct it as [s b|fs]; [exact C2|].
    unfold cond_item. apply ok_cond_scan. apply R_ok. apply ok_subst_fields; assumption.
  Qed.

  Lemma ok_concat_mapi {A} (f : nat -> A -> list tk) items :
    (forall i it, In it items -> oks (f i it) = true) -> forall i0, oks (concat_mapi f i0 items) = true.
  Proof.
    induction items as [|x r IH]; intros H i0; [reflexivity|]. cbn [concat_mapi].
    apply ok_app; [apply H; left; reflexivity | apply IH; intros i it Hin; apply H; right; exact Hin].
  Qed.

  Lemma ok_loops : forall f lists ts, lists_clean lists = true -> oks ts = true -> oks (loops R f lists ts) = true.
  Proof.
    induction f as [|k IH]; intros lists ts Hl H; [exact H|].
    rewrite loops_S_R. destruct ts as [|t r]; [reflexivity|].
    cbn [forallb] in H. apply andb_true_iff in H. destruct H as [Ht Hr].
    destruct t; try (cbn [forallb]; rewrite Ht, (IH lists r Hl Hr); reflexivity).
    destruct (split_each r 0) as [[body rest]|] eqn:E; [|cbn [forallb]; rewrite Ht, Hr; reflexivity].
    destruct (ok_split_each r 0 body rest E Hr) as [Hb Hrest].
    apply ok_app; [|apply IH; assumption].
    destruct (assoc l lists) as [items|] eqn:EA; [|reflexivity].
    pose proof (assoc_clean l lists items Hl EA) as Hitems.
    apply ok_concat_mapi. intros i it Hin.
    assert (item_clean it = true) as Hit by (rewrite forallb_forall in Hitems; apply Hitems; exact Hin).
    apply ok_item_post; [exact Hit|]. apply R_ok. apply IH; [apply item_lists_clean; exact Hit | exact Hb].
  Qed.
End OkRelex.

(* ---------------- the engine's text-level pipeline ---------------- *)
Definition relexL (x : list tk) : list tk := lex (unlex x).

Lemma relexL_norm x : oks x = true -> relexL x = norm x.
Proof. apply lex_unlex. Qed.

Lemma item_post_L it i n c1 : item_clean it = true -> oks c1 = true -> item_post relexL it i n c1 = item_post norm it i n c1.
Proof.
  intros Hc H. unfold item_post.
  assert (oks (sp_this it c1) = true) as O1.
  { unfold sp_this. apply ok_map; [intros t Ht; destruct t; try exact Ht; apply item_text_clean; exact Hc | exact H]. }
  rewrite (relexL_norm _ O1).
  assert (oks (sp_index i (norm (sp_this it c1))) = true) as O2.
  { unfold sp_index. apply ok_map; [intros t Ht; destruct t; try exact Ht; apply dec_clean | apply ok_norm; exact O1]. }
  rewrite (relexL_norm _ O2).
  assert (oks (sp_first i (norm (sp_index i (norm (sp_this it c1))))) = true) as O3.
  { unfold sp_first. apply ok_map; [intros t Ht; destruct t; try exact Ht; apply bool_str_clean | apply ok_norm; exact O2]. }
  rewrite (relexL_norm _ O3).
  assert (oks (sp_last i n (norm (sp_first i (norm (sp_index i (norm (sp_this it c1))))))) = true) as O4.
  { unfold sp_last. apply ok_map; [intros t Ht; destruct t; try exact Ht; apply bool_str_clean | apply ok_norm; exact O3]. }
  rewrite (relexL_norm _ O4).
  destruct it as [s b|fs]; [reflexivity|].
  rewrite relexL_norm; [reflexivity|]. apply ok_subst_fields; [exact Hc | apply ok_norm; exact O4].
Qed.

Lemma loops_L : forall f lists ts, lists_clean lists = true -> oks ts = true ->
  loops relexL f lists ts = loops norm f lists ts.
Proof.
  induction f as [|k IH]; intros lists ts Hl H; [reflexivity|].
  rewrite !loops_S_R. destruct ts as [|t r]; [reflexivity|].
  cbn [forallb] in H. apply andb_true_iff in H. destruct H as [Ht Hr].
  destruct t; try (f_equal; apply IH; assumption).
  destruct (split_each r 0) as [[body rest]|] eqn:E; [|reflexivity].
  destruct (ok_split_each r 0 body rest E Hr) as [Hb Hrest].
  f_equal; [|apply IH; assumption].
  destruct (assoc l lists) as [items|] eqn:EA; [|reflexivity].
  pose proof (assoc_clean l lists items Hl EA) as Hitems.
  apply concat_mapi_ext. intros i it Hin.
  assert (item_clean it = true) as Hit by (rewrite forallb_forall in Hitems; apply Hitems; exact Hin).
  pose proof (item_lists_clean it Hit) as Hil.
  rewrite (IH (item_lists it) body Hil Hb).
  assert (oks (loops norm k (item_lists it) body) = true) as OB by (apply ok_loops; [exact ok_norm | exact Hil | exact Hb]).
  rewrite (relexL_norm _ OB). apply item_post_L; [exact Hit | apply ok_norm; exact OB].
Qed.

Lemma render_with_L e ts : env_clean e = true -> oks ts = true -> render_with relexL e ts = render_with norm e ts.
Proof.
  intros He H. unfold env_clean in He. apply andb_true_iff in He. destruct He as [Hv Hl].
  unfold render_with.
  assert (oks (var_pass (e_vars e) ts) = true) as O1.
  { unfold var_pass. apply ok_map; [|exact H]. intros t Ht.
    assert (forall n, tok_ok (lit_or t (assoc n (e_vars e))) = true) as Hlit.
    { intros n. destruct (assoc n (e_vars e)) as [v|] eqn:EA; [|exact Ht]. cbn [lit_or tok_ok].
      clear - Hv EA. induction (e_vars e) as [|[k w] r IH]; [discriminate EA|].
      cbn [forallb snd] in Hv. apply andb_true_iff in Hv. destruct Hv as [Hw Hr]. cbn [assoc] in EA.
      destruct (String.eqb n k); [injection EA as <-; exact Hw | apply IH; assumption]. }
    destruct t; try exact Ht; apply Hlit. }
  rewrite (relexL_norm _ O1).
  rewrite (loops_L _ (e_lists e) (norm (var_pass (e_vars e) ts)) Hl (ok_norm _ O1)).
  rewrite relexL_norm; [reflexivity|].
  apply ok_loops; [exact ok_norm | exact Hl | apply ok_norm; exact O1].
Qed.

(* the text the engine produces for a printed token list is the text of the token-level pipeline *)
Theorem render_str_tk e ts : env_clean e = true -> oks ts = true -> render_str e (unlex ts) = unlex (render_tk e ts).
Proof.
  intros He H. unfold render_str. rewrite (lex_unlex ts H).
  change (fun x => lex (unlex x)) with relexL.
  rewrite (render_with_L e (norm ts) He (ok_norm ts H)). apply render_norm.
Qed.

(* with the theorem of TemplateProofs.v: the engine's text for a template of the grammar is the documented rendering *)
Theorem render_text_ref e ns :
  wf_top ns = true -> forallb (typed_node (e_lists e)) ns = true -> env_ok e = true ->
  env_clean e = true -> oks (flatten ns) = true ->
  render_str e (unlex (flatten ns)) = ref e ns.
Proof.
  intros Hw Ht He Hc Ho. rewrite (render_str_tk e (flatten ns) Hc Ho). apply render_ref; assumption.
Qed.

(* the example of TemplateInst.v meets the two additional premises *)
Lemma ex_text_premises : env_clean ex_env = true /\ oks (flatten ex_ast) = true.
Proof. vm_compute. split; reflexivity. Qed.
