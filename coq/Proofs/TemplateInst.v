(* Concrete instances for M-TPL: a template that meets the theorem's premises, and the known finding as a
   refutation of the statement without the premise on values. *)
From Coq Require Import String List Bool Arith.
Import ListNotations.
From WZ Require Import Model.Template Proofs.TemplateProofs.
Open Scope string_scope.

Definition ex_env : env :=
  mkEnv [("title", "Report"); ("who", " A & B ")]
        [("draft", true); ("final", false)]
        [("rows", [IMap [("name", FScalar "x" true); ("ok", FScalar "true" true);
                         ("tags", FList [IStr "t1" true; IStr "t2" true]);
                         ("subs", FList [IMap [("name", FScalar "inner" true)]; IMap [("ok", FScalar "" false)]])];
                   IMap [("name", FScalar "" false); ("tags", FList [])];
                   IMap []]);
         ("words", [IStr "a" true; IStr "b" true; IStr "c" true])].

Definition ex_ast : list node :=
  [NLit "# "; NVar "title"; NLit " by"; NVar "who"; NVar "unknown";
   NIf "draft" [NLit "(draft "; NVar "title"; NLit ")"] (Some [NLit "(final)"]);
   NIf "final" [NLit "never"] None;
   NEach "rows" [NIndex; NLit ":"; NVar "name";
                 NIf "ok" [NLit "+"; NVar "name"] (Some [NLit "-"; NLast]);
                 NEach "tags" [NLit "<"; NThis; NLit ","; NIndex; NFirst; NLit ">"];
                 NEach "subs" [NLit "["; NVar "name"; NIf "ok" [NLit "y"] (Some [NLit "n"]); NVar "title"; NLit "]"];
                 NEach "missing" [NLit "never"];
                 NLit ";"];
   NEach "words" [NThis; NFirst; NLit " "];
   NEach "nolist" [NLit "never"];
   NLit "end"].

Lemma ex_premises : wf_top ex_ast = true /\ forallb (typed_node (e_lists ex_env)) ex_ast = true /\ env_ok ex_env = true.
Proof. vm_compute. repeat split; reflexivity. Qed.

Lemma ex_renders :
  ref ex_env ex_ast
  = "# Report by A & B {{unknown}}(draft Report)0:x+x<t1,0true><t2,1false>[innernReport][xnReport];1:-false;2:{{name}}-true;atrue bfalse cfalse end".
Proof. vm_compute. reflexivity. Qed.

Lemma ex_text_level : render_str ex_env (unlex (flatten ex_ast)) = ref ex_env ex_ast.
Proof. vm_compute. reflexivity. Qed.

(* known finding q_value_reinterpreted: a value that contains directive-like text is interpreted by a later pass *)
Definition bad_env : env := mkEnv [("v", "{{#if c}}X{{/if}}")] [] [].
Lemma value_reinterpreted : render_str bad_env "a{{v}}b" <> ref bad_env [NLit "a"; NVar "v"; NLit "b"].
Proof. vm_compute. discriminate. Qed.
