(* Proofs about M-BODY (property C08). *)
From Coq Require Import List Bool Arith NArith ZArith Lia.
From WZ Require Import Model.Body.
Import ListNotations.

Lemma remove_nth_split {A} (n : nat) (l : list A) : n < length l ->
  remove_nth n l = firstn n l ++ skipn (S n) l.
Proof.
  revert l. induction n as [|n IH]; intros [|a l] H; simpl in *; try lia; [reflexivity|].
  rewrite IH by lia. reflexivity.
Qed.

Lemma remove_nth_length {A} (n : nat) (l : list A) : n < length l -> S (length (remove_nth n l)) = length l.
Proof.
  revert l. induction n as [|n IH]; intros [|a l] H; simpl in *; try lia. rewrite <- (IH l) by lia. reflexivity.
Qed.

(* (i) append-type constructors: the new content goes at the end, nothing else moves *)
Theorem append_spec b es : step b (Append es) = (b ++ es, true).
Proof. reflexivity. Qed.

(* (ii) RemoveElementAt *)
Theorem remove_at_in_range b i : (0 <= i < Z.of_nat (length b))%Z ->
  step b (RemoveAt i) = (firstn (Z.to_nat i) b ++ skipn (S (Z.to_nat i)) b, true).
Proof.
  intros H. unfold step.
  assert (E : (i <? 0)%Z || (Z.of_nat (length b) <=? i)%Z = false).
  { apply orb_false_iff. split; [apply Z.ltb_ge|apply Z.leb_gt]; lia. }
  rewrite E. rewrite remove_nth_split by lia. reflexivity.
Qed.
Theorem remove_at_out_of_range b i : (i < 0 \/ Z.of_nat (length b) <= i)%Z -> step b (RemoveAt i) = (b, false).
Proof.
  intros H. unfold step.
  assert (E : (i <? 0)%Z || (Z.of_nat (length b) <=? i)%Z = true).
  { apply orb_true_iff. destruct H; [left; apply Z.ltb_lt|right; apply Z.leb_le]; lia. }
  now rewrite E.
Qed.

(* RemoveParagraphAt: the element removed is the i-th paragraph *)
Definition count_paras (l : list elem) : nat := length (filter is_para l).

Lemma para_index_spec l : forall i pos n, para_index l i pos = Some n ->
  pos <= n /\ n - pos < length l /\ (exists e, nth_error l (n - pos) = Some e /\ is_para e = true)
  /\ count_paras (firstn (n - pos) l) = i.
Proof.
  induction l as [|e r IH]; simpl; intros i pos n H; [discriminate|].
  destruct (is_para e) eqn:E.
  - destruct i as [|j].
    + inversion H; subst. replace (n - n) with 0 by lia. simpl. repeat split; try lia. exists e. now split.
    + destruct (IH _ _ _ H) as [A [B [[e' [C1 C2]] D]]].
      replace (n - pos) with (S (n - S pos)) by lia. simpl. repeat split; try lia.
      * exists e'. now split.
      * unfold count_paras in *. simpl. rewrite E. simpl. now rewrite D.
  - destruct (IH _ _ _ H) as [A [B [[e' [C1 C2]] D]]].
    replace (n - pos) with (S (n - S pos)) by lia. simpl. repeat split; try lia.
    + exists e'. now split.
    + unfold count_paras in *. simpl. rewrite E. exact D.
Qed.

Lemma para_index_none l : forall i pos, para_index l i pos = None -> count_paras l <= i.
Proof.
  induction l as [|e r IH]; simpl; intros i pos H; unfold count_paras in *; simpl; [lia|].
  destruct (is_para e) eqn:E; simpl.
  - destruct i as [|j]; [discriminate|]. specialize (IH _ _ H). lia.
  - exact (IH _ _ H).
Qed.

Theorem remove_para_at_spec b i b' : (0 <= i)%Z -> step b (RemoveParaAt i) = (b', true) ->
  exists n e, nth_error b n = Some e /\ is_para e = true /\ count_paras (firstn n b) = Z.to_nat i
              /\ b' = firstn n b ++ skipn (S n) b.
Proof.
  intros Hi H. unfold step in H. assert (E : (i <? 0)%Z = false) by (apply Z.ltb_ge; lia). rewrite E in H.
  destruct (para_index b (Z.to_nat i) 0) as [n|] eqn:P; [|discriminate]. inversion H; subst b'.
  destruct (para_index_spec _ _ _ _ P) as [_ [B [[e [C1 C2]] D]]]. rewrite Nat.sub_0_r in *.
  exists n, e. repeat split; try assumption. now apply remove_nth_split.
Qed.
Lemma para_index_some_lt l : forall i pos n, para_index l i pos = Some n -> i < count_paras l.
Proof.
  induction l as [|e r IH]; simpl; intros i pos n H; [discriminate|]. unfold count_paras in *. simpl.
  destruct (is_para e) eqn:E; simpl.
  - destruct i as [|j]; [lia|]. specialize (IH _ _ _ H). lia.
  - exact (IH _ _ _ H).
Qed.

Theorem remove_para_at_fails b i : (i < 0)%Z \/ count_paras b <= Z.to_nat i -> step b (RemoveParaAt i) = (b, false).
Proof.
  intros H. unfold step. destruct (i <? 0)%Z eqn:E; [reflexivity|].
  destruct H as [H|H]; [apply Z.ltb_ge in E; lia|].
  destruct (para_index b (Z.to_nat i) 0) as [n|] eqn:P; [|reflexivity].
  pose proof (para_index_some_lt _ _ _ _ P). lia.
Qed.

(* RemoveParagraph(handle): exactly the first paragraph with that identity *)
Lemma handle_index_spec l a : forall pos n, handle_index l a pos = Some n ->
  pos <= n /\ n - pos < length l /\ nth_error l (n - pos) = Some (KPara, a)
  /\ (forall j, j < n - pos -> nth_error l j <> Some (KPara, a)).
Proof.
  induction l as [|e r IH]; simpl; intros pos n H; [discriminate|].
  destruct (is_para e && N.eqb (snd e) a) eqn:E.
  - inversion H; subst. replace (n - n) with 0 by lia. simpl. repeat split; try lia.
    apply andb_true_iff in E. destruct E as [E1 E2]. apply N.eqb_eq in E2. destruct e as [k x]. simpl in *. subst x.
    destruct k; try discriminate. reflexivity.
  - destruct (IH _ _ H) as [A [B [C D]]].
    replace (n - pos) with (S (n - S pos)) by lia. simpl. repeat split; try lia; [exact C|].
    intros j Hj. destruct j as [|j]; simpl.
    + intros F. inversion F; subst e. simpl in E. rewrite N.eqb_refl in E. discriminate.
    + apply D. lia.
Qed.
Lemma handle_index_none l a : forall pos, handle_index l a pos = None -> ~ In (KPara, a) l.
Proof.
  induction l as [|e r IH]; simpl; intros pos H; [tauto|].
  destruct (is_para e && N.eqb (snd e) a) eqn:E; [discriminate|].
  intros [F|F]; [subst e; simpl in E; rewrite N.eqb_refl in E; discriminate|exact (IH _ H F)].
Qed.

Theorem remove_handle_spec b a b' : step b (RemoveHandle a) = (b', true) ->
  exists n, nth_error b n = Some (KPara, a) /\ (forall j, j < n -> nth_error b j <> Some (KPara, a))
            /\ b' = firstn n b ++ skipn (S n) b.
Proof.
  unfold step. destruct (handle_index b a 0) as [n|] eqn:P; [|discriminate]. intros H. inversion H; subst b'.
  destruct (handle_index_spec _ _ _ _ P) as [_ [B [C D]]]. rewrite Nat.sub_0_r in *.
  exists n. repeat split; try assumption. now apply remove_nth_split.
Qed.
(* a handle that is not (or no longer) in the body - removed earlier, or of another document *)
Theorem remove_handle_absent b a : ~ In (KPara, a) b -> step b (RemoveHandle a) = (b, false).
Proof.
  intros H. unfold step. destruct (handle_index b a 0) as [n|] eqn:P; [|reflexivity].
  destruct (handle_index_spec _ _ _ _ P) as [_ [_ [C _]]]. exfalso. apply H. eapply nth_error_In. exact C.
Qed.

(* every failing call leaves the body exactly as it was *)
Theorem failure_unchanged b o : snd (step b o) = false -> fst (step b o) = b.
Proof.
  destruct o; simpl; try discriminate.
  - destruct (existsb is_sect b); discriminate.
  - destruct ((i <? 0)%Z || (Z.of_nat (length b) <=? i)%Z); [reflexivity|discriminate].
  - destruct (i <? 0)%Z; [reflexivity|]. destruct (para_index b (Z.to_nat i) 0); [discriminate|reflexivity].
  - destruct (handle_index b a 0); [discriminate|reflexivity].
Qed.

(* every successful removal removes exactly one element and keeps all others, in order *)
Theorem removal_exact b o : match o with RemoveAt _ | RemoveParaAt _ | RemoveHandle _ => True | _ => False end ->
  snd (step b o) = true -> exists n, n < length b /\ fst (step b o) = firstn n b ++ skipn (S n) b.
Proof.
  destruct o; try contradiction; intros _; simpl.
  - destruct ((i <? 0)%Z || (Z.of_nat (length b) <=? i)%Z) eqn:E; [discriminate|]. intros _.
    apply orb_false_iff in E. destruct E as [E1 E2]. apply Z.ltb_ge in E1. apply Z.leb_gt in E2.
    exists (Z.to_nat i). split; [lia|]. simpl. apply remove_nth_split. lia.
  - destruct (i <? 0)%Z; [discriminate|]. destruct (para_index b (Z.to_nat i) 0) as [n|] eqn:P; [|discriminate].
    intros _. destruct (para_index_spec _ _ _ _ P) as [_ [B _]]. rewrite Nat.sub_0_r in B.
    exists n. split; [exact B|]. simpl. now apply remove_nth_split.
  - destruct (handle_index b a 0) as [n|] eqn:P; [|discriminate].
    intros _. destruct (handle_index_spec _ _ _ _ P) as [_ [B _]]. rewrite Nat.sub_0_r in B.
    exists n. split; [exact B|]. simpl. now apply remove_nth_split.
Qed.

(* ---- (iii) section settings exactly once, last ----------------------------------------------- *)

Definition count_sect (l : list elem) : nat := length (filter is_sect l).
Definition sect_free (es : list elem) : Prop := filter is_sect es = [].
(* constructors never append section settings; only page / header / footer calls create them *)
Definition op_ok (o : bop) : Prop := match o with Append es => sect_free es | _ => True end.

Lemma filter_remove_nth_le {A} (f : A -> bool) n (l : list A) : length (filter f (remove_nth n l)) <= length (filter f l).
Proof.
  revert l. induction n as [|n IH]; intros [|a l]; simpl; try lia.
  - destruct (f a); simpl; lia.
  - specialize (IH l). destruct (f a); simpl; lia.
Qed.

Theorem step_sect_le1 b o : op_ok o -> count_sect b <= 1 -> count_sect (fst (step b o)) <= 1.
Proof.
  unfold count_sect. intros Hok H. destruct o; simpl.
  - simpl in Hok. unfold sect_free in Hok. rewrite filter_app, app_length, Hok. simpl. lia.
  - destruct (existsb is_sect b) eqn:E; simpl; [exact H|].
    rewrite filter_app, app_length. simpl.
    assert (filter is_sect b = []).
    { clear H. induction b as [|e r IH]; [reflexivity|]. simpl in *. apply orb_false_iff in E. destruct E as [E1 E2]. rewrite E1. now apply IH. }
    rewrite H0. simpl. lia.
  - destruct ((i <? 0)%Z || (Z.of_nat (length b) <=? i)%Z); simpl; [exact H|].
    pose proof (filter_remove_nth_le is_sect (Z.to_nat i) b). lia.
  - destruct (i <? 0)%Z; simpl; [exact H|]. destruct (para_index b (Z.to_nat i) 0); simpl; [|exact H].
    pose proof (filter_remove_nth_le is_sect n b). lia.
  - destruct (handle_index b a 0); simpl; [|exact H]. pose proof (filter_remove_nth_le is_sect n b). lia.
  - exact H.
Qed.

Theorem reachable_sect_le1 ops : forall b, Forall op_ok ops -> count_sect b <= 1 -> count_sect (run ops b) <= 1.
Proof.
  unfold run. induction ops as [|o ops IH]; simpl; intros b F H; [exact H|].
  inversion F; subst. apply IH; [assumption|]. now apply step_sect_le1.
Qed.

(* what Save writes: all other elements in body order, then the section settings, exactly once *)
Theorem serialize_once_last b : count_sect b <= 1 ->
  serialize b = filter (fun e => negb (is_sect e)) b ++ filter is_sect b
  /\ first_sect b = last_sect b.
Proof.
  unfold count_sect, serialize, first_sect, last_sect. intros H.
  destruct (filter is_sect b) as [|s [|s2 r]] eqn:E; simpl in *; try lia; split; reflexivity.
Qed.

Lemma last_in {A} (l : list A) d : l <> [] -> In (last l d) l.
Proof.
  induction l as [|a r IH]; [congruence|]. intros _. destruct r as [|b r']; [now left|].
  right. apply IH. discriminate.
Qed.

Lemma last_sect_is_sect b s : last_sect b = Some s -> is_sect s = true.
Proof.
  unfold last_sect. intros H. destruct (filter is_sect b) as [|x xs] eqn:E; [discriminate|].
  assert (In (Some s) (map Some (x :: xs))) by (rewrite <- H; apply last_in; discriminate).
  apply in_map_iff in H0. destruct H0 as [y [Ey Hy]]. inversion Ey; subst y.
  rewrite <- E in Hy. apply filter_In in Hy. tauto.
Qed.

(* the saved order of the non-section elements is the body order (nothing is lost, duplicated or moved) *)
Theorem serialize_keeps_order b : filter (fun e => negb (is_sect e)) (serialize b) = filter (fun e => negb (is_sect e)) b.
Proof.
  unfold serialize. rewrite filter_app.
  assert (A : forall l, filter (fun e => negb (is_sect e)) (filter (fun e => negb (is_sect e)) l) = filter (fun e => negb (is_sect e)) l).
  { induction l as [|e r IH]; simpl; [reflexivity|]. destruct (is_sect e) eqn:E; simpl; [exact IH|rewrite E; simpl; now rewrite IH]. }
  rewrite A. destruct (last_sect b) as [s|] eqn:L; simpl; [|now rewrite app_nil_r].
  rewrite (last_sect_is_sect _ _ L). simpl. now rewrite app_nil_r.
Qed.

Example sect_example :
  let b := run [Append [(KPara, 1%N)]; EnsureSect 2%N; Append [(KTbl, 3%N); (KPara, 4%N)]; RemoveParaAt 0; EnsureSect 9%N] [] in
  b = [(KSect, 2%N); (KTbl, 3%N); (KPara, 4%N)] /\ serialize b = [(KTbl, 3%N); (KPara, 4%N); (KSect, 2%N)].
Proof. vm_compute. split; reflexivity. Qed.
