(* Proofs about M-TPL: the engine's pass pipeline, on tokens, computes the documented semantics. *)
From Coq Require Import String Ascii List Bool Arith Lia.
Import ListNotations.
Require Import WZ.Model.Template.
Open Scope string_scope.
Open Scope list_scope.

Arguments String.eqb : simpl never.

Notation id_relex := (fun x : list tk => x).
Notation loopsT := (loops id_relex).
Notation item_postT := (item_post id_relex).

(* ---------------- lengths ---------------- *)
Lemma split_each_len ts : forall d b rest, split_each ts d = Some (b, rest) -> List.length b + List.length rest < List.length ts.
Proof.
  induction ts as [|t r IH]; intros d b rest H; [discriminate H|].
  destruct t; cbn [split_each] in H;
    try (destruct (split_each r d) as [[b' rest']|] eqn:E; [|discriminate H]; injection H as <- <-;
         specialize (IH d b' rest' E); cbn [List.length]; lia).
  - destruct (split_each r (S d)) as [[b' rest']|] eqn:E; [|discriminate H]. injection H as <- <-.
    specialize (IH (S d) b' rest' E). cbn [List.length]. lia.
  - destruct d as [|d'].
    + injection H as <- <-. cbn [List.length]. lia.
    + destruct (split_each r d') as [[b' rest']|] eqn:E; [|discriminate H]. injection H as <- <-.
      specialize (IH d' b' rest' E). cbn [List.length]. lia.
Qed.

Lemma split_first_len p ts : forall a b, split_first p ts = Some (a, b) -> List.length a + List.length b < List.length ts.
Proof.
  induction ts as [|t r IH]; intros a b H; [discriminate H|]. cbn [split_first] in H.
  destruct (p t).
  - injection H as <- <-. cbn [List.length]. lia.
  - destruct (split_first p r) as [[a' b']|] eqn:E; [|discriminate H]. injection H as <- <-.
    specialize (IH a' b' eq_refl). cbn [List.length]. lia.
Qed.

Lemma concat_mapi_ext {A} (f g : nat -> A -> list tk) l : forall i,
  (forall j x, In x l -> f j x = g j x) -> concat_mapi f i l = concat_mapi g i l.
Proof.
  induction l as [|x r IH]; intros i H; [reflexivity|]. cbn [concat_mapi].
  rewrite (H i x (or_introl eq_refl)). f_equal. apply IH. intros j y Hy. apply H. right. exact Hy.
Qed.

(* ---------------- enough fuel is enough ---------------- *)
Lemma loops_fuel : forall f1 f2 lists ts,
  List.length ts < f1 -> List.length ts < f2 -> loopsT f1 lists ts = loopsT f2 lists ts.
Proof.
  induction f1 as [|k1 IH]; intros f2 lists ts H1 H2; [lia|].
  destruct f2 as [|k2]; [lia|]. destruct ts as [|t r]; [reflexivity|].
  cbn [List.length] in H1, H2.
  destruct t; cbn [loops]; try (f_equal; apply IH; lia).
  destruct (split_each r 0) as [[body rest]|] eqn:E; [|reflexivity].
  pose proof (split_each_len r 0 body rest E) as HL.
  f_equal.
  - destruct (assoc l lists) as [items|]; [|reflexivity].
    apply concat_mapi_ext. intros j it _. f_equal. apply IH; lia.
  - apply IH; lia.
Qed.

Lemma loops_S k lists ts :
  loopsT (S k) lists ts =
  match ts with
  | [] => []
  | KEach l :: r =>
      match split_each r 0 with
      | None => ts
      | Some (body, rest) =>
          (match assoc l lists with
           | Some items => concat_mapi (fun i it => item_postT it i (List.length items) (loopsT k (item_lists it) body)) 0 items
           | None => []
           end) ++ loopsT k lists rest
      end
  | t :: r => t :: loopsT k lists r
  end.
Proof. reflexivity. Qed.

Definition loopsN (lists : list (string * list item)) (ts : list tk) : list tk := loopsT (S (List.length ts)) lists ts.

Lemma loopsN_nil lists : loopsN lists [] = [].
Proof. reflexivity. Qed.

Definition not_each (t : tk) : bool := match t with KEach _ => false | _ => true end.

Lemma loopsN_cons lists t r : not_each t = true -> loopsN lists (t :: r) = t :: loopsN lists r.
Proof.
  intros H. unfold loopsN at 1. rewrite loops_S. destruct t; try discriminate H; f_equal; unfold loopsN; apply loops_fuel; cbn [List.length]; lia.
Qed.

Lemma loopsN_each lists l r body rest :
  split_each r 0 = Some (body, rest) ->
  loopsN lists (KEach l :: r) =
  (match assoc l lists with
   | Some items => concat_mapi (fun i it => item_postT it i (List.length items) (loopsN (item_lists it) body)) 0 items
   | None => []
   end) ++ loopsN lists rest.
Proof.
  intros E. unfold loopsN at 1. rewrite loops_S. rewrite E.
  pose proof (split_each_len r 0 body rest E) as HL. f_equal.
  - destruct (assoc l lists) as [items|]; [|reflexivity].
    apply concat_mapi_ext. intros j it _. f_equal. unfold loopsN. apply loops_fuel; cbn [List.length]; lia.
  - unfold loopsN. apply loops_fuel; cbn [List.length]; lia.
Qed.

Lemma cond_scan_fuel holds : forall f1 f2 ts,
  List.length ts < f1 -> List.length ts < f2 -> cond_scan f1 holds ts = cond_scan f2 holds ts.
Proof.
  induction f1 as [|k1 IH]; intros f2 ts H1 H2; [lia|].
  destruct f2 as [|k2]; [lia|]. destruct ts as [|t r]; [reflexivity|].
  cbn [List.length] in H1, H2.
  destruct t; cbn [cond_scan]; try (f_equal; apply IH; lia).
  destruct (split_first is_endif r) as [[inner rest]|] eqn:E; [|reflexivity].
  pose proof (split_first_len _ r inner rest E) as HL. f_equal. apply IH; lia.
Qed.

Lemma cond_scan_S k holds ts :
  cond_scan (S k) holds ts =
  match ts with
  | [] => []
  | KIf c :: r =>
      match split_first is_endif r with
      | None => ts
      | Some (inner, rest) =>
          (match split_first is_else inner with
           | Some (th, el) => if holds c then th else el
           | None => if holds c then inner else []
           end) ++ cond_scan k holds rest
      end
  | t :: r => t :: cond_scan k holds r
  end.
Proof. reflexivity. Qed.

Definition condN (holds : string -> bool) (ts : list tk) : list tk := cond_scan (S (List.length ts)) holds ts.

Definition not_if (t : tk) : bool := match t with KIf _ => false | _ => true end.

Lemma condN_cons holds t r : not_if t = true -> condN holds (t :: r) = t :: condN holds r.
Proof.
  intros H. unfold condN at 1. rewrite cond_scan_S. destruct t; try discriminate H; f_equal; unfold condN; apply cond_scan_fuel; cbn [List.length]; lia.
Qed.

Lemma condN_if holds c r inner rest :
  split_first is_endif r = Some (inner, rest) ->
  condN holds (KIf c :: r) =
  (match split_first is_else inner with
   | Some (th, el) => if holds c then th else el
   | None => if holds c then inner else []
   end) ++ condN holds rest.
Proof.
  intros E. unfold condN at 1. rewrite cond_scan_S. rewrite E.
  pose proof (split_first_len _ r inner rest E) as HL. f_equal. unfold condN. apply cond_scan_fuel; cbn [List.length]; lia.
Qed.

(* ---------------- induction over syntax trees ---------------- *)
Section NodeInd.
  Variable P : node -> Prop.
  Hypothesis Hlit : forall s, P (NLit s).
  Hypothesis Hvar : forall n, P (NVar n).
  Hypothesis Hthis : P NThis.
  Hypothesis Hindex : P NIndex.
  Hypothesis Hfirst : P NFirst.
  Hypothesis Hlast : P NLast.
  Hypothesis Hif : forall c th el, Forall P th -> Forall P (match el with Some x => x | None => [] end) -> P (NIf c th el).
  Hypothesis Heach : forall l body, Forall P body -> P (NEach l body).
  Fixpoint node_ind' (nd : node) : P nd :=
    let fix go (l : list node) : Forall P l :=
      match l with [] => Forall_nil _ | x :: r => Forall_cons _ (node_ind' x) (go r) end in
    match nd with
    | NLit s => Hlit s | NVar n => Hvar n | NThis => Hthis | NIndex => Hindex | NFirst => Hfirst | NLast => Hlast
    | NIf c th el => Hif c th el (go th) (match el as o return Forall P (match o with Some x => x | None => [] end) with Some x => go x | None => Forall_nil P end)
    | NEach l body => Heach l body (go body)
    end.
End NodeInd.

(* ---------------- tokens of a tree and the matching of {{#each}} / {{/each}} ---------------- *)
Definition no_each_tk (t : tk) : bool := match t with KEach _ | KEndEach => false | _ => true end.

Lemma split_each_noeach ts : forallb no_each_tk ts = true -> forall tail d,
  split_each (ts ++ tail) d = match split_each tail d with Some (b, rest) => Some (ts ++ b, rest) | None => None end.
Proof.
  induction ts as [|t r IH]; intros H tail d.
  - cbn [app]. destruct (split_each tail d) as [[b rest]|]; reflexivity.
  - cbn [forallb] in H. apply andb_true_iff in H. destruct H as [Ht Hr]. cbn [app].
    destruct t; try discriminate Ht; cbn [split_each]; rewrite (IH Hr tail d);
      destruct (split_each tail d) as [[b rest]|]; reflexivity.
Qed.

Lemma plain_flat nd : plain_node nd = true -> forallb no_each_tk (flatten1 nd) = true.
Proof. destruct nd; cbn; try discriminate; reflexivity. Qed.

Lemma plain_list_flat ns : forallb plain_node ns = true -> forallb no_each_tk (flatten ns) = true.
Proof.
  induction ns as [|nd r IH]; intros H; [reflexivity|]. cbn [forallb] in H. apply andb_true_iff in H. destruct H as [H1 H2].
  unfold flatten, flat_list. cbn [flat_map]. rewrite forallb_app. rewrite (plain_flat nd H1). apply IH. exact H2.
Qed.

Definition SE (nd : node) : Prop := wf_node nd = true -> forall tail d,
  split_each (flatten1 nd ++ tail) d = match split_each tail d with Some (b, rest) => Some (flatten1 nd ++ b, rest) | None => None end.

Lemma SE_list ns : Forall SE ns -> forallb wf_node ns = true -> forall tail d,
  split_each (flatten ns ++ tail) d = match split_each tail d with Some (b, rest) => Some (flatten ns ++ b, rest) | None => None end.
Proof.
  induction ns as [|nd r IH]; intros HF Hwf tail d.
  - cbn. destruct (split_each tail d) as [[b rest]|]; reflexivity.
  - inversion HF as [|? ? Hnd Hr]; subst. cbn [forallb] in Hwf. apply andb_true_iff in Hwf. destruct Hwf as [W1 W2].
    unfold flatten, flat_list. cbn [flat_map]. rewrite <- app_assoc. rewrite (Hnd W1).
    fold (flat_list flatten1 r). fold (flatten r). rewrite (IH Hr W2 tail d).
    destruct (split_each tail d) as [[b rest]|]; [rewrite app_assoc|]; reflexivity.
Qed.

Lemma SE_all : forall nd, SE nd.
Proof.
  apply node_ind'; unfold SE.
  - intros s _ tail d. cbn. destruct (split_each tail d) as [[b rest]|]; reflexivity.
  - intros n _ tail d. cbn. destruct (split_each tail d) as [[b rest]|]; reflexivity.
  - intros _ tail d. cbn. destruct (split_each tail d) as [[b rest]|]; reflexivity.
  - intros _ tail d. cbn. destruct (split_each tail d) as [[b rest]|]; reflexivity.
  - intros _ tail d. cbn. destruct (split_each tail d) as [[b rest]|]; reflexivity.
  - intros _ tail d. cbn. destruct (split_each tail d) as [[b rest]|]; reflexivity.
  - intros c th el _ _ W tail d. apply split_each_noeach.
    cbn [wf_node] in W. apply andb_true_iff in W. destruct W as [W1 W2].
    cbn [flatten1 forallb no_each_tk]. rewrite !forallb_app. fold (flatten th). rewrite (plain_list_flat th W1).
    destruct el as [x|]; cbn [forallb no_each_tk andb]; [fold (flatten x); rewrite (plain_list_flat x W2)|]; reflexivity.
  - intros l body HF W tail d. cbn [wf_node] in W. cbn [flatten1 app split_each].
    fold (flatten body). rewrite <- app_assoc. rewrite (SE_list body HF W). cbn [app split_each].
    destruct (split_each tail d) as [[b rest]|]; [|reflexivity]. rewrite <- app_assoc. reflexivity.
Qed.

Lemma split_each_body body tail : forallb wf_node body = true ->
  split_each (flatten body ++ KEndEach :: tail) 0 = Some (flatten body, tail).
Proof.
  intros W. rewrite (SE_list body (proj2 (Forall_forall SE body) (fun nd _ => SE_all nd)) W). cbn [split_each].
  rewrite app_nil_r. reflexivity.
Qed.

(* ---------------- the loop pass on the tokens of a tree ---------------- *)
Fixpoint expand1 (lists : list (string * list item)) (nd : node) {struct nd} : list tk :=
  match nd with
  | NEach l body =>
      match assoc l lists with
      | Some items =>
          concat_mapi (fun i it => item_postT it i (List.length items) (flat_map (expand1 (item_lists it)) body)) 0 items
      | None => []
      end
  | other => flatten1 other
  end.
Definition expand (lists : list (string * list item)) (ns : list node) : list tk := flat_map (expand1 lists) ns.

Lemma loopsN_noeach lists ts : forallb no_each_tk ts = true -> forall tail, loopsN lists (ts ++ tail) = ts ++ loopsN lists tail.
Proof.
  induction ts as [|t r IH]; intros H tail; [reflexivity|].
  cbn [forallb] in H. apply andb_true_iff in H. destruct H as [Ht Hr]. cbn [app].
  rewrite loopsN_cons by (destruct t; try discriminate Ht; reflexivity). rewrite (IH Hr). reflexivity.
Qed.

Definition LE (nd : node) : Prop := wf_node nd = true -> forall lists tail,
  loopsN lists (flatten1 nd ++ tail) = expand1 lists nd ++ loopsN lists tail.

Lemma LE_list ns : Forall LE ns -> forallb wf_node ns = true -> forall lists tail,
  loopsN lists (flatten ns ++ tail) = expand lists ns ++ loopsN lists tail.
Proof.
  induction ns as [|nd r IH]; intros HF Hwf lists tail; [reflexivity|].
  inversion HF as [|? ? Hnd Hr]; subst. cbn [forallb] in Hwf. apply andb_true_iff in Hwf. destruct Hwf as [W1 W2].
  unfold flatten, flat_list, expand. cbn [flat_map]. rewrite <- !app_assoc. rewrite (Hnd W1).
  fold (flat_list flatten1 r). fold (flatten r). rewrite (IH Hr W2 lists tail). reflexivity.
Qed.

Lemma LE_all : forall nd, LE nd.
Proof.
  apply node_ind'; unfold LE.
  - intros s _ lists tail. apply (loopsN_noeach lists [KLit s]); reflexivity.
  - intros n _ lists tail. apply (loopsN_noeach lists [KVar n]); reflexivity.
  - intros _ lists tail. apply (loopsN_noeach lists [KThis]); reflexivity.
  - intros _ lists tail. apply (loopsN_noeach lists [KIndex]); reflexivity.
  - intros _ lists tail. apply (loopsN_noeach lists [KFirst]); reflexivity.
  - intros _ lists tail. apply (loopsN_noeach lists [KLast]); reflexivity.
  - intros c th el _ _ W lists tail. cbn [expand1]. apply loopsN_noeach.
    cbn [wf_node] in W. apply andb_true_iff in W. destruct W as [W1 W2].
    cbn [flatten1 forallb no_each_tk]. rewrite !forallb_app. fold (flatten th). rewrite (plain_list_flat th W1).
    destruct el as [x|]; cbn [forallb no_each_tk andb]; [fold (flatten x); rewrite (plain_list_flat x W2)|]; reflexivity.
  - intros l body HF W lists tail. cbn [wf_node] in W. cbn [flatten1 app].
    fold (flatten body). rewrite <- app_assoc. cbn [app].
    rewrite (loopsN_each lists l _ (flatten body) tail (split_each_body body tail W)).
    f_equal. cbn [expand1]. destruct (assoc l lists) as [items|]; [|reflexivity].
    apply concat_mapi_ext. intros j it _. f_equal.
    pose proof (LE_list body HF W (item_lists it) []) as H. rewrite app_nil_r in H. rewrite H.
    rewrite loopsN_nil, app_nil_r. reflexivity.
Qed.

Theorem loops_expand lists ns : forallb wf_node ns = true -> loopsN lists (flatten ns) = expand lists ns.
Proof.
  intros W. pose proof (LE_list ns (proj2 (Forall_forall LE ns) (fun nd _ => LE_all nd)) W lists []) as H.
  rewrite app_nil_r in H. rewrite H. rewrite loopsN_nil, app_nil_r. reflexivity.
Qed.

(* ---------------- strings ---------------- *)
Lemma sapp_assoc (a b c : string) : append (append a b) c = append a (append b c).
Proof. induction a as [|ch a IH]; cbn [append]; [reflexivity | rewrite IH; reflexivity]. Qed.
Lemma sapp_nil_r (a : string) : append a "" = a.
Proof. induction a as [|ch a IH]; cbn [append]; [reflexivity | rewrite IH; reflexivity]. Qed.
Lemma sconcat_app l m : sconcat (l ++ m) = append (sconcat l) (sconcat m).
Proof. induction l as [|x r IH]; cbn [app sconcat append]; [reflexivity | rewrite IH, sapp_assoc; reflexivity]. Qed.

(* ---------------- what a list of resolved tokens means in an enclosing scope ---------------- *)
Definition ptok (t : tk) : bool := match t with KLit _ | KVar _ => true | _ => false end.
Definition ptext (sc : list item) (t : tk) : string :=
  match t with
  | KVar x => match scope_var sc x with Some v => v | None => unlex1 t end
  | other => unlex1 other
  end.
Definition psem (sc : list item) (ts : list tk) : string := sconcat (map (ptext sc) ts).

Lemma psem_app sc a b : psem sc (a ++ b) = append (psem sc a) (psem sc b).
Proof. unfold psem. rewrite map_app. apply sconcat_app. Qed.

Lemma psem_nil ts : psem [] ts = unlex ts.
Proof. unfold psem, unlex. f_equal. apply map_ext. intros t. destruct t; reflexivity. Qed.

(* ---------------- the per-item steps on resolved tokens ---------------- *)
Definition specialsT (it : item) (i n : nat) (ts : list tk) : list tk :=
  sp_last i n (sp_first i (sp_index i (sp_this it ts))).

Lemma item_post_unfold it i n c :
  item_postT it i n c = match it with IMap fs => cond_item fs (subst_fields fs (specialsT it i n c)) | IStr _ _ => specialsT it i n c end.
Proof. reflexivity. Qed.

Lemma specials_app it i n a b : specialsT it i n (a ++ b) = specialsT it i n a ++ specialsT it i n b.
Proof. unfold specialsT, sp_last, sp_first, sp_index, sp_this. rewrite !map_app. reflexivity. Qed.

Lemma specials_ptoks it i n ts : forallb ptok ts = true -> specialsT it i n ts = ts.
Proof.
  induction ts as [|t r IH]; intros H; [reflexivity|]. cbn [forallb] in H. apply andb_true_iff in H. destruct H as [Ht Hr].
  change (t :: r) with ([t] ++ r). rewrite specials_app, (IH Hr). destruct t; try discriminate Ht; reflexivity.
Qed.

Lemma subst_field_app k v a b : subst_field k v (a ++ b) = subst_field k v a ++ subst_field k v b.
Proof. unfold subst_field. apply map_app. Qed.

Lemma subst_fields_app fs : forall a b, subst_fields fs (a ++ b) = subst_fields fs a ++ subst_fields fs b.
Proof.
  induction fs as [|[k [v tr|l]] r IH]; intros a b; cbn [subst_fields]; [reflexivity| |apply IH].
  rewrite subst_field_app. apply IH.
Qed.

Lemma subst_fields_nil fs : subst_fields fs [] = [].
Proof. induction fs as [|[k [v tr|l]] r IH]; cbn [subst_fields]; [reflexivity| |]; exact IH. Qed.

(* a token other than a variable is not touched by the field substitution *)
Definition not_var (t : tk) : bool := match t with KVar _ => false | _ => true end.
Lemma subst_fields_other fs t : not_var t = true -> subst_fields fs [t] = [t].
Proof.
  intros H. induction fs as [|[k [v tr|l]] r IH]; cbn [subst_fields]; [reflexivity| |exact IH].
  destruct t; try discriminate H; cbn [subst_field map]; exact IH.
Qed.

Lemma subst_fields_var fs : forall x,
  subst_fields fs [KVar x] = [match scalar_field fs x with Some v => KLit v | None => KVar x end].
Proof.
  induction fs as [|[k [v tr|l]] r IH]; intros x; cbn [subst_fields scalar_field]; [reflexivity| |apply IH].
  cbn [subst_field map]. rewrite (String.eqb_sym x k). destruct (String.eqb k x).
  - apply (subst_fields_other r (KLit v)). reflexivity.
  - apply IH.
Qed.

Lemma subst_fields_cons fs t r : subst_fields fs (t :: r) = subst_fields fs [t] ++ subst_fields fs r.
Proof. change (t :: r) with ([t] ++ r). apply subst_fields_app. Qed.

Lemma subst_fields_ptoks fs ts : forallb ptok ts = true -> forallb ptok (subst_fields fs ts) = true.
Proof.
  induction ts as [|t r IH]; intros H; [rewrite subst_fields_nil; reflexivity|].
  cbn [forallb] in H. apply andb_true_iff in H. destruct H as [Ht Hr].
  rewrite subst_fields_cons, forallb_app, (IH Hr), andb_true_r.
  destruct t; try discriminate Ht.
  - rewrite subst_fields_other by reflexivity. reflexivity.
  - rewrite subst_fields_var. destruct (scalar_field fs n); reflexivity.
Qed.

(* substituting the fields of a map item is looking the variables up in the scope extended by the item *)
Lemma psem_subst fs sc ts : forallb ptok ts = true -> psem sc (subst_fields fs ts) = psem (IMap fs :: sc) ts.
Proof.
  induction ts as [|t r IH]; intros H; [rewrite subst_fields_nil; reflexivity|].
  cbn [forallb] in H. apply andb_true_iff in H. destruct H as [Ht Hr].
  rewrite subst_fields_cons, psem_app, (IH Hr). change (t :: r) with ([t] ++ r). rewrite (psem_app _ [t] r). f_equal.
  destruct t; try discriminate Ht.
  - rewrite subst_fields_other by reflexivity. reflexivity.
  - rewrite subst_fields_var. unfold psem. cbn [map sconcat ptext scope_var].
    destruct (scalar_field fs n) as [v|]; reflexivity.
Qed.

(* ---------------- conditionals on resolved tokens ---------------- *)
Lemma ptok_not_if t : ptok t = true -> not_if t = true.
Proof. destruct t; try discriminate; reflexivity. Qed.

Lemma condN_ptoks holds ts : forallb ptok ts = true -> forall Z, condN holds (ts ++ Z) = ts ++ condN holds Z.
Proof.
  induction ts as [|t r IH]; intros H Z; [reflexivity|]. cbn [forallb] in H. apply andb_true_iff in H. destruct H as [Ht Hr].
  cbn [app]. rewrite condN_cons by (apply ptok_not_if; exact Ht). rewrite (IH Hr). reflexivity.
Qed.

Lemma condN_nil holds : condN holds [] = [].
Proof. reflexivity. Qed.

Lemma split_first_ptoks p ts : (forall t, ptok t = true -> p t = false) -> forallb ptok ts = true -> forall t0 Z,
  p t0 = true -> split_first p (ts ++ t0 :: Z) = Some (ts, Z).
Proof.
  intros Hp. induction ts as [|t r IH]; intros H t0 Z H0.
  - cbn [app split_first]. rewrite H0. reflexivity.
  - cbn [forallb] in H. apply andb_true_iff in H. destruct H as [Ht Hr].
    cbn [app split_first]. rewrite (Hp t Ht). rewrite (IH Hr t0 Z H0). reflexivity.
Qed.

Lemma split_first_none p ts : (forall t, ptok t = true -> p t = false) -> forallb ptok ts = true -> split_first p ts = None.
Proof.
  intros Hp. induction ts as [|t r IH]; intros H; [reflexivity|].
  cbn [forallb] in H. apply andb_true_iff in H. destruct H as [Ht Hr].
  cbn [split_first]. rewrite (Hp t Ht), (IH Hr). reflexivity.
Qed.

Lemma ptok_not_endif t : ptok t = true -> is_endif t = false.
Proof. destruct t; try discriminate; reflexivity. Qed.
Lemma ptok_not_else t : ptok t = true -> is_else t = false.
Proof. destruct t; try discriminate; reflexivity. Qed.

(* an if block whose branches are resolved tokens *)
Lemma condN_block holds c th el Z : forallb ptok th = true -> forallb ptok el = true ->
  condN holds (KIf c :: th ++ KElse :: el ++ KEndIf :: Z) = (if holds c then th else el) ++ condN holds Z.
Proof.
  intros Hth Hel.
  assert (forall l, (forall t, In t l -> is_endif t = false) -> forall Z', split_first is_endif (l ++ KEndIf :: Z') = Some (l, Z')) as G.
  { induction l as [|t r IH]; intros Hl Z'; [reflexivity|]. cbn [app split_first]. rewrite (Hl t (or_introl eq_refl)).
    rewrite IH; [reflexivity|]. intros t' Ht'. apply Hl. right. exact Ht'. }
  assert (split_first is_endif (th ++ KElse :: el ++ KEndIf :: Z) = Some (th ++ KElse :: el, Z)) as E.
  { replace (th ++ KElse :: el ++ KEndIf :: Z) with ((th ++ KElse :: el) ++ KEndIf :: Z) by (rewrite <- app_assoc; reflexivity).
    apply G. intros t Ht. rewrite forallb_forall in Hth, Hel.
    apply in_app_or in Ht. destruct Ht as [Ht|[<-|Ht]]; [apply ptok_not_endif; auto | reflexivity | apply ptok_not_endif; auto]. }
  rewrite (condN_if holds c _ _ _ E).
  rewrite (split_first_ptoks is_else th ptok_not_else Hth KElse el eq_refl). reflexivity.
Qed.

Lemma condN_block_noelse holds c th Z : forallb ptok th = true ->
  condN holds (KIf c :: th ++ KEndIf :: Z) = (if holds c then th else []) ++ condN holds Z.
Proof.
  intros Hth.
  rewrite (condN_if holds c _ _ _ (split_first_ptoks is_endif th ptok_not_endif Hth KEndIf Z eq_refl)).
  rewrite (split_first_none is_else th ptok_not_else Hth). reflexivity.
Qed.

(* ---------------- one item: the steps after the nested loops ---------------- *)
Definition mtok (it : item) (i n : nat) (ts : list tk) : list tk :=
  match it with IMap fs => subst_fields fs (specialsT it i n ts) | IStr _ _ => specialsT it i n ts end.

Lemma item_post_mtok it i n c :
  item_postT it i n c = match it with IMap fs => condN (field_truthy fs) (mtok it i n c) | IStr _ _ => mtok it i n c end.
Proof. destruct it; reflexivity. Qed.

Lemma mtok_app it i n a b : mtok it i n (a ++ b) = mtok it i n a ++ mtok it i n b.
Proof. destruct it; cbn [mtok]; rewrite specials_app; [reflexivity | apply subst_fields_app]. Qed.

Lemma psem_str s b sc ts : psem (IStr s b :: sc) ts = psem sc ts.
Proof. reflexivity. Qed.

Lemma mtok_ptoks it i n ts : forallb ptok ts = true ->
  forallb ptok (mtok it i n ts) = true /\ forall sc, psem sc (mtok it i n ts) = psem (it :: sc) ts.
Proof.
  intros H. destruct it as [s b|fs]; cbn [mtok]; rewrite (specials_ptoks _ i n ts H).
  - split; [exact H|]. intros sc. symmetry. apply psem_str.
  - split; [apply subst_fields_ptoks; exact H|]. intros sc. apply psem_subst. exact H.
Qed.

Section Sem.
  Variable e : env.
  Hypothesis no_globals : e_vars e = [].

  Notation rnode := (ref_node e).
  Notation rlist := (ref_list rnode).

  Lemma rlist_cons sc i n nd r : rlist sc i n (nd :: r) = append (rnode sc i n nd) (rlist sc i n r).
  Proof. reflexivity. Qed.

  (* a plain node under an item *)
  Lemma plain_node_sem it i n nd : plain_node nd = true ->
    forallb ptok (mtok it i n (flatten1 nd)) = true /\ forall sc, psem sc (mtok it i n (flatten1 nd)) = rnode (it :: sc) i n nd.
  Proof.
    intros Hp. destruct nd as [s|x| | | | |c th el|l body]; try discriminate Hp; cbn [flatten1].
    - (* text *) destruct it as [s' b|fs]; cbn [mtok specialsT sp_this sp_index sp_first sp_last map].
      + split; [reflexivity|]. intros sc. unfold psem. cbn [map sconcat ptext unlex1 ref_node item_text]. rewrite ?sapp_nil_r. reflexivity.
      + rewrite subst_fields_other by reflexivity. split; [reflexivity|]. intros sc. unfold psem. cbn [map sconcat ptext unlex1 ref_node item_text]. rewrite ?sapp_nil_r. reflexivity.
    - (* variable *) destruct it as [s' b|fs]; cbn [mtok specialsT sp_this sp_index sp_first sp_last map].
      + split; [reflexivity|]. intros sc. unfold psem. cbn [map sconcat ptext ref_node scope_var]. rewrite no_globals. cbn [assoc].
        rewrite sapp_nil_r. destruct (scope_var sc x); reflexivity.
      + rewrite subst_fields_var. split; [destruct (scalar_field fs x); reflexivity|]. intros sc.
        unfold psem. cbn [ref_node scope_var]. rewrite no_globals. cbn [assoc].
        destruct (scalar_field fs x) as [v|]; cbn [map sconcat ptext]; rewrite sapp_nil_r; [reflexivity|].
        destruct (scope_var sc x); reflexivity.
    - (* this *) destruct it as [s' b|fs]; cbn [mtok specialsT sp_this sp_index sp_first sp_last map].
      + split; [reflexivity|]. intros sc. unfold psem. cbn [map sconcat ptext unlex1 ref_node item_text]. rewrite ?sapp_nil_r. reflexivity.
      + rewrite subst_fields_other by reflexivity. split; [reflexivity|]. intros sc. unfold psem. cbn [map sconcat ptext unlex1 ref_node item_text]. rewrite ?sapp_nil_r. reflexivity.
    - (* index *) destruct it as [s' b|fs]; cbn [mtok specialsT sp_this sp_index sp_first sp_last map].
      + split; [reflexivity|]. intros sc. unfold psem. cbn [map sconcat ptext unlex1 ref_node item_text]. rewrite ?sapp_nil_r. reflexivity.
      + rewrite subst_fields_other by reflexivity. split; [reflexivity|]. intros sc. unfold psem. cbn [map sconcat ptext unlex1 ref_node item_text]. rewrite ?sapp_nil_r. reflexivity.
    - (* first *) destruct it as [s' b|fs]; cbn [mtok specialsT sp_this sp_index sp_first sp_last map].
      + split; [reflexivity|]. intros sc. unfold psem. cbn [map sconcat ptext unlex1 ref_node item_text]. rewrite ?sapp_nil_r. reflexivity.
      + rewrite subst_fields_other by reflexivity. split; [reflexivity|]. intros sc. unfold psem. cbn [map sconcat ptext unlex1 ref_node item_text]. rewrite ?sapp_nil_r. reflexivity.
    - (* last *) destruct it as [s' b|fs]; cbn [mtok specialsT sp_this sp_index sp_first sp_last map].
      + split; [reflexivity|]. intros sc. unfold psem. cbn [map sconcat ptext unlex1 ref_node item_text]. rewrite ?sapp_nil_r. reflexivity.
      + rewrite subst_fields_other by reflexivity. split; [reflexivity|]. intros sc. unfold psem. cbn [map sconcat ptext unlex1 ref_node item_text]. rewrite ?sapp_nil_r. reflexivity.
  Qed.

  Lemma plain_list_sem it i n ns : forallb plain_node ns = true ->
    forallb ptok (mtok it i n (flatten ns)) = true /\ forall sc, psem sc (mtok it i n (flatten ns)) = rlist (it :: sc) i n ns.
  Proof.
    induction ns as [|nd r IH]; intros H.
    - destruct it as [s b|fs]; cbn [flatten flat_list flat_map mtok specialsT sp_this sp_index sp_first sp_last map];
        rewrite ?subst_fields_nil; split; reflexivity.
    - cbn [forallb] in H. apply andb_true_iff in H. destruct H as [H1 H2].
      unfold flatten, flat_list. cbn [flat_map]. fold (flat_list flatten1 r). fold (flatten r). rewrite mtok_app.
      destruct (plain_node_sem it i n nd H1) as [P1 S1]. destruct (IH H2) as [P2 S2].
      split; [rewrite forallb_app, P1, P2; reflexivity|].
      intros sc. rewrite psem_app, S1, S2. reflexivity.
  Qed.
End Sem.

Section Sem2.
  Variable e : env.
  Hypothesis no_globals : e_vars e = [].

  Notation rnode := (ref_node e).
  Notation rlist := (ref_list rnode).

  Definition ctx_ok (it : item) (nd : node) : bool :=
    match it with IMap fs => typed_node (nested_lists fs) nd | IStr _ _ => no_if nd end.

  (* what one node of a loop body contributes for one item *)
  Definition NS (nd : node) : Prop :=
    wf_node nd = true -> forall it i n, ctx_ok it nd = true ->
    exists R, forallb ptok R = true /\ (forall sc, psem sc R = rnode (it :: sc) i n nd) /\
      match it with
      | IMap fs => forall Z, condN (field_truthy fs) (mtok it i n (expand1 (item_lists it) nd) ++ Z) = R ++ condN (field_truthy fs) Z
      | IStr _ _ => mtok it i n (expand1 (item_lists it) nd) = R
      end.

  (* a whole loop body for one item *)
  Lemma NS_list ns : Forall NS ns -> forallb wf_node ns = true -> forall it i n, forallb (ctx_ok it) ns = true ->
    exists R, forallb ptok R = true /\ (forall sc, psem sc R = rlist (it :: sc) i n ns) /\
              item_postT it i n (expand (item_lists it) ns) = R.
  Proof.
    induction ns as [|nd r IH]; intros HF W it i n HC.
    - exists []. split; [reflexivity|]. split; [reflexivity|]. rewrite item_post_mtok.
      destruct it as [s b|fs]; cbn [expand flat_map mtok specialsT sp_this sp_index sp_first sp_last map]; [reflexivity|].
      rewrite subst_fields_nil. reflexivity.
    - inversion HF as [|? ? Hnd Hr]; subst. cbn [forallb] in W, HC.
      apply andb_true_iff in W. destruct W as [W1 W2]. apply andb_true_iff in HC. destruct HC as [C1 C2].
      destruct (Hnd W1 it i n C1) as [R1 [P1 [S1 E1]]].
      destruct (IH Hr W2 it i n C2) as [R2 [P2 [S2 E2]]].
      exists (R1 ++ R2). split; [rewrite forallb_app, P1, P2; reflexivity|]. split.
      + intros sc. rewrite psem_app, S1, S2. reflexivity.
      + unfold expand. cbn [flat_map]. fold (expand (item_lists it) r). rewrite item_post_mtok, mtok_app.
        rewrite item_post_mtok in E2. destruct it as [s b|fs].
        * rewrite E1, E2. reflexivity.
        * rewrite E1, E2. reflexivity.
  Qed.

  (* the items of a nested list, one after the other *)
  Lemma items_sem body : Forall NS body -> forallb wf_node body = true -> forall items n j,
    forallb (fun it => forallb (ctx_ok it) body) items = true ->
    exists R, forallb ptok R = true /\
      concat_mapi (fun i it => item_postT it i n (expand (item_lists it) body)) j items = R /\
      forall sc, psem sc R = ref_items (fun sc' i' n' => rlist sc' i' n' body) sc j n items.
  Proof.
    intros HF W. induction items as [|it r IH]; intros n j HC.
    - exists []. repeat split; reflexivity.
    - cbn [forallb] in HC. apply andb_true_iff in HC. destruct HC as [C1 C2].
      destruct (NS_list body HF W it j n C1) as [R1 [P1 [S1 E1]]].
      destruct (IH n (S j) C2) as [R2 [P2 [E2 S2]]].
      exists (R1 ++ R2). split; [rewrite forallb_app, P1, P2; reflexivity|]. split.
      + cbn [concat_mapi]. rewrite E1, E2. reflexivity.
      + intros sc. rewrite psem_app, S1, S2. reflexivity.
  Qed.

  Lemma ctx_items it l body items :
    ctx_ok it (NEach l body) = true -> assoc l (item_lists it) = Some items ->
    forallb (fun it' => forallb (ctx_ok it') body) items = true.
  Proof.
    destruct it as [s b|fs]; cbn [ctx_ok item_lists]; [intros _ H; discriminate H|].
    cbn [typed_node]. intros H E. rewrite E in H. rewrite forallb_forall in *. intros it' Hin. specialize (H it' Hin).
    destruct it' as [s' b'|fs']; exact H.
  Qed.

  Lemma NS_all : forall nd, NS nd.
  Proof.
    apply node_ind'; unfold NS.
    - (* text *) intros s W it i n _. destruct (plain_node_sem e no_globals it i n (NLit s) eq_refl) as [P S].
      exists (mtok it i n (flatten1 (NLit s))). split; [exact P|]. split; [exact S|].
      destruct it as [s' b|fs]; [reflexivity|]. intros Z. apply condN_ptoks. exact P.
    - (* variable *) intros x W it i n _. destruct (plain_node_sem e no_globals it i n (NVar x) W) as [P S].
      exists (mtok it i n (flatten1 (NVar x))). split; [exact P|]. split; [exact S|].
      destruct it as [s' b|fs]; [reflexivity|]. intros Z. apply condN_ptoks. exact P.
    - intros W it i n _. destruct (plain_node_sem e no_globals it i n NThis eq_refl) as [P S].
      exists (mtok it i n (flatten1 NThis)). split; [exact P|]. split; [exact S|].
      destruct it as [s' b|fs]; [reflexivity|]. intros Z. apply condN_ptoks. exact P.
    - intros W it i n _. destruct (plain_node_sem e no_globals it i n NIndex eq_refl) as [P S].
      exists (mtok it i n (flatten1 NIndex)). split; [exact P|]. split; [exact S|].
      destruct it as [s' b|fs]; [reflexivity|]. intros Z. apply condN_ptoks. exact P.
    - intros W it i n _. destruct (plain_node_sem e no_globals it i n NFirst eq_refl) as [P S].
      exists (mtok it i n (flatten1 NFirst)). split; [exact P|]. split; [exact S|].
      destruct it as [s' b|fs]; [reflexivity|]. intros Z. apply condN_ptoks. exact P.
    - intros W it i n _. destruct (plain_node_sem e no_globals it i n NLast eq_refl) as [P S].
      exists (mtok it i n (flatten1 NLast)). split; [exact P|]. split; [exact S|].
      destruct it as [s' b|fs]; [reflexivity|]. intros Z. apply condN_ptoks. exact P.
    - (* conditional: only under a map item *)
      intros c th el _ _ W it i n C. destruct it as [s b|fs]; [discriminate C|].
      cbn [wf_node] in W. apply andb_true_iff in W. destruct W as [W1 W2].
      destruct (plain_list_sem e no_globals (IMap fs) i n th W1) as [Pth Sth].
      set (it := IMap fs) in *.
      destruct el as [x|].
      + destruct (plain_list_sem e no_globals it i n x W2) as [Pel Sel].
        exists (if field_truthy fs c then mtok it i n (flatten th) else mtok it i n (flatten x)).
        split; [destruct (field_truthy fs c); assumption|]. split.
        * intros sc. unfold it. cbn [ref_node inner_map]. destruct (field_truthy fs c); [apply Sth | apply Sel].
        * intros Z. cbn [expand1 flatten1]. fold (flatten th). fold (flatten x).
          change (KIf c :: flatten th ++ (KElse :: flatten x) ++ [KEndIf]) with ([KIf c] ++ flatten th ++ [KElse] ++ flatten x ++ [KEndIf]).
          rewrite !mtok_app.
          replace (mtok it i n [KIf c]) with [KIf c] by (unfold it; cbn [mtok specialsT sp_this sp_index sp_first sp_last map]; rewrite subst_fields_other; reflexivity).
          replace (mtok it i n [KElse]) with [KElse] by (unfold it; cbn [mtok specialsT sp_this sp_index sp_first sp_last map]; rewrite subst_fields_other; reflexivity).
          replace (mtok it i n [KEndIf]) with [KEndIf] by (unfold it; cbn [mtok specialsT sp_this sp_index sp_first sp_last map]; rewrite subst_fields_other; reflexivity).
          cbn [app]. repeat (rewrite <- app_assoc; cbn [app]).
          apply condN_block; assumption.
      + exists (if field_truthy fs c then mtok it i n (flatten th) else []).
        split; [destruct (field_truthy fs c); [assumption | reflexivity]|]. split.
        * intros sc. unfold it. cbn [ref_node inner_map]. destruct (field_truthy fs c); [apply Sth | reflexivity].
        * intros Z. cbn [expand1 flatten1]. fold (flatten th).
          change (KIf c :: flatten th ++ [] ++ [KEndIf]) with ([KIf c] ++ flatten th ++ [KEndIf]).
          rewrite !mtok_app.
          replace (mtok it i n [KIf c]) with [KIf c] by (unfold it; cbn [mtok specialsT sp_this sp_index sp_first sp_last map]; rewrite subst_fields_other; reflexivity).
          replace (mtok it i n [KEndIf]) with [KEndIf] by (unfold it; cbn [mtok specialsT sp_this sp_index sp_first sp_last map]; rewrite subst_fields_other; reflexivity).
          cbn [app]. repeat (rewrite <- app_assoc; cbn [app]).
          apply condN_block_noelse; assumption.
    - (* nested loop *)
      intros l body HF W it i n C. cbn [wf_node] in W. cbn [expand1].
      destruct (assoc l (item_lists it)) as [items|] eqn:E.
      + pose proof (ctx_items it l body items C E) as CI.
        destruct (items_sem body HF W items (List.length items) 0 CI) as [R [P [ER SR]]].
        unfold expand in ER. rewrite ER. destruct (mtok_ptoks it i n R P) as [PM SM].
        exists (mtok it i n R). split; [exact PM|]. split.
        * intros sc. rewrite SM, SR. cbn [ref_node]. rewrite E. reflexivity.
        * destruct it as [s b|fs]; [reflexivity|]. intros Z. apply condN_ptoks. exact PM.
      + exists []. split; [reflexivity|]. split.
        * intros sc. cbn [ref_node]. rewrite E. reflexivity.
        * destruct it as [s b|fs]; cbn [mtok specialsT sp_this sp_index sp_first sp_last map]; [reflexivity|].
          rewrite subst_fields_nil. intros Z. reflexivity.
  Qed.
End Sem2.

(* ---------------- the top level ---------------- *)
Section Top.
  Variable e : env.
  Hypothesis no_globals : e_vars e = [].

  Notation rnode := (ref_node e).
  Notation rlist := (ref_list rnode).
  Definition gholds (c : string) : bool := match assoc c (e_conds e) with Some b => b | None => false end.

  Definition top_plain (nd : node) : bool := plain_node nd && no_special nd.

  Lemma top_plain_sem ns i n : forallb top_plain ns = true ->
    forallb ptok (flatten ns) = true /\ psem [] (flatten ns) = rlist [] i n ns.
  Proof.
    induction ns as [|nd r IH]; intros H; [split; reflexivity|].
    cbn [forallb] in H. apply andb_true_iff in H. destruct H as [H1 H2]. destruct (IH H2) as [P2 S2].
    unfold flatten, flat_list. cbn [flat_map]. fold (flat_list flatten1 r). fold (flatten r).
    unfold top_plain in H1. apply andb_true_iff in H1. destruct H1 as [Hp Hs].
    destruct nd as [s|x| | | | |c th el|l body]; try discriminate Hp; try discriminate Hs; cbn [flatten1 app forallb ptok].
    - split; [exact P2|]. change (KLit s :: flatten r) with ([KLit s] ++ flatten r). rewrite psem_app, S2.
      rewrite rlist_cons. f_equal. unfold psem. cbn [map sconcat ptext unlex1 ref_node]. apply sapp_nil_r.
    - split; [exact P2|]. change (KVar x :: flatten r) with ([KVar x] ++ flatten r). rewrite psem_app, S2.
      rewrite rlist_cons. f_equal. unfold psem. cbn [map sconcat ptext scope_var ref_node]. rewrite no_globals. cbn [assoc]. apply sapp_nil_r.
  Qed.

  Definition top_node_ok (nd : node) : bool :=
    wf_node nd && no_special nd &&
    match nd with
    | NIf _ th el => forallb no_special th && match el with Some x => forallb no_special x | None => true end
    | _ => true
    end.

  Lemma top_plain_of th : forallb plain_node th = true -> forallb no_special th = true -> forallb top_plain th = true.
  Proof.
    induction th as [|nd r IH]; intros H1 H2; [reflexivity|]. cbn [forallb] in *.
    apply andb_true_iff in H1. destruct H1 as [A1 A2]. apply andb_true_iff in H2. destruct H2 as [B1 B2].
    unfold top_plain at 1. rewrite A1, B1, (IH A2 B2). reflexivity.
  Qed.

  Lemma top_node_sem nd : top_node_ok nd = true -> typed_node (e_lists e) nd = true ->
    exists R, forallb ptok R = true /\ psem [] R = rnode [] 0 0 nd /\
              forall Z, condN gholds (expand1 (e_lists e) nd ++ Z) = R ++ condN gholds Z.
  Proof.
    intros H T. unfold top_node_ok in H. apply andb_true_iff in H. destruct H as [H Hb].
    apply andb_true_iff in H. destruct H as [W S].
    destruct nd as [s|x| | | | |c th el|l body]; try discriminate S.
    - exists [KLit s]. split; [reflexivity|]. split; [unfold psem; cbn; apply sapp_nil_r|]. intros Z. apply (condN_ptoks gholds [KLit s]); reflexivity.
    - exists [KVar x]. split; [reflexivity|]. split.
      + unfold psem. cbn [map sconcat ptext scope_var ref_node]. rewrite no_globals. cbn [assoc]. apply sapp_nil_r.
      + intros Z. apply (condN_ptoks gholds [KVar x]); reflexivity.
    - (* conditional *)
      cbn [wf_node] in W. apply andb_true_iff in W. destruct W as [W1 W2]. apply andb_true_iff in Hb. destruct Hb as [B1 B2].
      destruct (top_plain_sem th 0 0 (top_plain_of th W1 B1)) as [Pth Sth].
      destruct el as [x|].
      + destruct (top_plain_sem x 0 0 (top_plain_of x W2 B2)) as [Pel Sel].
        exists (if gholds c then flatten th else flatten x). split; [destruct (gholds c); assumption|]. split.
        * cbn [ref_node inner_map]. fold (gholds c). destruct (gholds c); assumption.
        * intros Z. cbn [expand1 flatten1]. fold (flatten th). fold (flatten x). cbn [app].
          repeat (rewrite <- app_assoc; cbn [app]). apply condN_block; assumption.
      + exists (if gholds c then flatten th else []). split; [destruct (gholds c); [assumption | reflexivity]|]. split.
        * cbn [ref_node inner_map]. fold (gholds c). destruct (gholds c); [assumption | reflexivity].
        * intros Z. cbn [expand1 flatten1]. fold (flatten th). cbn [app].
          repeat (rewrite <- app_assoc; cbn [app]). apply condN_block_noelse; assumption.
    - (* loop *)
      cbn [wf_node] in W. cbn [expand1].
      destruct (assoc l (e_lists e)) as [items|] eqn:E.
      + assert (forallb (fun it' => forallb (ctx_ok it') body) items = true) as CI.
        { cbn [typed_node] in T. rewrite E in T. rewrite forallb_forall in *. intros it' Hin. specialize (T it' Hin).
          destruct it' as [s' b'|fs']; exact T. }
        destruct (items_sem e body (proj2 (Forall_forall (NS e) body) (fun nd _ => NS_all e no_globals nd)) W items (List.length items) 0 CI) as [R [P [ER SR]]].
        unfold expand in ER. rewrite ER. exists R. split; [exact P|]. split.
        * rewrite SR. cbn [ref_node]. rewrite E. reflexivity.
        * intros Z. apply condN_ptoks. exact P.
      + exists []. split; [reflexivity|]. split; [cbn [ref_node]; rewrite E; reflexivity|]. intros Z. reflexivity.
  Qed.

  Lemma top_list_sem ns : forallb top_node_ok ns = true -> forallb (typed_node (e_lists e)) ns = true ->
    exists R, forallb ptok R = true /\ psem [] R = rlist [] 0 0 ns /\ condN gholds (expand (e_lists e) ns) = R.
  Proof.
    induction ns as [|nd r IH]; intros H T; [exists []; repeat split; reflexivity|].
    cbn [forallb] in H, T. apply andb_true_iff in H. destruct H as [H1 H2]. apply andb_true_iff in T. destruct T as [T1 T2].
    destruct (top_node_sem nd H1 T1) as [R1 [P1 [S1 E1]]]. destruct (IH H2 T2) as [R2 [P2 [S2 E2]]].
    exists (R1 ++ R2). split; [rewrite forallb_app, P1, P2; reflexivity|]. split.
    - rewrite psem_app, S1, S2. reflexivity.
    - unfold expand. cbn [flat_map]. fold (expand (e_lists e) r). rewrite E1, E2. reflexivity.
  Qed.

  (* without global variables: the pipeline on the tokens of a well-formed, well-typed tree is the reference *)
  Theorem render_ref_no_globals ns :
    wf_top ns = true -> forallb (typed_node (e_lists e)) ns = true ->
    unlex (render_tk e (flatten ns)) = ref e ns.
  Proof.
    intros W T.
    assert (forallb top_node_ok ns = true) as W'.
    { unfold wf_top in W. rewrite forallb_forall in *. intros nd Hin. exact (W nd Hin). }
    assert (forallb wf_node ns = true) as W2.
    { rewrite forallb_forall in *. intros nd Hin. specialize (W' nd Hin). unfold top_node_ok in W'.
      apply andb_true_iff in W'. destruct W' as [W' _]. apply andb_true_iff in W'. apply W'. }
    unfold render_tk, render_with. rewrite no_globals.
    replace (var_pass [] (flatten ns)) with (flatten ns).
    2:{ unfold var_pass. symmetry. rewrite <- (map_id (flatten ns)) at 2. apply map_ext. intros t. destruct t; reflexivity. }
    change (loops (fun x => x) (S (List.length (flatten ns))) (e_lists e) (flatten ns)) with (loopsN (e_lists e) (flatten ns)).
    rewrite (loops_expand (e_lists e) ns W2).
    destruct (top_list_sem ns W' T) as [R [P [S E]]].
    change (cond_pass (e_conds e) (expand (e_lists e) ns)) with (condN gholds (expand (e_lists e) ns)).
    rewrite E. rewrite <- psem_nil. exact S.
  Qed.
End Top.

(* ---------------- global variables: the first pass ---------------- *)
Fixpoint gsub (vars : list (string * string)) (nd : node) {struct nd} : node :=
  match nd with
  | NVar x => match assoc x vars with Some v => NLit v | None => nd end
  | NIf c th el => NIf c (map (gsub vars) th) (match el with Some x => Some (map (gsub vars) x) | None => None end)
  | NEach l body => NEach l (map (gsub vars) body)
  | other => other
  end.

Lemma flatten_map_cons (f : node -> node) nd r : flatten (map f (nd :: r)) = flatten1 (f nd) ++ flatten (map f r).
Proof. reflexivity. Qed.

Lemma var_pass_app vars a b : var_pass vars (a ++ b) = var_pass vars a ++ var_pass vars b.
Proof. unfold var_pass. apply map_app. Qed.

Section VarPass.
  Variable vars : list (string * string).
  Hypothesis no_this : assoc "this" vars = None.
  Hypothesis no_else : assoc "else" vars = None.

  Definition VP (nd : node) : Prop := var_pass vars (flatten1 nd) = flatten1 (gsub vars nd).

  Lemma VP_list ns : Forall VP ns -> var_pass vars (flatten ns) = flatten (map (gsub vars) ns).
  Proof.
    induction ns as [|nd r IH]; intros HF; [reflexivity|]. inversion HF as [|? ? Hnd Hr]; subst.
    rewrite flatten_map_cons. unfold flatten at 1, flat_list. cbn [flat_map]. fold (flat_list flatten1 r). fold (flatten r).
    rewrite var_pass_app, Hnd, (IH Hr). reflexivity.
  Qed.

  Lemma VP_all : forall nd, VP nd.
  Proof.
    apply node_ind'; unfold VP.
    - reflexivity.
    - intros x. cbn [flatten1 gsub var_pass map lit_or]. destruct (assoc x vars); reflexivity.
    - cbn [flatten1 gsub var_pass map]. rewrite no_this. reflexivity.
    - reflexivity.
    - reflexivity.
    - reflexivity.
    - intros c th el Hth Hel. cbn [gsub flatten1]. fold (flatten th). fold (flatten (map (gsub vars) th)).
      change (KIf c :: flatten th ++ match el with Some e0 => KElse :: flat_list flatten1 e0 | None => [] end ++ [KEndIf])
        with ([KIf c] ++ flatten th ++ match el with Some e0 => KElse :: flat_list flatten1 e0 | None => [] end ++ [KEndIf]).
      rewrite !var_pass_app, (VP_list th Hth).
      destruct el as [x|].
      + change (KElse :: flat_list flatten1 x) with ([KElse] ++ flatten x). rewrite var_pass_app, (VP_list x Hel).
        cbn [var_pass map]. rewrite no_else. reflexivity.
      + reflexivity.
    - intros l body HF. cbn [gsub flatten1]. fold (flatten body).
      change (KEach l :: flatten body ++ [KEndEach]) with ([KEach l] ++ flatten body ++ [KEndEach]).
      rewrite !var_pass_app, (VP_list body HF). reflexivity.
  Qed.

  Lemma var_pass_flatten ns : var_pass vars (flatten ns) = flatten (map (gsub vars) ns).
  Proof. apply VP_list. apply Forall_forall. intros nd _. apply VP_all. Qed.

  (* the substituted tree is as well-formed and as well-typed as the tree *)
  Lemma gsub_plain nd : plain_node nd = true -> plain_node (gsub vars nd) = true.
  Proof. destruct nd; cbn [gsub plain_node]; try discriminate; try reflexivity. intros H. destruct (assoc n vars); [reflexivity | exact H]. Qed.
  Lemma gsub_no_special nd : no_special (gsub vars nd) = no_special nd.
  Proof. destruct nd; cbn [gsub no_special]; try reflexivity. destruct (assoc n vars); reflexivity. Qed.
  Lemma gsub_no_if nd : no_if (gsub vars nd) = no_if nd.
  Proof. destruct nd; cbn [gsub no_if]; try reflexivity. destruct (assoc n vars); reflexivity. Qed.

  Lemma forallb_map_imp {A} (p q : A -> bool) (f : A -> A) l :
    (forall x, In x l -> p x = true -> q (f x) = true) -> forallb p l = true -> forallb q (map f l) = true.
  Proof.
    induction l as [|x r IH]; intros H Hp; [reflexivity|]. cbn [forallb map] in *. apply andb_true_iff in Hp. destruct Hp as [H1 H2].
    rewrite (H x (or_introl eq_refl) H1). apply IH; [|exact H2]. intros y Hy. apply H. right. exact Hy.
  Qed.

  Lemma gsub_plain_list ns : forallb plain_node ns = true -> forallb plain_node (map (gsub vars) ns) = true.
  Proof. apply forallb_map_imp. intros x _. apply gsub_plain. Qed.
  Lemma gsub_no_special_list ns : forallb no_special ns = true -> forallb no_special (map (gsub vars) ns) = true.
  Proof. apply forallb_map_imp. intros x _ H. rewrite gsub_no_special. exact H. Qed.
  Lemma gsub_no_if_list ns : forallb no_if ns = true -> forallb no_if (map (gsub vars) ns) = true.
  Proof. apply forallb_map_imp. intros x _ H. rewrite gsub_no_if. exact H. Qed.

  Lemma gsub_wf : forall nd, wf_node nd = true -> wf_node (gsub vars nd) = true.
  Proof.
    apply (node_ind' (fun nd => wf_node nd = true -> wf_node (gsub vars nd) = true)); try (intros; reflexivity).
    - intros x H. cbn [gsub]. destruct (assoc x vars); [reflexivity | exact H].
    - intros c th el _ _ W. cbn [gsub wf_node] in *. apply andb_true_iff in W. destruct W as [W1 W2].
      rewrite (gsub_plain_list th W1). destruct el as [x|]; [apply (gsub_plain_list x W2) | reflexivity].
    - intros l body HF W. cbn [gsub wf_node] in *. rewrite Forall_forall in HF.
      apply (forallb_map_imp wf_node wf_node (gsub vars) body); [|exact W]. intros x Hx. apply HF. exact Hx.
  Qed.

  Lemma gsub_typed : forall nd lists, typed_node lists nd = true -> typed_node lists (gsub vars nd) = true.
  Proof.
    apply (node_ind' (fun nd => forall lists, typed_node lists nd = true -> typed_node lists (gsub vars nd) = true)); try (intros; reflexivity).
    - intros x lists _. cbn [gsub]. destruct (assoc x vars); reflexivity.
    - intros l body HF lists T. cbn [gsub typed_node] in *. destruct (assoc l lists) as [items|]; [|reflexivity].
      rewrite forallb_forall in *. intros it Hin. specialize (T it Hin). destruct it as [s b|fs].
      + apply gsub_no_if_list. exact T.
      + rewrite Forall_forall in HF. apply (forallb_map_imp (typed_node (nested_lists fs)) (typed_node (nested_lists fs)) (gsub vars) body); [|exact T].
        intros x Hx. apply HF. exact Hx.
  Qed.

  Lemma gsub_wf_top ns : wf_top ns = true -> wf_top (map (gsub vars) ns) = true.
  Proof.
    unfold wf_top. apply forallb_map_imp. intros nd _ H.
    apply andb_true_iff in H. destruct H as [H Hb]. apply andb_true_iff in H. destruct H as [W S].
    rewrite (gsub_wf nd W), gsub_no_special, S. cbn [andb].
    destruct nd; cbn [gsub]; try reflexivity.
    - destruct (assoc n vars); reflexivity.
    - apply andb_true_iff in Hb. destruct Hb as [B1 B2]. rewrite (gsub_no_special_list th B1).
      destruct el as [x|]; [apply (gsub_no_special_list x B2) | reflexivity].
  Qed.
End VarPass.

(* ---------------- the reference does not see the difference ---------------- *)
Section RefSubst.
  Variable e : env.
  Let vars := e_vars e.
  Let names := map fst vars.
  Let e0 := mkEnv [] (e_conds e) (e_lists e).

  Lemma avoids_cons_scalar k v t r : item_avoids names (IMap ((k, FScalar v t) :: r)) = negb (existsb (String.eqb k) names) && item_avoids names (IMap r).
  Proof. reflexivity. Qed.
  Lemma avoids_cons_list k l r :
    item_avoids names (IMap ((k, FList l) :: r)) = negb (existsb (String.eqb k) names) && forallb (item_avoids names) l && item_avoids names (IMap r).
  Proof.
    assert ((fix each (l : list item) : bool := match l with [] => true | x :: l' => item_avoids names x && each l' end) l
            = forallb (item_avoids names) l) as E.
    { induction l as [|x l' IH]; [reflexivity|]. cbn [forallb]. rewrite <- IH. reflexivity. }
    cbn [item_avoids]. rewrite E. reflexivity.
  Qed.

  Lemma scalar_avoid fs x : item_avoids names (IMap fs) = true -> In x names -> scalar_field fs x = None.
  Proof.
    induction fs as [|[k [v t|l]] r IH]; intros H Hx; [reflexivity| |].
    - rewrite avoids_cons_scalar in H. apply andb_true_iff in H. destruct H as [H1 H2]. cbn [scalar_field].
      destruct (String.eqb_spec k x) as [->|_]; [|apply IH; assumption].
      exfalso. apply negb_true_iff in H1. assert (existsb (String.eqb x) names = true) as E.
      { apply existsb_exists. exists x. split; [exact Hx | apply String.eqb_refl]. } congruence.
    - rewrite avoids_cons_list in H. apply andb_true_iff in H. destruct H as [_ H2]. cbn [scalar_field]. apply IH; assumption.
  Qed.

  Lemma nested_avoid fs l items : item_avoids names (IMap fs) = true -> assoc l (nested_lists fs) = Some items ->
    forallb (item_avoids names) items = true.
  Proof.
    induction fs as [|[k [v t|l']] r IH]; intros H E; [discriminate E| |].
    - rewrite avoids_cons_scalar in H. apply andb_true_iff in H. destruct H as [_ H2]. cbn [nested_lists] in E. apply IH; assumption.
    - rewrite avoids_cons_list in H. apply andb_true_iff in H. destruct H as [H1 H2]. apply andb_true_iff in H1. destruct H1 as [_ H1].
      cbn [nested_lists assoc] in E. destruct (String.eqb l k); [injection E as <-; exact H1 | apply IH; assumption].
  Qed.

  Lemma scope_avoid sc x : forallb (item_avoids names) sc = true -> In x names -> scope_var sc x = None.
  Proof.
    induction sc as [|it r IH]; intros H Hx; [reflexivity|]. cbn [forallb] in H. apply andb_true_iff in H. destruct H as [H1 H2].
    destruct it as [s b|fs]; cbn [scope_var]; [apply IH; assumption|].
    rewrite (scalar_avoid fs x H1 Hx). apply IH; assumption.
  Qed.

  Lemma assoc_in_names x v : assoc x vars = Some v -> In x names.
  Proof.
    unfold names. induction vars as [|[k w] r IH]; cbn [assoc map fst]; [discriminate|].
    destruct (String.eqb_spec x k) as [->|_]; intros H; [left; reflexivity | right; apply IH; exact H].
  Qed.

  Definition RS (nd : node) : Prop := forall sc i n, forallb (item_avoids names) sc = true ->
    ref_node e0 sc i n (gsub vars nd) = ref_node e sc i n nd.

  Lemma RS_list ns : Forall RS ns -> forall sc i n, forallb (item_avoids names) sc = true ->
    ref_list (ref_node e0) sc i n (map (gsub vars) ns) = ref_list (ref_node e) sc i n ns.
  Proof.
    induction ns as [|nd r IH]; intros HF sc i n Hsc; [reflexivity|]. inversion HF as [|? ? Hnd Hr]; subst.
    unfold ref_list in *. cbn [map sconcat]. rewrite (Hnd sc i n Hsc). f_equal. apply (IH Hr sc i n Hsc).
  Qed.

  Lemma RS_items body : Forall RS body -> forall items sc j n,
    forallb (item_avoids names) sc = true -> forallb (item_avoids names) items = true ->
    ref_items (fun sc' i' n' => ref_list (ref_node e0) sc' i' n' (map (gsub vars) body)) sc j n items
    = ref_items (fun sc' i' n' => ref_list (ref_node e) sc' i' n' body) sc j n items.
  Proof.
    intros HF. induction items as [|it r IH]; intros sc j n Hsc Hit; [reflexivity|].
    cbn [forallb] in Hit. apply andb_true_iff in Hit. destruct Hit as [H1 H2]. cbn [ref_items].
    rewrite (RS_list body HF (it :: sc) j n) by (cbn [forallb]; rewrite H1, Hsc; reflexivity).
    f_equal. apply IH; assumption.
  Qed.

  Hypothesis lists_avoid : forallb (fun p => forallb (item_avoids names) (snd p)) (e_lists e) = true.

  Lemma top_lists_avoid l items : assoc l (e_lists e) = Some items -> forallb (item_avoids names) items = true.
  Proof.
    revert lists_avoid. generalize (e_lists e). induction l0 as [|[k v] r IH]; intros H E; [discriminate E|].
    cbn [forallb snd] in H. apply andb_true_iff in H. destruct H as [H1 H2]. cbn [assoc] in E.
    destruct (String.eqb l k); [injection E as <-; exact H1 | apply IH; assumption].
  Qed.

  Lemma RS_all : forall nd, RS nd.
  Proof.
    apply node_ind'; unfold RS; try (intros; reflexivity).
    - intros x sc i n Hsc. cbn [gsub]. destruct (assoc x vars) as [v|] eqn:E.
      + cbn [ref_node]. rewrite (scope_avoid sc x Hsc (assoc_in_names x v E)). fold vars. rewrite E. reflexivity.
      + cbn [ref_node e_vars e0 assoc]. fold vars. rewrite E. reflexivity.
    - intros c th el Hth Hel sc i n Hsc. cbn [gsub ref_node e_conds e0].
      destruct (match inner_map sc with Some fs => field_truthy fs c | None => match assoc c (e_conds e) with Some b => b | None => false end end).
      + apply RS_list; assumption.
      + destruct el as [x|]; [apply RS_list; assumption | reflexivity].
    - intros l body HF sc i n Hsc. cbn [gsub ref_node e_lists e0].
      destruct (assoc l (match sc with [] => e_lists e | it :: _ => item_lists it end)) as [items|] eqn:E; [|reflexivity].
      apply RS_items; [exact HF | exact Hsc|].
      destruct sc as [|it r]; [apply (top_lists_avoid l items E)|].
      cbn [forallb] in Hsc. apply andb_true_iff in Hsc. destruct Hsc as [H1 _].
      destruct it as [s b|fs]; [discriminate E|]. apply (nested_avoid fs l items H1 E).
  Qed.

  Lemma ref_gsub ns : ref e0 (map (gsub vars) ns) = ref e ns.
  Proof. unfold ref. apply RS_list; [|reflexivity]. apply Forall_forall. intros nd _. apply RS_all. Qed.
End RefSubst.

(* ---------------- the theorem ---------------- *)
Lemma no_reserved_assoc (vars : list (string * string)) n :
  existsb reserved (map fst vars) = false -> reserved n = true -> assoc n vars = None.
Proof.
  induction vars as [|[k v] r IH]; intros H Hn; [reflexivity|]. cbn [map fst existsb] in H. apply orb_false_iff in H. destruct H as [H1 H2].
  cbn [assoc]. destruct (String.eqb_spec n k) as [->|_]; [congruence | apply IH; assumption].
Qed.

Theorem render_ref e ns :
  wf_top ns = true -> forallb (typed_node (e_lists e)) ns = true -> env_ok e = true ->
  unlex (render_tk e (flatten ns)) = ref e ns.
Proof.
  intros W T EO. unfold env_ok in EO. apply andb_true_iff in EO. destruct EO as [E1 E2]. apply negb_true_iff in E1.
  pose proof (no_reserved_assoc (e_vars e) "this" E1 eq_refl) as Nt.
  pose proof (no_reserved_assoc (e_vars e) "else" E1 eq_refl) as Ne.
  set (e0 := mkEnv [] (e_conds e) (e_lists e)).
  set (ns' := map (gsub (e_vars e)) ns).
  assert (render_tk e (flatten ns) = render_tk e0 (flatten ns')) as R.
  { unfold render_tk, render_with. cbn [e_vars e_conds e_lists e0].
    rewrite (var_pass_flatten (e_vars e) Nt Ne ns). fold ns'.
    replace (var_pass [] (flatten ns')) with (flatten ns'); [reflexivity|].
    unfold var_pass. symmetry. rewrite <- (map_id (flatten ns')) at 2. apply map_ext. intros t. destruct t; reflexivity. }
  rewrite R.
  rewrite (render_ref_no_globals e0 eq_refl ns').
  - apply ref_gsub. exact E2.
  - apply gsub_wf_top. exact W.
  - unfold ns'. cbn [e_lists e0]. apply (forallb_map_imp (typed_node (e_lists e)) (typed_node (e_lists e))); [|exact T].
    intros x _. apply gsub_typed.
Qed.
