(* Proofs about M-RUNS: however a paragraph is cut into runs, rendering it gives - character by character, anchor by
   anchor - what the specification on formatted characters gives. *)
From Coq Require Import List NArith Bool Arith Lia.
Import ListNotations.
Require Import WZ.Model.DocTemplate.

Section P.
  Variable rs : list run.
  Definition unit_of (p : piece) : unit :=
    match p with
    | PB b i => UB b (r_fmt (nth_run rs i))
    | PA i => UA (r_fmt (nth_run rs i)) (r_other (nth_run rs i))
    end.

  Lemma units_of_pieces_map ps : units_of_pieces rs ps = map unit_of ps.
  Proof. reflexivity. Qed.

  (* the text of the pieces is the text of their units *)
  Lemma ptext_utext ps : ptext ps = utext (map unit_of ps).
  Proof.
    induction ps as [|p r IH]; [reflexivity|]. unfold ptext, utext in *. cbn [flat_map map].
    rewrite IH. destruct p; reflexivity.
  Qed.

  (* editing commutes with looking at the pieces as units *)
  Lemma apply_edits_units : forall ps pos es,
    map unit_of (apply_edits ps pos es) = apply_edits_u (map unit_of ps) pos es.
  Proof.
    induction ps as [|p r IH]; intros pos es; [reflexivity|].
    destruct p as [b i|i]; cbn [apply_edits apply_edits_u map unit_of].
    - set (sk := (fix skip (es0 : list edit) : list edit :=
                    match es0 with
                    | e :: es' => if Nat.leb (e_end e) pos && Nat.ltb (e_start e) (e_end e) then skip es' else es0
                    | [] => []
                    end) es).
      destruct sk as [|e es'].
      + cbn [map unit_of]. f_equal. apply IH.
      + destruct (Nat.leb (e_start e) pos && Nat.ltb pos (e_end e)).
        * rewrite map_app, IH. f_equal. destruct (Nat.eqb pos (e_start e)); [|reflexivity].
          rewrite map_map. reflexivity.
        * cbn [map unit_of]. f_equal. apply IH.
    - f_equal. apply IH.
  Qed.
End P.

(* ---------------- flattening: the pieces of a paragraph are its units ---------------- *)
Lemma nth_run_app_r pre r rest : nth_run (pre ++ r :: rest) (List.length pre) = r.
Proof. unfold nth_run. rewrite app_nth2 by lia. rewrite Nat.sub_diag. reflexivity. Qed.

Lemma flatten_units_from : forall rest pre,
  map (unit_of (pre ++ rest)) (flatten_from (List.length pre) rest) = units rest.
Proof.
  induction rest as [|r rest IH]; intros pre; [reflexivity|].
  cbn [flatten_from units flat_map]. rewrite map_app. f_equal.
  - unfold run_pieces. rewrite map_app, map_map. f_equal.
    + apply map_ext. intros b. cbn [unit_of]. rewrite nth_run_app_r. reflexivity.
    + destruct ((match r_text r with [] => true | _ => false end) || r_other r); [|reflexivity].
      cbn [map unit_of]. rewrite nth_run_app_r. reflexivity.
  - specialize (IH (pre ++ [r])). rewrite <- app_assoc in IH. cbn [app] in IH.
    rewrite app_length in IH. cbn [List.length] in IH. rewrite Nat.add_1_r in IH. exact IH.
Qed.

Lemma flatten_units rs : map (unit_of rs) (flatten rs) = units rs.
Proof. exact (flatten_units_from rs []). Qed.

(* ---------------- regrouping loses nothing ---------------- *)
Lemma take_src_spec i : forall ps bs rest, take_src i ps = (bs, rest) ->
  ps = map (fun b => PB b i) bs ++ rest /\ List.length rest <= List.length ps.
Proof.
  induction ps as [|p r IH]; intros bs rest H.
  - injection H as <- <-. split; [reflexivity | lia].
  - destruct p as [b j|j]; cbn [take_src] in H.
    + destruct (Nat.eqb_spec i j) as [->|Hij].
      * destruct (take_src j r) as [bs' rest'] eqn:E. injection H as <- <-.
        destruct (IH bs' rest' eq_refl) as [E1 E2]. split; [cbn [map app]; rewrite <- E1; reflexivity | cbn [List.length]; lia].
      * injection H as <- <-. split; [reflexivity | lia].
    + injection H as <- <-. split; [reflexivity | lia].
Qed.

Lemma regroup_units rs : forall fuel ps, List.length ps < fuel ->
  units (regroup fuel rs ps) = map (unit_of rs) ps.
Proof.
  induction fuel as [|k IH]; intros ps H; [lia|].
  destruct ps as [|p r]; [reflexivity|]. cbn [List.length] in H.
  destruct p as [b i|i]; cbn [regroup].
  - destruct (take_src i r) as [bs rest] eqn:E. destruct (take_src_spec i r bs rest E) as [E1 E2].
    cbn [units flat_map r_text r_fmt r_other orb app]. rewrite app_nil_r.
    fold (units (regroup k rs rest)). rewrite IH by lia.
    rewrite E1. cbn [map unit_of]. rewrite map_app, map_map. reflexivity.
  - cbn [units flat_map r_text r_fmt r_other orb map app]. fold (units (regroup k rs r)). rewrite IH by lia. reflexivity.
Qed.

(* ---------------- the theorem ---------------- *)
Definition rendered (holds : list N -> bool) (vars : list (list N * list N)) (rs : list run) : list run :=
  match render_paragraph holds vars rs with Some out => out | None => rs end.

Lemma apply_edits_u_nil : forall us pos, apply_edits_u us pos [] = us.
Proof.
  induction us as [|u r IH]; intros pos; [reflexivity|]. destruct u as [b f|f o]; cbn [apply_edits_u]; rewrite IH; reflexivity.
Qed.

Lemma utext_nil_units rs : utext (units rs) = [] -> forall es pos, apply_edits_u (units rs) pos es = units rs.
Proof.
  generalize (units rs). induction l as [|u r IH]; intros H es pos; [reflexivity|].
  destruct u as [b f|f o]; [discriminate H|]. cbn [apply_edits_u]. f_equal. apply IH. exact H.
Qed.

Theorem render_paragraph_units holds vars rs :
  units (rendered holds vars rs) = render_units holds vars (units rs).
Proof.
  unfold rendered, render_paragraph, render_units.
  pose proof (flatten_units rs) as F.
  assert (ptext (flatten rs) = utext (units rs)) as T0 by (rewrite (ptext_utext rs), F; reflexivity).
  rewrite T0.
  destruct (utext (units rs)) as [|c0 t0] eqn:U0.
  - (* no text at all: nothing to do *)
    rewrite !utext_nil_units by exact U0. reflexivity.
  - set (ce := cond_edits (find_conds holds (c0 :: t0) 0 0)).
    assert (map (unit_of rs) (apply_edits (flatten rs) 0 ce) = apply_edits_u (units rs) 0 ce) as E1
      by (rewrite apply_edits_units, F; reflexivity).
    assert (ptext (apply_edits (flatten rs) 0 ce) = utext (apply_edits_u (units rs) 0 ce)) as T1
      by (rewrite (ptext_utext rs), E1; reflexivity).
    rewrite T1.
    set (u1 := apply_edits_u (units rs) 0 ce) in *.
    set (ve := var_edits vars (find_vars (utext u1) 0 0)).
    assert (map (unit_of rs) (apply_edits (apply_edits (flatten rs) 0 ce) 0 ve) = apply_edits_u u1 0 ve) as E2
      by (rewrite apply_edits_units, E1; reflexivity).
    destruct ce as [|e1 ce'] eqn:Ece; destruct ve as [|e2 ve'] eqn:Eve.
    + (* no edit *) unfold u1. rewrite !apply_edits_u_nil. reflexivity.
    + rewrite regroup_units by lia. exact E2.
    + rewrite regroup_units by lia. exact E2.
    + rewrite regroup_units by lia. exact E2.
Qed.

(* the specification itself never touches an anchor: runs without text stay, in their order *)
Definition is_anchor_u (u : unit) : bool := match u with UA _ _ => true | UB _ _ => false end.

Lemma apply_edits_u_anchors : forall us pos es,
  filter is_anchor_u (apply_edits_u us pos es) = filter is_anchor_u us.
Proof.
  induction us as [|u r IH]; intros pos es; [reflexivity|].
  destruct u as [b f|f o]; cbn [apply_edits_u filter is_anchor_u].
  - set (sk := (fix skip (es0 : list edit) : list edit :=
                  match es0 with
                  | e :: es' => if Nat.leb (e_end e) pos && Nat.ltb (e_start e) (e_end e) then skip es' else es0
                  | [] => []
                  end) es).
    destruct sk as [|e es']; [cbn [filter is_anchor_u]; apply IH|].
    destruct (Nat.leb (e_start e) pos && Nat.ltb pos (e_end e)).
    + rewrite filter_app, IH.
      assert (filter is_anchor_u (if Nat.eqb pos (e_start e) then map (fun c => UB c f) (e_with e) else []) = []) as Z.
      { destruct (Nat.eqb pos (e_start e)); [|reflexivity]. induction (e_with e) as [|c l IHl]; [reflexivity | exact IHl]. }
      rewrite Z. reflexivity.
    + cbn [filter is_anchor_u]. apply IH.
  - f_equal. apply IH.
Qed.

Theorem render_units_anchors holds vars us :
  filter is_anchor_u (render_units holds vars us) = filter is_anchor_u us.
Proof. unfold render_units. rewrite !apply_edits_u_anchors. reflexivity. Qed.

(* two ways of cutting the same formatted text into runs render to the same formatted text *)
Corollary segmentation_irrelevant holds vars rs1 rs2 :
  units rs1 = units rs2 -> units (rendered holds vars rs1) = units (rendered holds vars rs2).
Proof. intros H. rewrite !render_paragraph_units, H. reflexivity. Qed.

(* outside every edit nothing changes: with no defined variable and no conditional the paragraph is left alone *)
Theorem no_edits_same us : forall pos, apply_edits_u us pos [] = us.
Proof. intros pos. apply apply_edits_u_nil. Qed.

(* a placeholder cut over three differently formatted runs, a page break in front and one behind, a conditional
   that encloses a variable: "<br>Dear {{na|me}}{{#if vip}}, VIP {{title}}{{/if}}!<br>" *)
Definition ex_runs : list run :=
  [mkRun 9 [] true;
   mkRun 1 [68; 101; 97; 114; 32; 123; 123; 110]%N false;                      (* Dear {{n *)
   mkRun 2 [97; 109; 101; 125]%N false;                                         (* ame} *)
   mkRun 3 [125; 123; 123; 35; 105; 102; 32; 118; 105; 112; 125; 125; 44; 32; 123; 123; 116]%N false;  (* }{{#if vip}}, {{t *)
   mkRun 4 [125; 125; 123; 123; 47; 105; 102; 125; 125; 33]%N true].           (* }}{{/if}}! with a page break in the same run *)
Definition ex_vars : list (list N * list N) := [([110; 97; 109; 101]%N, [65; 110; 110]%N); ([116]%N, [68; 114]%N)].
Definition ex_holds (c : list N) : bool := bytes_eqb c [118; 105; 112]%N.

Example ex_rendered :
  units (rendered ex_holds ex_vars ex_runs)
  = [UA 9 true;
     UB 68 1; UB 101 1; UB 97 1; UB 114 1; UB 32 1;     (* "Dear " keeps the first run's formatting *)
     UB 65 1; UB 110 1; UB 110 1;                        (* the value takes the formatting of the run where {{ starts *)
     UB 44 3; UB 32 3;                                   (* ", " from inside the kept branch *)
     UB 68 3; UB 114 3;                                  (* the second value *)
     UB 33 4; UA 4 true].                                (* "!" and the page break of the last run *)
Proof. vm_compute. reflexivity. Qed.

(* ---------------- the text of the rendered paragraph is the rendered text of the paragraph ---------------- *)
Lemma utext_app a b : utext (a ++ b) = utext a ++ utext b.
Proof. unfold utext. apply flat_map_app. Qed.

Lemma utext_map_ub f l : utext (map (fun c => UB c f) l) = l.
Proof. induction l as [|c r IH]; [reflexivity|]. unfold utext in *. cbn [map flat_map app]. rewrite IH. reflexivity. Qed.

Lemma apply_edits_text : forall us pos es, utext (apply_edits_u us pos es) = apply_edits_t (utext us) pos es.
Proof.
  induction us as [|u r IH]; intros pos es; [reflexivity|].
  destruct u as [b f|f o].
  - change (utext (UB b f :: r)) with (b :: utext r). cbn [apply_edits_u apply_edits_t].
    set (sk := (fix skip (es0 : list edit) : list edit :=
                  match es0 with
                  | e :: es' => if Nat.leb (e_end e) pos && Nat.ltb (e_start e) (e_end e) then skip es' else es0
                  | [] => []
                  end) es).
    destruct sk as [|e es'].
    + change (utext (UB b f :: apply_edits_u r (S pos) [])) with (b :: utext (apply_edits_u r (S pos) [])).
      rewrite IH. reflexivity.
    + destruct (Nat.leb (e_start e) pos && Nat.ltb pos (e_end e)).
      * rewrite utext_app, IH. f_equal. destruct (Nat.eqb pos (e_start e)); [apply utext_map_ub | reflexivity].
      * change (utext (UB b f :: apply_edits_u r (S pos) (e :: es'))) with (b :: utext (apply_edits_u r (S pos) (e :: es'))).
        rewrite IH. reflexivity.
  - change (utext (UA f o :: r)) with (utext r). cbn [apply_edits_u].
    change (utext (UA f o :: apply_edits_u r pos es)) with (utext (apply_edits_u r pos es)). apply IH.
Qed.

(* formatting, the cutting into runs and the anchors have no influence on the text: it is the text-level rendering of
   the paragraph's text *)
Theorem render_units_text holds vars us : utext (render_units holds vars us) = render_text holds vars (utext us).
Proof.
  unfold render_units, render_text. rewrite !apply_edits_text. reflexivity.
Qed.
