(* Proofs about M-RAW (Model/RawPart.v). *)
From Coq Require Import String Ascii List Bool Arith ZArith Lia.
Import ListNotations.
From WZ Require Import Model.RawPart.
Open Scope string_scope.
Open Scope list_scope.

Lemma sapp_assoc (a b c : string) : append (append a b) c = append a (append b c).
Proof. induction a as [|x a IH]; cbn; [reflexivity | rewrite IH; reflexivity]. Qed.
Lemma sapp_nil_r (a : string) : append a "" = a.
Proof. induction a as [|x a IH]; cbn; [reflexivity | rewrite IH; reflexivity]. Qed.
Lemma sconcat_app l m : sconcat (l ++ m) = append (sconcat l) (sconcat m).
Proof. induction l as [|x l IH]; cbn; [reflexivity | rewrite IH, sapp_assoc; reflexivity]. Qed.
Lemma raw_of_app a b : raw_of (a ++ b) = append (raw_of a) (raw_of b).
Proof. unfold raw_of. rewrite map_app. apply sconcat_app. Qed.

(* ---------------- induction over trees ---------------- *)
Section node_ind.
  Variable P : node -> Prop.
  Hypothesis Helem : forall l a o c ks, Forall P ks -> P (NElem l a o c ks).
  Hypothesis Hother : forall r, P (NOther r).
  Fixpoint node_ind' (n : node) : P n :=
    match n with
    | NElem l a o c ks =>
        Helem l a o c ks ((fix go (ks : list node) : Forall P ks :=
                           match ks with [] => Forall_nil P | k :: r => Forall_cons k (node_ind' k) (go r) end) ks)
    | NOther r => Hother r
    end.
End node_ind.

Lemma raw_of_elem l a o c ks :
  raw_of (toks (NElem l a o c ks)) = append o (append (raw_of (flat_map toks ks)) c).
Proof.
  cbn [toks]. unfold raw_of at 1. cbn [map sconcat t_raw]. fold (raw_of (flat_map toks ks ++ [mkTok KEnd l [] c])).
  rewrite raw_of_app. unfold raw_of at 2. cbn [map sconcat t_raw]. rewrite sapp_nil_r. reflexivity.
Qed.

(* inside a child (depth 2 or more) everything is collected as text, whatever it is *)
Definition inside (n : node) : Prop :=
  forall rl d rs cl ca cr acc rest, 2 <= d ->
    scan rl (toks n ++ rest) d rs cl ca cr acc = scan rl rest d rs cl ca (append cr (raw_of (toks n))) acc.

Lemma inside_list ks : Forall inside ks ->
  forall rl d rs cl ca cr acc rest, 2 <= d ->
    scan rl (flat_map toks ks ++ rest) d rs cl ca cr acc = scan rl rest d rs cl ca (append cr (raw_of (flat_map toks ks))) acc.
Proof.
  induction 1 as [|k ks Hk _ IH]; intros rl d rs cl ca cr acc rest Hd.
  - cbn [flat_map app]. unfold raw_of. cbn [map sconcat]. rewrite sapp_nil_r. reflexivity.
  - cbn [flat_map]. rewrite <- app_assoc. rewrite (Hk rl d rs cl ca cr acc _ Hd). rewrite (IH rl d rs cl ca _ acc rest Hd).
    rewrite raw_of_app, sapp_assoc. reflexivity.
Qed.

Lemma all_inside : forall n, inside n.
Proof.
  induction n as [l a o c ks IH | r] using node_ind'; unfold inside; intros rl d rs cl ca cr acc rest Hd.
  - destruct d as [|[|d]]; [lia | lia |].
    rewrite raw_of_elem.
    cbn [toks]. rewrite <- app_comm_cons. cbn [scan t_kind t_raw].
    rewrite <- app_assoc. rewrite (inside_list ks IH rl (S (S (S d))) rs cl ca _ acc _ ltac:(lia)).
    cbn [app scan t_kind t_raw pred].
    rewrite !sapp_assoc. reflexivity.
  - destruct d as [|[|d]]; [lia | lia |].
    cbn [toks app scan t_kind t_raw]. unfold raw_of. cbn [map sconcat t_raw]. rewrite sapp_nil_r. reflexivity.
Qed.

(* between the children (depth 1): an element becomes a child with its whole text, anything else is dropped *)
Lemma children_collected rl : forall ks rs cl ca cr acc rest,
  exists cl' ca' cr',
    scan rl (flat_map toks ks ++ rest) 1 rs cl ca cr acc = scan rl rest 1 rs cl' ca' cr' (acc ++ flat_map child_of ks).
Proof.
  induction ks as [|k ks IH]; intros rs cl ca cr acc rest.
  - exists cl, ca, cr. cbn [flat_map app]. rewrite app_nil_r. reflexivity.
  - cbn [flat_map]. rewrite <- app_assoc. destruct k as [l a o c sub | r].
    + cbn [toks]. rewrite <- app_comm_cons. cbn [scan t_kind t_local t_attrs t_raw].
      rewrite <- app_assoc.
      assert (Forall inside sub) as Hsub by (apply Forall_forall; intros; apply all_inside).
      rewrite (inside_list sub Hsub rl 2 rs l a o acc _ ltac:(lia)).
      cbn [app scan t_kind t_raw].
      destruct (IH rs l a (append o (raw_of (flat_map toks sub))) (acc ++ [mkChild l a (append (append o (raw_of (flat_map toks sub))) c)]) rest) as [cl' [ca' [cr' E]]].
      exists cl', ca', cr'. rewrite E. f_equal.
      cbn [child_of app]. rewrite raw_of_elem, <- app_assoc, sapp_assoc. reflexivity.
    + cbn [toks app scan t_kind]. destruct (IH rs cl ca cr acc rest) as [cl' [ca' [cr' E]]]. exists cl', ca', cr'. rewrite E. reflexivity.
Qed.

(* outside the root (depth 0) text, comments and processing instructions are ignored *)
Definition others (ns : list node) : Prop := Forall (fun n => exists r, n = NOther r) ns.

Lemma outside_ignored rl : forall ns rs cl ca cr acc rest, others ns ->
  scan rl (flat_map toks ns ++ rest) 0 rs cl ca cr acc = scan rl rest 0 rs cl ca cr acc.
Proof.
  induction ns as [|n ns IH]; intros rs cl ca cr acc rest H; [reflexivity|].
  inversion H as [|x l [r Hr] Hrest]; subst. cbn [flat_map toks app scan t_kind]. apply IH. exact Hrest.
Qed.

(* the reader on any well-formed part whose root has the expected local name: the start tag as it stands in the
   source, and the element children of the root, each with the text it spans, in order; nothing else *)
Theorem read_raw_wellformed : forall rl a o c ks pro epi,
  others pro -> others epi ->
  read_raw (flat_map toks pro ++ toks (NElem rl a o c ks) ++ flat_map toks epi) rl
  = Some (mkPart o (declares_w a) (flat_map child_of ks)).
Proof.
  intros rl a o c ks pro epi Hp He. unfold read_raw.
  rewrite (outside_ignored rl pro None "" [] "" [] _ Hp).
  cbn [toks]. rewrite <- app_comm_cons. cbn [scan t_kind t_local t_attrs t_raw]. rewrite String.eqb_refl.
  rewrite <- app_assoc.
  destruct (children_collected rl ks (Some (o, declares_w a)) "" [] "" [] ([mkTok KEnd rl [] c] ++ flat_map toks epi)) as [cl' [ca' [cr' E]]].
  rewrite E. cbn [app scan t_kind].
  rewrite <- (app_nil_r (flat_map toks epi)). rewrite (outside_ignored rl epi (Some (o, declares_w a)) cl' ca' cr' _ [] He).
  cbn [scan]. reflexivity.
Qed.

(* another root: the part is not taken over *)
Theorem read_raw_other_root : forall rl l a o c ks pro rest,
  others pro -> String.eqb l rl = false ->
  read_raw (flat_map toks pro ++ toks (NElem l a o c ks) ++ rest) rl = None.
Proof.
  intros rl l a o c ks pro rest Hp Hne. unfold read_raw. rewrite (outside_ignored rl pro None "" [] "" [] _ Hp).
  cbn [toks]. rewrite <- app_comm_cons. cbn [scan t_kind t_local]. rewrite Hne. reflexivity.
Qed.

(* ---------------- the end tag names the element the start tag opens ---------------- *)
Lemma take_name_stop q d rest :
  forallb (fun c => negb (is_delim c)) q = true -> is_delim d = true -> take_name (q ++ d :: rest) = q.
Proof.
  induction q as [|c q IH]; intros Hq Hd; cbn [app take_name].
  - rewrite Hd. reflexivity.
  - cbn [forallb] in Hq. apply andb_true_iff in Hq. destruct Hq as [Hc Hq]. apply negb_true_iff in Hc. rewrite Hc.
    rewrite IH by assumption. reflexivity.
Qed.

Lemma root_name_of_tag q d rest :
  forallb (fun c => negb (is_delim c)) q = true -> is_delim d = true ->
  root_name_l (lt_char :: q ++ d :: rest) = q.
Proof. intros Hq Hd. unfold root_name_l. rewrite Ascii.eqb_refl. apply take_name_stop; assumption. Qed.

(* a tail that begins with a delimiter still does after the two edits, which only touch the end of the tag *)
Definition starts_delim (t : list ascii) : Prop := exists d r, t = d :: r /\ is_delim d = true.
Definition name_ok (q : list ascii) : Prop := forallb (fun c => negb (is_delim c)) q = true.

Lemma strip_sc_cons3 a b c r : strip_sc (a :: b :: c :: r) = a :: strip_sc (b :: c :: r).
Proof. reflexivity. Qed.

Lemma strip_sc_app_ge2 : forall p t, 2 <= length t -> strip_sc (p ++ t) = p ++ strip_sc t.
Proof.
  induction p as [|a p IH]; intros t Ht; [reflexivity|].
  cbn [app]. specialize (IH t Ht).
  assert (2 <= length (p ++ t)) as Hl by (rewrite app_length; lia).
  destruct (p ++ t) as [|b [|c r]] eqn:E; cbn [length] in Hl; [lia | lia |].
  rewrite strip_sc_cons3, IH. reflexivity.
Qed.

Lemma slash_is_delim : is_delim slash = true.
Proof. reflexivity. Qed.
Lemma gt_is_delim : is_delim gt_char = true.
Proof. reflexivity. Qed.
Lemma lt_not_slash : Ascii.eqb lt_char slash = false.
Proof. reflexivity. Qed.

Lemma strip_sc_keeps_name q d rest :
  name_ok q -> is_delim d = true ->
  exists t, strip_sc (lt_char :: q ++ d :: rest) = lt_char :: q ++ t /\ starts_delim t.
Proof.
  intros Hq Hd. destruct rest as [|y r].
  - (* the tail is one character: nothing can be stripped, the character before it is not a slash *)
    exists [d]. split; [|exists d, []; split; [reflexivity | exact Hd]].
    destruct q as [|z q' _] using rev_ind.
    + cbn [app strip_sc]. rewrite lt_not_slash. reflexivity.
    + rewrite <- app_assoc. cbn [app]. change (lt_char :: q' ++ [z; d]) with ((lt_char :: q') ++ [z; d]).
      rewrite strip_sc_app_ge2 by (cbn; lia). cbn [strip_sc].
      assert (Ascii.eqb z slash = false) as Hz.
      { unfold name_ok in Hq. rewrite forallb_app in Hq. apply andb_true_iff in Hq. destruct Hq as [_ Hq].
        cbn [forallb] in Hq. rewrite andb_true_r in Hq. apply negb_true_iff in Hq.
        destruct (Ascii.eqb_spec z slash) as [->|]; [rewrite slash_is_delim in Hq; discriminate | reflexivity]. }
      rewrite Hz. reflexivity.
  - change (lt_char :: q ++ d :: y :: r) with ((lt_char :: q) ++ d :: y :: r).
    rewrite strip_sc_app_ge2 by (cbn; lia).
    destruct r as [|z r].
    + cbn [strip_sc]. destruct (Ascii.eqb d slash && Ascii.eqb y gt_char).
      * exists [gt_char]. split; [reflexivity | exists gt_char, []; split; [reflexivity | exact gt_is_delim]].
      * exists [d; y]. split; [reflexivity | exists d, [y]; split; [reflexivity | exact Hd]].
    + exists (d :: strip_sc (y :: z :: r)). split; [reflexivity | eexists d, _; split; [reflexivity | exact Hd]].
Qed.

Lemma add_ns_keeps_name q t w x :
  starts_delim t ->
  exists t', add_ns (lt_char :: q ++ t) w x = lt_char :: q ++ t' /\ starts_delim t'.
Proof.
  intros [d [r [E Hd]]]. subst t. unfold add_ns. destruct w.
  - exists (d :: r). split; [reflexivity | exists d, r; split; [reflexivity | exact Hd]].
  - change (lt_char :: q ++ d :: r) with ((lt_char :: q) ++ d :: r).
    rewrite removelast_app by discriminate. rewrite <- app_assoc.
    destruct r as [|y r].
    + cbn [removelast app]. eexists. split; [reflexivity|].
      unfold chars. cbn [append list_ascii_of_string]. eexists _, _. split; [reflexivity | reflexivity].
    + eexists. split; [reflexivity|]. cbn [removelast]. eexists d, _. split; [reflexivity | exact Hd].
Qed.

(* whatever the start tag looks like after its name - attributes or none, self-closing or not, a declaration of the
   prefix w or none - the tag that is written still opens the element named q, and the end tag names q *)
Theorem close_matches_open : forall q d rest w x,
  name_ok q -> is_delim d = true ->
  root_name_l (lt_char :: q ++ d :: rest) = q /\
  exists t, open_tag_l (lt_char :: q ++ d :: rest) w x = lt_char :: q ++ t /\ starts_delim t.
Proof.
  intros q d rest w x Hq Hd. split; [apply root_name_of_tag; assumption|].
  unfold open_tag_l. destruct (strip_sc_keeps_name q d rest Hq Hd) as [t [E Ht]]. rewrite E.
  apply add_ns_keeps_name. exact Ht.
Qed.

Lemma chars_str cs : chars (str cs) = cs.
Proof. unfold chars, str. apply list_ascii_of_string_of_list_ascii. Qed.

(* the same for a part that was read: the two tags the writers put around the content *)
Theorem part_tags_match : forall q d rest w kids x,
  name_ok q -> is_delim d = true ->
  let p := mkPart (str (lt_char :: q ++ d :: rest)) w kids in
  close_tag p = ("</" ++ str q ++ ">")%string /\
  exists t, open_tag p x = str (lt_char :: q ++ t) /\ starts_delim t.
Proof.
  intros q d rest w kids x Hq Hd p. unfold close_tag, open_tag, p. cbn [p_start p_declw]. rewrite chars_str.
  destruct (close_matches_open q d rest w x Hq Hd) as [E [t [Et Ht]]]. rewrite E. split; [reflexivity|].
  exists t. rewrite Et. split; [reflexivity | exact Ht].
Qed.

(* worked example: a numbering part under the default namespace, root closing itself, blank and newline in the tag *)
Definition ex_start : string := "<numbering
  xmlns=""urn:x""/>".
Example ex_tags :
  open_tag (mkPart ex_start false []) "urn:w" = "<numbering
  xmlns=""urn:x"" xmlns:w=""urn:w"">" /\ close_tag (mkPart ex_start false []) = "</numbering>".
Proof. split; reflexivity. Qed.

Definition ex_doc : list tok :=
  [mkTok KOther "" [] "<?xml version=""1.0""?>";
   mkTok KStart "numbering" [("ns0", "urn:w"); ("xmlns:ns0", "urn:w")] "<ns0:numbering xmlns:ns0=""urn:w"">";
   mkTok KOther "" [] " ";
   mkTok KStart "abstractNum" [("abstractNumId", "5")] "<ns0:abstractNum ns0:abstractNumId=""5"">";
   mkTok KStart "lvl" [] "<ns0:lvl/>"; mkTok KEnd "lvl" [] "";
   mkTok KEnd "abstractNum" [] "</ns0:abstractNum>";
   mkTok KOther "" [] "<!-- c -->";
   mkTok KStart "num" [("numId", "9")] "<ns0:num ns0:numId=""9""/>"; mkTok KEnd "num" [] "";
   mkTok KEnd "numbering" [] "</ns0:numbering>"].
Example ex_read :
  read_raw ex_doc "numbering" =
  Some (mkPart "<ns0:numbering xmlns:ns0=""urn:w"">" false
          [mkChild "abstractNum" [("abstractNumId", "5")] "<ns0:abstractNum ns0:abstractNumId=""5""><ns0:lvl/></ns0:abstractNum>";
           mkChild "num" [("numId", "9")] "<ns0:num ns0:numId=""9""/>"]).
Proof. reflexivity. Qed.
Example ex_written :
  match read_raw ex_doc "numbering" with
  | Some p => numbering_with_existing p "urn:w" ["<w:abstractNum/>"] ["<w:num/>"]
  | None => ""
  end =
  "<ns0:numbering xmlns:ns0=""urn:w"" xmlns:w=""urn:w"">
  <ns0:abstractNum ns0:abstractNumId=""5""><ns0:lvl/></ns0:abstractNum>
<w:abstractNum/>
  <ns0:num ns0:numId=""9""/>
<w:num/>
</ns0:numbering>".
Proof. reflexivity. Qed.

Example ex_next_ids :
  match read_raw ex_doc "numbering" with
  | Some p => (next_abs_id (p_children p), next_num_id (p_children p))
  | None => (0, 0)%Z
  end = (6, 10)%Z.
Proof. reflexivity. Qed.

(* ---------------- ids handed out after the takeover are new ---------------- *)
Lemma max_id_ge k : forall cs from, (from <= max_id k from cs)%Z.
Proof.
  unfold max_id. induction cs as [|c cs IH]; intros from; cbn [fold_left]; [lia|].
  destruct (id_of k c) as [i|]; [|apply IH].
  destruct (Z.ltb_spec from i); [specialize (IH i); lia | apply IH].
Qed.

Lemma max_id_bound k : forall cs from c i, In c cs -> id_of k c = Some i -> (i <= max_id k from cs)%Z.
Proof.
  unfold max_id. induction cs as [|x cs IH]; intros from c i Hin Hid; [contradiction|].
  cbn [fold_left]. destruct Hin as [->|Hin].
  - rewrite Hid. destruct (Z.ltb_spec from i).
    + apply (max_id_ge k cs i).
    + pose proof (max_id_ge k cs from). unfold max_id in *. lia.
  - apply (IH _ c i Hin Hid).
Qed.

(* every abstract definition / instance that was kept and carries a numeric id has an id below the next one *)
Theorem next_abs_id_fresh cs c i :
  In c cs -> is_abs c = true -> id_of "abstractNumId" c = Some i -> (i < next_abs_id cs)%Z.
Proof.
  intros Hin Ha Hid. unfold next_abs_id.
  assert (In c (filter is_abs cs)) as Hf by (apply filter_In; split; assumption).
  pose proof (max_id_bound "abstractNumId" _ (-1)%Z c i Hf Hid). lia.
Qed.
Theorem next_num_id_fresh cs c i :
  In c cs -> is_num c = true -> id_of "numId" c = Some i -> (i < next_num_id cs)%Z.
Proof.
  intros Hin Ha Hid. unfold next_num_id.
  assert (In c (filter is_num cs)) as Hf by (apply filter_In; split; assumption).
  pose proof (max_id_bound "numId" _ 0%Z c i Hf Hid). lia.
Qed.

Lemma next_note_ge note : forall cs from,
  (from <= fold_left (fun nx c => if is_real_note note c
                         then match id_of "id" c with Some i => if (nx <=? i)%Z then (i + 1)%Z else nx | None => nx end
                         else nx) cs from)%Z.
Proof.
  induction cs as [|c cs IH]; intros from; cbn [fold_left]; [lia|].
  destruct (is_real_note note c); [|apply IH]. destruct (id_of "id" c) as [i|]; [|apply IH].
  destruct (Z.leb_spec from i); [specialize (IH (i + 1)%Z); lia | apply IH].
Qed.

Lemma next_note_gt note : forall cs from c i,
  In c cs -> is_real_note note c = true -> id_of "id" c = Some i ->
  (i < fold_left (fun nx c => if is_real_note note c
                         then match id_of "id" c with Some i => if (nx <=? i)%Z then (i + 1)%Z else nx | None => nx end
                         else nx) cs from)%Z.
Proof.
  induction cs as [|x cs IH]; intros from c i Hin Hr Hid; [contradiction|].
  cbn [fold_left]. destruct Hin as [->|Hin].
  - rewrite Hr, Hid. destruct (Z.leb_spec from i).
    + pose proof (next_note_ge note cs (i + 1)%Z). lia.
    + pose proof (next_note_ge note cs from). lia.
  - apply (IH _ c i Hin Hr Hid).
Qed.

Theorem next_note_id_fresh note cs c i :
  In c cs -> is_real_note note c = true -> id_of "id" c = Some i -> (i < next_note_id note cs)%Z /\ (1 <= next_note_id note cs)%Z.
Proof.
  unfold next_note_id. intros Hin Hr Hid. split; [apply (next_note_gt note cs 1%Z c i Hin Hr Hid) | apply next_note_ge].
Qed.

(* the repaired case: the declaration is there, with blanks around the equals sign - nothing is added *)
Example ex_declared_with_blanks :
  match read_raw [mkTok KStart "footnotes" [("w", "urn:w"); ("xmlns:w", "urn:w")] "<w:footnotes xmlns:w = ""urn:w"">";
                  mkTok KEnd "footnotes" [] "</w:footnotes>"] "footnotes" with
  | Some p => open_tag p "urn:w"
  | None => ""
  end = "<w:footnotes xmlns:w = ""urn:w"">".
Proof. reflexivity. Qed.
