(* Proofs about M-MDW: blocks are written in body order; merging runs of equal formatting keeps every character;
   escaping is undone by unescaping; a formatted run carries its whole text exactly once between its markers. *)
From Coq Require Import String Ascii List Bool Arith Lia.
Import ListNotations.
Require Import WZ.Model.MdWrite.
Open Scope string_scope.
Open Scope list_scope.

Lemma sapp_assoc (a b c : string) : append (append a b) c = append a (append b c).
Proof. induction a as [|ch a IH]; cbn [append]; [reflexivity | rewrite IH; reflexivity]. Qed.
Lemma sapp_nil_r (a : string) : append a "" = a.
Proof. induction a as [|ch a IH]; cbn [append]; [reflexivity | rewrite IH; reflexivity]. Qed.
Lemma sconcat_app l m : sconcat (l ++ m) = append (sconcat l) (sconcat m).
Proof. induction l as [|x r IH]; cbn [app sconcat append]; [reflexivity | rewrite IH, sapp_assoc; reflexivity]. Qed.

(* ---------------- order ---------------- *)
(* the text written for a list of blocks without the closing of a trailing list, and the state afterwards *)
Fixpoint write_body (o : wopts) (st : bool) (bs : list wblock) : string * bool :=
  match bs with
  | [] => ("", st)
  | b :: r => let '(s, st1) := write_block o st b in let '(s2, st2) := write_body o st1 r in (append s s2, st2)
  end.

Lemma write_from_body o : forall bs st, write_from o st bs = append (fst (write_body o st bs)) (end_list (snd (write_body o st bs))).
Proof.
  induction bs as [|b r IH]; intros st; [reflexivity|]. cbn [write_from write_body].
  destruct (write_block o st b) as [s st1]. rewrite (IH st1). destruct (write_body o st1 r) as [s2 st2]. cbn [fst snd].
  rewrite sapp_assoc. reflexivity.
Qed.

Lemma write_body_app o : forall a b st,
  write_body o st (a ++ b) =
  (append (fst (write_body o st a)) (fst (write_body o (snd (write_body o st a)) b)), snd (write_body o (snd (write_body o st a)) b)).
Proof.
  induction a as [|x r IH]; intros b st.
  - cbn [app write_body fst snd append]. destruct (write_body o st b); reflexivity.
  - cbn [app write_body]. destruct (write_block o st x) as [s st1]. rewrite (IH b st1).
    destruct (write_body o st1 r) as [s2 st2]. cbn [fst snd]. rewrite sapp_assoc. reflexivity.
Qed.

(* the Markdown of a body is the Markdown of its first part followed by the Markdown of the rest (written in the
   state the first part leaves): blocks appear in body order, each exactly once *)
Theorem blocks_in_body_order o a b :
  write o (a ++ b) = append (fst (write_body o false a)) (write_from o (snd (write_body o false a)) b).
Proof.
  unfold write. rewrite !write_from_body, write_body_app. cbn [fst snd]. rewrite sapp_assoc. reflexivity.
Qed.

(* ---------------- merging ---------------- *)
Theorem merge_keeps_text rs : sconcat (map w_text (merge_runs rs)) = sconcat (map w_text rs).
Proof.
  induction rs as [|r rest IH]; [reflexivity|]. cbn [merge_runs map sconcat]. rewrite <- IH.
  destruct (merge_runs rest) as [|m ms]; [reflexivity|].
  destruct (same_format r m); cbn [map sconcat w_text]; [rewrite sapp_assoc|]; reflexivity.
Qed.

Lemma same_format_flags a b : same_format a b = true ->
  w_bold a = w_bold b /\ w_italic a = w_italic b /\ w_strike a = w_strike b /\ w_code a = w_code b.
Proof.
  unfold same_format. intros H. apply andb_true_iff in H. destruct H as [H H4]. apply andb_true_iff in H. destruct H as [H H3].
  apply andb_true_iff in H. destruct H as [H1 H2]. repeat split; apply Bool.eqb_prop; assumption.
Qed.

(* ---------------- escaping ---------------- *)
Fixpoint unescape_chars (cs : list ascii) : list ascii :=
  match cs with
  | [] => []
  | c :: r =>
      match r with
      | d :: r' => if Ascii.eqb c bslash && needs_escape d then d :: unescape_chars r' else c :: unescape_chars r
      | [] => [c]
      end
  end.

Lemma bslash_needs_escape : needs_escape bslash = true.
Proof. reflexivity. Qed.

Theorem unescape_escape cs : unescape_chars (escape_chars cs) = cs.
Proof.
  induction cs as [|c r IH]; [reflexivity|]. cbn [escape_chars].
  destruct (needs_escape c) eqn:E.
  - cbn [unescape_chars]. rewrite Ascii.eqb_refl, E. cbn [andb]. rewrite IH. reflexivity.
  - (* c is copied; it is not a backslash *)
    assert (Ascii.eqb c bslash = false) as Hc.
    { destruct (Ascii.eqb_spec c bslash) as [->|]; [rewrite bslash_needs_escape in E; discriminate | reflexivity]. }
    destruct r as [|d r'].
    + reflexivity.
    + cbn [unescape_chars]. cbn [escape_chars] in *.
      destruct (needs_escape d) eqn:Ed.
      * cbn [unescape_chars] in IH. rewrite Hc. cbn [andb]. f_equal. exact IH.
      * rewrite Hc. cbn [andb]. f_equal. exact IH.
Qed.

(* ---------------- a run keeps its text ---------------- *)
Lemma take_drop_while p (cs : list ascii) : take_while p cs ++ drop_while p cs = cs.
Proof. induction cs as [|c r IH]; [reflexivity|]. cbn [take_while drop_while]. destruct (p c); [cbn [app]; rewrite IH|]; reflexivity. Qed.

Lemma take_while_app_stop p (a b : list ascii) : existsb (fun c => negb (p c)) a = true -> take_while p (a ++ b) = take_while p a.
Proof.
  induction a as [|c r IH]; intros H; [discriminate H|]. cbn [existsb] in H. cbn [app take_while].
  destruct (p c) eqn:E; [|reflexivity]. cbn [negb orb] in H. rewrite (IH H). reflexivity.
Qed.

Lemma drop_while_nonp p (cs : list ascii) : existsb (fun c => negb (p c)) cs = true -> existsb (fun c => negb (p c)) (drop_while p cs) = true.
Proof.
  induction cs as [|c r IH]; intros H; [discriminate H|]. cbn [existsb] in H. cbn [drop_while].
  destruct (p c) eqn:E; [apply IH; exact H|]. cbn [existsb]. rewrite E. reflexivity.
Qed.

Lemma existsb_rev {A} (f : A -> bool) l : existsb f (rev l) = existsb f l.
Proof.
  induction l as [|x r IH]; [reflexivity|]. cbn [rev existsb]. rewrite existsb_app. cbn [existsb]. rewrite IH, orb_false_r. apply orb_comm.
Qed.

(* blanks in front, the core, blanks behind: together the text, nothing else *)
Theorem trim_decompose p (cs : list ascii) : existsb (fun c => negb (p c)) cs = true ->
  take_while p cs ++ trim_with p cs ++ rev (take_while p (rev cs)) = cs.
Proof.
  intros H. unfold trim_with. set (d := drop_while p cs).
  assert (existsb (fun c => negb (p c)) (rev d) = true) as Hd by (rewrite existsb_rev; apply drop_while_nonp; exact H).
  assert (rev cs = rev d ++ rev (take_while p cs)) as E.
  { rewrite <- rev_app_distr. unfold d. rewrite take_drop_while. reflexivity. }
  rewrite E, (take_while_app_stop p _ _ Hd).
  rewrite <- rev_app_distr, take_drop_while, rev_involutive. apply take_drop_while.
Qed.

Lemma chars_str cs : chars (str cs) = cs.
Proof. unfold chars, str. apply list_ascii_of_string_of_list_ascii. Qed.
Lemma str_chars s : str (chars s) = s.
Proof. unfold chars, str. apply string_of_list_ascii_of_string. Qed.

(* a run that is not code and not blank is written as: its leading blanks, opening markers, its core with the
   metacharacters escaped, the closing markers, its trailing blanks - and leading blanks, core and trailing blanks are
   the run's text *)
Theorem format_run_keeps_text o r :
  w_code r = false -> all_space (chars (w_text r)) = false ->
  exists lead core trail opening closing,
    format_run o r = (str lead ++ opening ++ str (escape_chars core) ++ closing ++ str trail)%string /\
    lead ++ core ++ trail = chars (w_text r) /\ unescape_chars (escape_chars core) = core.
Proof.
  intros Hc Hs. unfold format_run. destruct (chars (w_text r)) as [|c0 cs0] eqn:E; [discriminate Hs|].
  rewrite Hc, Hs. set (cs := c0 :: cs0) in *.
  exists (take_while is_space cs), (trim_with is_space cs), (rev (take_while is_space (rev cs))).
  assert (existsb (fun c => negb (is_space c)) cs = true) as Hn.
  { clear - Hs. unfold all_space in Hs. induction cs as [|c r IH]; [discriminate Hs|]. cbn [forallb] in Hs. cbn [existsb].
    destruct (is_space c); [apply IH; exact Hs | reflexivity]. }
  exists ((if w_strike r then "~~" else "") ++ (if w_bold r then (if w_italic r then "***" else "**") else if w_italic r then o_emph o else ""))%string.
  exists ((if w_bold r then (if w_italic r then "***" else "**") else if w_italic r then o_emph o else "") ++ (if w_strike r then "~~" else ""))%string.
  split; [|split; [apply trim_decompose; exact Hn | apply unescape_escape]].
  destruct (w_bold r), (w_italic r), (w_strike r); repeat rewrite sapp_assoc; cbn [append]; repeat rewrite sapp_assoc; rewrite ?sapp_nil_r; reflexivity.
Qed.

(* the worked example of the property: every kind of block, metacharacters, blanks at run ends, a code span with a
   backtick, a list followed by a paragraph *)
Definition ex_opts := mkWOpts true false "-" "*" false 80.
Definition ex_blocks : list wblock :=
  [WHeading 2 [mkWRun "Title #1" true false false false];
   WPara [mkWRun "plain " false false false false; mkWRun " bold " true false false false; mkWRun "it*al" false true false false;
          mkWRun "x`y" false false false true];
   WItem [mkWRun "- one" false false false false];
   WItem [mkWRun "two" false false true false];
   WPara [mkWRun "1. after" false false false false];
   WCode [mkWRun "  if a < b {" false false false false];
   WQuote [mkWRun "q" false false false false];
   WTable [[[[mkWRun "H" true false false false]]; [[mkWRun "a|b" false false false false]]]; [[[mkWRun "c" false false false false]]; [[]]]]].
Example ex_written :
  write ex_opts ex_blocks =
  "## **Title \#1**

plain  **bold** *it\*al*``x`y``

- \- one
- ~~two~~

1\. after

```
  if a < b {
```

> q

| H | a\|b |
|-----|-----|
| c |  |

".
Proof. vm_compute. reflexivity. Qed.
