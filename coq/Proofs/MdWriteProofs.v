(* Proofs about M-MDW: blocks are written in body order; merging runs of equal formatting keeps every character;
   escaping is undone by unescaping; a formatted run carries its whole text exactly once between its markers. *)
From Coq Require Import String Ascii List Bool Arith Lia.
Import ListNotations.
Require Import WZ.Model.MdWrite.
Open Scope string_scope.
Open Scope list_scope.

Lemma sapp_assoc (a b c : string) : append (append a b) c = append a (append b c).
Proof. induction a as [|ch a IH]; cbn [append]; [reflexivity | rewrite IH; reflexivity]. Qed.
Lemma sapp_nil_r (a : string) : append a "" = a.
Proof. induction a as [|ch a IH]; cbn [append]; [reflexivity | rewrite IH; reflexivity]. Qed.
Lemma sconcat_app l m : sconcat (l ++ m) = append (sconcat l) (sconcat m).
Proof. induction l as [|x r IH]; cbn [app sconcat append]; [reflexivity | rewrite IH, sapp_assoc; reflexivity]. Qed.

(* ---------------- order ---------------- *)
(* the text written for a list of blocks without the closing of a trailing list, and the state afterwards *)
Fixpoint write_body (o : wopts) (st : bool) (bs : list wblock) : string * bool :=
  match bs with
  | [] => ("", st)
  | b :: r => let '(s, st1) := write_block o st b in let '(s2, st2) := write_body o st1 r in (append s s2, st2)
  end.

Lemma write_from_body o : forall bs st, write_from o st bs = append (fst (write_body o st bs)) (end_list (snd (write_body o st bs))).
Proof.
  induction bs as [|b r IH]; intros st; [reflexivity|]. cbn [write_from write_body].
  destruct (write_block o st b) as [s st1]. rewrite (IH st1). destruct (write_body o st1 r) as [s2 st2]. cbn [fst snd].
  rewrite sapp_assoc. reflexivity.
Qed.

Lemma write_body_app o : forall a b st,
  write_body o st (a ++ b) =
  (append (fst (write_body o st a)) (fst (write_body o (snd (write_body o st a)) b)), snd (write_body o (snd (write_body o st a)) b)).
Proof.
  induction a as [|x r IH]; intros b st.
  - cbn [app write_body fst snd append]. destruct (write_body o st b); reflexivity.
  - cbn [app write_body]. destruct (write_block o st x) as [s st1]. rewrite (IH b st1).
    destruct (write_body o st1 r) as [s2 st2]. cbn [fst snd]. rewrite sapp_assoc. reflexivity.
Qed.

(* the Markdown of a body is the Markdown of its first part followed by the Markdown of the rest (written in the
   state the first part leaves): blocks appear in body order, each exactly once *)
Theorem blocks_in_body_order o a b :
  write o (a ++ b) = append (fst (write_body o false a)) (write_from o (snd (write_body o false a)) b).
Proof.
  unfold write. rewrite !write_from_body, write_body_app. cbn [fst snd]. rewrite sapp_assoc. reflexivity.
Qed.

(* ---------------- merging ---------------- *)
Theorem merge_keeps_text rs : sconcat (map w_text (merge_runs rs)) = sconcat (map w_text rs).
Proof.
  induction rs as [|r rest IH]; [reflexivity|]. cbn [merge_runs map sconcat]. rewrite <- IH.
  destruct (merge_runs rest) as [|m ms]; [reflexivity|].
  destruct (same_format r m); cbn [map sconcat w_text]; [rewrite sapp_assoc|]; reflexivity.
Qed.

Lemma same_format_flags a b : same_format a b = true ->
  w_bold a = w_bold b /\ w_italic a = w_italic b /\ w_strike a = w_strike b /\ w_code a = w_code b.
Proof.
  unfold same_format. intros H. apply andb_true_iff in H. destruct H as [H H4]. apply andb_true_iff in H. destruct H as [H H3].
  apply andb_true_iff in H. destruct H as [H1 H2]. repeat split; apply Bool.eqb_prop; assumption.
Qed.

(* ---------------- escaping ---------------- *)
Fixpoint unescape_chars (cs : list ascii) : list ascii :=
  match cs with
  | [] => []
  | c :: r =>
      match r with
      | d :: r' => if Ascii.eqb c bslash && needs_escape d then d :: unescape_chars r' else c :: unescape_chars r
      | [] => [c]
      end
  end.

Lemma bslash_needs_escape : needs_escape bslash = true.
Proof. reflexivity. Qed.

Theorem unescape_escape cs : unescape_chars (escape_chars cs) = cs.
Proof.
  induction cs as [|c r IH]; [reflexivity|]. cbn [escape_chars].
  destruct (needs_escape c) eqn:E.
  - cbn [unescape_chars]. rewrite Ascii.eqb_refl, E. cbn [andb]. rewrite IH. reflexivity.
  - (* c is copied; it is not a backslash *)
    assert (Ascii.eqb c bslash = false) as Hc.
    { destruct (Ascii.eqb_spec c bslash) as [->|]; [rewrite bslash_needs_escape in E; discriminate | reflexivity]. }
    destruct r as [|d r'].
    + reflexivity.
    + cbn [unescape_chars]. cbn [escape_chars] in *.
      destruct (needs_escape d) eqn:Ed.
      * cbn [unescape_chars] in IH. rewrite Hc. cbn [andb]. f_equal. exact IH.
      * rewrite Hc. cbn [andb]. f_equal. exact IH.
Qed.

(* ---------------- a run keeps its text ---------------- *)
Lemma take_drop_while p (cs : list ascii) : take_while p cs ++ drop_while p cs = cs.
Proof. induction cs as [|c r IH]; [reflexivity|]. cbn [take_while drop_while]. destruct (p c); [cbn [app]; rewrite IH|]; reflexivity. Qed.

Lemma take_while_app_stop p (a b : list ascii) : existsb (fun c => negb (p c)) a = true -> take_while p (a ++ b) = take_while p a.
Proof.
  induction a as [|c r IH]; intros H; [discriminate H|]. cbn [existsb] in H. cbn [app take_while].
  destruct (p c) eqn:E; [|reflexivity]. cbn [negb orb] in H. rewrite (IH H). reflexivity.
Qed.

Lemma drop_while_nonp p (cs : list ascii) : existsb (fun c => negb (p c)) cs = true -> existsb (fun c => negb (p c)) (drop_while p cs) = true.
Proof.
  induction cs as [|c r IH]; intros H; [discriminate H|]. cbn [existsb] in H. cbn [drop_while].
  destruct (p c) eqn:E; [apply IH; exact H|]. cbn [existsb]. rewrite E. reflexivity.
Qed.

Lemma existsb_rev {A} (f : A -> bool) l : existsb f (rev l) = existsb f l.
Proof.
  induction l as [|x r IH]; [reflexivity|]. cbn [rev existsb]. rewrite existsb_app. cbn [existsb]. rewrite IH, orb_false_r. apply orb_comm.
Qed.

(* blanks in front, the core, blanks behind: together the text, nothing else *)
Theorem trim_decompose p (cs : list ascii) : existsb (fun c => negb (p c)) cs = true ->
  take_while p cs ++ trim_with p cs ++ rev (take_while p (rev cs)) = cs.
Proof.
  intros H. unfold trim_with. set (d := drop_while p cs).
  assert (existsb (fun c => negb (p c)) (rev d) = true) as Hd by (rewrite existsb_rev; apply drop_while_nonp; exact H).
  assert (rev cs = rev d ++ rev (take_while p cs)) as E.
  { rewrite <- rev_app_distr. unfold d. rewrite take_drop_while. reflexivity. }
  rewrite E, (take_while_app_stop p _ _ Hd).
  rewrite <- rev_app_distr, take_drop_while, rev_involutive. apply take_drop_while.
Qed.

Lemma chars_str cs : chars (str cs) = cs.
Proof. unfold chars, str. apply list_ascii_of_string_of_list_ascii. Qed.
Lemma str_chars s : str (chars s) = s.
Proof. unfold chars, str. apply string_of_list_ascii_of_string. Qed.

Lemma chars_app a b : chars (a ++ b)%string = chars a ++ chars b.
Proof. unfold chars. induction a as [|c a IH]; cbn; [reflexivity | rewrite IH; reflexivity]. Qed.

Lemma escape_chars_app a b : escape_chars (a ++ b) = escape_chars a ++ escape_chars b.
Proof.
  induction a as [|c a IH]; [reflexivity|]. cbn [app escape_chars]. destruct (needs_escape c); rewrite IH; reflexivity.
Qed.

(* instance obligation on the table read from the source: the tilde is escaped *)
Lemma tilde_needs_escape : needs_escape tilde = true.
Proof. vm_compute. reflexivity. Qed.

(* the characters that begin or end inline markup for the reader (CommonMark 0.30 section 6 and the GFM extensions the
   converter switches on): backslash escapes, code spans, emphasis, links and images, autolinks and raw HTML, entity
   and character references, strikethrough, table cell separators *)
Definition md_inline_significant : list nat := [92; 96; 42; 95; 91; 93; 60; 38; 126; 124].

(* instance obligation on the table read from the source: every one of them is written with a backslash *)
Theorem escape_set_covers_inline_syntax :
  forall c, In (code_of c) md_inline_significant -> needs_escape c = true.
Proof.
  assert (forallb (fun n => existsb (Nat.eqb n) Gen.MdTables.md_escape_set) md_inline_significant = true) as H
    by (vm_compute; reflexivity).
  intros c Hin. unfold needs_escape. rewrite forallb_forall in H. apply H. exact Hin.
Qed.

(* ... and nothing else: letters, digits, blanks and the other punctuation are copied as they are (an escaped letter
   or digit would be read back with its backslash) *)
Theorem escape_set_is_punctuation :
  forall n, In n Gen.MdTables.md_escape_set -> (33 <= n <= 47 \/ 58 <= n <= 64 \/ 91 <= n <= 96 \/ 123 <= n <= 126).
Proof.
  assert (forallb (fun n => (Nat.leb 33 n && Nat.leb n 47) || (Nat.leb 58 n && Nat.leb n 64) || (Nat.leb 91 n && Nat.leb n 96) || (Nat.leb 123 n && Nat.leb n 126))
            Gen.MdTables.md_escape_set = true) as H by (vm_compute; reflexivity).
  intros n Hin. rewrite forallb_forall in H. specialize (H n Hin).
  repeat (apply Bool.orb_true_iff in H; destruct H as [H|H]);
    apply Bool.andb_true_iff in H; destruct H as [H1 H2]; apply Nat.leb_le in H1; apply Nat.leb_le in H2; auto.
Qed.

(* what is not a tilde at the end stays as it is *)
Lemma ref_tail_last cs c : Ascii.eqb c tilde = false -> ref_tail (cs ++ [c]) = cs ++ [c].
Proof.
  intros Hc. unfold ref_tail. rewrite rev_app_distr. cbn [rev app]. destruct (rev cs) as [|b r]; [reflexivity|].
  rewrite Hc. reflexivity.
Qed.

(* on an escaped text the replacement happens exactly when the text ends in a tilde, and it replaces that tilde *)
Lemma ref_tail_spec core :
  ref_tail (escape_chars core) = escape_chars core \/
  exists core', core = core' ++ [tilde] /\ ref_tail (escape_chars core) = escape_chars core' ++ tilde_ref.
Proof.
  induction core as [|c0 pre _] using rev_ind; [left; reflexivity|].
  rewrite escape_chars_app. cbn [escape_chars].
  destruct (Ascii.eqb c0 tilde) eqn:Et.
  - apply Ascii.eqb_eq in Et. subst c0. right. exists pre. split; [reflexivity|].
    rewrite tilde_needs_escape. unfold ref_tail. rewrite rev_app_distr. cbn [rev app].
    rewrite Ascii.eqb_refl. cbn [andb]. rewrite rev_involutive. reflexivity.
  - left. destruct (needs_escape c0).
    + change [bslash; c0] with ([bslash] ++ [c0]). rewrite app_assoc. apply ref_tail_last. exact Et.
    + apply ref_tail_last. exact Et.
Qed.

Definition emph_ok (o : wopts) : Prop := o_emph o = "*" \/ o_emph o = "_".

(* a run that is not code and not blank is written as: its leading blanks, opening markers, its core with the
   metacharacters escaped, the closing markers, its trailing blanks - and leading blanks, core and trailing blanks are
   the run's text.  One exception to "escaped": the final tilde of a struck-through run is written as the character
   reference &#126; (the reader does not take ~~ for a marker behind a tilde) *)
Theorem format_run_keeps_text o r :
  emph_ok o -> w_code r = false -> all_space (chars (w_text r)) = false ->
  exists lead core trail opening closing enc,
    format_run o r = (str lead ++ opening ++ str enc ++ closing ++ str trail)%string /\
    lead ++ core ++ trail = chars (w_text r) /\ unescape_chars (escape_chars core) = core /\
    (enc = escape_chars core \/
     (w_strike r = true /\ exists core', core = core' ++ [tilde] /\ enc = escape_chars core' ++ tilde_ref)).
Proof.
  intros Ho Hc Hs. unfold format_run. destruct (chars (w_text r)) as [|c0 cs0] eqn:E; [discriminate Hs|].
  rewrite Hc, Hs. set (cs := c0 :: cs0) in *.
  assert (existsb (fun c => negb (is_space c)) cs = true) as Hn.
  { clear - Hs. unfold all_space in Hs. induction cs as [|c r IH]; [discriminate Hs|]. cbn [forallb] in Hs. cbn [existsb].
    destruct (is_space c); [apply IH; exact Hs | reflexivity]. }
  set (core := trim_with is_space cs).
  set (mk := (if w_bold r then (if w_italic r then "***" else "**") else if w_italic r then o_emph o else "")%string).
  assert (forall x, (if w_bold r then (if w_italic r then "***" ++ x ++ "***" else "**" ++ x ++ "**")
                     else if w_italic r then o_emph o ++ x ++ o_emph o else x)%string = (mk ++ x ++ mk)%string) as Hwrap.
  { intros x. unfold mk. destruct (w_bold r), (w_italic r); cbn [append]; rewrite ?sapp_nil_r; reflexivity. }
  rewrite Hwrap.
  destruct (w_strike r) eqn:Est.
  - (* struck through *)
    destruct (string_dec mk "") as [Hm|Hm].
    + (* no other marker: the escaped core itself is what the reference rule looks at *)
      rewrite Hm. cbn [append]. rewrite sapp_nil_r, chars_str.
      destruct (ref_tail_spec core) as [Hsame|[core' [Hcore Href]]].
      * exists (take_while is_space cs), core, (rev (take_while is_space (rev cs))), "~~", "~~", (escape_chars core).
        split; [rewrite Hsame; repeat rewrite sapp_assoc; reflexivity|].
        split; [apply trim_decompose; exact Hn|]. split; [apply unescape_escape|]. left. reflexivity.
      * exists (take_while is_space cs), core, (rev (take_while is_space (rev cs))), "~~", "~~", (escape_chars core' ++ tilde_ref).
        split; [rewrite Href; repeat rewrite sapp_assoc; reflexivity|].
        split; [apply trim_decompose; exact Hn|]. split; [apply unescape_escape|]. right. split; [reflexivity|].
        exists core'. split; [exact Hcore | reflexivity].
    + (* inside bold or italic markers: the last character is the marker's, nothing is replaced *)
      assert (exists m c, chars mk = m ++ [c] /\ Ascii.eqb c tilde = false) as [m [c [Hmk Hct]]].
      { unfold mk in *. destruct (w_bold r), (w_italic r).
        - exists (chars "**"), "*"%char. split; reflexivity.
        - exists (chars "*"), "*"%char. split; reflexivity.
        - destruct Ho as [Ho|Ho]; rewrite Ho; [exists [], "*"%char | exists [], "_"%char]; split; reflexivity.
        - exfalso. apply Hm. reflexivity. }
      assert (str (ref_tail (chars (mk ++ str (escape_chars core) ++ mk)%string)) = (mk ++ str (escape_chars core) ++ mk)%string) as Hkeep.
      { assert (chars (mk ++ str (escape_chars core) ++ mk)%string = (chars (mk ++ str (escape_chars core))%string ++ m) ++ [c]) as Hsplit.
        { rewrite <- app_assoc, <- Hmk, <- chars_app, sapp_assoc. reflexivity. }
        rewrite Hsplit, ref_tail_last by exact Hct. rewrite <- Hsplit. apply str_chars. }
      rewrite Hkeep.
      exists (take_while is_space cs), core, (rev (take_while is_space (rev cs))), ("~~" ++ mk)%string, (mk ++ "~~")%string, (escape_chars core).
      split; [repeat rewrite sapp_assoc; reflexivity|].
      split; [apply trim_decompose; exact Hn|]. split; [apply unescape_escape|]. left. reflexivity.
  - exists (take_while is_space cs), core, (rev (take_while is_space (rev cs))), mk, mk, (escape_chars core).
    split; [repeat rewrite sapp_assoc; reflexivity|].
    split; [apply trim_decompose; exact Hn|]. split; [apply unescape_escape|]. left. reflexivity.
Qed.

(* the repaired case: a struck-through run ending in a tilde *)
Example strike_tilde : format_run (mkWOpts true false "-" "*" false 80) (mkWRun "a~" false false true false) = "~~a&#126;~~".
Proof. reflexivity. Qed.

(* ---------------- wrapped paragraphs: no line begins like a list item, a quote or a setext underline ---------------- *)

(* the reader starts a list item, a block quote or a setext underline at a line that begins like this *)
Definition block_start (cs : list ascii) : bool :=
  match cs with
  | [] => false
  | c :: _ =>
      existsb (Nat.eqb (code_of c)) [45; 43; 62; 61] ||
      match take_while is_digit cs, drop_while is_digit cs with
      | _ :: _, d :: _ => Nat.eqb (code_of d) 46 || Nat.eqb (code_of d) 41
      | _, _ => false
      end
  end.

Lemma take_while_all p (l : list ascii) : forallb p (take_while p l) = true.
Proof. induction l as [|c l IH]; cbn; [reflexivity|]. destruct (p c) eqn:E; cbn; [rewrite E; exact IH | reflexivity]. Qed.

Lemma take_while_app_stop' p (a : list ascii) x r : forallb p a = true -> p x = false -> take_while p (a ++ x :: r) = a.
Proof.
  induction a as [|c a IH]; intros Ha Hx; cbn; [rewrite Hx; reflexivity|].
  cbn in Ha. apply andb_true_iff in Ha. destruct Ha as [Hc Ha]. rewrite Hc, IH by assumption. reflexivity.
Qed.

Lemma drop_while_app_stop p (a : list ascii) x r : forallb p a = true -> p x = false -> drop_while p (a ++ x :: r) = x :: r.
Proof.
  induction a as [|c a IH]; intros Ha Hx; cbn; [rewrite Hx; reflexivity|].
  cbn in Ha. apply andb_true_iff in Ha. destruct Ha as [Hc Ha]. rewrite Hc. apply IH; assumption.
Qed.

Lemma bslash_not_digit : is_digit bslash = false.
Proof. reflexivity. Qed.

(* escapeBlockStart does what it is there for, on every text *)
Theorem escape_block_start_safe : forall cs, block_start (escape_block_start cs) = false.
Proof.
  intros [|c r]; [reflexivity|]. unfold escape_block_start.
  destruct (existsb (Nat.eqb (code_of c)) [45; 43; 62; 61]) eqn:Em.
  - (* a backslash in front: neither a marker nor a digit *)
    reflexivity.
  - destruct (take_while is_digit (c :: r)) as [|d0 ds] eqn:Et.
    + (* no digits in front *)
      unfold block_start. rewrite Em, Et. reflexivity.
    + destruct (drop_while is_digit (c :: r)) as [|d rest'] eqn:Ed.
      * unfold block_start. rewrite Em, Et, Ed. reflexivity.
      * destruct (Nat.eqb (code_of d) 46 || Nat.eqb (code_of d) 41) eqn:Edot.
        -- (* digits, a backslash, the delimiter *)
           assert (forallb is_digit (d0 :: ds) = true) as Hall by (rewrite <- Et; apply take_while_all).
           unfold block_start. cbn [app].
           assert (existsb (Nat.eqb (code_of d0)) [45; 43; 62; 61] = false) as Hd0.
           { cbn [take_while] in Et. destruct (is_digit c); [|discriminate]. injection Et as -> _. exact Em. }
           rewrite Hd0. cbn [orb].
           change (d0 :: ds ++ bslash :: d :: rest') with ((d0 :: ds) ++ bslash :: d :: rest').
           rewrite take_while_app_stop' by (exact Hall || exact bslash_not_digit).
           rewrite drop_while_app_stop by (exact Hall || exact bslash_not_digit). reflexivity.
        -- unfold block_start. rewrite Em, Et, Ed, Edot. reflexivity.
Qed.

(* the lines a wrapped paragraph is made of, before they are escaped *)
Fixpoint wrap_groups (words : list (list ascii)) (line : list ascii) (max : nat) : list (list ascii) :=
  match words with
  | [] => match line with [] => [] | _ => [line] end
  | w :: r =>
      match line with
      | [] => wrap_groups r w max
      | _ => if Nat.ltb max (List.length line + List.length w + 1) then line :: wrap_groups r w max
             else wrap_groups r (line ++ ascii_of_nat 32 :: w) max
      end
  end.

Fixpoint join_lines (ls : list (list ascii)) : list ascii :=
  match ls with
  | [] => []
  | [l] => l
  | l :: rest => l ++ nl :: join_lines rest
  end.

Lemma wrap_groups_nonempty : forall words line max, line <> [] -> wrap_groups words line max <> [].
Proof.
  induction words as [|w r IH]; intros line max Hl; cbn [wrap_groups].
  - destruct line; [contradiction | discriminate].
  - destruct line as [|c l]; [contradiction|].
    destruct (Nat.ltb _ _); [discriminate|]. apply IH. destruct l; discriminate.
Qed.

(* wrapText = the lines, each passed through escapeBlockStart, joined by line breaks *)
Theorem wrap_lines_groups : forall words line max,
  Forall (fun w => w <> []) words ->
  wrap_lines words line max = join_lines (map escape_block_start (wrap_groups words line max)).
Proof.
  induction words as [|w r IH]; intros line max Hw.
  - cbn [wrap_lines wrap_groups]. destruct line; reflexivity.
  - inversion Hw as [|x l Hx Hr]; subst. cbn [wrap_lines wrap_groups].
    destruct line as [|c l]; [apply IH; exact Hr|].
    destruct (Nat.ltb _ _).
    + cbn [map]. rewrite IH by exact Hr.
      pose proof (wrap_groups_nonempty r w max Hx) as Hne.
      destruct (wrap_groups r w max) as [|g gs]; [contradiction|]. reflexivity.
    + apply IH. exact Hr.
Qed.

(* so no line of a wrapped paragraph begins like a list item, a quote or a setext underline *)
Corollary wrapped_lines_safe : forall words line max,
  Forall (fun l => block_start l = false) (map escape_block_start (wrap_groups words line max)).
Proof.
  intros. apply Forall_forall. intros l Hin. apply in_map_iff in Hin. destruct Hin as [g [<- _]]. apply escape_block_start_safe.
Qed.

(* the words wrapWords hands over are never empty *)
Lemma wrap_words_nonempty : forall cs cur fence run esc, Forall (fun w => w <> []) (wrap_words cs cur fence run esc).
Proof.
  induction cs as [|c r IH]; intros cur fence run esc; cbn [wrap_words].
  - destruct cur as [|x cur]; constructor; [|constructor].
    intro H. apply (f_equal (@List.length ascii)) in H. rewrite rev_length in H. discriminate.
  - destruct (Ascii.eqb c btick && negb (esc && Nat.eqb fence 0)); [apply IH|].
    match goal with |- context [if ?b then _ else _] => destruct b end; [|apply IH].
    destruct cur as [|x cur]; [apply IH|]. constructor; [|apply IH].
    intro H. apply (f_equal (@List.length ascii)) in H. rewrite rev_length in H. discriminate.
Qed.

(* the worked example of the property: every kind of block, metacharacters, blanks at run ends, a code span with a
   backtick, a list followed by a paragraph *)
Definition ex_opts := mkWOpts true false "-" "*" false 80.
Definition ex_blocks : list wblock :=
  [WHeading 2 [mkWRun "Title #1" true false false false];
   WPara [mkWRun "plain " false false false false; mkWRun " bold " true false false false; mkWRun "it*al" false true false false;
          mkWRun "x`y" false false false true];
   WItem [mkWRun "- one" false false false false];
   WItem [mkWRun "two" false false true false];
   WPara [mkWRun "1. after" false false false false];
   WCode [mkWRun "  if a < b {" false false false false];
   WQuote [mkWRun "q" false false false false];
   WTable [[[[mkWRun "H" true false false false]]; [[mkWRun "a|b" false false false false]]]; [[[mkWRun "c" false false false false]]; [[]]]]].
Example ex_written :
  write ex_opts ex_blocks =
  "## **Title \#1**

plain  **bold** *it\*al*``x`y``

- \- one
- ~~two~~

1\. after

```
  if a < b {
```

> q

| H | a\|b |
|-----|-----|
| c |  |

".
Proof. vm_compute. reflexivity. Qed.
