(* Proofs about M-MD: the renderer keeps every text leaf exactly once and in order, under any nesting of inline
   constructs; formatting accumulates and is never lost inside a construct; blocks render independently and in order;
   code blocks keep their lines; tables keep their dimensions and cell texts. *)
From Coq Require Import String List Bool Arith Lia.
Import ListNotations.
Require Import WZ.Model.MdRender.
Open Scope string_scope.
Open Scope list_scope.

Arguments String.eqb : simpl never.

Section InlInd.
  Variable P : inl -> Prop.
  Hypothesis Htext : forall s b, P (IText s b).
  Hypothesis Hstr : forall s, P (IStr s).
  Hypothesis Hemph : forall l k, Forall P k -> P (IEmph l k).
  Hypothesis Hcode : forall k, Forall P k -> P (ICode k).
  Hypothesis Hlink : forall k, Forall P k -> P (ILink k).
  Hypothesis Hauto : forall l, P (IAuto l).
  Hypothesis Himage : forall a d, Forall P a -> P (IImage a d).
  Hypothesis Hstrike : forall k, Forall P k -> P (IStrike k).
  Hypothesis Hraw : P IRaw.
  Hypothesis Hmath : forall s, P (IMath s).
  Hypothesis Hother : forall k, Forall P k -> P (IOther k).
  Fixpoint inl_ind' (i : inl) : P i :=
    let fix go (l : list inl) : Forall P l :=
      match l with [] => Forall_nil _ | x :: r => Forall_cons _ (inl_ind' x) (go r) end in
    match i with
    | IText s b => Htext s b | IStr s => Hstr s
    | IEmph l k => Hemph l k (go k) | ICode k => Hcode k (go k) | ILink k => Hlink k (go k)
    | IAuto l => Hauto l | IImage a d => Himage a d (go a) | IStrike k => Hstrike k (go k)
    | IRaw => Hraw | IMath s => Hmath s | IOther k => Hother k (go k)
    end.
End InlInd.

Lemma sapp_assoc (a b c : string) : append (append a b) c = append a (append b c).
Proof. induction a as [|ch a IH]; cbn [append]; [reflexivity | rewrite IH; reflexivity]. Qed.
Lemma sapp_nil_r (a : string) : append a "" = a.
Proof. induction a as [|ch a IH]; cbn [append]; [reflexivity | rewrite IH; reflexivity]. Qed.
Lemma sconcat_app l m : sconcat (l ++ m) = append (sconcat l) (sconcat m).
Proof. induction l as [|x r IH]; cbn [app sconcat append]; [reflexivity | rewrite IH, sapp_assoc; reflexivity]. Qed.

(* the constructs whose text is the text of their leaves (an image shows a placeholder, a formula its display form) *)
Fixpoint supported (i : inl) : bool :=
  match i with
  | IImage _ _ | IMath _ => false
  | IEmph _ k | ICode k | ILink k | IStrike k | IOther k => forallb supported k
  | _ => true
  end.

Definition runs_text (rs : list (string * fmt)) : string := sconcat (map fst rs).

Lemma runs_text_app a b : runs_text (a ++ b) = append (runs_text a) (runs_text b).
Proof. unfold runs_text. rewrite map_app. apply sconcat_app. Qed.

Definition TP (i : inl) : Prop := supported i = true -> forall f, runs_text (render_inl f i) = extract i.

Lemma TP_list k : Forall TP k -> forallb supported k = true -> forall f,
  runs_text (inline_list render_inl f k) = extract_list extract k.
Proof.
  induction k as [|i r IH]; intros HF Hs f; [reflexivity|].
  inversion HF as [|? ? Hi Hr]; subst. cbn [forallb] in Hs. apply andb_true_iff in Hs. destruct Hs as [S1 S2].
  unfold inline_list, extract_list. cbn [flat_map map sconcat]. rewrite runs_text_app, (Hi S1 f).
  f_equal. apply (IH Hr S2 f).
Qed.

(* every inline construct, under any nesting, yields runs whose texts concatenate to the text of its leaves *)
Theorem inline_text_kept : forall i, TP i.
Proof.
  apply inl_ind'; unfold TP.
  - intros s b _ f. cbn [render_inl extract]. destruct b; unfold runs_text; cbn [map fst sconcat]; rewrite ?sapp_nil_r; reflexivity.
  - intros s _ f. unfold runs_text. cbn. apply sapp_nil_r.
  - intros l k HF S f. cbn [supported] in S. cbn [render_inl extract]. apply TP_list; assumption.
  - intros k _ _ f. unfold runs_text. cbn [render_inl extract map fst sconcat]. apply sapp_nil_r.
  - intros k HF S f. cbn [supported] in S. cbn [render_inl extract]. apply TP_list; assumption.
  - intros l _ f. unfold runs_text. cbn. apply sapp_nil_r.
  - intros a d _ S. discriminate S.
  - intros k HF S f. cbn [supported] in S. cbn [render_inl extract]. apply TP_list; assumption.
  - intros _ f. reflexivity.
  - intros s S. discriminate S.
  - intros k _ _ f. cbn [render_inl extract]. destruct (String.eqb_spec (extract_list extract k) "") as [E|E].
    + rewrite E. reflexivity.
    + unfold runs_text. cbn [map fst sconcat]. apply sapp_nil_r.
Qed.

(* formatting only accumulates: inside a construct nothing of the enclosing format is lost, and the construct's own
   flag is set on every run it yields *)
Definition fmt_le (a b : fmt) : Prop :=
  (f_bold a = true -> f_bold b = true) /\ (f_italic a = true -> f_italic b = true) /\
  (f_strike a = true -> f_strike b = true) /\ (f_link a = true -> f_link b = true).

Lemma fmt_le_refl a : fmt_le a a.
Proof. repeat split; auto. Qed.
Lemma fmt_le_trans a b c : fmt_le a b -> fmt_le b c -> fmt_le a c.
Proof. unfold fmt_le. intros [A1 [A2 [A3 A4]]] [B1 [B2 [B3 B4]]]. repeat split; auto. Qed.

Definition FP (i : inl) : Prop := supported i = true -> forall f, Forall (fun r => fmt_le f (snd r)) (render_inl f i).

Lemma FP_list k : Forall FP k -> forallb supported k = true -> forall f g, fmt_le f g ->
  Forall (fun r => fmt_le f (snd r)) (inline_list render_inl g k).
Proof.
  induction k as [|i r IH]; intros HF Hs f g L; [constructor|].
  inversion HF as [|? ? Hi Hr]; subst. cbn [forallb] in Hs. apply andb_true_iff in Hs. destruct Hs as [S1 S2].
  unfold inline_list. cbn [flat_map]. apply Forall_app. split.
  - specialize (Hi S1 g). rewrite Forall_forall in *. intros x Hx. apply (fmt_le_trans f g); [exact L | apply Hi; exact Hx].
  - apply (IH Hr S2 f g L).
Qed.

Theorem formatting_accumulates : forall i, FP i.
Proof.
  apply inl_ind'; unfold FP.
  - intros s b _ f. cbn [render_inl]. destruct b; repeat constructor; apply fmt_le_refl.
  - intros s _ f. repeat constructor; apply fmt_le_refl.
  - intros l k HF S f. cbn [supported] in S. cbn [render_inl]. apply FP_list; [assumption | assumption|].
    destruct (Nat.eqb l 2); unfold fmt_le; cbn; repeat split; auto.
  - intros k _ _ f. cbn [render_inl]. repeat constructor; unfold fmt_le; cbn; auto.
  - intros k HF S f. cbn [supported] in S. cbn [render_inl]. apply FP_list; [assumption | assumption|]. unfold fmt_le; cbn; repeat split; auto.
  - intros l _ f. cbn [render_inl]. repeat constructor; unfold fmt_le; cbn; auto.
  - intros a d _ S. discriminate S.
  - intros k HF S f. cbn [supported] in S. cbn [render_inl]. apply FP_list; [assumption | assumption|]. unfold fmt_le; cbn; repeat split; auto.
  - intros _ f. constructor.
  - intros s S. discriminate S.
  - intros k _ _ f. cbn [render_inl]. destruct (String.eqb (extract_list extract k) ""); repeat constructor; apply fmt_le_refl.
Qed.

(* strong -> bold, emphasis -> italic, strike-through -> strike, on every run inside, however deep *)
Theorem strong_is_bold k f : forallb supported k = true ->
  Forall (fun r => f_bold (snd r) = true) (render_inl f (IEmph 2 k)).
Proof.
  intros S. cbn [render_inl Nat.eqb].
  pose proof (FP_list k (proj2 (Forall_forall FP k) (fun i _ => formatting_accumulates i)) S
                (mkFmt true false false false false false) (mkFmt true (f_italic f) (f_strike f) (f_code f) (f_link f) (f_math f))) as H.
  assert (fmt_le (mkFmt true false false false false false) (mkFmt true (f_italic f) (f_strike f) (f_code f) (f_link f) (f_math f))) as L
    by (unfold fmt_le; cbn; repeat split; auto; discriminate).
  specialize (H L). rewrite Forall_forall in *. intros r Hr. destruct (H r Hr) as [B _]. apply B. reflexivity.
Qed.

Theorem emphasis_is_italic k f : forallb supported k = true ->
  Forall (fun r => f_italic (snd r) = true) (render_inl f (IEmph 1 k)).
Proof.
  intros S. cbn [render_inl Nat.eqb].
  pose proof (FP_list k (proj2 (Forall_forall FP k) (fun i _ => formatting_accumulates i)) S
                (mkFmt false true false false false false) (mkFmt (f_bold f) true (f_strike f) (f_code f) (f_link f) (f_math f))) as H.
  assert (fmt_le (mkFmt false true false false false false) (mkFmt (f_bold f) true (f_strike f) (f_code f) (f_link f) (f_math f))) as L
    by (unfold fmt_le; cbn; repeat split; auto; discriminate).
  specialize (H L). rewrite Forall_forall in *. intros r Hr. destruct (H r Hr) as [_ [I _]]. apply I. reflexivity.
Qed.

Theorem strike_is_strike k f : forallb supported k = true ->
  Forall (fun r => f_strike (snd r) = true) (render_inl f (IStrike k)).
Proof.
  intros S. cbn [render_inl].
  pose proof (FP_list k (proj2 (Forall_forall FP k) (fun i _ => formatting_accumulates i)) S
                (mkFmt false false true false false false) (mkFmt (f_bold f) (f_italic f) true (f_code f) (f_link f) (f_math f))) as H.
  assert (fmt_le (mkFmt false false true false false false) (mkFmt (f_bold f) (f_italic f) true (f_code f) (f_link f) (f_math f))) as L
    by (unfold fmt_le; cbn; repeat split; auto; discriminate).
  specialize (H L). rewrite Forall_forall in *. intros r Hr. destruct (H r Hr) as [_ [_ [St _]]]. apply St. reflexivity.
Qed.

(* ---------------- blocks ---------------- *)
Theorem blocks_in_order t a b : render t (a ++ b) = render t a ++ render t b.
Proof. unfold render. apply flat_map_app. Qed.

Theorem paragraph_text t lv k : k <> [] -> forallb supported k = true ->
  map para_text (render_blk t lv (BPara k)) = [extract_list extract k].
Proof.
  intros Hk S. destruct k as [|i r]; [contradiction|]. cbn [render_blk map para_text]. f_equal.
  apply (TP_list (i :: r) (proj2 (Forall_forall TP (i :: r)) (fun x _ => inline_text_kept x)) S plain).
Qed.

Theorem heading_block t lv level k :
  render_blk t lv (BHeading level k) = [DPara ("Heading" ++ nat_digit level)%string false [(extract_list extract k, plain)]].
Proof. reflexivity. Qed.

Theorem code_keeps_lines t lv lines :
  map para_text (render_blk t lv (BCode lines)) = map (fun l => if all_blank l then " " else l) lines.
Proof.
  cbn [render_blk]. rewrite map_map. apply map_ext. intros l. unfold code_line. cbn [para_text map fst sconcat]. apply sapp_nil_r.
Qed.

Theorem code_one_paragraph_per_line t lv lines : List.length (render_blk t lv (BCode lines)) = List.length lines.
Proof. cbn [render_blk]. apply map_length. Qed.

Theorem table_dimensions lv h rows aligns :
  exists cells al, render_blk true lv (BTable h rows aligns) = [DTable cells al] /\
                   List.length cells = S (List.length rows) /\
                   cells = map (extract_list extract) h :: map (fun r => map (extract_list extract) (fst r)) rows.
Proof.
  cbn [render_blk]. eexists. eexists. split; [reflexivity|]. split; [cbn [List.length]; rewrite map_length; reflexivity | reflexivity].
Qed.

(* a nested structure with everything in it, computed *)
Definition ex_doc : list blk :=
  [BHeading 2 [IText "Title " false; IEmph 1 [IText "it" false]];
   BPara [IText "a " false; IEmph 2 [IText "b " false; IEmph 1 [IText "c" false]; IText " d" false]; IText " e" true; IStrike [ILink [IText "f" false]]; IAuto "http://x"];
   BList [[BText [IText "one" false]; BList [[BText [IEmph 1 [IText "sub" false]]]]]; [BPara [IText "two" false]; BCode ["  x"]]];
   BQuote [BPara [IText "q1" false]; BPara [IText "q2" false]];
   BCode ["l1"; ""; "	l3"];
   BHr;
   BTable [[IText "H" false]] [([[IText "c" false; IEmph 2 [IText "!" false]]], [])] [2]].

Example ex_rendered :
  map para_text (render true ex_doc)
  = ["Title it"; "a b c d e fhttp://x"; "• one"; "  • sub"; "• two"; "  x"; "q1q2"; "l1"; " "; "	l3"; ""; "Hc!"].
Proof. vm_compute. reflexivity. Qed.
