(* M-SCHEMA instantiated with the tables go2coq reads from pkg/document (Gen/Schema.v). *)
From Coq Require Import String List Bool Arith.
From WZ Require Import Model.Schema Gen.Schema Corr.SchemaCorr Proofs.SchemaProofs.
Import ListNotations.
Open Scope string_scope.

(* what the reader is known not to read back: body-level structured document tags (the table of
   contents) and formula paragraphs - known_findings.json q_sdt_dropped_on_open, q_math_dropped_on_open *)
Definition expected_uncovered : list (string * string * string) :=
  [("MathParagraph", "*", "p"); ("OfficeMath", "*", "oMath"); ("OfficeMathPara", "*", "oMathPara");
   ("SDT", "*", "sdt"); ("SDTProperties", "*", "sdtPr"); ("SDTID", "*", "id"); ("SDTColor", "*", "color");
   ("DocPartObj", "*", "docPartObj"); ("DocPartGallery", "*", "docPartGallery");
   ("DocPartUnique", "*", "docPartUnique"); ("SDTPlaceholder", "*", "placeholder"); ("DocPart", "*", "docPart");
   ("SDTEndPr", "*", "sdtEndPr"); ("SDTContent", "*", "sdtContent")].

Lemma inst_types_ok : g_types_ok w_schema = true.
Proof. vm_compute. reflexivity. Qed.

Lemma inst_uncovered : I_uncovered = expected_uncovered.
Proof. vm_compute. reflexivity. Qed.

Lemma inst_types_ok_all : forall ty, type_ok (I_fields_of ty) = true.
Proof. apply g_types_ok_all. exact inst_types_ok. Qed.

(* the struct types all of whose fields the reader covers *)
Definition all_cov_in (l : list string) : list string :=
  filter (fun ty => g_constructed r_known ty && forallb (I_cov ty) (I_fields_of ty)) l.
Lemma all_cov_in_covered l : forall ty sp, In ty (all_cov_in l) -> In sp (I_fields_of ty) -> I_cov ty sp = true.
Proof.
  intros ty sp Hty Hsp. unfold all_cov_in in Hty. apply filter_In in Hty. destruct Hty as [_ H].
  apply andb_true_iff in H. destruct H as [_ H]. rewrite forallb_forall in H. apply H. exact Hsp.
Qed.
Definition covered_tys : list string := all_cov_in ("Body" :: I_reachable).
Definition ok_root_in (l : list string) (t : string) : bool :=
  memb t l && match I_elty (I_xmlname_of t) with Some u => String.eqb u t | None => false end.
Lemma ok_root_in_readable l : forall t, ok_root_in l t = true -> I_elty (I_xmlname_of t) = Some t.
Proof.
  intros t H. unfold ok_root_in in H. apply andb_true_iff in H. destruct H as [_ H].
  destruct (I_elty (I_xmlname_of t)) as [u|]; [|discriminate]. apply String.eqb_eq in H. subst u. reflexivity.
Qed.
Definition ok_root : string -> bool := ok_root_in covered_tys.

Lemma inst_reachable_split :
  forallb (fun ty => memb ty covered_tys || memb ty (map (fun r => fst (fst r)) expected_uncovered)) I_reachable = true.
Proof. vm_compute. reflexivity. Qed.

Lemma inst_roots : filter ok_root w_roots = ["BookmarkEnd"; "BookmarkStart"; "Paragraph"; "SectionProperties"; "Table"].
Proof. vm_compute. reflexivity. Qed.

Lemma covered_tys_covered : forall ty sp, In ty covered_tys -> In sp (I_fields_of ty) -> I_cov ty sp = true.
Proof. exact (all_cov_in_covered ("Body" :: I_reachable)). Qed.

Lemma ok_root_readable : forall t, ok_root t = true -> I_elty (I_xmlname_of t) = Some t.
Proof. exact (ok_root_in_readable covered_tys). Qed.

Definition I_uses_only := uses_only I_fields_of covered_tys ok_root.
Definition I_cycles := cycles I_fields_of I_xmlname_of I_cov I_elty.

Theorem inst_read_write_erase d el :
  I_conforms d = true -> I_read (d_ty d) (I_write el d) = I_erase d.
Proof. apply read_write_erase. exact inst_types_ok_all. Qed.

Theorem inst_cycles_stable el n d : I_conforms d = true -> I_cycles el (S n) d = I_erase d.
Proof. apply cycles_stable. exact inst_types_ok_all. Qed.

Theorem inst_erase_idem d : I_erase (I_erase d) = I_erase d.
Proof. apply erase_idem. Qed.

Theorem inst_lossless_intact el n d : I_conforms d = true -> I_intact d = true -> I_cycles el n d = d.
Proof. apply cycles_lossless. exact inst_types_ok_all. Qed.

Theorem inst_covered_intact d : I_uses_only d = true -> I_intact d = true.
Proof. apply uses_only_intact; [exact covered_tys_covered | exact ok_root_readable]. Qed.

(* every value over the covered types comes back unchanged, after any number of cycles *)
Theorem inst_roundtrip_exact el n d :
  I_conforms d = true -> I_uses_only d = true -> I_cycles el n d = d.
Proof. intros Hc Hu. apply inst_lossless_intact; [exact Hc | apply inst_covered_intact; exact Hu]. Qed.

Theorem inst_resave_same el d :
  I_conforms d = true -> I_uses_only d = true ->
  I_write el (I_read (d_ty d) (I_write el d)) = I_write el d.
Proof.
  intros Hc Hu. apply (resave_same I_fields_of I_xmlname_of I_cov I_elty inst_types_ok_all el d Hc).
  apply inst_covered_intact. exact Hu.
Qed.

(* a non-trivial value that meets the premises: a paragraph with properties, a run with text that begins and ends
   with blanks, a page break, and a table with a nested table *)
Definition ex_doc : dt := expand
  (SN "Body" [(0, SL [
     SN "Paragraph" [(0, SL [SN "ParagraphProperties" [(0, SL [SN "ParagraphStyle" [(0, SS "Heading1")]])]]);
                     (1, SL [SN "Run" [(0, SL [SN "RunProperties" [(1, SL [SN "Bold" []])]]);
                                       (1, SL [SN "Text" [(0, SS "preserve"); (1, SS "  two blanks  ")]])];
                             SN "Run" [(1, SL [SN "Text" []]); (2, SL [SN "Break" [(0, SS "page")]])]])];
     SN "Table" [(2, SL [SN "TableRow" [(1, SL [SN "TableCell" [
                     (1, SL [SN "Paragraph" []]);
                     (2, SL [SN "Table" [(2, SL [SN "TableRow" [(1, SL [SN "TableCell" [(1, SL [SN "Paragraph" []])]])]])]])]])]])];
     SN "SectionProperties" [(1, SL [SN "PageSizeXML" [(0, SS "11906"); (1, SS "16838")]])]])]).

Lemma ex_doc_premises : I_conforms ex_doc = true /\ I_uses_only ex_doc = true /\ I_cycles "body" 3 ex_doc = ex_doc.
Proof. vm_compute. repeat split; reflexivity. Qed.

(* the known findings as refutations of the unrestricted statement: a body that holds a structured document tag
   conforms to the schema and does not come back *)
Definition ex_sdt : dt := expand (SN "Body" [(0, SL [SN "Paragraph" []; SN "SDT" []])]).

Lemma sdt_dropped : I_conforms ex_sdt = true /\ I_read (d_ty ex_sdt) (I_write "body" ex_sdt) <> ex_sdt.
Proof. split; [vm_compute; reflexivity|]. vm_compute. discriminate. Qed.

(* a formula paragraph is read back as an ordinary paragraph, without the formula *)
Definition ex_math : dt :=
  expand (SN "Body" [(0, SL [SN "MathParagraph" [(1, SL [SN "OfficeMath" [(1, SS "<m:r/>")]])]])]).

Lemma math_dropped : I_read (d_ty ex_math) (I_write "body" ex_math) <> ex_math.
Proof. vm_compute. discriminate. Qed.
