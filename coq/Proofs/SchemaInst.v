(* M-SCHEMA instantiated with the tables go2coq reads from pkg/document (Gen/Schema.v). *)
From Coq Require Import String List Bool Arith.
From WZ Require Import Model.Schema Gen.Schema Corr.SchemaCorr Proofs.SchemaProofs.
From WZ Require Model.Walk Gen.Walkers.
Import ListNotations.
Open Scope string_scope.

(* every field of every struct type reachable from the body has a reader case *)
Definition expected_uncovered : list (string * string * string) := [].

(* the two hand-written tables of Corr/SchemaCorr.v against the reader's walker table (Gen/Walkers.v): the reader of
   the content of a structured document tag has one case of its own, "r", and hands every other element to the
   body-level dispatch - which is what [g_elty] assumes for a list owner other than the body *)
Lemma sdt_content_dispatch :
  match Walk.find_walker Walkers.walkers "parseSDTContent" with
  | Some w => (map (fun c => fst (fst c)) (Walk.w_cases w), Walk.h_kind (Walk.w_def w)) = (["r"], Walk.HSub "parseBodySubElement")
  | None => False
  end.
Proof. vm_compute. reflexivity. Qed.

Lemma inst_types_ok : g_types_ok w_schema = true.
Proof. vm_compute. reflexivity. Qed.

Lemma inst_uncovered : I_uncovered = expected_uncovered.
Proof. vm_compute. reflexivity. Qed.

Lemma inst_types_ok_all : forall ty, type_ok (I_fields_of ty) = true.
Proof. apply g_types_ok_all. exact inst_types_ok. Qed.

(* the struct types all of whose fields the reader covers *)
Definition all_cov_in (l : list string) : list string :=
  filter (fun ty => g_constructed r_known ty && forallb (I_cov ty) (I_fields_of ty)) l.
Lemma all_cov_in_covered l : forall ty sp, In ty (all_cov_in l) -> In sp (I_fields_of ty) -> I_cov ty sp = true.
Proof.
  intros ty sp Hty Hsp. unfold all_cov_in in Hty. apply filter_In in Hty. destruct Hty as [_ H].
  apply andb_true_iff in H. destruct H as [_ H]. rewrite forallb_forall in H. apply H. exact Hsp.
Qed.
Definition covered_tys : list string := all_cov_in ("Body" :: I_reachable).
Definition ok_root_in (l : list string) (owner t : string) : bool :=
  memb t l && match I_elty owner (I_xmlname_of t) with Some u => String.eqb u t | None => false end.
Lemma ok_root_in_readable l : forall owner t, ok_root_in l owner t = true -> I_elty owner (I_xmlname_of t) = Some t.
Proof.
  intros owner t H. unfold ok_root_in in H. apply andb_true_iff in H. destruct H as [_ H].
  destruct (I_elty owner (I_xmlname_of t)) as [u|]; [|discriminate]. apply String.eqb_eq in H. subst u. reflexivity.
Qed.
Definition ok_root : string -> string -> bool := ok_root_in covered_tys.

Lemma inst_reachable_split :
  forallb (fun ty => memb ty covered_tys || memb ty (map (fun r => fst (fst r)) expected_uncovered)) I_reachable = true.
Proof. vm_compute. reflexivity. Qed.

(* what may stand in the body and come back: every element type of the body except the formula paragraph; the content
   of a structured document tag may also hold text runs *)
Lemma inst_roots :
  filter (ok_root "Body") ("Run" :: w_roots) = ["BookmarkEnd"; "BookmarkStart"; "Paragraph"; "SDT"; "SectionProperties"; "Table"]
  /\ filter (ok_root "SDTContent") ("Run" :: w_roots) = ["Run"; "BookmarkEnd"; "BookmarkStart"; "Paragraph"; "SDT"; "SectionProperties"; "Table"].
Proof. vm_compute. split; reflexivity. Qed.

Lemma covered_tys_covered : forall ty sp, In ty covered_tys -> In sp (I_fields_of ty) -> I_cov ty sp = true.
Proof. exact (all_cov_in_covered ("Body" :: I_reachable)). Qed.

Lemma ok_root_readable : forall owner t, ok_root owner t = true -> I_elty owner (I_xmlname_of t) = Some t.
Proof. exact (ok_root_in_readable covered_tys). Qed.

Definition I_uses_only := uses_only I_fields_of covered_tys ok_root.
Definition I_cycles := cycles I_fields_of I_xmlname_of I_cov I_elty.

Theorem inst_read_write_erase d el :
  I_conforms d = true -> I_read (d_ty d) (I_write el d) = I_erase d.
Proof. apply read_write_erase. exact inst_types_ok_all. Qed.

Theorem inst_cycles_stable el n d : I_conforms d = true -> I_cycles el (S n) d = I_erase d.
Proof. apply cycles_stable. exact inst_types_ok_all. Qed.

Theorem inst_erase_idem d : I_erase (I_erase d) = I_erase d.
Proof. apply erase_idem. Qed.

Theorem inst_lossless_intact el n d : I_conforms d = true -> I_intact d = true -> I_cycles el n d = d.
Proof. apply cycles_lossless. exact inst_types_ok_all. Qed.

Theorem inst_covered_intact d : I_uses_only d = true -> I_intact d = true.
Proof. apply uses_only_intact; [exact covered_tys_covered | exact ok_root_readable]. Qed.

(* every value over the covered types comes back unchanged, after any number of cycles *)
Theorem inst_roundtrip_exact el n d :
  I_conforms d = true -> I_uses_only d = true -> I_cycles el n d = d.
Proof. intros Hc Hu. apply inst_lossless_intact; [exact Hc | apply inst_covered_intact; exact Hu]. Qed.

Theorem inst_resave_same el d :
  I_conforms d = true -> I_uses_only d = true ->
  I_write el (I_read (d_ty d) (I_write el d)) = I_write el d.
Proof.
  intros Hc Hu. apply (resave_same I_fields_of I_xmlname_of I_cov I_elty inst_types_ok_all el d Hc).
  apply inst_covered_intact. exact Hu.
Qed.

(* a non-trivial value that meets the premises: a paragraph with properties, a run with text that begins and ends
   with blanks, a page break, and a table with a nested table *)
Definition ex_doc : dt := expand
  (SN "Body" [(0, SL [
     SN "Paragraph" [(0, SL [SN "ParagraphProperties" [(0, SL [SN "ParagraphStyle" [(0, SS "Heading1")]])]]);
                     (1, SL [SN "Run" [(0, SL [SN "RunProperties" [(1, SL [SN "Bold" []])]]);
                                       (1, SL [SN "Text" [(0, SS "preserve"); (1, SS "  two blanks  ")]])];
                             SN "Run" [(1, SL [SN "Text" []]); (2, SL [SN "Break" [(0, SS "page")]])]])];
     SN "Table" [(2, SL [SN "TableRow" [(1, SL [SN "TableCell" [
                     (1, SL [SN "Paragraph" []]);
                     (2, SL [SN "Table" [(2, SL [SN "TableRow" [(1, SL [SN "TableCell" [(1, SL [SN "Paragraph" []])]])]])]])]])]])];
     SN "SectionProperties" [(1, SL [SN "PageSizeXML" [(0, SS "11906"); (1, SS "16838")]])]])]).

Lemma ex_doc_premises : I_conforms ex_doc = true /\ I_uses_only ex_doc = true /\ I_cycles "body" 3 ex_doc = ex_doc.
Proof. vm_compute. repeat split; reflexivity. Qed.

(* a body with a structured document tag (the shape of a generated table of contents: properties, end properties,
   content with a bookmark, a paragraph, a nested tag holding a text run, and the bookmark's end) meets the premises *)
Definition ex_sdt : dt := expand
  (SN "Body" [(0, SL [
     SN "Paragraph" [];
     SN "SDT" [(0, SL [SN "SDTProperties" [(0, SL [SN "RunProperties" [(8, SL [SN "FontSize" [(0, SS "21")]])]]);
                                           (1, SL [SN "SDTID" [(0, SS "147476628")]]);
                                           (2, SL [SN "SDTColor" [(0, SS "DBDBDB")]]);
                                           (3, SL [SN "DocPartObj" [(0, SL [SN "DocPartGallery" [(0, SS "Table of Contents")]]);
                                                                    (1, SL [SN "DocPartUnique" []])]])]]);
                (1, SL [SN "SDTEndPr" []]);
                (2, SL [SN "SDTContent" [(0, SL [
                     SN "BookmarkStart" [(0, SS "0"); (1, SS "_Toc")];
                     SN "Paragraph" [(1, SL [SN "Run" [(1, SL [SN "Text" [(1, SS "Contents")]])]])];
                     SN "SDT" [(0, SL [SN "SDTProperties" [(4, SL [SN "SDTPlaceholder" [(0, SL [SN "DocPart" [(0, SS "{b5fdec38}")]])]])]]);
                               (2, SL [SN "SDTContent" [(0, SL [SN "Run" [(1, SL [SN "Text" [(1, SS "Chapter 1")]])]])]])];
                     SN "BookmarkEnd" [(0, SS "0")]])]])]])]).

Lemma ex_sdt_premises : I_conforms ex_sdt = true /\ I_uses_only ex_sdt = true /\ I_cycles "body" 2 ex_sdt = ex_sdt.
Proof. vm_compute. repeat split; reflexivity. Qed.

(* a text run directly in the body is not read back: the dispatch depends on the owner of the list *)
Definition ex_body_run : dt := expand (SN "Body" [(0, SL [SN "Run" [(1, SL [SN "Text" [(1, SS "x")]])]])]).
Lemma body_run_not_covered : I_uses_only ex_body_run = false.
Proof. vm_compute. reflexivity. Qed.

(* a formula paragraph is written under the element name of ordinary paragraphs; the reader tells the two apart by
   the content of the element, which the model's dispatch by name cannot: such values do not conform (they are
   compared by the oracle on the implementation) *)
Definition ex_math : dt :=
  expand (SN "Body" [(0, SL [SN "MathParagraph" [(1, SL [SN "OfficeMath" [(1, SS "<m:r/>")]])]])]).

Lemma math_outside_model : I_conforms ex_math = false.
Proof. vm_compute. reflexivity. Qed.
