(* Proofs about M-WORLD (property C07): non-interference for every interleaving. *)
From Coq Require Import List Bool Arith String Lia.
From WZ Require Import Gen.Globals Model.World.
Import ListNotations.

Section Proofs.
  Variables (st op : Type) (step : st -> op -> st).

  (* after ANY interleaving sigma of calls on any number of documents, document i is in exactly the
     state its own calls, run alone, produce *)
  Theorem noninterference (sigma : list (nat * op)) : forall (w : world st) (i : nat),
    wrun_local st op step sigma w i = run_alone st op step (calls_of op i sigma) (w i).
  Proof.
    unfold wrun_local, run_alone, calls_of.
    induction sigma as [|e r IH]; intros w i; simpl; [reflexivity|].
    rewrite IH. unfold wstep_local at 1. rewrite (Nat.eqb_sym i (fst e)).
    destruct (Nat.eqb (fst e) i) eqn:E; simpl; reflexivity.
  Qed.

  (* in particular two interleavings with the same calls per document agree on every document *)
  Corollary interleaving_irrelevant (s1 s2 : list (nat * op)) (w : world st) (i : nat) :
    calls_of op i s1 = calls_of op i s2 -> wrun_local st op step s1 w i = wrun_local st op step s2 w i.
  Proof. intros H. now rewrite !noninterference, H. Qed.

  (* calls on other documents - before, between or after - never change document i *)
  Corollary others_irrelevant (sigma : list (nat * op)) (w : world st) (i : nat) :
    (forall e, In e sigma -> fst e <> i) -> wrun_local st op step sigma w i = w i.
  Proof.
    intros H. rewrite noninterference. unfold calls_of.
    assert (E : filter (fun e => Nat.eqb (fst e) i) sigma = []).
    { induction sigma as [|e r IH]; simpl; [reflexivity|].
      destruct (Nat.eqb (fst e) i) eqn:Eq.
      - apply Nat.eqb_eq in Eq. exfalso. exact (H e (or_introl eq_refl) Eq).
      - apply IH. intros e' He'. apply H. now right. }
    rewrite E. reflexivity.
  Qed.
End Proofs.

(* with a process-wide registry the property fails: the second document's notes part lists the
   first document's note (the pinned commit; repaired by the per-document managers) *)
Example refuted_shared_registry :
  let w0 : sworld := (([], 1), fun _ => mkSdoc []) in
  let w2 := wstep_shared (wstep_shared w0 0) 1 in
  own_notes (snd w2 1) = [1; 2] /\ own_notes (snd (wstep_shared w0 1) 1) = [1].
Proof. vm_compute. split; reflexivity. Qed.

(* instance obligation: the sources declare no process-wide mutable state *)
Lemma globals_ok_true : globals_ok = true.
Proof. vm_compute. reflexivity. Qed.
