(* Proofs about M-NUM (property C15). *)
From Coq Require Import List Bool Arith NArith ZArith String Lia.
From WZ Require Import Gen.NumKey Gen.HeadingMap Model.Lists.
Import ListNotations.

(* ---- lists ------------------------------------------------------------------------------------ *)

Lemma key_eqb_eq a b : key_eqb a b = true <-> a = b.
Proof.
  destruct a as [[[t1 s1] l1] z1], b as [[[t2 s2] l2] z2]. unfold key_eqb. split.
  - intros H. repeat (apply andb_true_iff in H; destruct H as [H ?]).
    apply N.eqb_eq in H. apply N.eqb_eq in H2. apply Nat.eqb_eq in H1. apply Z.eqb_eq in H0. now subst.
  - intros H. inversion H; subst. now rewrite !N.eqb_refl, Nat.eqb_refl, Z.eqb_refl.
Qed.

Record InvN (s : nstate) : Prop := mkInvN {
  in_abs : forall k a c, In (k, (a, c)) (abstracts s) -> a < next_abs s /\ (key_live k = true -> key_of c = k);
  in_inst : forall n a, In (n, a) (instances s) -> n < next_num s /\ exists k c, In (k, (a, c)) (abstracts s);
  in_absdup : forall k1 a c1 k2 c2, In (k1, (a, c1)) (abstracts s) -> In (k2, (a, c2)) (abstracts s) -> c1 = c2
}.

Lemma invn_init : InvN n_init.
Proof. constructor; simpl; intros; contradiction. Qed.

Lemma find_key_In k l v : find_key k l = Some v -> In (k, v) l.
Proof.
  induction l as [|[k' v'] r IH]; simpl; [discriminate|]. destruct (key_eqb k k') eqn:E.
  - intros H. inversion H; subst. apply key_eqb_eq in E. subst. now left.
  - intros H. right. now apply IH.
Qed.
Lemma find_abs_In a l c : (forall k1 c1 k2 c2, In (k1, (a, c1)) l -> In (k2, (a, c2)) l -> c1 = c2) ->
  forall k, In (k, (a, c)) l -> find_abs a l = Some c.
Proof.
  induction l as [|[k' [b c']] r IH]; simpl; intros U k H; [contradiction|].
  destruct (Nat.eqb a b) eqn:E.
  - apply Nat.eqb_eq in E. subst b. f_equal. destruct H as [H|H].
    + now inversion H.
    + symmetry. apply (U k c k' c'); [now right|now left].
  - destruct H as [H|H]; [inversion H; subst; rewrite Nat.eqb_refl in E; discriminate|].
    apply (IH (fun k1 c1 k2 c2 H1 H2 => U k1 c1 k2 c2 (or_intror H1) (or_intror H2)) k H).
Qed.
Lemma find_inst_last n a l : (forall m b, In (m, b) l -> m <> n) -> find_inst n (l ++ [(n, a)]) = Some a.
Proof.
  induction l as [|[m b] r IH]; simpl; intros H; [now rewrite Nat.eqb_refl|].
  destruct (Nat.eqb m n) eqn:E; [apply Nat.eqb_eq in E; exfalso; exact (H m b (or_introl eq_refl) E)|].
  apply IH. intros m' b' Hin. apply (H m' b'). now right.
Qed.
Lemma find_inst_keep n l x : find_inst n l <> None -> find_inst n (l ++ [x]) = find_inst n l.
Proof.
  induction l as [|[m b] r IH]; simpl; intros H; [congruence|]. destruct (Nat.eqb m n); [reflexivity|now apply IH].
Qed.

Theorem add_item_inv s c : InvN s -> InvN (fst (add_item s c)).
Proof.
  intros I. unfold add_item. destruct (find_key (key_of c) (abstracts s)) as [[a c']|] eqn:F; simpl.
  - constructor; simpl.
    + apply (in_abs _ I).
    + intros n b H. apply in_app_iff in H. destruct H as [H|[H|[]]].
      * destruct (in_inst _ I n b H) as [A B]. split; [lia|exact B].
      * inversion H; subst. split; [lia|]. exists (key_of c), c'. now apply find_key_In.
    + apply (in_absdup _ I).
  - constructor; simpl.
    + intros k a c0 H. apply in_app_iff in H. destruct H as [H|[H|[]]].
      * destruct (in_abs _ I k a c0 H). split; [lia|assumption].
      * inversion H; subst. split; [lia|intros _; reflexivity].
    + intros n b H. apply in_app_iff in H. destruct H as [H|[H|[]]].
      * destruct (in_inst _ I n b H) as [A [k [c0 B]]]. split; [lia|]. exists k, c0. apply in_app_iff. now left.
      * inversion H; subst. split; [lia|]. exists (key_of c), c. apply in_app_iff. right. now left.
    + intros k1 a c1 k2 c2 H1 H2. apply in_app_iff in H1. apply in_app_iff in H2.
      destruct H1 as [H1|[H1|[]]]; destruct H2 as [H2|[H2|[]]].
      * exact (in_absdup _ I _ _ _ _ _ H1 H2).
      * inversion H2; subst. destruct (in_abs _ I _ _ _ H1). lia.
      * inversion H1; subst. destruct (in_abs _ I _ _ _ H2). lia.
      * inversion H1; inversion H2; now subst.
Qed.

(* C15 (a): the paragraph of an item refers to a definition that has, at the item's level, the
   number format, the symbol / pattern and the start value requested for THIS item *)
Theorem item_definition s c : InvN s ->
  let '(s', (numid, ilvl)) := add_item s c in
  level_def s' numid ilvl = Some (fmt_of (l_type c), text_of (l_type c) (l_sym c) ilvl, l_start c)
  /\ ilvl = clamp_level (l_level c) /\ ilvl <= 8.
Proof.
  intros I. unfold add_item.
  assert (CL : clamp_level (l_level c) <= 8).
  { unfold clamp_level. destruct (l_level c <? 0)%Z eqn:E1; [lia|]. destruct (8 <? l_level c)%Z eqn:E2; [lia|].
    apply Z.ltb_ge in E1. apply Z.ltb_ge in E2. lia. }
  destruct (find_key (key_of c) (abstracts s)) as [[a c']|] eqn:F; cbn [fst snd abstracts instances next_num next_abs].
  - split; [|split; [reflexivity|exact CL]]. unfold level_def. cbn [instances abstracts].
    rewrite find_inst_last by (intros m b H E; destruct (in_inst _ I m b H); lia).
    pose proof (find_key_In _ _ _ F) as Hin.
    rewrite (find_abs_In a (abstracts s) c' (fun k1 c1 k2 c2 => in_absdup _ I k1 a c1 k2 c2) (key_of c) Hin).
    destruct (in_abs _ I _ _ _ Hin) as [_ K].
    assert (key_live (key_of c) = true) as KL by (unfold key_live, key_of; apply Nat.leb_le; exact CL).
    specialize (K KL). apply Nat.leb_le in CL. rewrite CL.
    unfold key_of in K. inversion K. now rewrite H0, H1, H3.
  - split; [|split; [reflexivity|exact CL]]. unfold level_def. cbn [instances abstracts].
    rewrite find_inst_last by (intros m b H E; destruct (in_inst _ I m b H); lia).
    assert (FA : find_abs (next_abs s) (abstracts s ++ [(key_of c, (next_abs s, c))]) = Some c).
    { apply (find_abs_In _ _ c) with (k := key_of c).
      - intros k1 c1 k2 c2 H1 H2. apply in_app_iff in H1. apply in_app_iff in H2.
        destruct H1 as [H1|[H1|[]]]; destruct H2 as [H2|[H2|[]]].
        + destruct (in_abs _ I _ _ _ H1). lia.
        + destruct (in_abs _ I _ _ _ H1). lia.
        + destruct (in_abs _ I _ _ _ H2). lia.
        + inversion H1; inversion H2; now subst.
      - apply in_app_iff. right. now left. }
    rewrite FA. apply Nat.leb_le in CL. now rewrite CL.
Qed.

(* definitions handed out earlier are never changed by later items *)
Theorem earlier_items_kept s c numid ilvl d : InvN s -> level_def s numid ilvl = Some d ->
  level_def (fst (add_item s c)) numid ilvl = Some d.
Proof.
  intros I H. unfold level_def in *.
  destruct (find_inst numid (instances s)) as [a|] eqn:FI; [|discriminate].
  destruct (find_abs a (abstracts s)) as [c0|] eqn:FA; [|discriminate].
  assert (K1 : forall x, find_inst numid (instances s ++ [x]) = Some a) by (intros x; rewrite find_inst_keep; congruence).
  assert (K2 : forall x, find_abs a (abstracts s ++ [x]) = Some c0).
  { intros x. clear -FA. induction (abstracts s) as [|[k [b c']] r IH]; simpl in *; [discriminate|].
    destruct (Nat.eqb a b); [exact FA|now apply IH]. }
  unfold add_item. destruct (find_key (key_of c) (abstracts s)) as [[a' c']|]; cbn [fst instances abstracts]; rewrite K1.
  - now rewrite FA.
  - now rewrite K2.
Qed.

(* RestartNumbering: the invariant is kept; every definition handed out before stays as it was; when the list
   exists the new numbering id means what the old one means, at every level *)
Lemma find_inst_In n l a : find_inst n l = Some a -> In (n, a) l.
Proof.
  induction l as [|[m b] r IH]; simpl; [discriminate|]. destruct (Nat.eqb m n) eqn:E.
  - intros H. inversion H; subst. apply Nat.eqb_eq in E. subst. now left.
  - intros H. right. now apply IH.
Qed.

Theorem restart_inv s numid : InvN s -> InvN (restart s numid).
Proof.
  intros I. unfold restart. destruct (find_inst numid (instances s)) as [a|] eqn:F; constructor; cbn [abstracts next_abs instances next_num].
  - apply (in_abs _ I).
  - intros n b H. apply in_app_iff in H. destruct H as [H|[H|[]]].
    + destruct (in_inst _ I n b H) as [A B]. split; [lia|exact B].
    + inversion H; subst. split; [lia|]. exact (proj2 (in_inst _ I _ _ (find_inst_In _ _ _ F))).
  - apply (in_absdup _ I).
  - apply (in_abs _ I).
  - intros n b H. destruct (in_inst _ I n b H) as [A B]. split; [lia|exact B].
  - apply (in_absdup _ I).
Qed.

Theorem restart_keeps s numid n ilvl d : level_def s n ilvl = Some d -> level_def (restart s numid) n ilvl = Some d.
Proof.
  intros H. unfold level_def in *. unfold restart.
  destruct (find_inst numid (instances s)) as [a|]; cbn [instances abstracts]; [|exact H].
  destruct (find_inst n (instances s)) as [b|] eqn:FI; [|discriminate].
  rewrite find_inst_keep by congruence. rewrite FI. exact H.
Qed.

Theorem restart_same_definition s numid ilvl : InvN s -> find_inst numid (instances s) <> None ->
  level_def (restart s numid) (next_num s) ilvl = level_def s numid ilvl.
Proof.
  intros I H. unfold restart, level_def. destruct (find_inst numid (instances s)) as [a|] eqn:F; [|contradiction].
  cbn [instances abstracts]. rewrite find_inst_last by (intros m b Hin E; destruct (in_inst _ I m b Hin); lia).
  reflexivity.
Qed.

(* Save + Open (or rendering as a document template) + the first list call: the invariant is kept, every definition
   handed out before means what it meant, and the ids handed out afterwards are new *)
Lemma next_after_ge ids : forall base, base <= next_after ids base.
Proof.
  induction ids as [|i r IH]; intros base; [apply Nat.le_refl|]. unfold next_after in *. cbn [fold_left].
  eapply Nat.le_trans; [|apply IH]. apply Nat.le_max_l.
Qed.
Lemma next_after_gt ids : forall base i, In i ids -> i < next_after ids base.
Proof.
  induction ids as [|j r IH]; intros base i H; [destruct H|]. unfold next_after in *. cbn [fold_left].
  destruct H as [<-|H]; [|apply IH; exact H].
  eapply Nat.lt_le_trans; [|apply (next_after_ge r)]. apply Nat.lt_le_trans with (S j); [lia | apply Nat.le_max_r].
Qed.

Lemma dead_key_not_live k : key_live (dead_key k) = false.
Proof. destruct k as [[[t sy] l] z]. reflexivity. Qed.

Theorem reopen_inv s : InvN s -> InvN (reopen s).
Proof.
  intros I. unfold reopen. constructor; cbn [abstracts next_abs instances next_num].
  - intros k a c H. apply in_map_iff in H. destruct H as [[k0 [a0 c0]] [E Hin]]. cbn [fst snd] in E. inversion E; subst.
    split.
    + apply next_after_gt. apply in_map_iff. exists (k0, (a, c)). split; [reflexivity | exact Hin].
    + rewrite dead_key_not_live. discriminate.
  - intros n a H. split.
    + apply next_after_gt. apply in_map_iff. exists (n, a). split; [reflexivity | exact H].
    + destruct (in_inst _ I n a H) as [_ [k [c Hin]]]. exists (dead_key k), c.
      apply in_map_iff. exists (k, (a, c)). split; [reflexivity | exact Hin].
  - intros k1 a c1 k2 c2 H1 H2. apply in_map_iff in H1. apply in_map_iff in H2.
    destruct H1 as [[k1' [a1 c1']] [E1 H1]]. destruct H2 as [[k2' [a2 c2']] [E2 H2]]. cbn [fst snd] in E1, E2.
    inversion E1; inversion E2; subst. exact (in_absdup _ I _ _ _ _ _ H1 H2).
Qed.

Lemma find_abs_map_key (f : key -> key) a l : find_abs a (map (fun e => (f (fst e), snd e)) l) = find_abs a l.
Proof.
  induction l as [|[k [b c]] r IH]; [reflexivity|]. cbn [map find_abs fst snd]. destruct (Nat.eqb a b); [reflexivity | exact IH].
Qed.

Theorem reopen_keeps s n ilvl : level_def (reopen s) n ilvl = level_def s n ilvl.
Proof.
  unfold level_def, reopen. cbn [instances abstracts].
  destruct (find_inst n (instances s)) as [a|]; [|reflexivity]. rewrite (find_abs_map_key dead_key). reflexivity.
Qed.

(* the first item after the reopen: its numbering id is none of the ids in use, and its definition is the requested one *)
Theorem reopen_then_item s c : InvN s ->
  let '(s', (numid, ilvl)) := add_item (reopen s) c in
  find_inst numid (instances s) = None
  /\ level_def s' numid ilvl = Some (fmt_of (l_type c), text_of (l_type c) (l_sym c) ilvl, l_start c).
Proof.
  intros I. pose proof (item_definition (reopen s) c (reopen_inv s I)) as D.
  destruct (add_item (reopen s) c) as [s' [numid ilvl]] eqn:E. destruct D as [D _]. split; [|exact D].
  assert (numid = next_num (reopen s)) as ->.
  { unfold add_item in E. destruct (find_key (key_of c) (abstracts (reopen s))) as [[a c']|]; inversion E; reflexivity. }
  destruct (find_inst (next_num (reopen s)) (instances s)) as [a|] eqn:F; [|reflexivity].
  exfalso. apply find_inst_In in F. pose proof (next_after_gt (map fst (instances s)) 1 (next_num (reopen s))) as G.
  unfold reopen in G at 1. cbn [next_num] in G. unfold reopen in F. cbn [next_num] in F.
  assert (In (next_after (map fst (instances s)) 1) (map fst (instances s))) as Hin
    by (apply in_map_iff; eexists; split; [|exact F]; reflexivity).
  specialize (G Hin). unfold reopen in G. cbn [next_num] in G. lia.
Qed.

(* instance obligation on the source: the cache key contains every attribute the level
   definitions depend on, and the defined levels are 0..8 *)
Definition numkey_ok : bool :=
  forallb (fun f => existsb (String.eqb f) numkey_fields) ["Type"; "BulletSymbol"; "StartNumber"]%string
  && Nat.eqb level_lo 0 && Nat.eqb level_hi 8.
Lemma numkey_ok_true : numkey_ok = true.
Proof. vm_compute. reflexivity. Qed.

(* ---- notes -------------------------------------------------------------------------------------- *)

Definition InvNotes (s : notes) : Prop := NoDup (map fst (live s)) /\ forall id, In id (map fst (live s)) -> id < next_id s.

Lemma notes_init_inv : InvNotes notes_init.
Proof. split; simpl; [constructor|intros ? []]. Qed.

Theorem add_note_spec s t : InvNotes s ->
  InvNotes (add_note s t) /\ live (add_note s t) = (live s ++ [(next_id s, t)])%list /\ ~ In (next_id s) (map fst (live s)).
Proof.
  intros [ND LT]. assert (Hn : ~ In (next_id s) (map fst (live s))) by (intros H; specialize (LT _ H); lia).
  split; [|split; [reflexivity|exact Hn]]. unfold add_note, InvNotes. simpl. rewrite map_app. simpl. split.
  - clear LT. induction (map fst (live s)) as [|a l IH]; simpl.
    + constructor; [intros []|constructor].
    + inversion ND; subst. constructor.
      * rewrite in_app_iff. simpl. intros [H|[H|[]]]; [contradiction|subst; apply Hn; now left].
      * apply IH; [assumption|intros H; apply Hn; now right].
  - intros id H. apply in_app_iff in H. destruct H as [H|[H|[]]]; [specialize (LT _ H); lia|lia].
Qed.

Theorem remove_note_spec s id : InvNotes s ->
  let '(s', ok) := remove_note s id in
  InvNotes s'
  /\ (ok = true -> In id (map fst (live s)) /\ ~ In id (map fst (live s'))
                   /\ forall q, fst q <> id -> (In q (live s') <-> In q (live s)))
  /\ (ok = false -> ~ In id (map fst (live s)) /\ s' = s).
Proof.
  intros [ND LT]. unfold remove_note. destruct (has_note s id) eqn:H.
  - apply existsb_exists in H. destruct H as [q [Hq E]]. apply Nat.eqb_eq in E.
    split; [|split; [|discriminate]].
    + split; simpl.
      * clear -ND. induction (live s) as [|[i t] r IH]; simpl; [constructor|]. simpl in ND. inversion ND; subst.
        destruct (Nat.eqb i id); simpl; [now apply IH|]. constructor; [|now apply IH].
        intros Hin. apply H1. apply in_map_iff in Hin. destruct Hin as [x [Ex Hx]]. apply filter_In in Hx.
        rewrite <- Ex. apply in_map. tauto.
      * intros i Hi. apply LT. apply in_map_iff in Hi. destruct Hi as [x [Ex Hx]]. apply filter_In in Hx.
        rewrite <- Ex. apply in_map. tauto.
    + intros _. split; [rewrite <- E; now apply in_map|]. split.
      * simpl. intros Hin. apply in_map_iff in Hin. destruct Hin as [x [Ex Hx]]. apply filter_In in Hx.
        destruct Hx as [_ Hx]. rewrite Ex, Nat.eqb_refl in Hx. discriminate.
      * intros x Hx. simpl. rewrite filter_In. split; [tauto|]. intros Hin. split; [exact Hin|].
        apply negb_true_iff. now apply Nat.eqb_neq.
  - split; [split; assumption|]. split; [discriminate|]. intros _. split; [|reflexivity].
    intros Hin. apply in_map_iff in Hin. destruct Hin as [x [Ex Hx]].
    assert (existsb (fun q => Nat.eqb (fst q) id) (live s) = true).
    { apply existsb_exists. exists x. split; [exact Hx|rewrite Ex; apply Nat.eqb_refl]. }
    unfold has_note in H. congruence.
Qed.

(* notes through save and open: the notes are the same, the invariant holds, and the next note gets an id that is
   not in use *)
Theorem reopen_notes_spec s : InvNotes s ->
  InvNotes (reopen_notes s) /\ live (reopen_notes s) = live s /\ ~ In (next_id (reopen_notes s)) (map fst (live s)).
Proof.
  intros [Hnd Hlt]. unfold reopen_notes. cbn [live next_id]. split; [|split; [reflexivity|]].
  - split; cbn [live next_id]; [exact Hnd|]. intros id Hin. apply next_after_gt. exact Hin.
  - intros Hin. pose proof (next_after_gt (map fst (live s)) 1 _ Hin) as G. lia.
Qed.

(* ---- table of contents --------------------------------------------------------------------------- *)

Lemma collect_spec maxl body t l :
  In (t, l) (collect maxl body) <-> In (l, t) body /\ 0 < l /\ l <= maxl /\ t <> 0%N.
Proof.
  unfold collect. rewrite in_flat_map. split.
  - intros [[l' t'] [Hin H]].
    destruct (Nat.ltb 0 l' && Nat.leb l' maxl && negb (N.eqb t' 0)) eqn:E; [|contradiction].
    destruct H as [H|[]]. inversion H; subst.
    apply andb_true_iff in E. destruct E as [E E3]. apply andb_true_iff in E. destruct E as [E1 E2].
    apply Nat.ltb_lt in E1. apply Nat.leb_le in E2. apply negb_true_iff in E3. apply N.eqb_neq in E3. tauto.
  - intros [Hin [H1 [H2 H3]]]. exists (l, t). split; [exact Hin|].
    apply Nat.ltb_lt in H1. apply Nat.leb_le in H2. apply N.eqb_neq in H3. rewrite H1, H2, H3. simpl. now left.
Qed.

(* order: the entries are the headings in body order (collect distributes over append) *)
Lemma collect_app maxl b1 b2 : collect maxl (b1 ++ b2)%list = (collect maxl b1 ++ collect maxl b2)%list.
Proof. unfold collect. apply flat_map_app. Qed.

Theorem gen_toc_entries s maxl : t_toc (gen_toc s maxl) = Some (collect maxl (t_body s)).
Proof. reflexivity. Qed.

Theorem upd_toc_entries s es : t_toc s = Some es ->
  t_toc (fst (upd_toc s)) = Some (collect (t_level s) (t_body s)) /\ snd (upd_toc s) = true.
Proof. intros H. unfold upd_toc. rewrite H. simpl. split; reflexivity. Qed.

(* regenerating is idempotent *)
Theorem upd_toc_idempotent s : fst (upd_toc (fst (upd_toc s))) = fst (upd_toc s).
Proof. unfold upd_toc. destruct (t_toc s) eqn:E; simpl; [reflexivity|rewrite E; reflexivity]. Qed.

(* an update after generating lists the headings up to the level the table was requested with *)
Theorem upd_after_gen s maxl : t_toc (fst (upd_toc (gen_toc s maxl))) = Some (collect maxl (t_body s)).
Proof. reflexivity. Qed.

(* the style ids AddHeadingParagraph emits map to their level *)
Lemma heading_ids_map :
  map style_level ["Heading1"; "Heading2"; "Heading3"; "Heading4"; "Heading5"; "Heading6"; "Heading7"; "Heading8"; "Heading9"]%string
  = [1; 2; 3; 4; 5; 6; 7; 8; 9].
Proof. vm_compute. reflexivity. Qed.
(* the style ids of table-of-contents entries (12 + level) and TOC paragraphs are not headings *)
Lemma toc_ids_not_headings :
  map style_level ["13"; "14"; "15"; "16"; "17"; "18"; "19"; "20"; "21"; "TOC1"; "TOC9"]%string = repeat 0 11.
Proof. vm_compute. reflexivity. Qed.
